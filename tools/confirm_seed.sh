#!/bin/bash
# Confirm a sub-agent's seeded change in a fresh scratch worktree and store it under /verif/seeded/<name>/.
# usage: tools/confirm_seed.sh <agent-worktree> <name>     e.g. tools/confirm_seed.sh /tmp/r4-C08 C08-r4
src=$1; name=$2
wt=/tmp/cf-$name
[ -f "$src/_seed/patch.diff" ] || { echo "$name: no patch"; exit 2; }
git -C /repo worktree add --detach "$wt" HEAD >/dev/null 2>&1 || { echo "$name: cannot create worktree"; exit 2; }
cd "$wt"
export PYTHONPATH=$wt PYTHONDONTWRITEBYTECODE=1
timeout 1200 /venv/bin/python "$src/_seed/demo.py" >/tmp/cf-$name.demo0.log 2>&1; d0=$?
git apply "$src/_seed/patch.diff" || { echo "$name: patch does not apply"; cd /; git -C /repo worktree remove --force "$wt"; exit 2; }
timeout 1200 /venv/bin/python "$src/_seed/demo.py" >/tmp/cf-$name.demo1.log 2>&1; d1=$?
suite=$(timeout 3000 /venv/bin/python -m pytest -q -p no:cacheprovider -n 4 2>&1 | grep -v conda | tail -1)
cd /
git -C /repo worktree remove --force "$wt"
echo "$name: demo_without=$d0 demo_with=$d1 suite: $suite"
if [ $d0 -eq 0 ] && [ $d1 -eq 1 ] && echo "$suite" | grep -q " passed" && ! echo "$suite" | grep -q "failed\|error"; then
  dst=/verif/seeded/$name; mkdir -p $dst
  cp "$src/_seed/patch.diff" "$src/_seed/demo.py" $dst/
  python3 - "$src/_seed/meta.json" "$dst/meta.json" "$suite" <<'PY'
import json,sys
try: m=json.load(open(sys.argv[1]))
except Exception as e: m={"meta_error":str(e)}
m["origin"]="independent sub-agent (rounds 4-7) given only the property text and a scratch worktree (no access to /verif)"
m["confirmed"]={"how":"fresh scratch worktree of /repo HEAD under /tmp (removed afterwards): demo.py before the patch, plain git apply patch.diff, demo.py after, full test suite with the patch","suite_with_patch":sys.argv[3],"demo_without_patch":"exit 0","demo_with_patch":"exit 1"}
json.dump(m,open(sys.argv[2],"w"),indent=1)
PY
  echo "$name: CONFIRMED"
else
  echo "$name: NOT CONFIRMED"
fi
