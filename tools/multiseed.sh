#!/bin/bash
# Run every quick check for several seeds on the unchanged tree; print one line per (property, seed).
# usage: tools/multiseed.sh "1 2 3" [tier]
cd "$(dirname "$0")/.."
(cd lean && lake build NdonnxVerif ndonnx_model >/dev/null 2>&1)
TIER=${2:-quick}
for seed in ${1:-1 2 3}; do
  for p in C01 C02 C03 C04 C05 C06 C07 C08 C09 C10 C11 C12 C13 C14 C15 C16 C17 C18 C19 C20; do
    start=$(date +%s)
    out=$(VERIF_SEED=$seed timeout 3000 ./check $p --tier $TIER 2>&1); rc=$?
    echo "seed=$seed $p rc=$rc t=$(( $(date +%s) - start ))s $(echo "$out" | grep -c KNOWN-FINDING) known; $(echo "$out" | grep -v KNOWN-FINDING | head -3 | cut -c1-200 | tr '\n' '|')"
    if [ $rc -ne 0 ]; then python3 - "$p" <<'PY'
import json,sys
try:
    ev=json.load(open(f'evidence/{sys.argv[1]}.json'))
    for k in ev['coverage'].get('all_violation_keys',[])[:6]: print('      ', k[:300])
except Exception as e: print('      (no evidence)', e)
PY
    fi
  done
done
