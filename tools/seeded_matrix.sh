#!/bin/bash
# Apply each seeded change to /repo in turn, run the listed checks (default: its own property's), undo it.
# usage: tools/seeded_matrix.sh [all|own] [dir-glob] > matrix.txt     (never run while another job uses /repo)
#   e.g. tools/seeded_matrix.sh own 'C??-r2'
cd "$(dirname "$0")/.."
MODE=${1:-own}
GLOB=${2:-C*}
ALL="C01 C02 C03 C04 C05 C06 C07 C08 C09 C10 C11 C12 C13 C14 C15 C16 C17 C18 C19 C20"
git -C /repo diff --quiet || { echo "/repo has local changes"; exit 2; }
for dir in seeded/$GLOB; do
  name=$(basename $dir); id=${name:0:3}
  git -C /repo apply "$PWD/$dir/patch.diff" || { echo "$name: patch does not apply"; continue; }
  checks=$id; [ "$MODE" = all ] && checks=$ALL
  for p in $checks; do
    out=$(timeout 3000 ./check $p --tier quick 2>&1); rc=$?
    key=$(python3 - "$p" <<'PY'
import json,sys
try:
    ev=json.load(open(f'evidence/{sys.argv[1]}.json'))
    ks=ev['coverage'].get('all_violation_keys',[])
    print((ks[0].split(' :: ')[0] if ks else '') + (f" (+{len(ks)-1})" if len(ks)>1 else ''))
except Exception: print('')
PY
)
    echo "seeded=$name check=$p rc=$rc $key"
  done
  git -C /repo checkout -- .
done
