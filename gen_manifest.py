#!/usr/bin/env python3
"""Regenerates MANIFEST.json from the table below (kept as code so the manifest stays consistent)."""
import json

CLAIMED = {
    "C08": dict(
        text="Lean 4 theorems (Props/C08.lean): for every extent n>=0 and every slice inside the Array-API bounds the positions selected by the emitted ONNX Slice after index_normalise equal CPython's slice.indices (slice_axis_agree), plus the build-time rejection rules; the N-d composition (Slice, reverse-order Gathers, Unsqueeze), boolean-mask and integer-array selection are an executable Lean model checked against the implementation (traced static, traced symbolic, eager) and NumPy on an exhaustive one-axis space and sampled products.",
        note="Trusted: Lean kernel (axioms propext/Classical.choice/Quot.sound), the hand-written model and its ONNX Slice/Gather/Unsqueeze/Compress semantics (validated against onnxruntime by the correspondence run), NumPy as oracle, the Python harness. N-d composition is tied by correspondence, not yet by a theorem.",
        technique="Lean 4 proof (omega case analysis over slice clamping) + model/implementation/NumPy correspondence over exhaustive one-axis index space",
        design_ref="§7 C08"),
}

NOT_YET = {}

ALL = [f"C{i:02d}" for i in range(1, 21)]


def main():
    checks = []
    for pid in ALL:
        if pid not in CLAIMED:
            continue
        c = CLAIMED[pid]
        checks.append({
            "property_id": pid,
            "quick_cmd": f"./check {pid} --tier quick",
            "thorough_cmd": f"./check {pid} --tier thorough",
            "evidence_file": f"/verif/evidence/{pid}.json",
            "replay_cmd_template": "./check replay {path}",
            "engine": "lean-model+correspondence",
            "level_claimed": {"category": "proof", "text": c["text"], "design_ref": c["design_ref"]},
            "level_note": c["note"],
            "technique": c["technique"],
        })
    na = [{"property_id": pid, "reason": NOT_YET.get(pid, "not claimed yet: the Lean model and correspondence check for this property are still being built (see DESIGN.md, Changes since round 0)")}
          for pid in ALL if pid not in CLAIMED]
    m = {
        "version": 1,
        "setup_cmd": "cd lean && lake build NdonnxVerif ndonnx_model",
        "hooks": {
            "guard": "NDONNX_VERIF",
            "enable": "no source hooks are needed: checks import ndonnx from /repo's working tree (dev install) and observe public/underscore attributes; the onnxruntime-absent configuration is entered with an import blocker in a child interpreter",
            "baseline_off_cmd": "cd /repo && /venv/bin/python -m pytest -ra -q -p no:cacheprovider --timeout=900 --continue-on-collection-errors",
            "source_commits": [],
            "add_only": True,
        },
        "engines": [
            {"name": "lean-model+correspondence", "path": "lean/ + harness/",
             "serves_properties": sorted(CLAIMED),
             "kind_free_text": "Lean 4 model + theorems (lake project lean/), compiled model driver (lean_exe ndonnx_model) fed by a line protocol, Python harness running the implementation from /repo and NumPy as oracle"}
        ],
        "checks": checks,
        "not_applicable": na,
        "notes": "See DESIGN.md. Exit codes: 0 held, 1 VIOLATION, 2 infrastructure failure/timeout (no VIOLATION line).",
    }
    json.dump(m, open("MANIFEST.json", "w"), indent=1)


if __name__ == "__main__":
    main()
