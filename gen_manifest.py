#!/usr/bin/env python3
"""Regenerates MANIFEST.json from the table below (kept as code so the manifest stays consistent)."""
import json

CLAIMED = {
    "C06": dict(
        text="Lean 4: the size-generic statements — Props/C06.lean (the constants index_normalise writes into the graph are size-independent and select Python's positions at every extent n>=0), Props/C08.lean (slice_axis_agree for all n) and the layout index-map theorems of Props/C11.lean hold for every run-time extent incl. 0 and 1, because the emitted term mentions no extent. The tie: random programs are traced ONCE with symbolic or unknown dims (all inputs lazy, and a random subset), and the same onnxruntime session is run at the trace-time sizes and at further size assignments over {0,1,2,3,5,8} per size variable, including a unit size variable that triggers broadcasting through unknown extents; every step is compared with eager evaluation at that size (dtype, shape, field shapes, mask, values).",
        note="Trusted: Lean kernel; the index/layout models (tied by the C08/C11 correspondence runs); onnxruntime as the evaluator of both sides. Programs containing sort/argsort are not run at zero extents (recorded finding: interpreter crash in onnxruntime TopK). Two recorded findings (where equal-branches folding with symbolic condition; argmax/argmin on nullable input).",
        technique="Lean 4 proof: extent-generic index-map theorems + one-build-many-sizes correspondence",
        design_ref="§7 C06"),
    "C15": dict(
        text="Lean 4: Props/C15.lean proves that ndonnx's hand-written shape annotations are valid for every input: Slice preserves rank, a scalar Gather removes exactly one axis, boolean-mask selection has rank(x) - rank(mask) + 1 (the getitem_null annotation) and rejects masks of higher rank, integer-array selection has rank(index) + rank(x) - 1, Unsqueeze adds one axis per position. The tie: for every step of random traced programs (static / symbolic / unknown / mixed placeholder dims) the reported dtype, ndim and integer extents, the element types and dims the exported model declares, and the run-time value of additional.shape are compared with the model's outputs at two size assignments.",
        note="Trusted: Lean kernel; ONNX shape inference itself (spox/onnx code) is outside the model and only compared with run-time results; the index model is tied by the C08 correspondence.",
        technique="Lean 4 proof: annotation-validity (rank) theorems on the index model + static-vs-run-time correspondence",
        design_ref="§7 C15"),
    "C16": dict(
        text="Lean 4: Props/C16.lean — corollary of the simulation theorem (Props/C01.refinement_general) with onnxruntime present in one run and absent in the other: whatever traces with onnxruntime also traces without it, every cell denotes the same value under every environment, reported values agree; without onnxruntime a primitive never reports a value and no operator semantics is ever consulted (no_kernel_needed). The tie: random programs x partitions are traced here and in a child interpreter in which importing onnxruntime raises ImportError (no source hook); both serialized models are run and compared output by output; the _CoreArray history correspondence is repeated with onnxruntime absent.",
        note="Trusted: Lean kernel; the state-machine model (tied by the history correspondence in both configurations); the import blocker faithfully reproducing a missing onnxruntime.",
        technique="Lean 4 proof: simulation corollary + with/without-onnxruntime differential in a child interpreter",
        design_ref="§7 C16"),
    "C01": dict(
        text="Lean 4: Props/C01.lean proves refinement for the propagation state machine (Model/Heap.lean: cells = (graph term, optional eager value); transitions = input creation, any @eager_propagate primitive, copy, in-place _set): for every program of any length, every input tuple and every subset S of inputs traced as placeholders, if eager evaluation succeeds the traced run succeeds and every traced cell denotes, under the environment binding the placeholders to the inputs, exactly the value eager evaluation reports (refinement_general / refinement_partial, by a simulation proved by induction over histories for arbitrary value types and operator semantics). The tie: random multi-step programs over ~90 public operations (all dtypes incl. nullable/string, ranks 0-3, extents 0-3, broadcasting, guard-directed single-element constants for the value-dependent shortcuts) are evaluated eagerly and traced with subsets of inputs lazy (static/symbolic/unknown dims), exported, run in onnxruntime and compared step by step; the heap model itself is tied to _CoreArray/_propagation by the history correspondence of the C07 check.",
        note="Trusted: Lean kernel; the state-machine model of _propagation.py/_corearray.py (tied by flag-level history correspondence, not proved about the Python source); onnxruntime evaluating a one-node session and a full model identically (runtime behaviour, exercised only). The Python-level value-dependent shortcuts (where, logical_and/or, all/any) are outside the theorem (named _partial) and covered by the guard-directed correspondence runs; one of them is a recorded finding.",
        technique="Lean 4 proof: simulation/refinement by induction over operation histories + eager-vs-traced correspondence",
        design_ref="§7 C01"),
    "C07": dict(
        text="Lean 4: Props/C07.lean proves over every history of the propagation state machine, with and without onnxruntime: soundness (a reported value is what the cell's graph term denotes under every placeholder assignment), taint (a cell reporting a value is a Constant and mentions no placeholder), completeness (with onnxruntime, a primitive on data-holding cells yields a data-holding Constant; a history without placeholders leaves every cell data-holding and Constant). The tie: (1) random histories over real _CoreArrays and real opset primitives vs the Lean state machine, value/Constant flags compared cell by cell; (2) random programs with every proper subset of inputs lazy: completeness and export-is-constants for steps whose dependencies hold data, soundness of every reported value against the exported model under two different placeholder assignments, reported shape = value shape.",
        note="Trusted: Lean kernel; the model of the wrapper (tied by the history correspondence every run); kernel failures during propagation (missing onnxruntime kernels) are runtime behaviour found only by the correspondence.",
        technique="Lean 4 proof: heap invariants (Closed/Sound) by induction over histories + state-machine correspondence on real core arrays",
        design_ref="§7 C07"),
    "C03": dict(
        text="Lean 4: Props/C03.lean proves, for every one of the 24 dtypes (mem_all), that the closed-form promotion model is commutative, associative inside the standard's lattice (errors included), idempotent, nullable iff an operand is, string-isolated, scalar-stable, and that the reference law for comparisons/predicates is boolean. The tie is regenerated every run: result_type on all 576 pairs, promote() on all dtype x Python-scalar rows and the ~24k-row element-wise function x dtype-tuple outcome matrix are dumped from the running implementation into lean/Gen/*.lean and the Lean kernel re-checks (decide +kernel) the laws directly on the dumped tables, their equality with the model, and every matrix row against the reference law Ndx.fnLaw; all 13 824 n-ary triples, where() and 25 further functions are compared through the model driver.",
        note="Trusted: Lean kernel (propext, Classical.choice, Quot.sound); the dumper harness/tables.py (enumerates the finite spaces by calling the public API on lazy and eager arrays); the reference law Ndx.fnLaw and closed-form NumPy promotion as my reading of the Array API / NumPy (validated against numpy.result_type through the implementation's own table). Shape/laziness independence is exercised on sampled ranks and eager values, not proved about the Python code.",
        technique="Lean 4 proof: decide +kernel over exhaustively regenerated dtype tables + closed-form lattice theorems",
        design_ref="§7 C03"),
    "C17": dict(
        text="Lean 4: Props/C17.lean proves that the reference law Ndx.fnLaw demands a TypeError for every string/non-string mix, numeric functions on strings/booleans, logical functions on numbers, bitwise functions on floats and wrong-kind Python scalars, for all 24 dtypes and all function classes, and never admits a foreign exception class. On every run the element-wise function x dtype-tuple outcome matrix (arrays and Python scalars in every position, operator spellings, lazy and eager) is dumped exhaustively from the implementation and each row is checked against fnLaw by the Lean kernel (Gen/FnDtype*.lean); 27 further functions x {24 dtypes, a user struct dtype} x {lazy, eager} are checked by the harness.",
        note="Trusted: Lean kernel; the dumper; the function catalogue (harness/catalog.py) mapping public names to law classes; exception classes are mapped to {TypeError subclass, other}. Mixed boolean/number operands and integers passed to floating-point functions are treated as unspecified (result or TypeError allowed, foreign exceptions not).",
        technique="Lean 4 proof: decide +kernel of the domain law over the exhaustively regenerated outcome matrix",
        design_ref="§7 C17"),
    "C08": dict(
        text="Lean 4 theorems (Props/C08.lean): for every extent n>=0 and every slice inside the Array-API bounds the positions selected by the emitted ONNX Slice after index_normalise equal CPython's slice.indices (slice_axis_agree), plus the build-time rejection rules; the N-d composition (Slice, reverse-order Gathers, Unsqueeze), boolean-mask and integer-array selection are an executable Lean model checked against the implementation (traced static, traced symbolic, eager) and NumPy on an exhaustive one-axis space and sampled products.",
        note="Trusted: Lean kernel (axioms propext/Classical.choice/Quot.sound), the hand-written model and its ONNX Slice/Gather/Unsqueeze/Compress semantics (validated against onnxruntime by the correspondence run), NumPy as oracle, the Python harness. N-d composition is tied by correspondence, not yet by a theorem.",
        technique="Lean 4 proof (omega case analysis over slice clamping) + model/implementation/NumPy correspondence over exhaustive one-axis index space",
        design_ref="§7 C08"),
}

NOT_YET = {}

ALL = [f"C{i:02d}" for i in range(1, 21)]


def main():
    checks = []
    for pid in ALL:
        if pid not in CLAIMED:
            continue
        c = CLAIMED[pid]
        checks.append({
            "property_id": pid,
            "quick_cmd": f"./check {pid} --tier quick",
            "thorough_cmd": f"./check {pid} --tier thorough",
            "evidence_file": f"/verif/evidence/{pid}.json",
            "replay_cmd_template": "./check replay {path}",
            "engine": "lean-model+correspondence",
            "level_claimed": {"category": "proof", "text": c["text"], "design_ref": c["design_ref"]},
            "level_note": c["note"],
            "technique": c["technique"],
        })
    na = [{"property_id": pid, "reason": NOT_YET.get(pid, "not claimed yet: the Lean model and correspondence check for this property are still being built (see DESIGN.md, Changes since round 0)")}
          for pid in ALL if pid not in CLAIMED]
    m = {
        "version": 1,
        "setup_cmd": "cd lean && lake build NdonnxVerif ndonnx_model",
        "hooks": {
            "guard": "NDONNX_VERIF",
            "enable": "no source hooks are needed: checks import ndonnx from /repo's working tree (dev install) and observe public/underscore attributes; the onnxruntime-absent configuration is entered with an import blocker in a child interpreter",
            "baseline_off_cmd": "cd /repo && /venv/bin/python -m pytest -ra -q -p no:cacheprovider --timeout=900 --continue-on-collection-errors",
            "source_commits": [],
            "add_only": True,
        },
        "engines": [
            {"name": "lean-model+correspondence", "path": "lean/ + harness/",
             "serves_properties": sorted(CLAIMED),
             "kind_free_text": "Lean 4 model + theorems (lake project lean/), compiled model driver (lean_exe ndonnx_model) fed by a line protocol, Python harness running the implementation from /repo and NumPy as oracle"}
        ],
        "checks": checks,
        "not_applicable": na,
        "notes": "See DESIGN.md. Exit codes: 0 held, 1 VIOLATION, 2 infrastructure failure/timeout (no VIOLATION line).",
    }
    json.dump(m, open("MANIFEST.json", "w"), indent=1)


if __name__ == "__main__":
    main()
