#!/usr/bin/env python3
"""Regenerates MANIFEST.json from the table below (kept as code so the manifest stays consistent)."""
import json

CLAIMED = {
    "C02": dict(
        text="Lean 4 (Props/C02.lean): what is logic in the element-wise functions — two's-complement wrap is a ring homomorphism (add/sub/mul/neg computed in a wider integer type and wrapped equal the computation in the operand's width; narrowing twice is narrowing once; in-range values are preserved), floor/sign conventions of floor_divide/remainder (division identity, sign of the divisor, truncating vs floored remainder with the proved counterexample and the correction ndonnx now applies). Floating-point kernels are opaque to Lean. The tie: every element-wise function x every dtype of its standard domain is evaluated on ALL values of the 8-bit/bool domains (all 65 536 pairs for binary functions), boundary sets of the wider integers and a 45-value float grid with NaN/inf/-0.0/extremes, eager and traced, and compared with NumPy exactly (bool/int) or within 4 ulp; totality on the domain is checked on the exhaustive function x dtype matrix (Gen/FnDtype*.lean, kernel-checked against Ndx.fnLaw). Graph level (Props/C02Graph.lean, Model/Graph.lean): for every integer/boolean element-wise function the family of exported graph shapes `gterms fn t` (native node, or routed through a wider type with Casts; remainder = Mod(fmod=1) + sign test + wrapping add + Where) is proved to evaluate to the specified value for every member, every integer dtype and every operand (hypotheses = exactly the recorded uint64>=2**63 and negative-int64-shift findings, each with a proved witness). Algorithm level (Model/IntArith.lean): fmodOfTmod_eq_fmod, remainderImpl_correct, left/right_shift_via_uint64, intOpImpl_eq_spec. Tie B: the check translates the graph the library exports for each (function, dtype) (harness/graphterm.py) and verifies it is a member of gterms; the matched term is evaluated in Lean on the exhaustive 8-bit and boundary grids (~1.9M evaluations) against onnxruntime.",
        note="Trusted: Lean kernel; NumPy as the value oracle; onnxruntime's floating-point kernels are runtime behaviour exercised only (accuracy cannot be stated over Lean's opaque floats). ~30 recorded findings (float64 routed through float32, naive expm1/log1p/logaddexp, integer pow/floor_divide through floating point, uint64 >= 2**63 ordering, ...), each keyed by function/dtype/failure region. The Lean reading of the ONNX integer operators (Cast wraps, Mod(fmod=1) truncates, BitShift is logical on unsigned, Where selects) is an assumption validated on every run by the geval comparison; onnxruntime's int64 Mod deviates for large magnitudes (recorded finding). Translator harness/graphterm.py is trusted to render the exported graph faithfully.",
        technique="Lean 4 proof: exported-graph terms evaluated to the specification for all operands (graph-level tie by a translator) + integer routing lemmas + exhaustive small-domain value correspondence with NumPy",
        design_ref="§7 C02"),
    "C04": dict(
        text="Lean 4 (Props/C04.lean): for the model of variadic_op with any number of operands and NumPy broadcasting — mask rule (output null iff some contributing input is null), non-null outputs are the plain-data result, and payload non-interference (changing what is stored under nulls changes neither the output mask nor any non-null value), by induction over the operand list for an arbitrary pointwise operator; the same for where (condition null or selected branch null), for _transmute-based indexing/layout (null flag travels with its element) and for fill-with-neutral reductions (fold over filled values = fold over non-null values). The tie: paired-payload runs — every nullable input is materialised twice with different payloads (type extremes, NaN, inf, junk strings) and ~45 operations are evaluated eagerly and traced on both; results must agree, masks must follow the rule, non-null values must equal NumPy's plain-data result. Graph level (Props/C04Graph.lean): for the integer/boolean element-wise functions on nullable operands the exported null-mask graph must be a member of nullTerms2/1 and the values graph a member of gterms; null_graph_correct (mask = OR of the operands' masks for every member), eval_congr (a graph's value depends only on the inputs occurring in it), null_graph_ignores_values and values_graph_ignores_masks (payloads cannot reach the mask, masks cannot reach the values).",
        note="Trusted: Lean kernel; the model of variadic_op/where (tied by the paired-payload correspondence); which primitives are pointwise is not proved about the Python source — non-pointwise ones routed through variadic_op (sort, argsort, argmax) are recorded findings.",
        technique="Lean 4 proof: non-interference by induction over operands, structural payload independence of the exported graphs (graph-level tie) + paired-payload metamorphic correspondence",
        design_ref="§7 C04"),
    "C05": dict(
        text="Lean 4 (Props/C05.lean): the dict-merging fold of _build.py (collectAll) equals the documented interface — requests in order, a core array under its own name, a struct array as <name>_<field> recursively — whenever the flattened names are pairwise distinct (induction over requests and field trees), with the proved counterexample for clashing names; Gen/Schema.lean (regenerated every run): every dtype's schema name maps back to it, names are injective. The tie: random build signatures (unused inputs, constants-only, one array under two names, static/symbolic/unknown dims, 24 dtypes + a user struct dtype): onnx.checker full_check, onnxruntime load, names/order (vs the Lean model), element types, dims, schema, and schema-directed disassemble-run-assemble round trips.",
        note="Trusted: Lean kernel; ONNX-checker validity and loadability are facts about spox/onnx/onnxruntime on the emitted graph and are exercised, not proved.",
        technique="Lean 4 proof: interface flattening by induction over dtype trees + build-signature correspondence",
        design_ref="§7 C05"),
    "C09": dict(
        text="Lean 4 (Props/C09.lean): frame theorems on the propagation state machine — over every history, a cell that is never the target of _set keeps its graph term and value; every other transition allocates exactly one fresh cell; an in-place update replaces term and value together. The tie: (1) assignments x[idx] = v for every index form of C08, boolean masks, integer arrays, scalar/array/other-dtype updates and augmented operators vs NumPy, eager and traced, incl. immutability of the right-hand side; (2) a cell-sharing table over ~50 public call forms x 8 dtypes x {eager, lazy} (does the result share a core array with its argument, is the argument changed, does a write go through); (3) random histories over a pool of arrays vs a NumPy pool of independent copies. Value level (Props/C09Setitem.lean, Model/Setitem.lean = opx.setitem: index applied to the coordinate tensor, Expand, ScatterND): setitem_shape, setitem_frame (every element whose coordinates are not selected is untouched), setitem_hit (a selected position holds the broadcast update when the index selects each position once), slice_positions_nodup; tied by the driver command `setitem` on token data against NumPy and the implementation eager and traced (harness/setitemtie.py).",
        note="Trusted: Lean kernel; the state-machine model (tied by the C07 history correspondence); the sharing table is dumped by observing object identity of _CoreArray instances. The ScatterND-based setitem algorithm itself is tied by correspondence, not by a theorem.",
        technique="Lean 4 proof: frame invariant by induction over histories, frame/hit theorems of the ScatterND-based assignment + assignment/aliasing correspondence",
        design_ref="§7 C09"),
    "C10": dict(
        text="Lean 4 (Props/C10.lean): for every rank, every shape (extents 0 included) and every axis argument (None, integer of either sign, tuple, empty tuple) the shape produced by _normalize_axes + ONNX Reduce*(noop_with_empty_axes = axis is not None) is NumPy's keepdims rule (reduce_shape), negative axes alias their non-negative spelling, the empty tuple is a no-op, None reduces everything. The tie: 12 reductions + 6 Array methods x dtypes x shapes of rank 0-3 with extents 0-3 x all axis forms x keepdims x correction/include_initial vs NumPy (shape, accumulator dtype, values, neutral elements, first occurrence), eager and traced; result shapes also against the Lean model through the driver. Value level (Props/C10Values.lean, Model/ReduceVal.lean): reduce_empty_is_neutral (a reduction over an empty extent yields the neutral element at every output position, any fold), reduce_no_axes (the empty tuple of axes returns the elements), reduceVals_length (the number of combined elements is the product of the reduced extents); tied by the driver command `reduce_val` on token data against NumPy and the implementation (harness/reducetie.py).",
        note="Trusted: Lean kernel; ONNX Reduce*/ArgMax/CumSum semantics as modelled (validated through onnxruntime by the same sweep); float accumulation order is runtime behaviour.",
        technique="Lean 4 proof: reduced-shape theorem for all ranks/axes, neutral-element and element-count theorems of the fold + NumPy correspondence sweep",
        design_ref="§7 C10"),
    "C11": dict(
        text="Lean 4 (Props/C11.lean): roll (Range/Add/Mod(fmod=0)/Gather) equals NumPy's rotation for every tensor rank, shape, axis and shift of any sign and magnitude (roll_axis, pointwise on index functions); x[::-1] selects n-1..0 for every extent (flip_slice_triple, from the C08 slice theorem); matrix_transpose's permutation swaps exactly the last two axes; _transmute moves every field by the same index map. The tie: 16 layout functions x 12 dtypes (core, string, nullable, a user struct dtype with a nested nullable field) x random admissible parameters with token data, compared field by field with NumPy, eager and traced; roll/flip additionally against the Lean model.",
        note="Trusted: Lean kernel; the ONNX operators that already have NumPy's semantics (Transpose, Reshape, Expand, Unsqueeze, Squeeze, Concat, Trilu) are used through onnxruntime and validated by the sweep, not modelled.",
        technique="Lean 4 proof: index-map equality for roll/flip/matrix_transpose + token-data correspondence",
        design_ref="§7 C11"),
    "C12": dict(
        text="Lean 4 (Props/C12.lean): the int64 routing cast is an order embedding on every value below 2**63 and provably not from 2**63 on (the recorded uint64 finding); searchsorted's counting specification (#{x<v}, #{x<=v}) is monotone, bounded, left <= right, and on a sorted list is exactly the insertion point (everything before is < v, everything after >= v) — the counting argument that exposed and now specifies the repaired side='right' defect. The tie: sort/argsort/unique_*/searchsorted/nonzero/where x 10 numeric dtypes x shapes, duplicates/distinct/type extremes, axis, direction, sorter, lengths to 300 (thorough 70 000) vs NumPy and the defining invariants, eager and traced.",
        note="Trusted: Lean kernel; TopK/Unique behave as specified by ONNX (assumption validated by the sweep through onnxruntime).",
        technique="Lean 4 proof: order-embedding and counting lemmas + invariant/NumPy correspondence",
        design_ref="§7 C12"),
    "C13": dict(
        text="Lean 4 (Props/C13.lean): the elements ONNX Range emits for arange (start + i*step, i < rangeLen) are exactly Python's range for positive steps — all below stop and the next one not; wrong-direction bounds give length 0; eye has ones exactly on the k-th diagonal. The tie: asarray(v).to_numpy() round trips for 12 NumPy dtypes x ranks 0-4 x masks {none, nomask, scalar, broadcastable, full} x {array, nested list, object array, scalar}, and zeros/ones/empty/full/eye/arange/linspace/*_like over parameter grids (shape as int/tuple/array/placeholder, negative steps, num in {0,1}, endpoint, nullable/string dtypes) vs NumPy.",
        note="Trusted: Lean kernel; NumPy as oracle; float arange/linspace values within 2-4 ulp.",
        technique="Lean 4 proof: Range/eye arithmetic lemmas + NumPy round-trip correspondence",
        design_ref="§7 C13"),
    "C14": dict(
        text="Lean 4 (Props/C14.lean + Gen/CastMatrix.lean regenerated every run): the cast protocol model (nullable -> core raises a cast error, every other built-in cast returns the target dtype) holds for all 24x24 pairs and the dumped astype outcome matrix equals it (decide +kernel); mask rule of nullable casts; integer casts preserve every in-range value (two's-complement lemma); can_cast equals NumPy's safe-casting table, which is reflexive, transitive and never narrows. The tie: every ordered pair x boundary values of the source type in range of the target x masks {none, partial, full}, eager and traced, vs ndarray.astype; same-dtype casts yield independent arrays. Graph level (Props/C14Graph.lean): astype between the nine integer/boolean dtypes exports one Cast or the input itself (castTerms, checked against the exported graph by the translator); cast_int_int (two's-complement wrap into the target), cast_int_int_in_range (in-range values preserved), cast_int_bool, cast_bool_int.",
        note="Trusted: Lean kernel; float->int truncation, int->float rounding and number<->text conversion are performed by the Cast kernel and validated by the value sweep, not proved.",
        technique="Lean 4 proof: decide +kernel over the regenerated cast matrix, value theorems of the exported Cast graphs (graph-level tie) + boundary-value correspondence",
        design_ref="§7 C14"),
    "C18": dict(
        text="Lean 4 (Props/C18.lean): the state machine has no component besides the heap — run (H ++ P) = run H then run P; cells that later activity never _set keep term and value (frame); observations are functions of the heap; the transition function is deterministic. The tie (metamorphic): a battery of traced models (using ndx.e/inf/nan/pi, nullable, strings, layout, constants-only) and random programs are built in child interpreters — fresh, with another PYTHONHASHSEED, and after histories of unrelated tracing/evaluation/builds/failing calls (incl. calls that receive library constants and user arrays of other dtypes); serialized bytes must be identical, two builds in a row identical, library constants and dtype singletons unchanged.",
        note="Trusted: Lean kernel; absence of hidden global state in the implementation is only detectable by the metamorphic runs — the theorem is about the model's heap.",
        technique="Lean 4 proof: compositionality/frame of the state machine + fresh-process vs after-history byte comparison",
        design_ref="§7 C18"),
    "C19": dict(
        text="Lean 4 (Props/C19.lean): for argument trees of any nesting (lists, tuples, dicts, slices; positional and keyword) the model of _aggregate_arguments computes constant_inputs = every array leaf holds data, and the rewritten arguments have the same structure (mutual structural induction); from_spox_var(spox_var(a)) keeps the denotation and drops the value. The tie: spox round trips for all core dtypes (lazy and data-holding) and mixed ndonnx/spox programs vs NumPy; eager_propagate-wrapped user functions with random nested argument trees, 1-3 outputs, string/nullable leaves, non-idempotent in-place work, random subsets lazy; a user struct dtype through asarray/to_numpy/model I/O.",
        note="Trusted: Lean kernel; the argument-tree model of _aggregate_arguments (tied by the nested-argument correspondence).",
        technique="Lean 4 proof: structural induction over argument trees + nested-argument correspondence",
        design_ref="§7 C19"),
    "C20": dict(
        text="Lean 4 (Props/C20.lean): the decision model of __bool__/__int__/__float__/__index__/__len__/__iter__ agrees with NumPy's rules on every data-holding array (any dtype kind, rank, size) wherever the property fixes NumPy's answer, refuses every scalar conversion on placeholders, refuses len/iteration exactly when the leading extent is not a known integer; iteration is a map over range(n): exactly shape[0] items, the i-th being index i. The tie: all 24 dtypes x shapes of rank 0-3 (extents 0-4) x {eager, lazy-static, lazy-symbolic, lazy-unknown} x six protocols vs the Lean model (driver) and real NumPy, items compared with x[i].",
        note="Trusted: Lean kernel; the decision model (tied exhaustively over the enumerated table every run).",
        technique="Lean 4 proof: case analysis of the protocol decision model + exhaustive table correspondence",
        design_ref="§7 C20"),
    "C06": dict(
        text="Lean 4: the size-generic statements — Props/C06.lean (the constants index_normalise writes into the graph are size-independent and select Python's positions at every extent n>=0), Props/C08.lean (slice_axis_agree for all n) and the layout index-map theorems of Props/C11.lean hold for every run-time extent incl. 0 and 1, because the emitted term mentions no extent. The tie: random programs are traced ONCE with symbolic or unknown dims (all inputs lazy, and a random subset), and the same onnxruntime session is run at the trace-time sizes and at further size assignments over {0,1,2,3,5,8} per size variable, including a unit size variable that triggers broadcasting through unknown extents; every step is compared with eager evaluation at that size (dtype, shape, field shapes, mask, values).",
        note="Trusted: Lean kernel; the index/layout models (tied by the C08/C11 correspondence runs); onnxruntime as the evaluator of both sides. Programs containing sort/argsort are not run at zero extents (recorded finding: interpreter crash in onnxruntime TopK). Two recorded findings (where equal-branches folding with symbolic condition; argmax/argmin on nullable input).",
        technique="Lean 4 proof: extent-generic index-map theorems + one-build-many-sizes correspondence",
        design_ref="§7 C06"),
    "C15": dict(
        text="Lean 4: Props/C15.lean proves that ndonnx's hand-written shape annotations are valid for every input: Slice preserves rank, a scalar Gather removes exactly one axis, boolean-mask selection has rank(x) - rank(mask) + 1 (the getitem_null annotation) and rejects masks of higher rank, integer-array selection has rank(index) + rank(x) - 1, Unsqueeze adds one axis per position. The tie: for every step of random traced programs (static / symbolic / unknown / mixed placeholder dims) the reported dtype, ndim and integer extents, the element types and dims the exported model declares, and the run-time value of additional.shape are compared with the model's outputs at two size assignments.",
        note="Trusted: Lean kernel; ONNX shape inference itself (spox/onnx code) is outside the model and only compared with run-time results; the index model is tied by the C08 correspondence.",
        technique="Lean 4 proof: annotation-validity (rank) theorems on the index model + static-vs-run-time correspondence",
        design_ref="§7 C15"),
    "C16": dict(
        text="Lean 4: Props/C16.lean — corollary of the simulation theorem (Props/C01.refinement_general) with onnxruntime present in one run and absent in the other: whatever traces with onnxruntime also traces without it, every cell denotes the same value under every environment, reported values agree; without onnxruntime a primitive never reports a value and no operator semantics is ever consulted (no_kernel_needed). The tie: random programs x partitions are traced here and in a child interpreter in which importing onnxruntime raises ImportError (no source hook); both serialized models are run and compared output by output; the _CoreArray history correspondence is repeated with onnxruntime absent.",
        note="Trusted: Lean kernel; the state-machine model (tied by the history correspondence in both configurations); the import blocker faithfully reproducing a missing onnxruntime.",
        technique="Lean 4 proof: simulation corollary + with/without-onnxruntime differential in a child interpreter",
        design_ref="§7 C16"),
    "C01": dict(
        text="Lean 4: Props/C01.lean proves refinement for the propagation state machine (Model/Heap.lean: cells = (graph term, optional eager value); transitions = input creation, any @eager_propagate primitive, copy, in-place _set): for every program of any length, every input tuple and every subset S of inputs traced as placeholders, if eager evaluation succeeds the traced run succeeds and every traced cell denotes, under the environment binding the placeholders to the inputs, exactly the value eager evaluation reports (refinement_general / refinement_partial, by a simulation proved by induction over histories for arbitrary value types and operator semantics). The tie: random multi-step programs over ~90 public operations (all dtypes incl. nullable/string, ranks 0-3, extents 0-3, broadcasting, guard-directed single-element constants for the value-dependent shortcuts) are evaluated eagerly and traced with subsets of inputs lazy (static/symbolic/unknown dims), exported, run in onnxruntime and compared step by step; the heap model itself is tied to _CoreArray/_propagation by the history correspondence of the C07 check.",
        note="Trusted: Lean kernel; the state-machine model of _propagation.py/_corearray.py (tied by flag-level history correspondence, not proved about the Python source); onnxruntime evaluating a one-node session and a full model identically (runtime behaviour, exercised only). The Python-level value-dependent shortcuts (where, logical_and/or, all/any) are outside the theorem (named _partial) and covered by the guard-directed correspondence runs; one of them is a recorded finding.",
        technique="Lean 4 proof: simulation/refinement by induction over operation histories + eager-vs-traced correspondence",
        design_ref="§7 C01"),
    "C07": dict(
        text="Lean 4: Props/C07.lean proves over every history of the propagation state machine, with and without onnxruntime: soundness (a reported value is what the cell's graph term denotes under every placeholder assignment), taint (a cell reporting a value is a Constant and mentions no placeholder), completeness (with onnxruntime, a primitive on data-holding cells yields a data-holding Constant; a history without placeholders leaves every cell data-holding and Constant). The tie: (1) random histories over real _CoreArrays and real opset primitives vs the Lean state machine, value/Constant flags compared cell by cell; (2) random programs with every proper subset of inputs lazy: completeness and export-is-constants for steps whose dependencies hold data, soundness of every reported value against the exported model under two different placeholder assignments, reported shape = value shape.",
        note="Trusted: Lean kernel; the model of the wrapper (tied by the history correspondence every run); kernel failures during propagation (missing onnxruntime kernels) are runtime behaviour found only by the correspondence.",
        technique="Lean 4 proof: heap invariants (Closed/Sound) by induction over histories + state-machine correspondence on real core arrays",
        design_ref="§7 C07"),
    "C03": dict(
        text="Lean 4: Props/C03.lean proves, for every one of the 24 dtypes (mem_all), that the closed-form promotion model is commutative, associative inside the standard's lattice (errors included), idempotent, nullable iff an operand is, string-isolated, scalar-stable, and that the reference law for comparisons/predicates is boolean. The tie is regenerated every run: result_type on all 576 pairs, promote() on all dtype x Python-scalar rows and the ~24k-row element-wise function x dtype-tuple outcome matrix are dumped from the running implementation into lean/Gen/*.lean and the Lean kernel re-checks (decide +kernel) the laws directly on the dumped tables, their equality with the model, and every matrix row against the reference law Ndx.fnLaw; all 13 824 n-ary triples, where() and 25 further functions are compared through the model driver.",
        note="Trusted: Lean kernel (propext, Classical.choice, Quot.sound); the dumper harness/tables.py (enumerates the finite spaces by calling the public API on lazy and eager arrays); the reference law Ndx.fnLaw and closed-form NumPy promotion as my reading of the Array API / NumPy (validated against numpy.result_type through the implementation's own table). Shape/laziness independence is exercised on sampled ranks and eager values, not proved about the Python code.",
        technique="Lean 4 proof: decide +kernel over exhaustively regenerated dtype tables + closed-form lattice theorems",
        design_ref="§7 C03"),
    "C17": dict(
        text="Lean 4: Props/C17.lean proves that the reference law Ndx.fnLaw demands a TypeError for every string/non-string mix, numeric functions on strings/booleans, logical functions on numbers, bitwise functions on floats and wrong-kind Python scalars, for all 24 dtypes and all function classes, and never admits a foreign exception class. On every run the element-wise function x dtype-tuple outcome matrix (arrays and Python scalars in every position, operator spellings, lazy and eager) is dumped exhaustively from the implementation and each row is checked against fnLaw by the Lean kernel (Gen/FnDtype*.lean); 27 further functions x {24 dtypes, a user struct dtype} x {lazy, eager} are checked by the harness.",
        note="Trusted: Lean kernel; the dumper; the function catalogue (harness/catalog.py) mapping public names to law classes; exception classes are mapped to {TypeError subclass, other}. Mixed boolean/number operands and integers passed to floating-point functions are treated as unspecified (result or TypeError allowed, foreign exceptions not).",
        technique="Lean 4 proof: decide +kernel of the domain law over the exhaustively regenerated outcome matrix",
        design_ref="§7 C17"),
    "C08": dict(
        text="Lean 4 theorems (Props/C08.lean): for every extent n>=0 and every slice inside the Array-API bounds the positions selected by the emitted ONNX Slice after index_normalise equal CPython's slice.indices (slice_axis_agree), plus the build-time rejection rules; the N-d composition (Slice, reverse-order Gathers, Unsqueeze), boolean-mask and integer-array selection are an executable Lean model checked against the implementation (traced static, traced symbolic, eager) and NumPy on an exhaustive one-axis space and sampled products.",
        note="Trusted: Lean kernel (axioms propext/Classical.choice/Quot.sound), the hand-written model and its ONNX Slice/Gather/Unsqueeze/Compress semantics (validated against onnxruntime by the correspondence run), NumPy as oracle, the Python harness. N-d composition is tied by correspondence, not yet by a theorem.",
        technique="Lean 4 proof (omega case analysis over slice clamping) + model/implementation/NumPy correspondence over exhaustive one-axis index space",
        design_ref="§7 C08"),
}

# Round 4 additions (appended to the texts above; see DESIGN.md R.7)
TG_NOTE = (" Graph-level tie: harness/tgraph.py translates the exported ONNX graph into the term language of "
           "lean/NdonnxVerif/Model/TGraph.lean (trusted translator); the Lean reading of the ONNX operators "
           "(Slice, Gather, Unsqueeze, Squeeze, Transpose, Reshape, Expand, Concat, Shape, Range, Cast, Add, Mod, Equal, Where, Reduce*) "
           "is an assumption validated on every run by evaluating the parsed exported graph in Lean against onnxruntime / NumPy on token data.")
ROUND4 = {
    "C06": dict(
        text="Graph level (Props/C06Graph.lean, C08Graph.lean, C11Graph.lean): the terms ndonnx exports for x[index], roll, flip, expand_dims, squeeze, permute_dims, matrix_transpose, take, reshape, concat, stack depend on the call's arguments and the rank only (Model/TGraphFns.lean takes no extent); the check verifies on every run that with symbolic and unknown dimensions the library exports exactly these terms, and roll_correct_at_every_size / roll_null_field_correct_at_every_size / flip_correct_at_every_size / slices_correct_at_every_size prove that one and the same term evaluated at ANY concrete shape of that rank (extents 0 and 1 included) is NumPy's result at that shape.",
        technique="Lean 4 proof: size-generic correctness of the exported graph terms (one term, every concrete shape) + per-axis slice theorem; graph-level tie by a translator + one-build-many-sizes correspondence",
        note=TG_NOTE),
    "C08": dict(
        text="Round 4 (Props/C08Graph.lean, C08Tensor.lean, Lemmas/SlicesNd.lean): getitemGraph_eval — the term getitem is modelled to emit (one Slice over four constant vectors, scalar Gathers in reverse axis order, one Unsqueeze) evaluates to the operator-level model for every normalised index, shape and element value; getitem_slices_nd — for EVERY rank, an index of one slice per axis inside the standard's bounds is accepted and returns NumPy's elements in NumPy's shape and order (the N-d composition of slice_axis_agree, proved through per-axis (first, count, step) triples); exported_slices_graph_correct — hence the exported graph itself evaluated on any tensor is NumPy's x[s_0, ..., s_{r-1}]; getitem_rank1_slice / getitem_rank1_int / exported_int_graph_correct_rank1 for rank-1 tensors. Props/C08Nd.lean and C08Full.lean (lemmas Lemmas/GatherStage.lean, GetitemNd.lean, GetitemNew.lean): getitem_ints_slices_nd, getitem_basic_noEllipsis and getitem_basic_nd — THE FULL BASIC INDEX ON EVERY RANK: for an index of in-range integers (negative too), slices inside the standard's bounds, None entries and one ellipsis, the model of what ndonnx emits (index_normalise, ellipsis expansion, one Slice, scalar Gathers in reverse axis order, one Unsqueeze) accepts it and returns exactly NumPy's elements in NumPy's order and shape, for every rank, shape and element type (gathers_spec: the Gather stage as a plan over the axes; getitemCore_noNew / getitemCore_withNew: axis-by-axis source positions; basic_eq_modelN: NumPy's left-to-right reading; ellipsis_expansion: both sides expand an ellipsis to the same list); exported_getitem_graph_correct / exported_basic_graph_correct carry it to the exported graph term. The check compares the exported graph of every case (static, symbolic and unknown dims, all dtypes, both fields of nullable arrays) with the model's term.",
        technique="Lean 4 proof: full basic-index theorem for every rank (integers, slices, None, ellipsis) by composition of the per-axis clamp lemma with Slice/Gather/Unsqueeze stage lemmas, evaluation of the exported graph term to the model + graph-level tie by a translator + exhaustive one-axis correspondence",
        note=TG_NOTE + " Mixed int/slice/None indices of rank >= 2 are proved at the graph-to-model level (getitemGraph_eval) and tied to NumPy by correspondence, not by a theorem."),
    "C10": dict(
        text="Graph level (Props/C10Graph.lean): reduceCore_shape — every exported ReduceSum/Prod/Min/Max node as sum/prod/min/max/all/any emit it has NumPy's keepdims shape for every rank, shape (extents 0 included) and valid axis argument; any_graph_correct / all_graph_correct — the exported graph of any/all (x != 0 -> int8 -> int64 -> ReduceMax/Min -> int8 -> bool) returns at every result position whether some / every element of the reduced slice is truthy, including slices with no element (False / True through the int8 round trip of INT64_MIN / INT64_MAX; any_without_int8_is_wrong is the proved witness that the round trip is necessary). The check compares the graph exported for every sampled (function, integer or boolean dtype, axis form, keepdims, dtype=) with the model's term.",
        technique="Lean 4 proof: reduced-shape theorem, neutral-element and truth-value theorems of the exported all/any graphs for all ranks/axes + graph-level tie by a translator + NumPy correspondence sweep",
        note=TG_NOTE + " onnxruntime returns the type extremes for ReduceMin/ReduceMax over an empty slice: modelled as such and validated by the same comparison."),
    "C11": dict(
        text="Graph level (Props/C11Graph.lean): roll_graph_correct — the graph roll(x, shifts, axes) exports (per step Shape -> Gather -> Range -> Cast -> Add -> Mod(fmod=0) with divisor where(len == 0, 1, len) -> Gather, then Reshape to the input's shape), for a plain array, the values field and the null field of a nullable array (index vectors read from the values field's shape), evaluates for every shape, shift of any sign and magnitude and list of valid (negative, repeated) axes to NumPy's successive rotations; flip_graph_correct (one Slice with INT64_MAX / INT64_MIN / -1, as a corollary of the N-d slice theorem); expandDims_graph_correct, squeeze_graph_correct, concat_graph_correct, permute / matrix_transpose. The check compares the exported graph of 14 layout call forms with the model's terms.",
        technique="Lean 4 proof: exported-graph terms of roll/flip/expand_dims/squeeze/concat evaluated to NumPy's index maps for all shapes + graph-level tie by a translator + token-data correspondence",
        note=TG_NOTE),
    "C12": dict(
        text="Algorithm level (Model/Search.lean, Props/C12Search.lean): searchsortedImpl_eq_count / searchsorted_correct — the algorithm ndonnx runs (ranks among the distinct values of x1 ++ x2, multiplicities scattered into slot rank+1, cumulative sum, slot lookup) returns the counting specification #{x < v} (left) / #{x <= v} (right) for every haystack and needle, no size bound; tied by the driver command searchsorted against NumPy and the implementation.",
        technique="Lean 4 proof: order-embedding and counting lemmas, correctness of the rank/cumulative-sum searchsorted algorithm for all inputs + invariant/NumPy correspondence"),
    "C15": dict(
        text="Props/C15Static.lean (Model/StaticShape.lean): static_getitem_sound — whatever the declared dims of the operand (static, symbolic, unknown, mixed) and whatever run-time shape they admit, the dims reported for x[index] (the hand-written annotation after Slice, then inference through the scalar Gathers and the Unsqueeze) admit the run-time shape of the result: same rank, every reported integer extent is the run-time extent; sliced_extent_must_be_erased is the proved witness that keeping the declared extent of a sliced axis would be unsound. Tied by a systematic sweep (slices outside the standard's bounds included) of reported shape and declared output dims vs the model and vs run time.",
        technique="Lean 4 proof: rank theorems + soundness of the reported static dims of x[index] for all declared dims and admitted shapes + static-metadata vs run-time correspondence"),
}

NOT_YET = {}

ALL = [f"C{i:02d}" for i in range(1, 21)]


def main():
    checks = []
    for pid in ALL:
        if pid not in CLAIMED:
            continue
        c = dict(CLAIMED[pid])
        if pid in ROUND4:
            c["text"] = c["text"] + " " + ROUND4[pid]["text"]
            c["technique"] = ROUND4[pid].get("technique", c["technique"])
            c["note"] = c["note"] + ROUND4[pid].get("note", "")
        checks.append({
            "property_id": pid,
            "quick_cmd": f"./check {pid} --tier quick",
            "thorough_cmd": f"./check {pid} --tier thorough",
            "evidence_file": f"/verif/evidence/{pid}.json",
            "replay_cmd_template": "./check replay {path}",
            "engine": "lean-model+correspondence",
            "level_claimed": {"category": "proof", "text": c["text"], "design_ref": c["design_ref"]},
            "level_note": c["note"],
            "technique": c["technique"],
        })
    na = [{"property_id": pid, "reason": NOT_YET.get(pid, "not claimed yet: the Lean model and correspondence check for this property are still being built (see DESIGN.md, Changes since round 0)")}
          for pid in ALL if pid not in CLAIMED]
    m = {
        "version": 1,
        "setup_cmd": "cd lean && lake build NdonnxVerif ndonnx_model",
        "hooks": {
            "guard": "NDONNX_VERIF",
            "enable": "no source hooks are needed: checks import ndonnx from /repo's working tree (dev install) and observe public/underscore attributes; the onnxruntime-absent configuration is entered with an import blocker in a child interpreter",
            "baseline_off_cmd": "cd /repo && /venv/bin/python -m pytest -ra -q -p no:cacheprovider --timeout=900 --continue-on-collection-errors",
            "source_commits": [],
            "add_only": True,
        },
        "engines": [
            {"name": "lean-model+correspondence", "path": "lean/ + harness/",
             "serves_properties": sorted(CLAIMED),
             "kind_free_text": "Lean 4 model + theorems (lake project lean/), compiled model driver (lean_exe ndonnx_model) fed by a line protocol, Python harness running the implementation from /repo and NumPy as oracle"}
        ],
        "checks": checks,
        "not_applicable": na,
        "notes": "See DESIGN.md. Exit codes: 0 held, 1 VIOLATION, 2 infrastructure failure/timeout (no VIOLATION line).",
    }
    json.dump(m, open("MANIFEST.json", "w"), indent=1)


if __name__ == "__main__":
    main()
