import NdonnxVerif.Props.C09Scatter
import NdonnxVerif.Props.C13Graph
import NdonnxVerif.Props.C10Cumsum
/-!
# C10 at graph level — `cumulative_sum(…, include_initial=True)`

The exported term assigns into the *shape vector* (`out_shape[axis] = 1`, a `ScatterND` through the coordinate grid of a
rank-1 tensor), expands a zero to that shape and concatenates: the theorem composes `exported_setitem_graph_correct` (C09),
`constFill_graph_correct` (C13) and the `Concat` semantics.  `cumsumInclGraph` is the term `tg_render cumsum_incl` prints and
the check compares with the exported graph (tie B).
-/
namespace Ndx.TGraph
open Ndx Ndx.Spec Ndx.C08 Ndx.C02

/-- The shape vector after `out_shape[axis] = 1`. -/
theorem shape_vector_assignment (env : List (Tensor Int)) (cs : TG) (axis : Int)
    (hax : -((cs.eval env).rank : Int) ≤ axis ∧ axis < ((cs.eval env).rank : Int)) :
    ((setitemGraph (.shape cs) (iscalar 1) 1 [.int axis]).eval env).toFlat
      = ((cs.eval env).shape.set (normIdx axis (cs.eval env).rank) 1).map Int.ofNat := by
  generalize hC : cs.eval env = C at *
  have hr : 0 < C.rank := by omega
  set S := (TG.shape cs).eval env with hSdef
  have hSs : S.shape = [C.rank] := by simp [hSdef, TG.eval, hC, shapeOp, vec, Tensor.rank]
  have hSg : ∀ p, p < C.rank → S.get [p] = Int.ofNat (C.shape.getD p 0) := by
    intro p hp
    simp only [hSdef, TG.eval, hC, shapeOp, vec, List.headD_cons]
    rw [List.getD_eq_getElem?_getD, List.getElem?_map, List.getD_eq_getElem?_getD]
    cases C.shape[p]? <;> rfl
  have hadm : AdmissibleN [Ix.int axis] S.shape := by
    rw [hSs]
    exact ⟨⟨by simpa using hax.1, by simpa using hax.2⟩, trivial⟩
  have hsel_shape : (Spec.getitem (coords S.shape) [Ix.int axis]).shape = [] := by
    obtain ⟨s1, _⟩ := basic_eq_modelN [Ix.int axis] S.shape hadm
    have hnoE : ∀ e ∈ [Ix.int axis], e ≠ Ix.ellipsis := by intro e he; simp at he; subst he; simp
    simp only [Spec.getitem, expand_noEllipsis _ _ hnoE]
    show (basic [Ix.int axis] S.shape).1 = []
    rw [s1, hSs]; rfl
  have hsel_get : (Spec.getitem (coords S.shape) [Ix.int axis]).get [] = [normIdx axis C.rank] := by
    obtain ⟨s1, s2⟩ := basic_eq_modelN [Ix.int axis] S.shape hadm
    have hnoE : ∀ e ∈ [Ix.int axis], e ≠ Ix.ellipsis := by intro e he; simp at he; subst he; simp
    simp only [Spec.getitem, expand_noEllipsis _ _ hnoE, coords]
    show (basic [Ix.int axis] S.shape).2 [] = _
    rw [s2 [] (by rw [hSs]; exact (by simp [List.map, normE, modelS', InRange]))]
    simp [hSs, normE, modelF']
  have hrank1 : S.rank = 1 := by simp [Tensor.rank, hSs]
  obtain ⟨h1, h2, h3⟩ := exported_setitem_graph_correct env (.shape cs) (iscalar 1) [Ix.int axis] S ((iscalar 1).eval env) rfl rfl
    hadm (by rw [hrank1]; decide) (by rw [hsel_shape]; simp [TG.eval, iscalar, constT, bshape, bshapeRev])
  rw [hrank1] at h1 h2 h3
  simp only [List.map_cons, List.map_nil, normE] at h1 h2 h3
  generalize hZ : (setitemGraph (.shape cs) (iscalar 1) 1 [NIx.int axis]).eval env = Z at h1 h2 h3 ⊢
  have ha : normIdx axis C.rank < C.rank := by
    simp only [normIdx]; split <;> omega
  have hhit : Z.get [normIdx axis C.rank] = 1 := by
    have := h2 [] (by rw [hsel_shape]; trivial)
    rw [hsel_get, hsel_shape] at this
    simpa [expandTo, TG.eval, iscalar, constT, ravel] using this
  have hframe : ∀ p, p < C.rank → p ≠ normIdx axis C.rank → Z.get [p] = S.get [p] := by
    intro p hp hne
    apply h3 [p] (by rw [hSs]; exact ⟨hp, trivial⟩)
    intro o ho
    rw [hsel_shape] at ho
    match o, ho with
    | [], _ => rw [hsel_get]; intro h; exact hne (by simpa using h.symm)
  rw [toFlat_vec_shape Z C.rank (h1.trans hSs)]
  apply List.ext_getElem
  · simp [Tensor.rank]
  · intro p hp1 hp2
    simp only [List.length_map, List.length_range] at hp1
    simp only [List.getElem_map, List.getElem_range]
    by_cases hpa : p = normIdx axis C.rank
    · subst hpa
      rw [hhit]
      simp [List.getElem_set]
    · rw [hframe p hp1 hpa, hSg p hp1]
      have hpl : p < C.shape.length := by simpa [Tensor.rank] using hp1
      simp only [List.getElem_set, Ne.symm hpa, if_false]
      simp [List.getD_eq_getElem?_getD, List.getElem?_eq_getElem hpl]

/-- **C10, `cumulative_sum(…, include_initial=True)`, exported graph.**  The exported term — `shape(cs)` with entry `axis`
overwritten by 1 through a `ScatterND` on the shape vector, a zero expanded to that shape, `Concat` with the running sums —
has the operand's shape with one more entry along the axis, a zero at position 0 of the axis and the running sums shifted
by one behind it; for every rank ≥ 1, every shape (zero extents included) and every valid (also negative) axis. -/
theorem include_initial_graph_correct (env : List (Tensor Int)) (cs : TG) (axis : Int) (rdt : Nat)
    (hax : -((cs.eval env).rank : Int) ≤ axis ∧ axis < ((cs.eval env).rank : Int)) :
    ((includeInitialGraph cs axis rdt).eval env).shape
      = (cs.eval env).shape.set (normIdx axis (cs.eval env).rank)
          ((cs.eval env).shape.getD (normIdx axis (cs.eval env).rank) 0 + 1) ∧
    ∀ ix, ((includeInitialGraph cs axis rdt).eval env).get ix
      = if ix.getD (normIdx axis (cs.eval env).rank) 0 = 0 then 0
        else (cs.eval env).get (ix.set (normIdx axis (cs.eval env).rank) (ix.getD (normIdx axis (cs.eval env).rank) 0 - 1)) := by
  have hvec := shape_vector_assignment env cs axis hax
  obtain ⟨hzs, hzg⟩ := constFill_graph_correct env 0 (setitemGraph (.shape cs) (iscalar 1) 1 [.int axis]) rdt
  simp only [shapeOfVec, hvec, map_toNat_ofNat] at hzs hzg
  have hz0 : (if 7 = rdt then (0 : Int) else castElem rdt 0) = 0 := by split <;> simp [castElem_zero']
  rw [hz0] at hzg
  generalize hC : cs.eval env = C at *
  have ha : normIdx axis C.rank < C.shape.length := by
    show normIdx axis C.rank < C.rank
    simp only [normIdx]; split <;> omega
  have e : (includeInitialGraph cs axis rdt).eval env
      = concatOp ((constFillGraph 0 (setitemGraph (TG.shape cs) (iscalar 1) 1 [NIx.int axis]) rdt).eval env) (cs.eval env) axis := rfl
  rw [e, hC]
  generalize hZ : TG.eval env (constFillGraph 0 (setitemGraph (TG.shape cs) (iscalar 1) 1 [NIx.int axis]) rdt) = Zr at hzs hzg ⊢
  have hnorm : normAxis Zr.rank axis = normIdx axis C.rank := by
    simp only [normAxis, normIdx, Tensor.rank, hzs, List.length_set]
  simp only [concatOp, hnorm, hzs]
  have h1 : (C.shape.set (normIdx axis C.rank) 1).getD (normIdx axis C.rank) 0 = 1 := by
    simp [List.getD_eq_getElem?_getD, List.getElem?_set, ha]
  rw [h1]
  constructor
  · rw [List.set_set, Nat.add_comm]
  · intro ix
    by_cases h0 : ix.getD (normIdx axis C.rank) 0 = 0
    · have : ix.getD (normIdx axis C.rank) 0 < 1 := by omega
      rw [if_pos this, if_pos h0, hzg]
    · have : ¬ ix.getD (normIdx axis C.rank) 0 < 1 := by omega
      rw [if_neg this, if_neg h0]

example : ((includeInitialGraph (.cumsum (.inp 0) (iscalar 1)) 1 7).eval [constT [2, 2] [1, 2, 3, 4]]).toFlat = [0, 1, 3, 0, 3, 7] := by decide

end Ndx.TGraph
