import NdonnxVerif.Props.C10Graph
import NdonnxVerif.Props.C02
/-!
# C10 at graph level — `sum`: the exported graph returns the exact sum wrapped into the accumulator dtype
-/
namespace Ndx.TGraph
open Ndx Ndx.Spec Ndx.C02

def sumf (acc v : Int) : Int := wrapS 64 (acc + v)

theorem fold_sum_wrapU (l : List Int) : ∀ a : Int, wrapU 64 (l.foldl sumf a) = wrapU 64 (a + l.sum) := by
  induction l with
  | nil => intro a; simp
  | cons v l ih =>
    intro a
    simp only [List.foldl_cons, List.sum_cons]
    rw [ih, sumf, ← wrapU_add, wrapS_congr, wrapU_add]
    congr 1; omega

theorem fold_sum_fixed (l : List Int) : ∀ a : Int, wrapS 64 a = a → wrapS 64 (l.foldl sumf a) = l.foldl sumf a := by
  induction l with
  | nil => intro a h; exact h
  | cons v l ih =>
    intro a _
    simp only [List.foldl_cons]
    apply ih
    simp only [sumf]
    apply wrapS_congr_of_wrapU
    exact wrapS_congr 64 (a + v)

theorem sum_map_wrapU (k : Nat) (g : Int → Int) (hg : ∀ v, wrapU k (g v) = wrapU k v) (l : List Int) :
    wrapU k ((l.map g).sum) = wrapU k l.sum := by
  induction l with
  | nil => rfl
  | cons v l ih =>
    simp only [List.map_cons, List.sum_cons]
    rw [← wrapU_add, hg, ih, wrapU_add]

theorem wrapU_wrapS64 (k : Nat) (hk : k ≤ 64) (v : Int) : wrapU k (wrapS 64 v) = wrapU k v := by
  rw [← wrapU_wrapU k 64 hk (wrapS 64 v), wrapS_congr, wrapU_wrapU k 64 hk]

theorem wrapU_twrap (T : IType) (v : Int) : wrapU T.bits (T.wrap v) = wrapU T.bits v := by
  unfold IType.wrap
  split
  · exact wrapS_congr _ _
  · unfold wrapU; exact Int.emod_emod_of_dvd _ (Int.dvd_refl _)

/-- The int64 fold of elements that were passed through casts congruent to the identity modulo `2^bits`
is, after the cast to the accumulator type `T`, the wrapped exact sum. -/
theorem sum_fold_value (T : IType) (hb : T.bits ≤ 64) (g : Int → Int) (hg : ∀ v, wrapU T.bits (g v) = wrapU T.bits v)
    (vals : List Int) :
    T.wrap ((vals.map g).foldl sumf 0) = T.wrap vals.sum := by
  apply wrap_congr_of_wrapU
  rw [← wrapU_wrapU T.bits 64 hb, fold_sum_wrapU, wrapU_wrapU T.bits 64 hb, Int.zero_add]
  exact sum_map_wrapU T.bits g hg vals

/-- The element casts of the integer dtypes are the two's-complement wraps. -/
def typeOfCode : Nat → Option IType
  | 2 => some ⟨8, false⟩ | 3 => some ⟨8, true⟩ | 4 => some ⟨16, false⟩ | 5 => some ⟨16, true⟩
  | 6 => some ⟨32, true⟩ | 7 => some ⟨64, true⟩ | 12 => some ⟨32, false⟩ | 13 => some ⟨64, false⟩
  | _ => none

theorem castElem_of_code (c : Nat) (T : IType) (h : typeOfCode c = some T) : (∀ v, castElem c v = T.wrap v) ∧ T.bits ≤ 64 := by
  unfold typeOfCode at h
  split at h <;> first | (injection h with h; subst h; exact ⟨fun _ => rfl, by decide⟩) | cases h

end Ndx.TGraph
namespace Ndx.TGraph
open Ndx Ndx.Spec Ndx.C02

/-- The sum node on a tensor that is `g ∘ x` pointwise. -/
theorem reduceSum_pointwise (e x : Tensor Int) (g : Int → Int) (axis : AxisArg) (keepdims : Bool)
    (hv : axisValid x.rank axis) (hs : e.shape = x.shape) (hg : ∀ ix, e.get ix = g (x.get ix)) :
    (reduceOp .sum keepdims (axis != .none) e (normalizeAxes x.rank axis)).shape = reducedShape x.shape axis keepdims ∧
    ∀ o, InRange (reducedShape x.shape axis keepdims) o →
      (reduceOp .sum keepdims (axis != .none) e (normalizeAxes x.rank axis)).get o
        = ((reduceVals x (npFlags x.rank axis) (keptIndex (npFlags x.rank axis) keepdims o)).map g).foldl sumf 0 := by
  have her : e.rank = x.rank := by simp [Tensor.rank, hs]
  have hflags := reduceOp_flags x.rank axis hv
  have hl : (npFlags x.rank axis).length = x.shape.length := by simp [npFlags, Tensor.rank]
  obtain ⟨hps, hpg⟩ := reduceT_of_pointwise sumf 0 e x g (npFlags x.rank axis) keepdims hl hs (fun ix _ => hg ix)
  have hxs : (reduceT sumf 0 x (npFlags x.rank axis) keepdims).shape = reducedShape x.shape axis keepdims := by
    rw [← hflags, reduceT_shape, normAxes_id _ _ hv, ← C10.reduce_shape]; rfl
  have hR : reduceOp .sum keepdims (axis != .none) e (normalizeAxes x.rank axis)
      = reduceT sumf 0 e (npFlags x.rank axis) keepdims := by
    simp only [reduceOp]
    rw [her, hflags]
    rfl
  rw [hR]
  refine ⟨hps.trans hxs, ?_⟩
  intro o ho
  exact hpg o (hxs ▸ ho)

theorem astypeG_eval (env) (x : TG) (t acc : Nat) :
    ((astypeG t acc x).eval env).shape = (x.eval env).shape ∧
    ∀ ix, ((astypeG t acc x).eval env).get ix = (if t = acc then id else castElem acc) ((x.eval env).get ix) := by
  unfold astypeG
  split <;> simp [TG.eval, Tensor.map]

/-- **`sum` at graph level.**  For every integer accumulator dtype (the default one or an explicit `dtype=`), the
exported graph (`astype` → through int64 → `ReduceSum` → cast back) returns, at every result position, the exact sum of
the reduced slice wrapped into the accumulator dtype — NumPy's value — for every rank, shape, valid `axis` and
`keepdims`; empty slices give 0. -/
theorem sum_graph_correct (env) (x : TG) (t acc : Nat) (T : IType) (hT : typeOfCode acc = some T)
    (axis : AxisArg) (keepdims : Bool) (hv : axisValid (x.eval env).rank axis) :
    ((viaI64 acc (reduceCore .sum keepdims axis (x.eval env).rank) (astypeG t acc x)).eval env).shape
      = reducedShape (x.eval env).shape axis keepdims ∧
    ∀ o, InRange (reducedShape (x.eval env).shape axis keepdims) o →
      ((viaI64 acc (reduceCore .sum keepdims axis (x.eval env).rank) (astypeG t acc x)).eval env).get o
        = T.wrap ((reduceVals (x.eval env) (npFlags (x.eval env).rank axis)
            (keptIndex (npFlags (x.eval env).rank axis) keepdims o)).sum) := by
  obtain ⟨hcast, hbits⟩ := castElem_of_code acc T hT
  obtain ⟨has, hag⟩ := astypeG_eval env x t acc
  have hgU : ∀ v, wrapU T.bits ((if t = acc then id else castElem acc) v) = wrapU T.bits v := by
    intro v; split
    · rfl
    · rw [hcast]; exact wrapU_twrap T v
  unfold viaI64
  by_cases h7 : acc = 7
  · subst h7
    have hT' : T = ⟨64, true⟩ := by simp [typeOfCode] at hT; exact hT.symm
    simp only [if_true, reduceCore, TG.eval, eval_ivec_toFlat]
    obtain ⟨h1, h2⟩ := reduceSum_pointwise _ (x.eval env) _ axis keepdims hv has hag
    refine ⟨h1, fun o ho => ?_⟩
    rw [h2 o ho, ← sum_fold_value T hbits _ hgU, hT']
    exact (fold_sum_fixed _ 0 (by decide)).symm
  · simp only [h7, if_false, reduceCore, TG.eval, eval_ivec_toFlat]
    have hes : (Tensor.map (castElem 7) ((astypeG t acc x).eval env)).shape = (x.eval env).shape := has
    have heg : ∀ ix, (Tensor.map (castElem 7) ((astypeG t acc x).eval env)).get ix
        = (fun v => castElem 7 ((if t = acc then id else castElem acc) v)) ((x.eval env).get ix) := by
      intro ix; simp only [Tensor.map]; rw [hag]
    obtain ⟨h1, h2⟩ := reduceSum_pointwise _ (x.eval env) (fun v => castElem 7 ((if t = acc then id else castElem acc) v)) axis keepdims hv hes heg
    refine ⟨by simpa [Tensor.map] using h1, fun o ho => ?_⟩
    have h2' := h2 o ho
    simp only [Tensor.map] at h2' ⊢
    rw [h2', hcast]
    apply sum_fold_value T hbits
    intro v
    show wrapU T.bits (wrapS 64 _) = _
    rw [wrapU_wrapS64 T.bits hbits]
    exact hgU v

/-- Non-vacuity: uint8 data summed in the default accumulator (uint64): 200 + 100 = 300, not 44. -/
example : (((sumGraph (.inp 0) 2 none 1 .none false).get!).eval [⟨[2], fun ix => if ix.headD 0 = 0 then 200 else 100⟩]).toFlat = [300] := by decide
/-- …and with `dtype=uint8` the sum wraps as NumPy's does. -/
example : (((sumGraph (.inp 0) 2 (some 2) 1 .none false).get!).eval [⟨[2], fun ix => if ix.headD 0 = 0 then 200 else 100⟩]).toFlat = [44] := by decide

end Ndx.TGraph
