import NdonnxVerif.Props.C10Graph
import NdonnxVerif.Props.C02
/-!
# C10 at graph level — `sum`: the exported graph returns the exact sum wrapped into the accumulator dtype
-/
namespace Ndx.TGraph
open Ndx Ndx.Spec Ndx.C02

def sumf (acc v : Int) : Int := wrapS 64 (acc + v)

theorem fold_sum_wrapU (l : List Int) : ∀ a : Int, wrapU 64 (l.foldl sumf a) = wrapU 64 (a + l.sum) := by
  induction l with
  | nil => intro a; simp
  | cons v l ih =>
    intro a
    simp only [List.foldl_cons, List.sum_cons]
    rw [ih, sumf, ← wrapU_add, wrapS_congr, wrapU_add]
    congr 1; omega

theorem fold_sum_fixed (l : List Int) : ∀ a : Int, wrapS 64 a = a → wrapS 64 (l.foldl sumf a) = l.foldl sumf a := by
  induction l with
  | nil => intro a h; exact h
  | cons v l ih =>
    intro a _
    simp only [List.foldl_cons]
    apply ih
    simp only [sumf]
    apply wrapS_congr_of_wrapU
    exact wrapS_congr 64 (a + v)

theorem sum_map_wrapU (k : Nat) (g : Int → Int) (hg : ∀ v, wrapU k (g v) = wrapU k v) (l : List Int) :
    wrapU k ((l.map g).sum) = wrapU k l.sum := by
  induction l with
  | nil => rfl
  | cons v l ih =>
    simp only [List.map_cons, List.sum_cons]
    rw [← wrapU_add, hg, ih, wrapU_add]

theorem wrapU_wrapS64 (k : Nat) (hk : k ≤ 64) (v : Int) : wrapU k (wrapS 64 v) = wrapU k v := by
  rw [← wrapU_wrapU k 64 hk (wrapS 64 v), wrapS_congr, wrapU_wrapU k 64 hk]

theorem wrapU_twrap (T : IType) (v : Int) : wrapU T.bits (T.wrap v) = wrapU T.bits v := by
  unfold IType.wrap
  split
  · exact wrapS_congr _ _
  · unfold wrapU; exact Int.emod_emod_of_dvd _ (Int.dvd_refl _)

/-- The int64 fold of elements that were passed through casts congruent to the identity modulo `2^bits`
is, after the cast to the accumulator type `T`, the wrapped exact sum. -/
theorem sum_fold_value (T : IType) (hb : T.bits ≤ 64) (g : Int → Int) (hg : ∀ v, wrapU T.bits (g v) = wrapU T.bits v)
    (vals : List Int) :
    T.wrap ((vals.map g).foldl sumf 0) = T.wrap vals.sum := by
  apply wrap_congr_of_wrapU
  rw [← wrapU_wrapU T.bits 64 hb, fold_sum_wrapU, wrapU_wrapU T.bits 64 hb, Int.zero_add]
  exact sum_map_wrapU T.bits g hg vals

/-- The element casts of the integer dtypes are the two's-complement wraps. -/
def typeOfCode : Nat → Option IType
  | 2 => some ⟨8, false⟩ | 3 => some ⟨8, true⟩ | 4 => some ⟨16, false⟩ | 5 => some ⟨16, true⟩
  | 6 => some ⟨32, true⟩ | 7 => some ⟨64, true⟩ | 12 => some ⟨32, false⟩ | 13 => some ⟨64, false⟩
  | _ => none

theorem castElem_of_code (c : Nat) (T : IType) (h : typeOfCode c = some T) : (∀ v, castElem c v = T.wrap v) ∧ T.bits ≤ 64 := by
  unfold typeOfCode at h
  split at h <;> first | (injection h with h; subst h; exact ⟨fun _ => rfl, by decide⟩) | cases h

/-- Non-vacuity: a nullable int32 vector [5, <null: payload 1000>, 7] sums to 12. -/
example : (((sumNullableGraph (.inp 0) (.inp 1) 6 1 .none false).get!).eval
    [⟨[3], fun ix => [5, 1000, 7].getD (ix.headD 0) 0⟩, ⟨[3], fun ix => [0, 1, 0].getD (ix.headD 0) 0⟩]).toFlat = [12] := by decide

end Ndx.TGraph
namespace Ndx.TGraph
open Ndx Ndx.Spec Ndx.C02

/-- The sum node on a tensor that is `g ∘ x` pointwise. -/
theorem reduceSum_pointwise (e x : Tensor Int) (g : Int → Int) (axis : AxisArg) (keepdims : Bool)
    (hv : axisValid x.rank axis) (hs : e.shape = x.shape) (hg : ∀ ix, InRange x.shape ix → e.get ix = g (x.get ix)) :
    (reduceOp .sum keepdims (axis != .none) e (normalizeAxes x.rank axis)).shape = reducedShape x.shape axis keepdims ∧
    ∀ o, InRange (reducedShape x.shape axis keepdims) o →
      (reduceOp .sum keepdims (axis != .none) e (normalizeAxes x.rank axis)).get o
        = ((reduceVals x (npFlags x.rank axis) (keptIndex (npFlags x.rank axis) keepdims o)).map g).foldl sumf 0 := by
  have her : e.rank = x.rank := by simp [Tensor.rank, hs]
  have hflags := reduceOp_flags x.rank axis hv
  have hl : (npFlags x.rank axis).length = x.shape.length := by simp [npFlags, Tensor.rank]
  obtain ⟨hps, hpg⟩ := reduceT_of_pointwise sumf 0 e x g (npFlags x.rank axis) keepdims hl hs hg
  have hxs : (reduceT sumf 0 x (npFlags x.rank axis) keepdims).shape = reducedShape x.shape axis keepdims := by
    rw [← hflags, reduceT_shape, normAxes_id _ _ hv, ← C10.reduce_shape]; rfl
  have hR : reduceOp .sum keepdims (axis != .none) e (normalizeAxes x.rank axis)
      = reduceT sumf 0 e (npFlags x.rank axis) keepdims := by
    simp only [reduceOp]
    rw [her, hflags]
    rfl
  rw [hR]
  refine ⟨hps.trans hxs, ?_⟩
  intro o ho
  exact hpg o (hxs ▸ ho)

theorem astypeG_eval (env) (x : TG) (t acc : Nat) :
    ((astypeG t acc x).eval env).shape = (x.eval env).shape ∧
    ∀ ix, ((astypeG t acc x).eval env).get ix = (if t = acc then id else castElem acc) ((x.eval env).get ix) := by
  unfold astypeG
  split <;> simp [TG.eval, Tensor.map]

/-- Core of the `sum` theorems: the routed `ReduceSum` over an operand `inner` that is `g ∘ X` on in-range indices, with
`g` congruent to the identity modulo `2^bits` of the accumulator type. -/
theorem sum_via_core (env) (inner : TG) (X : Tensor Int) (g : Int → Int) (acc : Nat) (T : IType) (hT : typeOfCode acc = some T)
    (axis : AxisArg) (keepdims : Bool) (hv : axisValid X.rank axis)
    (hs : (inner.eval env).shape = X.shape)
    (hg : ∀ ix, InRange X.shape ix → (inner.eval env).get ix = g (X.get ix))
    (hgU : ∀ v, wrapU T.bits (g v) = wrapU T.bits v) :
    ((viaI64 acc (reduceCore .sum keepdims axis X.rank) inner).eval env).shape = reducedShape X.shape axis keepdims ∧
    ∀ o, InRange (reducedShape X.shape axis keepdims) o →
      ((viaI64 acc (reduceCore .sum keepdims axis X.rank) inner).eval env).get o
        = T.wrap ((reduceVals X (npFlags X.rank axis) (keptIndex (npFlags X.rank axis) keepdims o)).sum) := by
  obtain ⟨hcast, hbits⟩ := castElem_of_code acc T hT
  unfold viaI64
  by_cases h7 : acc = 7
  · subst h7
    have hT' : T = ⟨64, true⟩ := by simp [typeOfCode] at hT; exact hT.symm
    simp only [if_true, reduceCore, TG.eval, eval_ivec_toFlat]
    obtain ⟨h1, h2⟩ := reduceSum_pointwise _ X g axis keepdims hv hs hg
    refine ⟨h1, fun o ho => ?_⟩
    rw [h2 o ho, ← sum_fold_value T hbits _ hgU, hT']
    exact (fold_sum_fixed _ 0 (by decide)).symm
  · simp only [h7, if_false, reduceCore, TG.eval, eval_ivec_toFlat]
    have hes : (Tensor.map (castElem 7) (inner.eval env)).shape = X.shape := hs
    have heg : ∀ ix, InRange X.shape ix → (Tensor.map (castElem 7) (inner.eval env)).get ix
        = (fun v => castElem 7 (g v)) (X.get ix) := by
      intro ix hix; simp only [Tensor.map]; rw [hg ix hix]
    obtain ⟨h1, h2⟩ := reduceSum_pointwise _ X (fun v => castElem 7 (g v)) axis keepdims hv hes heg
    refine ⟨by simpa [Tensor.map] using h1, fun o ho => ?_⟩
    have h2' := h2 o ho
    simp only [Tensor.map] at h2' ⊢
    rw [h2', hcast]
    apply sum_fold_value T hbits
    intro v
    show wrapU T.bits (wrapS 64 _) = _
    rw [wrapU_wrapS64 T.bits hbits]
    exact hgU v

theorem cast_or_id_wrapU (t acc : Nat) (T : IType) (hT : typeOfCode acc = some T) (v : Int) :
    wrapU T.bits ((if t = acc then id else castElem acc) v) = wrapU T.bits v := by
  obtain ⟨hcast, _⟩ := castElem_of_code acc T hT
  split
  · rfl
  · rw [hcast]; exact wrapU_twrap T v

/-- **`sum` at graph level.**  For every integer accumulator dtype (the default one or an explicit `dtype=`), the
exported graph (`astype` → through int64 → `ReduceSum` → cast back) returns, at every result position, the exact sum of
the reduced slice wrapped into the accumulator dtype — NumPy's value — for every rank, shape, valid `axis` and
`keepdims`; empty slices give 0. -/
theorem sum_graph_correct (env) (x : TG) (t acc : Nat) (T : IType) (hT : typeOfCode acc = some T)
    (axis : AxisArg) (keepdims : Bool) (hv : axisValid (x.eval env).rank axis) :
    ((viaI64 acc (reduceCore .sum keepdims axis (x.eval env).rank) (astypeG t acc x)).eval env).shape
      = reducedShape (x.eval env).shape axis keepdims ∧
    ∀ o, InRange (reducedShape (x.eval env).shape axis keepdims) o →
      ((viaI64 acc (reduceCore .sum keepdims axis (x.eval env).rank) (astypeG t acc x)).eval env).get o
        = T.wrap ((reduceVals (x.eval env) (npFlags (x.eval env).rank axis)
            (keptIndex (npFlags (x.eval env).rank axis) keepdims o)).sum) := by
  obtain ⟨has, hag⟩ := astypeG_eval env x t acc
  exact sum_via_core env (astypeG t acc x) (x.eval env) _ acc T hT axis keepdims hv has (fun ix _ => hag ix)
    (cast_or_id_wrapU t acc T hT)

/-- The values with every null replaced by `fill`. -/
def fillNull (fill : Int) (vals null : Tensor Int) : Tensor Int :=
  ⟨vals.shape, fun ix => if null.get ix ≠ 0 then fill else vals.get ix⟩

theorem bshape_self : ∀ (s : List Nat), bshape s s = some s := by
  intro s
  have h : ∀ r : List Nat, bshapeRev r r = some r := by
    intro r
    induction r with
    | nil => rfl
    | cons a r ih => simp [bshapeRev, bdim, ih]
  simp [bshape, h]

theorem bshape_nil_left (s : List Nat) : bshape [] s = some s := by simp [bshape, bshapeRev]

/-- `Where(null, fill, values)` with a scalar `fill` and equal shapes is `fillNull`. -/
theorem where_fill_eval (c a b : Tensor Int) (fill : Int) (ha : IsScalar a fill) (hs : c.shape = b.shape) :
    (bcast3 c a b).shape = b.shape ∧
    ∀ ix, InRange b.shape ix → (bcast3 c a b).get ix = (fillNull fill b c).get ix := by
  obtain ⟨ha1, ha2⟩ := ha
  have hout : ((bshape a.shape b.shape).bind (bshape c.shape)).getD a.shape = b.shape := by
    simp [ha1, bshape_nil_left, hs, bshape_self]
  refine ⟨by simp only [bcast3, hout], fun ix hix => ?_⟩
  simp only [bcast3, hout, fillNull, ha2]
  rw [hs, bcastIndex_self _ _ hix]

theorem cast_or_id_zero (t acc : Nat) (T : IType) (hT : typeOfCode acc = some T) :
    (if t = acc then id else castElem acc) 0 = 0 := by
  split
  · rfl
  · unfold typeOfCode at hT
    split at hT <;> first | rfl | cases hT

theorem castElem_zero (c : Nat) : castElem c 0 = 0 := by
  unfold castElem
  split <;> first | rfl | decide

/-- `whereFill` evaluates, on in-range indices, to `g'` of `fillNull 0 values null` where `g'` is congruent to the identity
modulo `2^bits` and fixes 0. -/
theorem whereFill_zero_eval (env) (values null : TG) (t acc : Nat) (T : IType) (hT : typeOfCode acc = some T)
    (hs : (null.eval env).shape = (values.eval env).shape) :
    ∃ g : Int → Int, (∀ v, wrapU T.bits (g v) = wrapU T.bits v) ∧
      ((whereFill acc null 0 (astypeG t acc values)).eval env).shape = (values.eval env).shape ∧
      ∀ ix, InRange (values.eval env).shape ix →
        ((whereFill acc null 0 (astypeG t acc values)).eval env).get ix
          = g ((fillNull 0 (values.eval env) (null.eval env)).get ix) := by
  obtain ⟨hcast, hbits⟩ := castElem_of_code acc T hT
  obtain ⟨has, hag⟩ := astypeG_eval env values t acc
  have hz := cast_or_id_zero t acc T hT
  have hU := cast_or_id_wrapU t acc T hT
  unfold whereFill
  by_cases hu : isUnsignedCode acc = true
  · -- routed through int64
    simp only [hu, if_true]
    refine ⟨fun v => castElem acc (castElem 7 ((if t = acc then id else castElem acc) v)), ?_, ?_, ?_⟩
    · intro v
      show wrapU T.bits (castElem acc (castElem 7 ((if t = acc then id else castElem acc) v))) = _
      rw [hcast, wrapU_twrap]
      show wrapU T.bits (wrapS 64 _) = _
      rw [wrapU_wrapS64 T.bits hbits]
      exact hU v
    · obtain ⟨hws, _⟩ := where_fill_eval (null.eval env) ((iscalar 0).eval env) (((astypeG t acc values).eval env).map (castElem 7)) 0
        (isScalar_iscalar env 0) (hs.trans has.symm)
      simp only [TG.eval, Tensor.map] at hws ⊢
      exact hws.trans has
    · intro ix hix
      obtain ⟨_, hwg⟩ := where_fill_eval (null.eval env) ((iscalar 0).eval env) (((astypeG t acc values).eval env).map (castElem 7)) 0
        (isScalar_iscalar env 0) (hs.trans has.symm)
      have := hwg ix (has ▸ hix)
      simp only [TG.eval, Tensor.map] at this ⊢
      rw [this]
      simp only [fillNull, hag]
      split
      · rw [castElem_zero, hz, castElem_zero, castElem_zero]
      · rfl
  · simp only [hu, Bool.false_eq_true, if_false]
    refine ⟨(if t = acc then id else castElem acc), hU, ?_, ?_⟩
    · obtain ⟨hws, _⟩ := where_fill_eval (null.eval env) ((iscalar 0).eval env) ((astypeG t acc values).eval env) 0
        (isScalar_iscalar env 0) (hs.trans has.symm)
      simp only [TG.eval]; exact hws.trans has
    · intro ix hix
      obtain ⟨_, hwg⟩ := where_fill_eval (null.eval env) ((iscalar 0).eval env) ((astypeG t acc values).eval env) 0
        (isScalar_iscalar env 0) (hs.trans has.symm)
      simp only [TG.eval]
      rw [hwg ix (has ▸ hix)]
      simp only [fillNull, hag]
      split
      · exact hz.symm
      · rfl

/-- **`sum` of a nullable integer array at graph level (C04 / C10).**  The exported graph (`astype` → `where(null, 0, values)`,
routed through int64 for unsigned data → through int64 → `ReduceSum` → cast back) returns, at every result position, the
exact sum of the **non-null** elements of the reduced slice wrapped into the accumulator dtype: nulls count as absent, and the
result is a function of `fillNull 0 values null`, which reads `values` at non-null positions only — the payload stored under a
null cannot reach it. -/
theorem sum_nullable_graph_correct (env) (values null : TG) (t acc : Nat) (T : IType) (hT : typeOfCode acc = some T)
    (axis : AxisArg) (keepdims : Bool) (hv : axisValid (values.eval env).rank axis)
    (hs : (null.eval env).shape = (values.eval env).shape) :
    ((viaI64 acc (reduceCore .sum keepdims axis (values.eval env).rank) (whereFill acc null 0 (astypeG t acc values))).eval env).shape
      = reducedShape (values.eval env).shape axis keepdims ∧
    ∀ o, InRange (reducedShape (values.eval env).shape axis keepdims) o →
      ((viaI64 acc (reduceCore .sum keepdims axis (values.eval env).rank) (whereFill acc null 0 (astypeG t acc values))).eval env).get o
        = T.wrap ((reduceVals (fillNull 0 (values.eval env) (null.eval env)) (npFlags (values.eval env).rank axis)
            (keptIndex (npFlags (values.eval env).rank axis) keepdims o)).sum) := by
  obtain ⟨g, hgU, hws, hwg⟩ := whereFill_zero_eval env values null t acc T hT hs
  exact sum_via_core env (whereFill acc null 0 (astypeG t acc values)) (fillNull 0 (values.eval env) (null.eval env))
    g acc T hT axis keepdims hv hws hwg hgU

/-- Payload non-interference, stated on the operand of the theorem above: two values tensors that agree wherever the
element is not null give the same filled operand (hence the same sum). -/
theorem fillNull_ignores_payload (fill : Int) (v w null : Tensor Int) (hs : v.shape = w.shape)
    (h : ∀ ix, null.get ix = 0 → v.get ix = w.get ix) : (fillNull fill v null).Equiv (fillNull fill w null) := by
  refine ⟨hs, fun ix _ => ?_⟩
  simp only [fillNull]
  split
  · rfl
  · rename_i hn
    exact h ix (by simpa using hn)

/-- Non-vacuity: uint8 data summed in the default accumulator (uint64): 200 + 100 = 300, not 44. -/
example : (((sumGraph (.inp 0) 2 none 1 .none false).get!).eval [⟨[2], fun ix => if ix.headD 0 = 0 then 200 else 100⟩]).toFlat = [300] := by decide
/-- …and with `dtype=uint8` the sum wraps as NumPy's does. -/
example : (((sumGraph (.inp 0) 2 (some 2) 1 .none false).get!).eval [⟨[2], fun ix => if ix.headD 0 = 0 then 200 else 100⟩]).toFlat = [44] := by decide

/-- Non-vacuity: a nullable int32 vector [5, <null: payload 1000>, 7] sums to 12. -/
example : (((sumNullableGraph (.inp 0) (.inp 1) 6 1 .none false).get!).eval
    [⟨[3], fun ix => [5, 1000, 7].getD (ix.headD 0) 0⟩, ⟨[3], fun ix => [0, 1, 0].getD (ix.headD 0) 0⟩]).toFlat = [12] := by decide

end Ndx.TGraph
