import NdonnxVerif.Lemmas.GetitemNew
/-!
# C08 — the full basic index on every rank: integers, slices, `None`, one ellipsis (model = NumPy), and the exported graph
-/
namespace Ndx.TGraph
open Ndx Ndx.Spec Ndx.C08

/-- Admissible basic indices without an ellipsis: in-range integers, in-bounds slices, `None`; one entry per axis
(`None` consumes no axis). -/
def AdmissibleN : List Ix → List Nat → Prop
  | [], [] => True
  | .newaxis :: I, sh => AdmissibleN I sh
  | .int i :: I, n :: sh => (-(n : Int) ≤ i ∧ i < (n : Int)) ∧ AdmissibleN I sh
  | .slice a b c :: I, n :: sh => (sliceInBounds (Int.ofNat n) a b c ∧ Int.ofNat n ≤ int64Max) ∧ AdmissibleN I sh
  | _, _ => False

theorem admN_facts : ∀ (I : List Ix) (sh : List Nat), AdmissibleN I sh →
    (∀ e ∈ I, (∃ i, e = .int i) ∨ (∃ a b c, e = .slice a b c) ∨ e = .newaxis) ∧
    (dropNew (I.map normE)).length = sh.length ∧ IntsInRange (dropNew (I.map normE)) sh
  | [], [], _ => ⟨by simp, rfl, trivial⟩
  | .newaxis :: I, sh, h => by
    obtain ⟨h1, h2, h3⟩ := admN_facts I sh h
    refine ⟨?_, by simpa [dropNew, List.filter_cons, normE, isNew_new] using h2, by simpa [dropNew, List.filter_cons, normE, isNew_new] using h3⟩
    intro e he
    rcases List.mem_cons.mp he with rfl | he
    · exact Or.inr (Or.inr rfl)
    · exact h1 e he
  | .int i :: I, n :: sh, h => by
    obtain ⟨h1, h2, h3⟩ := admN_facts I sh h.2
    refine ⟨?_, by simpa [dropNew, List.filter_cons, normE, isNew_int] using h2, ?_⟩
    · intro e he
      rcases List.mem_cons.mp he with rfl | he
      · exact Or.inl ⟨i, rfl⟩
      · exact h1 e he
    · simp only [List.map_cons, normE, dropNew, List.filter_cons, isNew_int, Bool.not_false, if_true, IntsInRange]
      exact ⟨h.1, h3⟩
  | .slice a b c :: I, n :: sh, h => by
    obtain ⟨h1, h2, h3⟩ := admN_facts I sh h.2
    have hnn : isNewaxis (normSl (a, b, c)) = false := normSl_not_newaxis (a, b, c)
    refine ⟨?_, by simpa [dropNew, List.filter_cons, normE, hnn] using h2, ?_⟩
    · intro e he
      rcases List.mem_cons.mp he with rfl | he
      · exact Or.inr (Or.inl ⟨a, b, c, rfl⟩)
      · exact h1 e he
    · simp only [List.map_cons, normE, dropNew, List.filter_cons, hnn, Bool.not_false, if_true]
      simp only [dropNew] at h3
      simp only [normSl]
      split <;> exact h3
  | [], _ :: _, h => by cases h
  | .ellipsis :: _, _, h => by cases h
  | .bad :: _, _, h => by cases h
  | .int _ :: _, [], h => by cases h
  | .slice _ _ _ :: _, [], h => by cases h

theorem basic_eq_modelN : ∀ (I : List Ix) (sh : List Nat), AdmissibleN I sh →
    (Spec.basic I sh).1 = modelS' (I.map normE) sh ∧
    ∀ o, InRange (modelS' (I.map normE) sh) o → (Spec.basic I sh).2 o = modelF' (I.map normE) sh o
  | [], [], _ => by
    refine ⟨rfl, ?_⟩
    intro o ho
    simp only [List.map_nil, modelS'] at ho
    match o, ho with
    | [], _ => rfl
  | .newaxis :: I, sh, h => by
    obtain ⟨ih1, ih2⟩ := basic_eq_modelN I sh h
    simp only [Spec.basic, List.map_cons, normE, modelS', modelF']
    refine ⟨by rw [ih1], fun o ho => ?_⟩
    match o, ho with
    | y :: o, ho => simp only [List.tail_cons]; exact ih2 o ho.2
  | .int i :: I, n :: sh, h => by
    obtain ⟨ih1, ih2⟩ := basic_eq_modelN I sh h.2
    simp only [Spec.basic, List.map_cons, normE, modelS', modelF']
    refine ⟨ih1, fun o ho => ?_⟩
    rw [ih2 o ho]
    simp [normIdx]
  | .slice a b c :: I, n :: sh, h => by
    obtain ⟨ih1, ih2⟩ := basic_eq_modelN I sh h.2
    obtain ⟨⟨hb, hn⟩, _⟩ := h
    have hagree := slice_axis_agree n hn a b c hb (normSl (a, b, c)) (normaliseEntry_slice (a, b, c))
    obtain ⟨hc, hp⟩ := positions_eq_iff _ _ hagree
    have hns : ∀ (E : List NIx) (o : List Nat),
        modelS' (normSl (a, b, c) :: E) (n :: sh) = (modelAxis n (normSl (a, b, c))).2.1 :: modelS' E sh ∧
        modelF' (normSl (a, b, c) :: E) (n :: sh) o
          = ((modelAxis n (normSl (a, b, c))).1 + Int.ofNat (o.headD 0) * (modelAxis n (normSl (a, b, c))).2.2).toNat :: modelF' E sh o.tail := by
      intro E o
      simp only [normSl]
      split <;> exact ⟨rfl, rfl⟩
    simp only [Spec.basic, List.map_cons, normE]
    rw [(hns _ []).1]
    refine ⟨by rw [ih1, hc], fun o ho => ?_⟩
    rw [(hns _ o).2]
    match o, ho with
    | y :: o, ho =>
      simp only [List.headD_cons, List.tail_cons]
      rw [ih2 o ho.2, hp y ho.1]
  | [], _ :: _, h => by cases h
  | .ellipsis :: _, _, h => by cases h
  | .bad :: _, _, h => by cases h
  | .int _ :: _, [], h => by cases h
  | .slice _ _ _ :: _, [], h => by cases h


theorem normaliseAll_basicN : ∀ (I : List Ix),
    (∀ e ∈ I, (∃ i, e = .int i) ∨ (∃ a b c, e = .slice a b c) ∨ e = .newaxis) → normaliseAll I = .ok (I.map normE)
  | [], _ => rfl
  | e :: I, h => by
    have ih := normaliseAll_basicN I (fun e he => h e (List.mem_cons_of_mem _ he))
    rcases h e (by simp) with ⟨i, rfl⟩ | ⟨a, b, c, rfl⟩ | rfl
    · simp only [normaliseAll, normaliseEntry, ih, List.map_cons, normE]
    · simp only [normaliseAll, ih, List.map_cons, normE]
      rw [show normaliseEntry (.slice a b c) = .ok (normSl (a, b, c)) from normaliseEntry_slice (a, b, c)]
    · simp only [normaliseAll, normaliseEntry, ih, List.map_cons, normE]

theorem expand_noEllipsis (rank : Nat) : ∀ (I : List Ix), (∀ e ∈ I, e ≠ .ellipsis) → Spec.expand rank I = I := by
  intro I h
  unfold Spec.expand
  generalize (List.filter (fun x => !isNoneOrEllipsis x) I).length = c
  induction I with
  | nil => rfl
  | cons e I ih =>
    have := ih (fun e he => h e (List.mem_cons_of_mem _ he))
    have hne := h e (by simp)
    cases e <;> simp_all [List.flatMap_cons]

/-- **C08 for every rank: integers, slices and `None`** (no ellipsis). -/
theorem getitem_basic_noEllipsis (t : Tensor α) (I : List Ix) (h : AdmissibleN I t.shape) :
    ∃ r, Ndx.getitem t I = .ok r ∧ r.Equiv (Spec.getitem t I) := by
  obtain ⟨hent, hlen, hints⟩ := admN_facts I t.shape h
  have hnoE : ∀ e ∈ I, e ≠ .ellipsis := by
    intro e he
    rcases hent e he with ⟨i, rfl⟩ | ⟨a, b, c, rfl⟩ | rfl <;> simp
  have hne : I.any isEllipsis = false := by
    rw [List.any_eq_false]
    intro e he
    rcases hent e he with ⟨i, rfl⟩ | ⟨a, b, c, rfl⟩ | rfl <;> simp [isEllipsis]
  have hnorm : normaliseIndex t.rank I = .ok (I.map normE) := by
    simp only [normaliseIndex, constructIndex, hne, Bool.false_eq_true, if_false, normaliseAll_basicN I hent, bind, Except.bind]
    have hf : ((I.map normE).filter (fun x => !isNewaxis x)).length = t.rank := by
      simpa [dropNew, Tensor.rank] using hlen
    simp [hf]
  simp only [Ndx.getitem, hnorm, bind, Except.bind]
  refine ⟨_, rfl, ?_⟩
  obtain ⟨m1, m2⟩ := getitemCore_withNew t (I.map normE) hlen hints
  obtain ⟨s1, s2⟩ := basic_eq_modelN I t.shape h
  constructor
  · simp only [Spec.getitem, expand_noEllipsis t.rank I hnoE]
    rw [m1, s1]
  · intro o ho
    rw [m1] at ho
    simp only [Spec.getitem, expand_noEllipsis t.rank I hnoE]
    rw [m2 o ho, s2 o ho]

/-- What an ellipsis stands for: `rank - consumed` full slices. -/
def expandEllipsis (rank : Nat) (pre post : List Ix) : List Ix :=
  pre ++ List.replicate (rank - ((pre ++ post).filter (fun x => !isNoneOrEllipsis x)).length) (Ix.slice none none none) ++ post

theorem findIdx_ellipsis (pre post : List Ix) (hpre : ∀ e ∈ pre, e ≠ .ellipsis) :
    (pre ++ .ellipsis :: post).findIdx isEllipsis = pre.length := by
  induction pre with
  | nil => simp [List.findIdx_cons, isEllipsis]
  | cons e pre ih =>
    have hne := hpre e (by simp)
    have := ih (fun e he => hpre e (List.mem_cons_of_mem _ he))
    rw [List.cons_append, List.findIdx_cons]
    have : isEllipsis e = false := by cases e <;> simp_all [isEllipsis]
    simp [this, ih (fun e he => hpre e (List.mem_cons_of_mem _ he))]

theorem filter_some_ellipsis (pre post : List Ix) :
    ((pre ++ .ellipsis :: post).filter (fun x => !isNoneOrEllipsis x)) = (pre ++ post).filter (fun x => !isNoneOrEllipsis x) := by
  simp [List.filter_append, List.filter_cons, isNoneOrEllipsis]

/-- The model's `construct_index` and NumPy's reading expand a single ellipsis to the same list. -/
theorem ellipsis_expansion (rank : Nat) (pre post : List Ix)
    (hpre : ∀ e ∈ pre, e ≠ .ellipsis) (hpost : ∀ e ∈ post, e ≠ .ellipsis) :
    constructIndex rank (pre ++ .ellipsis :: post) = normaliseAll (expandEllipsis rank pre post) ∧
    Spec.expand rank (pre ++ .ellipsis :: post) = expandEllipsis rank pre post := by
  constructor
  · have hany : (pre ++ .ellipsis :: post).any isEllipsis = true := by simp [isEllipsis]
    simp only [constructIndex, hany, if_true, findIdx_ellipsis pre post hpre, filter_some_ellipsis, expandEllipsis]
    congr 1
    simp
  · unfold Spec.expand expandEllipsis
    rw [filter_some_ellipsis]
    generalize (List.filter (fun x => !isNoneOrEllipsis x) (pre ++ post)).length = c
    have key : ∀ (g : Ix → List Ix) (R : List Ix), g .ellipsis = R → (∀ e, e ≠ .ellipsis → g e = [e]) →
        (pre ++ .ellipsis :: post).flatMap g = pre ++ R ++ post := by
      intro g R hR hg
      have hid : ∀ (l : List Ix), (∀ e ∈ l, e ≠ .ellipsis) → l.flatMap g = l := by
        intro l hl
        induction l with
        | nil => rfl
        | cons e l ih =>
          rw [List.flatMap_cons, hg e (hl e (by simp)), ih (fun e he => hl e (List.mem_cons_of_mem _ he))]
          rfl
      rw [List.flatMap_append, List.flatMap_cons, hid pre hpre, hid post hpost, hR]
      simp
    apply key
    · rfl
    · intro e he
      cases e <;> simp_all

/-- **C08, the full basic index, every rank.**  `x[index]` for an index of in-range integers (negative too), slices inside
the standard's bounds (any step sign, bounds given or omitted), `None` entries and one ellipsis standing for the
remaining axes: the model of what ndonnx emits accepts it and returns exactly the elements, in the order and shape,
that NumPy returns — for every rank, every shape (extents 0 and 1 included) and every element type. -/
theorem getitem_basic_nd (t : Tensor α) (pre post : List Ix)
    (hpre : ∀ e ∈ pre, e ≠ .ellipsis) (hpost : ∀ e ∈ post, e ≠ .ellipsis)
    (h : AdmissibleN (expandEllipsis t.rank pre post) t.shape) :
    ∃ r, Ndx.getitem t (pre ++ .ellipsis :: post) = .ok r ∧ r.Equiv (Spec.getitem t (pre ++ .ellipsis :: post)) := by
  obtain ⟨hc, he⟩ := ellipsis_expansion t.rank pre post hpre hpost
  obtain ⟨r, hr, heq⟩ := getitem_basic_noEllipsis t (expandEllipsis t.rank pre post) h
  -- the expanded index has no ellipsis, so `construct_index` leaves it alone
  obtain ⟨hent, _, _⟩ := admN_facts _ t.shape h
  have hne : (expandEllipsis t.rank pre post).any isEllipsis = false := by
    rw [List.any_eq_false]
    intro e he'
    rcases hent e he' with ⟨i, rfl⟩ | ⟨a, b, c, rfl⟩ | rfl <;> simp [isEllipsis]
  have hsame : normaliseIndex t.rank (pre ++ .ellipsis :: post) = normaliseIndex t.rank (expandEllipsis t.rank pre post) := by
    simp only [normaliseIndex, hc]
    simp only [constructIndex, hne, Bool.false_eq_true, if_false]
  refine ⟨r, ?_, ?_⟩
  · simp only [Ndx.getitem] at hr ⊢
    rw [hsame]; exact hr
  · have hs : Spec.getitem t (pre ++ .ellipsis :: post) = Spec.getitem t (expandEllipsis t.rank pre post) := by
      obtain ⟨hent', _, _⟩ := admN_facts _ t.shape h
      have hnoE : ∀ e ∈ expandEllipsis t.rank pre post, e ≠ .ellipsis := by
        intro e he'
        rcases hent' e he' with ⟨i, rfl⟩ | ⟨a, b, c, rfl⟩ | rfl <;> simp
      simp only [Spec.getitem, he, expand_noEllipsis t.rank _ hnoE]
    rw [hs]; exact heq

/-- **C08 / C06 at graph level, the full basic index without ellipsis.**  The exported graph (the term the check compares
with the library's export on every run), evaluated on any integer tensor of any admissible shape, is NumPy's `x[index]`. -/
theorem exported_basic_graph_correct (t : Tensor Int) (I : List Ix) (h : AdmissibleN I t.shape) :
    ((getitemGraph (.inp 0) (I.map normE)).eval [t]).Equiv (Spec.getitem t I) := by
  obtain ⟨r, hr, he⟩ := getitem_basic_noEllipsis t I h
  obtain ⟨hent, hlen, _⟩ := admN_facts I t.shape h
  have hne : I.any isEllipsis = false := by
    rw [List.any_eq_false]
    intro e he'
    rcases hent e he' with ⟨i, rfl⟩ | ⟨a, b, c, rfl⟩ | rfl <;> simp [isEllipsis]
  have hnorm : normaliseIndex t.rank I = .ok (I.map normE) := by
    simp only [normaliseIndex, constructIndex, hne, Bool.false_eq_true, if_false, normaliseAll_basicN I hent, bind, Except.bind]
    have hf : ((I.map normE).filter (fun x => !isNewaxis x)).length = t.rank := by
      simpa [dropNew, Tensor.rank] using hlen
    simp [hf]
  rw [getitem_via_graph t _ _ hnorm] at hr
  injection hr with hr
  rw [hr]; exact he

/-- Non-vacuity: `x[None, -1, ..., ::-1]` on a 2×3×2 tensor is admissible after the ellipsis is expanded. -/
example : AdmissibleN (expandEllipsis 3 [.newaxis, .int (-1)] [.slice none none (some (-1))]) [2, 3, 2] := by
  refine ⟨by decide, ⟨?_, by decide⟩, ⟨?_, by decide⟩, trivial⟩
  · refine ⟨by decide, ?_, ?_⟩ <;> intro v hv <;> simp at hv
  · refine ⟨by decide, ?_, ?_⟩ <;> intro v hv <;> simp at hv

example : ((getitemGraph (.inp 0) ((expandEllipsis 2 [.newaxis, .int (-1)] [.slice none none (some (-1))]).map normE)).eval
    [⟨[2, 3], fun ix => Int.ofNat (ravel [2, 3] ix)⟩]).shape = [1, 3] := by decide
example : ((getitemGraph (.inp 0) ((expandEllipsis 2 [.newaxis, .int (-1)] [.slice none none (some (-1))]).map normE)).eval
    [⟨[2, 3], fun ix => Int.ofNat (ravel [2, 3] ix)⟩]).toFlat = [5, 4, 3] := by decide

end Ndx.TGraph
