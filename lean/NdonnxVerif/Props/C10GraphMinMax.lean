import NdonnxVerif.Props.C10GraphProd
/-!
# C10 at graph level — `min` / `max`: the exported graph returns an element of the slice that bounds every element
-/
namespace Ndx.TGraph
open Ndx Ndx.Spec Ndx.C02

theorem fold_min_spec (l : List Int) : ∀ a : Int,
    l.foldl minf a ≤ a ∧ (∀ v ∈ l, l.foldl minf a ≤ v) ∧ (l.foldl minf a = a ∨ l.foldl minf a ∈ l) := by
  induction l with
  | nil => intro a; simp
  | cons x l ih =>
    intro a
    obtain ⟨h1, h2, h3⟩ := ih (minf a x)
    simp only [List.foldl_cons]
    have hm : minf a x ≤ a ∧ minf a x ≤ x ∧ (minf a x = a ∨ minf a x = x) := by
      unfold minf; split <;> omega
    refine ⟨by omega, ?_, ?_⟩
    · intro v hv
      rcases List.mem_cons.mp hv with rfl | hv
      · omega
      · exact h2 v hv
    · rcases h3 with h | h
      · rcases hm.2.2 with h' | h'
        · left; omega
        · right; rw [h, h']; exact List.mem_cons_self
      · right; exact List.mem_cons_of_mem _ h

theorem fold_max_spec (l : List Int) : ∀ a : Int,
    a ≤ l.foldl maxf a ∧ (∀ v ∈ l, v ≤ l.foldl maxf a) ∧ (l.foldl maxf a = a ∨ l.foldl maxf a ∈ l) := by
  induction l with
  | nil => intro a; simp
  | cons x l ih =>
    intro a
    obtain ⟨h1, h2, h3⟩ := ih (maxf a x)
    simp only [List.foldl_cons]
    have hm : a ≤ maxf a x ∧ x ≤ maxf a x ∧ (maxf a x = a ∨ maxf a x = x) := by
      unfold maxf; split <;> omega
    refine ⟨by omega, ?_, ?_⟩
    · intro v hv
      rcases List.mem_cons.mp hv with rfl | hv
      · omega
      · exact h2 v hv
    · rcases h3 with h | h
      · rcases hm.2.2 with h' | h'
        · left; omega
        · right; rw [h, h']; exact List.mem_cons_self
      · right; exact List.mem_cons_of_mem _ h

/-- The minimum of a non-empty list of int64 values, as the `ReduceMin` fold computes it. -/
theorem fold_min_is_min (l : List Int) (hne : l ≠ []) (hr : ∀ v ∈ l, v ≤ int64Max) :
    l.foldl minf int64Max ∈ l ∧ ∀ v ∈ l, l.foldl minf int64Max ≤ v := by
  obtain ⟨h1, h2, h3⟩ := fold_min_spec l int64Max
  refine ⟨?_, h2⟩
  rcases h3 with h | h
  · obtain ⟨x, hx⟩ := List.exists_mem_of_ne_nil l hne
    have := h2 x hx
    have := hr x hx
    have : x = l.foldl minf int64Max := by omega
    rw [← this]; exact hx
  · exact h

theorem fold_max_is_max (l : List Int) (hne : l ≠ []) (hr : ∀ v ∈ l, int64Min ≤ v) :
    l.foldl maxf int64Min ∈ l ∧ ∀ v ∈ l, v ≤ l.foldl maxf int64Min := by
  obtain ⟨h1, h2, h3⟩ := fold_max_spec l int64Min
  refine ⟨?_, h2⟩
  rcases h3 with h | h
  · obtain ⟨x, hx⟩ := List.exists_mem_of_ne_nil l hne
    have := h2 x hx
    have := hr x hx
    have : x = l.foldl maxf int64Min := by omega
    rw [← this]; exact hx
  · exact h


theorem reduceVals_forall (x : Tensor Int) (red : List Bool) (ko : List Nat) (P : Int → Prop)
    (hl : red.length = x.shape.length) (hk : InRange (keptExtents x.shape red) ko)
    (h : ∀ ix, InRange x.shape ix → P (x.get ix)) : ∀ v ∈ reduceVals x red ko, P v := by
  intro v hv
  simp only [reduceVals, List.mem_map] at hv
  obtain ⟨r, hr, rfl⟩ := hv
  exact h _ (mergeIdx_inRange _ _ _ _ hl hk (mem_allIdx_inRange _ _ hr))

theorem reduceMinMax_pointwise (k : RKind) (hk : k = .min ∨ k = .max) (e x : Tensor Int) (g : Int → Int) (axis : AxisArg) (keepdims : Bool)
    (hv : axisValid x.rank axis) (hs : e.shape = x.shape) (hg : ∀ ix, InRange x.shape ix → e.get ix = g (x.get ix)) :
    (reduceOp k keepdims (axis != .none) e (normalizeAxes x.rank axis)).shape = reducedShape x.shape axis keepdims ∧
    ∀ o, InRange (reducedShape x.shape axis keepdims) o →
      (reduceOp k keepdims (axis != .none) e (normalizeAxes x.rank axis)).get o
        = ((reduceVals x (npFlags x.rank axis) (keptIndex (npFlags x.rank axis) keepdims o)).map g).foldl
            (if k = .min then minf else maxf) (if k = .min then int64Max else int64Min) ∧
        InRange (keptExtents x.shape (npFlags x.rank axis)) (keptIndex (npFlags x.rank axis) keepdims o) := by
  have her : e.rank = x.rank := by simp [Tensor.rank, hs]
  have hflags := reduceOp_flags x.rank axis hv
  have hl : (npFlags x.rank axis).length = x.shape.length := by simp [npFlags, Tensor.rank]
  rcases hk with rfl | rfl
  · obtain ⟨hps, hpg⟩ := reduceT_of_pointwise minf int64Max e x g (npFlags x.rank axis) keepdims hl hs hg
    have hxs : (reduceT minf int64Max x (npFlags x.rank axis) keepdims).shape = reducedShape x.shape axis keepdims := by
      rw [← hflags, reduceT_shape, normAxes_id _ _ hv, ← C10.reduce_shape]; rfl
    have hR : reduceOp .min keepdims (axis != .none) e (normalizeAxes x.rank axis) = reduceT minf int64Max e (npFlags x.rank axis) keepdims := by
      simp only [reduceOp]; rw [her, hflags]; rfl
    rw [hR]
    refine ⟨hps.trans hxs, fun o ho => ⟨by simpa using hpg o (hxs ▸ ho), ?_⟩⟩
    apply keptIndex_inRange _ _ _ _ hl
    have := hxs ▸ ho
    unfold reduceT at this
    cases keepdims <;> simpa using this
  · obtain ⟨hps, hpg⟩ := reduceT_of_pointwise maxf int64Min e x g (npFlags x.rank axis) keepdims hl hs hg
    have hxs : (reduceT maxf int64Min x (npFlags x.rank axis) keepdims).shape = reducedShape x.shape axis keepdims := by
      rw [← hflags, reduceT_shape, normAxes_id _ _ hv, ← C10.reduce_shape]; rfl
    have hR : reduceOp .max keepdims (axis != .none) e (normalizeAxes x.rank axis) = reduceT maxf int64Min e (npFlags x.rank axis) keepdims := by
      simp only [reduceOp]; rw [her, hflags]; rfl
    rw [hR]
    refine ⟨hps.trans hxs, fun o ho => ⟨by simpa using hpg o (hxs ▸ ho), ?_⟩⟩
    apply keptIndex_inRange _ _ _ _ hl
    have := hxs ▸ ho
    unfold reduceT at this
    cases keepdims <;> simpa using this

/-- **`min` at graph level.**  For operands whose elements are representable in their dtype and in int64 (every integer
dtype except uint64 values ≥ 2⁶³ — the recorded finding), the exported graph (through int64 → `ReduceMin` → cast back)
returns, at every result position whose slice is non-empty, an element of the slice that is ≤ every element of it: NumPy's
minimum.  Shape: NumPy's. -/
theorem min_graph_correct (env) (x : TG) (t : Nat) (axis : AxisArg) (keepdims : Bool)
    (hv : axisValid (x.eval env).rank axis)
    (hrep : ∀ ix, InRange (x.eval env).shape ix →
      castElem 7 ((x.eval env).get ix) = (x.eval env).get ix ∧ castElem t ((x.eval env).get ix) = (x.eval env).get ix ∧
      (x.eval env).get ix ≤ int64Max) :
    ((minGraph x t (x.eval env).rank axis keepdims).eval env).shape = reducedShape (x.eval env).shape axis keepdims ∧
    ∀ o, InRange (reducedShape (x.eval env).shape axis keepdims) o →
      reduceVals (x.eval env) (npFlags (x.eval env).rank axis) (keptIndex (npFlags (x.eval env).rank axis) keepdims o) ≠ [] →
      ((minGraph x t (x.eval env).rank axis keepdims).eval env).get o
          ∈ reduceVals (x.eval env) (npFlags (x.eval env).rank axis) (keptIndex (npFlags (x.eval env).rank axis) keepdims o) ∧
      ∀ v ∈ reduceVals (x.eval env) (npFlags (x.eval env).rank axis) (keptIndex (npFlags (x.eval env).rank axis) keepdims o),
        ((minGraph x t (x.eval env).rank axis keepdims).eval env).get o ≤ v := by
  have hl : (npFlags (x.eval env).rank axis).length = (x.eval env).shape.length := by simp [npFlags, Tensor.rank]
  unfold minGraph viaI64
  by_cases h7 : t = 7
  · subst h7
    simp only [if_true, reduceCore, TG.eval, eval_ivec_toFlat]
    obtain ⟨h1, h2⟩ := reduceMinMax_pointwise .min (Or.inl rfl) (x.eval env) (x.eval env) id axis keepdims hv rfl (fun _ _ => rfl)
    refine ⟨h1, fun o ho hne => ?_⟩
    obtain ⟨hget, hko⟩ := h2 o ho
    simp only [if_true, List.map_id] at hget
    rw [hget]
    exact fold_min_is_min _ hne (reduceVals_forall _ _ _ (· ≤ int64Max) hl hko (fun ix hix => (hrep ix hix).2.2))
  · simp only [h7, if_false, reduceCore, TG.eval, eval_ivec_toFlat]
    obtain ⟨h1, h2⟩ := reduceMinMax_pointwise .min (Or.inl rfl) ((x.eval env).map (castElem 7)) (x.eval env) (castElem 7) axis keepdims hv rfl (fun _ _ => rfl)
    refine ⟨by simpa [Tensor.map] using h1, fun o ho hne => ?_⟩
    obtain ⟨hget, hko⟩ := h2 o ho
    simp only [if_true] at hget
    generalize hV : reduceVals (x.eval env) (npFlags (x.eval env).rank axis) (keptIndex (npFlags (x.eval env).rank axis) keepdims o) = vals at hne hget ⊢
    have hall : ∀ (P : Int → Prop), (∀ ix, InRange (x.eval env).shape ix → P ((x.eval env).get ix)) → ∀ v ∈ vals, P v := by
      intro P hP; rw [← hV]; exact reduceVals_forall _ _ _ P hl hko hP
    have hmap : vals.map (castElem 7) = vals := by
      conv => rhs; rw [← List.map_id vals]
      apply List.map_congr_left
      intro v hv'
      exact hall (fun v => castElem 7 v = v) (fun ix hix => (hrep ix hix).1) v hv'
    simp only [Tensor.map] at hget ⊢
    rw [hget, hmap]
    obtain ⟨hm1, hm2⟩ := fold_min_is_min vals hne (hall (· ≤ int64Max) (fun ix hix => (hrep ix hix).2.2))
    have hc : castElem t (vals.foldl minf int64Max) = vals.foldl minf int64Max :=
      hall (fun v => castElem t v = v) (fun ix hix => (hrep ix hix).2.1) _ hm1
    rw [hc]
    exact ⟨hm1, hm2⟩

/-- **`max` at graph level.**  For operands whose elements are representable in their dtype and in int64 (every integer
dtype except uint64 values ≥ 2⁶³ — the recorded finding), the exported graph (through int64 → `ReduceMax` → cast back)
returns, at every result position whose slice is non-empty, an element of the slice that is ≥ every element of it: NumPy's
maximum.  Shape: NumPy's. -/
theorem max_graph_correct (env) (x : TG) (t : Nat) (axis : AxisArg) (keepdims : Bool)
    (hv : axisValid (x.eval env).rank axis)
    (hrep : ∀ ix, InRange (x.eval env).shape ix →
      castElem 7 ((x.eval env).get ix) = (x.eval env).get ix ∧ castElem t ((x.eval env).get ix) = (x.eval env).get ix ∧
      int64Min ≤ (x.eval env).get ix) :
    ((maxGraph x t (x.eval env).rank axis keepdims).eval env).shape = reducedShape (x.eval env).shape axis keepdims ∧
    ∀ o, InRange (reducedShape (x.eval env).shape axis keepdims) o →
      reduceVals (x.eval env) (npFlags (x.eval env).rank axis) (keptIndex (npFlags (x.eval env).rank axis) keepdims o) ≠ [] →
      ((maxGraph x t (x.eval env).rank axis keepdims).eval env).get o
          ∈ reduceVals (x.eval env) (npFlags (x.eval env).rank axis) (keptIndex (npFlags (x.eval env).rank axis) keepdims o) ∧
      ∀ v ∈ reduceVals (x.eval env) (npFlags (x.eval env).rank axis) (keptIndex (npFlags (x.eval env).rank axis) keepdims o),
        v ≤ ((maxGraph x t (x.eval env).rank axis keepdims).eval env).get o := by
  have hl : (npFlags (x.eval env).rank axis).length = (x.eval env).shape.length := by simp [npFlags, Tensor.rank]
  unfold maxGraph viaI64
  by_cases h7 : t = 7
  · subst h7
    simp only [if_true, reduceCore, TG.eval, eval_ivec_toFlat]
    obtain ⟨h1, h2⟩ := reduceMinMax_pointwise .max (Or.inr rfl) (x.eval env) (x.eval env) id axis keepdims hv rfl (fun _ _ => rfl)
    refine ⟨h1, fun o ho hne => ?_⟩
    obtain ⟨hget, hko⟩ := h2 o ho
    simp only [show ¬ (RKind.max = RKind.min) by decide, if_false, List.map_id] at hget
    rw [hget]
    exact fold_max_is_max _ hne (reduceVals_forall _ _ _ (int64Min ≤ ·) hl hko (fun ix hix => (hrep ix hix).2.2))
  · simp only [h7, if_false, reduceCore, TG.eval, eval_ivec_toFlat]
    obtain ⟨h1, h2⟩ := reduceMinMax_pointwise .max (Or.inr rfl) ((x.eval env).map (castElem 7)) (x.eval env) (castElem 7) axis keepdims hv rfl (fun _ _ => rfl)
    refine ⟨by simpa [Tensor.map] using h1, fun o ho hne => ?_⟩
    obtain ⟨hget, hko⟩ := h2 o ho
    simp only [show ¬ (RKind.max = RKind.min) by decide, if_false] at hget
    generalize hV : reduceVals (x.eval env) (npFlags (x.eval env).rank axis) (keptIndex (npFlags (x.eval env).rank axis) keepdims o) = vals at hne hget ⊢
    have hall : ∀ (P : Int → Prop), (∀ ix, InRange (x.eval env).shape ix → P ((x.eval env).get ix)) → ∀ v ∈ vals, P v := by
      intro P hP; rw [← hV]; exact reduceVals_forall _ _ _ P hl hko hP
    have hmap : vals.map (castElem 7) = vals := by
      conv => rhs; rw [← List.map_id vals]
      apply List.map_congr_left
      intro v hv'
      exact hall (fun v => castElem 7 v = v) (fun ix hix => (hrep ix hix).1) v hv'
    simp only [Tensor.map] at hget ⊢
    rw [hget, hmap]
    obtain ⟨hm1, hm2⟩ := fold_max_is_max vals hne (hall (int64Min ≤ ·) (fun ix hix => (hrep ix hix).2.2))
    have hc : castElem t (vals.foldl maxf int64Min) = vals.foldl maxf int64Min :=
      hall (fun v => castElem t v = v) (fun ix hix => (hrep ix hix).2.1) _ hm1
    rw [hc]
    exact ⟨hm1, hm2⟩


end Ndx.TGraph

