import NdonnxVerif.Model.StaticShape
import NdonnxVerif.Props.C15
/-!
# C15 — the dims reported for `x[index]` before any data exists never contradict run time
-/
namespace Ndx.C15
open Ndx

theorem admits_slice (d : Dims) (t : Tensor α) (specs : List (Nat × Int × Int × Int)) (h : Admits d t.shape) :
    Admits (staticSlice d specs) (onnxSlice t specs).shape := by
  obtain ⟨hl, _⟩ := h
  refine ⟨by simp [staticSlice, onnxSlice, hl], ?_⟩
  intro k v hkv
  simp only [staticSlice, List.getElem?_map] at hkv
  cases hd : d[k]? <;> simp [hd] at hkv

theorem admits_erase (d : Dims) (sh : List Nat) (a : Nat) (h : Admits d sh) : Admits (d.eraseIdx a) (sh.eraseIdx a) := by
  obtain ⟨hl, hv⟩ := h
  refine ⟨by simp [List.length_eraseIdx, hl], ?_⟩
  intro k v hkv
  rw [List.getElem?_eraseIdx] at hkv ⊢
  split at hkv
  · rename_i hlt; simp only [hlt, if_true]; exact hv k v hkv
  · rename_i hge; simp only [hge, if_false]; exact hv (k + 1) v hkv

theorem admits_insert (d : Dims) (sh : List Nat) (a : Nat) (h : Admits d sh) :
    Admits (d.take a ++ some 1 :: d.drop a) (sh.take a ++ 1 :: sh.drop a) := by
  obtain ⟨hl, hv⟩ := h
  refine ⟨by simp [hl], ?_⟩
  intro k v hkv
  by_cases h1 : k < min a d.length
  · rw [List.getElem?_append_left (by simpa using h1)] at hkv
    rw [List.getElem?_append_left (by simp; omega)]
    rw [List.getElem?_take] at hkv ⊢
    simp only [show k < a by omega, if_true] at hkv ⊢
    exact hv k v hkv
  · rw [List.getElem?_append_right (by simpa using h1)] at hkv
    rw [List.getElem?_append_right (by simp; omega)]
    simp only [List.length_take] at hkv ⊢
    rw [hl] at hkv h1
    by_cases h2 : k - min a sh.length = 0
    · simp only [h2, List.getElem?_cons_zero, Option.some.injEq] at hkv
      simp [h2]
      omega
    · obtain ⟨j, hj⟩ : ∃ j, k - min a sh.length = j + 1 := ⟨k - min a sh.length - 1, by omega⟩
      simp only [hj, List.getElem?_cons_succ, List.getElem?_drop] at hkv ⊢
      exact hv (a + j) v hkv

theorem admits_insertAt (na : List Nat) : ∀ (d : Dims) (sh : List Nat), Admits d sh →
    Admits (insertAt d (some 1) na) (insertAt sh 1 na) := by
  induction na with
  | nil => intro d sh h; exact h
  | cons a na ih =>
    intro d sh h
    simp only [insertAt, List.foldl_cons]
    exact ih _ _ (admits_insert d sh a h)

theorem admits_gathers (l : List (Nat × Int)) : ∀ (d : Dims) (t : Tensor α), Admits d t.shape →
    Admits (l.foldl (fun acc p => acc.eraseIdx p.1) d) (l.foldl (fun acc p => onnxGatherScalar acc p.2 p.1) t).shape := by
  induction l with
  | nil => intro d t h; exact h
  | cons p l ih =>
    intro d t h
    simp only [List.foldl_cons]
    exact ih _ _ (admits_erase d t.shape p.1 h)

/-- **C15 for `x[index]`.**  Whatever the declared dims of the operand (static, symbolic, unknown, mixed) and
whatever run-time shape they admit, the dims reported for `x[index]` — the hand-written annotation after `Slice`,
then ONNX inference through the scalar `Gather`s and the `Unsqueeze` — admit the run-time shape of the result:
same rank, and every reported integer extent is the run-time extent. -/
theorem static_getitem_sound (d : Dims) (t : Tensor α) (index : List NIx) (h : Admits d t.shape) :
    Admits (staticGetitem d index) (getitemCore t index).shape := by
  unfold staticGetitem getitemCore
  simp only []
  have h1 : Admits (if (axisSlices index).isEmpty = true then d else staticSlice d (axisSlices index))
      (if (axisSlices index).isEmpty = true then t else onnxSlice t (axisSlices index)).shape := by
    split
    · exact h
    · exact admits_slice d t _ h
  have h2 := admits_gathers (axisIndices index).reverse _ _ h1
  split
  · exact h2
  · exact admits_insertAt _ _ _ h2

/-- Non-vacuity: mixed declared dims admit a concrete shape, and the reported dims of `x[1:, None, 0]`. -/
example : Admits [none, some 3] [5, 3] := by
  refine ⟨rfl, ?_⟩
  intro k v h
  match k with
  | 0 => simp at h
  | 1 => simp at h; simp [h]
  | k + 2 => simp at h
example : staticGetitem [some 4, some 3, none] [.sl 1 int64Max 1, .newaxis, .int 0, .full] = [none, some 1, none] := by decide
example : staticGetitem [some 4, some 3, none] [.full, .newaxis, .int 0, .full] = [some 4, some 1, none] := by decide

/-- Keeping the declared extent of a sliced axis would be unsound: a witness. -/
theorem sliced_extent_must_be_erased :
    ¬ Admits [some 5] (getitemCore (⟨[5], fun _ => (0 : Nat)⟩) [.sl 1 int64Max 1]).shape := by
  intro h
  have := h.2 0 5 rfl
  revert this
  decide

end Ndx.C15
