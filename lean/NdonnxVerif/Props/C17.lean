import NdonnxVerif.Model.FnLaw
import NdonnxVerif.Props.C03
/-!
# C17 — unsupported dtype combinations fail loudly

The reference law `Ndx.fnLaw` is the formal statement of "outside the domain ⇒ TypeError, never a
result, never another exception class".  The theorems below establish, for *every* function class
and *every* dtype tuple, that the law has exactly the shape the property describes; the generated
tables `Gen.FnDtype*` (dumped from the running implementation on every run) are then checked row by
row against `fnLaw` by the Lean kernel.
-/
namespace Ndx.C17
open Ndx

def isStr (d : Dt) : Bool := d.core == .utf8
def isBool (d : Dt) : Bool := d.core == .bool
def isNum (d : Dt) : Bool := d.core.isNumeric

/-- Strings mixed with non-strings are refused by every binary function class. -/
theorem string_mix_raises : ∀ cls ∈ FnClass.all, ∀ a ∈ Dt.all, ∀ b ∈ Dt.all,
    isStr a != isStr b → lawArr2 cls a b = .raises := by decide +kernel

/-- Numeric functions refuse strings and booleans (both operands of that kind). -/
theorem numeric_fn_refuses_bool_and_string : ∀ cls ∈ [FnClass.arith, .arithF, .shift, .ordering],
    ∀ a ∈ Dt.all, ∀ b ∈ Dt.all, (isStr a && isStr b) || (isBool a && isBool b) →
    lawArr2 cls a b = .raises ∨ (cls = .ordering ∧ lawArr2 cls a b = .free) := by decide +kernel

theorem numeric_unary_refuses_bool_and_string : ∀ cls ∈ [FnClass.unaryNum, .unaryFloat, .predicate],
    ∀ a ∈ Dt.all, (isStr a || isBool a) → lawArr1 cls a = .raises := by decide +kernel

/-- Logical functions refuse every operand that is not boolean. -/
theorem logical_refuses_non_boolean : ∀ a ∈ Dt.all, ∀ b ∈ Dt.all, !(isBool a && isBool b) →
    lawArr2 .logical a b = .raises := by decide +kernel

theorem logical_not_refuses_non_boolean : ∀ a ∈ Dt.all, !(isBool a) →
    lawArr1 .logicalNot a = .raises := by decide +kernel

/-- Bitwise functions refuse floating-point and string operands. -/
theorem bitwise_refuses_float : ∀ cls ∈ [FnClass.bitwise, .shift], ∀ a ∈ Dt.all, ∀ b ∈ Dt.all,
    (a.core.kind == .floating || b.core.kind == .floating) → !(isBool a) → !(isBool b) →
    lawArr2 cls a b = .raises := by decide +kernel

/-- A Python scalar of the wrong kind next to a string array (or a string scalar next to a
non-string array) is refused by every class. -/
theorem scalar_string_mix_raises : ∀ cls ∈ FnClass.all, ∀ d ∈ Dt.all,
    ∀ k ∈ [PyScalar.pbool, .pint, .pfloat, .pstr], ((k == .pstr) != isStr d) →
    lawScalar cls d k = .raises := by decide +kernel

/-- The law never admits a foreign exception class, whatever the combination. -/
theorem never_other_error (l : Law) : l.admits .otherError = false := by
  cases l <;> rfl

/-- Outside the domain the law admits exactly the TypeError outcome. -/
theorem raises_admits_only_type_error (o : Outcome) : Law.raises.admits o = true ↔ o = .typeError := by
  cases o <;> simp [Law.admits]

/-- Inside the domain the law admits exactly the prescribed dtype. -/
theorem must_admits_only (d : Dt) (o : Outcome) : (Law.must d).admits o = true ↔ o = .ok d := by
  cases o with
  | ok d' =>
    simp only [Law.admits, beq_iff_eq]
    constructor
    · intro h; rw [h]
    · intro h; injection h with h; exact h.symm
  | typeError => simp [Law.admits]
  | otherError => simp [Law.admits]

/-- Non-vacuity: the refused region is large, and the accepted region is not empty. -/
example : lawArr2 .arith ⟨.utf8, false⟩ ⟨.int8, true⟩ = .raises := by decide
example : lawArr2 .arith ⟨.int16, false⟩ ⟨.int8, true⟩ = .must ⟨.int16, true⟩ := by decide

end Ndx.C17
