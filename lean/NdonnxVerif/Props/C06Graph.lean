import NdonnxVerif.Props.C11Graph
/-!
# C06 at graph level — one exported graph, every concrete size

The builders of `Model/TGraphFns.lean` take no extent: the term exported for `x[index]`, `roll`, `flip`,
`expand_dims`, `squeeze`, … depends on the call's arguments and on the *rank* only (the check verifies on every run
that the library exports the same term for static, symbolic and unknown dimensions).  The corollaries below restate
the graph theorems with the size made explicit: one and the same term, evaluated at **any** shape of that rank, is
NumPy's result at that shape — nothing about sizes is baked in.
-/
namespace Ndx.TGraph
open Ndx Ndx.Spec Ndx.C08

/-- The `roll` graph traced once is correct at every concrete shape `sh` (any rank, extents 0 and 1 included). -/
theorem roll_correct_at_every_size (steps : List (Int × Int)) (sh : List Nat) (get : List Nat → Int)
    (hax : ∀ p ∈ steps, normAxis sh.length p.2 < sh.length)
    (hn : ∀ k, Int.ofNat (sh.getD k 0) ≤ int64Max) :
    ((rollGraph (.inp 0) (.inp 0) steps).eval [⟨sh, get⟩]).Equiv (Spec.rollSteps ⟨sh, get⟩ steps) :=
  roll_graph_correct [⟨sh, get⟩] (.inp 0) (.inp 0) steps rfl hax hn

/-- The null field of a nullable array is rolled by the same index vectors, read from the values field's shape. -/
theorem roll_null_field_correct_at_every_size (steps : List (Int × Int)) (sh : List Nat) (null vals : List Nat → Int)
    (hax : ∀ p ∈ steps, normAxis sh.length p.2 < sh.length)
    (hn : ∀ k, Int.ofNat (sh.getD k 0) ≤ int64Max) :
    ((rollGraph (.inp 0) (.inp 1) steps).eval [⟨sh, null⟩, ⟨sh, vals⟩]).Equiv (Spec.rollSteps ⟨sh, null⟩ steps) :=
  roll_graph_correct [⟨sh, null⟩, ⟨sh, vals⟩] (.inp 0) (.inp 1) steps rfl hax hn

/-- The `flip` graph traced at rank `sh.length` is correct at every concrete shape of that rank. -/
theorem flip_correct_at_every_size (axes : List Nat) (sh : List Nat) (get : List Nat → Int)
    (hn : ∀ k, Int.ofNat (sh.getD k 0) ≤ int64Max) :
    ((flipGraph (.inp 0) sh.length axes).eval [⟨sh, get⟩]).Equiv (Spec.flipAxes ⟨sh, get⟩ axes) :=
  flip_graph_correct [⟨sh, get⟩] (.inp 0) axes hn

/-- The slice-only `x[index]` graph is correct at every concrete shape inside whose bounds the index lies. -/
theorem slices_correct_at_every_size (sl : List SliceArg) (sh : List Nat) (get : List Nat → Int)
    (hlen : sl.length = sh.length)
    (hn : ∀ k, Int.ofNat (sh.getD k 0) ≤ int64Max)
    (hb : ∀ k (hk : k < sl.length), sliceInBounds (Int.ofNat (sh.getD k 0)) sl[k].1 sl[k].2.1 sl[k].2.2) :
    ((getitemGraph (.inp 0) (sl.map normSl)).eval [⟨sh, get⟩]).Equiv (Spec.getitem ⟨sh, get⟩ (slicesIx sl)) :=
  exported_slices_graph_correct ⟨sh, get⟩ sl hlen hn hb

end Ndx.TGraph
