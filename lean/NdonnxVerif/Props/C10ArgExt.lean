import NdonnxVerif.Props.C10Cumsum
import NdonnxVerif.Props.C08IntGraph
import NdonnxVerif.Props.C08MaskGraph
import NdonnxVerif.Props.C12Nonzero
/-!
# C10 at graph level — `argmax` / `argmin`: the position of the first extremum

`argextGraph` is the term `tg_render argext` prints and the check compares with the exported graph (tie B).  `firstArg` is
the Lean reading of ONNX `ArgMax` / `ArgMin` with `select_last_index = 0` (validated against onnxruntime by tie D on data
with many ties); `firstArg_max_spec` / `firstArg_min_spec` prove that it is NumPy's contract: an extremum, and the first one.
-/
namespace Ndx.TGraph
open Ndx

/-- One step of the `ArgMax` scan. -/
def argStep (isMax : Bool) (acc : Nat × Int × Nat) (w : Int) : Nat × Int × Nat :=
  if (if isMax then w > acc.2.1 else w < acc.2.1) then (acc.2.2, w, acc.2.2 + 1) else (acc.1, acc.2.1, acc.2.2 + 1)

theorem firstArg_cons (isMax : Bool) (v : Int) (l : List Int) :
    firstArg isMax (v :: l) = (l.foldl (argStep isMax) (0, v, 1)).1 := rfl

/-- Invariant of the scan for the maximum: after the prefix `pre`, the state holds the position and value of the first
maximum of `pre`. -/
theorem scan_max_inv : ∀ (l pre : List Int) (b : Nat) (m : Int),
    b < pre.length → pre.getD b 0 = m → (∀ j, j < pre.length → pre.getD j 0 ≤ m) → (∀ j, j < b → pre.getD j 0 < m) →
    let r := l.foldl (argStep true) (b, m, pre.length)
    r.1 < (pre ++ l).length ∧ (pre ++ l).getD r.1 0 = r.2.1 ∧
      (∀ j, j < (pre ++ l).length → (pre ++ l).getD j 0 ≤ r.2.1) ∧ (∀ j, j < r.1 → (pre ++ l).getD j 0 < r.2.1)
  | [], pre, b, m, hb, hm, hle, hlt => by
    simp only [List.foldl_nil, List.append_nil]
    exact ⟨hb, hm, hle, hlt⟩
  | w :: l, pre, b, m, hb, hm, hle, hlt => by
    simp only [List.foldl_cons]
    have hpre : pre ++ w :: l = (pre ++ [w]) ++ l := by simp
    rw [hpre]
    have hlen : (pre ++ [w]).length = pre.length + 1 := by simp
    have hget_old : ∀ j, j < pre.length → (pre ++ [w]).getD j 0 = pre.getD j 0 := by
      intro j hj
      simp [List.getD_eq_getElem?_getD, List.getElem?_append_left hj]
    have hget_new : (pre ++ [w]).getD pre.length 0 = w := by
      simp
    by_cases hw : w > m
    · have hstep : argStep true (b, m, pre.length) w = (pre.length, w, (pre ++ [w]).length) := by
        simp [argStep, hw, hlen]
      rw [hstep]
      apply scan_max_inv l (pre ++ [w]) pre.length w (by omega) hget_new
      · intro j hj
        rw [hlen] at hj
        by_cases hjl : j < pre.length
        · rw [hget_old j hjl]; have := hle j hjl; omega
        · have : j = pre.length := by omega
          rw [this, hget_new]
      · intro j hj
        rw [hget_old j hj]; have := hle j hj; omega
    · have hstep : argStep true (b, m, pre.length) w = (b, m, (pre ++ [w]).length) := by
        simp [argStep, hw, hlen]
      rw [hstep]
      apply scan_max_inv l (pre ++ [w]) b m (by omega) (by rw [hget_old b hb]; exact hm)
      · intro j hj
        rw [hlen] at hj
        by_cases hjl : j < pre.length
        · rw [hget_old j hjl]; exact hle j hjl
        · have : j = pre.length := by omega
          rw [this, hget_new]; omega
      · intro j hj
        rw [hget_old j (by omega)]; exact hlt j hj

/-- **First occurrence of the maximum** — NumPy's `argmax` contract for one slice. -/
theorem firstArg_max_spec (v : Int) (l : List Int) :
    firstArg true (v :: l) < (v :: l).length ∧
    (∀ j, j < (v :: l).length → (v :: l).getD j 0 ≤ (v :: l).getD (firstArg true (v :: l)) 0) ∧
    (∀ j, j < firstArg true (v :: l) → (v :: l).getD j 0 < (v :: l).getD (firstArg true (v :: l)) 0) := by
  have hle1 : ∀ j, j < [v].length → [v].getD j 0 ≤ v := by
    intro j hj
    have : j = 0 := by simpa using hj
    subst this; simp
  have h := scan_max_inv l [v] 0 v (by simp) (by simp) hle1 (by intro j hj; omega)
  simp only [List.length_singleton, List.singleton_append] at h
  rw [firstArg_cons]
  obtain ⟨h1, h2, h3, h4⟩ := h
  refine ⟨h1, ?_, ?_⟩
  · intro j hj; rw [h2]; exact h3 j hj
  · intro j hj; rw [h2]; exact h4 j hj

theorem scan_neg : ∀ (l : List Int) (b : Nat) (m : Int) (k : Nat),
    (l.foldl (argStep false) (b, m, k)).1 = ((l.map (fun v => -v)).foldl (argStep true) (b, -m, k)).1
  | [], b, m, k => rfl
  | w :: l, b, m, k => by
    simp only [List.foldl_cons, List.map_cons]
    by_cases hw : w < m
    · have h1 : argStep false (b, m, k) w = (k, w, k + 1) := by simp [argStep, hw]
      have h2 : argStep true (b, -m, k) (-w) = (k, -w, k + 1) := by
        have : -w > -m := by omega
        simp [argStep, this]
      rw [h1, h2]; exact scan_neg l k w (k + 1)
    · have h1 : argStep false (b, m, k) w = (b, m, k + 1) := by simp [argStep, hw]
      have h2 : argStep true (b, -m, k) (-w) = (b, -m, k + 1) := by
        have : ¬ (-w > -m) := by omega
        simp [argStep, this]
      rw [h1, h2]; exact scan_neg l b m (k + 1)

/-- **First occurrence of the minimum** — NumPy's `argmin` contract for one slice. -/
theorem firstArg_min_spec (v : Int) (l : List Int) :
    firstArg false (v :: l) < (v :: l).length ∧
    (∀ j, j < (v :: l).length → (v :: l).getD (firstArg false (v :: l)) 0 ≤ (v :: l).getD j 0) ∧
    (∀ j, j < firstArg false (v :: l) → (v :: l).getD (firstArg false (v :: l)) 0 < (v :: l).getD j 0) := by
  have hneg : firstArg false (v :: l) = firstArg true ((-v) :: l.map (fun w => -w)) := by
    rw [firstArg_cons, firstArg_cons]; exact scan_neg l 0 v 1
  obtain ⟨h1, h2, h3⟩ := firstArg_max_spec (-v) (l.map (fun w => -w))
  rw [← hneg] at h1 h2 h3
  have hmap : ∀ j, ((-v) :: l.map (fun w => -w)).getD j 0 = -((v :: l).getD j 0) := by
    intro j
    have : ((-v) :: l.map (fun w => -w)) = (v :: l).map (fun w => -w) := by simp
    rw [this, List.getD_eq_getElem?_getD, List.getD_eq_getElem?_getD, List.getElem?_map]
    cases (v :: l)[j]? <;> simp
  refine ⟨by simpa using h1, ?_, ?_⟩
  · intro j hj
    have := h2 j (by simpa using hj)
    rw [hmap, hmap] at this; omega
  · intro j hj
    have := h3 j hj
    rw [hmap, hmap] at this; omega

/-- The slice `ArgMax` / `ArgMin` scans at result position `o`. -/
def argSlice (X : Tensor Int) (axis : Nat) (keepdims : Bool) (o : List Nat) : List Int :=
  (List.range (X.shape.getD axis 0)).map (fun j =>
    X.get (o.take axis ++ j :: (if keepdims then o.drop (axis + 1) else o.drop axis)))

/-- **C10, `argmax` / `argmin` with an explicit axis, exported graph.**  For integer data representable in int64 the
exported term (`Cast` to int64 unless the data is int64, `ArgMax` / `ArgMin` with `select_last_index = 0`) has the reduced
shape NumPy prescribes for `keepdims` and holds, at every result position, the position of the **first** extremum of the
slice along the (normalised) axis (`firstArg_max_spec` / `firstArg_min_spec` are that contract). -/
theorem argext_graph_correct (env : List (Tensor Int)) (x : TG) (isMax : Bool) (t rank : Nat) (a : Int) (keepdims : Bool)
    (hx : ∀ ix, -(2 : Int) ^ 63 ≤ (x.eval env).get ix ∧ (x.eval env).get ix < (2 : Int) ^ 63) :
    ((argextGraph x isMax t rank (some a) keepdims).eval env).shape
      = (if keepdims then (x.eval env).shape.set (normAxis rank a) 1 else (x.eval env).shape.eraseIdx (normAxis rank a)) ∧
    ∀ o, ((argextGraph x isMax t rank (some a) keepdims).eval env).get o
      = Int.ofNat (firstArg isMax (argSlice (x.eval env) (normAxis rank a) keepdims o)) := by
  unfold argextGraph
  simp only
  by_cases h7 : t = 7
  · simp only [h7, if_true, TG.eval, argextOp, argSlice]
    exact ⟨trivial, fun _ => trivial⟩
  · simp only [h7, if_false, TG.eval, argextOp, argSlice, Tensor.map]
    refine ⟨trivial, fun o => ?_⟩
    congr 2
    apply List.map_congr_left
    intro j _
    exact castElem7_id _ (hx _)

/-- **`argmax` / `argmin` with `axis=None`, exported graph**: the position, in row-major order, of the first extremum of
the whole array (shape `()` or, with `keepdims`, `[1]*rank`). -/
theorem argext_graph_none (env : List (Tensor Int)) (x : TG) (isMax : Bool) (t rank : Nat) (keepdims : Bool)
    (hr : (x.eval env).rank = rank)
    (hx : ∀ ix, -(2 : Int) ^ 63 ≤ (x.eval env).get ix ∧ (x.eval env).get ix < (2 : Int) ^ 63) :
    ((argextGraph x isMax t rank none keepdims).eval env).toFlat
      = [Int.ofNat (firstArg isMax (x.eval env).toFlat)] := by
  generalize hX : x.eval env = X at *
  -- the flattened operand
  have hflat : ((reshapeGraph x rank [-1]).eval env).shape = [sizeOf' X.shape] ∧
      ((reshapeGraph x rank [-1]).eval env).toFlat = X.toFlat := by
    by_cases h1 : rank = 1
    · have hg : reshapeGraph x rank [-1] = x := by simp [reshapeGraph, h1]
      rw [hg, hX]
      obtain ⟨n, hn⟩ : ∃ n, X.shape = [n] := by
        have hl : X.shape.length = 1 := by rw [← h1]; exact hr
        match hs : X.shape, hl with
        | [n], _ => exact ⟨n, rfl⟩
      exact ⟨by rw [hn]; simp [sizeOf'], rfl⟩
    · have hg : reshapeGraph x rank [-1] = .reshape x (ivec [-1]) := by simp [reshapeGraph, h1]
      rw [hg]
      simp only [TG.eval, hX, eval_ivec_toFlat]
      exact ⟨by simp [reshapeOp, onnxReshape, reshapeTarget_neg1], reshape_neg1_toFlat X⟩
  generalize hF : (reshapeGraph x rank [-1]).eval env = F at hflat
  obtain ⟨hFs, hFf⟩ := hflat
  have hFget : ∀ j, j < sizeOf' X.shape → F.get [j] = X.toFlat.getD j 0 := by
    intro j hj
    rw [← hFf, toFlat_vec_shape F _ hFs]
    simp [List.getD_eq_getElem?_getD, hj]
  -- the scanned values
  have hscan : ∀ (G : Tensor Int), G.shape = [sizeOf' X.shape] → (∀ j, j < sizeOf' X.shape → G.get [j] = X.toFlat.getD j 0) →
      (argextOp isMax G 0 false).shape = [] ∧ (argextOp isMax G 0 false).get [] = Int.ofNat (firstArg isMax X.toFlat) := by
    intro G hGs hGg
    refine ⟨by simp [argextOp, hGs], ?_⟩
    simp only [argextOp, hGs, List.getD_cons_zero, List.take_zero, List.nil_append, List.drop_zero, Bool.false_eq_true, if_false]
    congr 2
    apply List.ext_getElem
    · simp [Tensor.toFlat, C10.allIdx_length]
    · intro j h1 h2
      simp only [List.length_map, List.length_range] at h1
      simp only [List.getElem_map, List.getElem_range]
      rw [hGg j h1]
      simp [List.getD_eq_getElem?_getD, List.getElem?_eq_getElem h2]
  unfold argextGraph
  simp only []
  have hR : ∃ R : Tensor Int, R.shape = [] ∧ R.get [] = Int.ofNat (firstArg isMax X.toFlat) ∧
      TG.eval env (TG.argext isMax 0 false (if t = 7 then reshapeGraph x rank [-1] else TG.cast 7 (reshapeGraph x rank [-1]))) = R := by
    by_cases h7 : t = 7
    · simp only [h7, if_true, TG.eval, hF]
      obtain ⟨a, b⟩ := hscan F hFs hFget
      exact ⟨_, a, b, rfl⟩
    · simp only [h7, if_false, TG.eval, hF]
      obtain ⟨a, b⟩ := hscan (F.map (castElem 7)) (by simpa [Tensor.map] using hFs) (by
        intro j hj
        simp only [Tensor.map]
        rw [hFget j hj]
        have hmem : X.toFlat.getD j 0 ∈ X.toFlat := by
          have hl : j < X.toFlat.length := by simp [Tensor.toFlat, C10.allIdx_length]; exact hj
          rw [List.getD_eq_getElem?_getD, List.getElem?_eq_getElem hl]; simp
        obtain ⟨ix, _, hix⟩ := List.mem_map.mp hmem
        rw [← hix]; exact castElem7_id _ (hx ix))
      exact ⟨_, a, b, rfl⟩
  obtain ⟨R, hRs, hRg, hRe⟩ := hR
  rw [TG.eval, hRe, eval_ivec_toFlat]
  -- the final reshape of a one-element tensor
  have htgt : ∀ tgt : List Nat, sizeOf' tgt = 1 → (reshapeOp R (tgt.map Int.ofNat)).toFlat = [R.get []] := by
    intro tgt h1
    unfold reshapeOp
    rw [reshapeTarget_of_nat, reshape_preserves_flat_order R tgt (by rw [h1, hRs]; rfl)]
    simp [Tensor.toFlat, hRs, allIdx]
  have hrep : ∀ n : Nat, sizeOf' (List.replicate n 1) = 1 := by
    intro n
    induction n with
    | zero => rfl
    | succ n ih => simp only [List.replicate_succ, sizeOf', List.foldr_cons] at ih ⊢; omega
  by_cases hk : keepdims = true
  · simp only [hk, if_true]
    have : (List.replicate rank (1 : Int)) = (List.replicate rank (1 : Nat)).map Int.ofNat := by simp
    rw [this, htgt _ (hrep rank), hRg]
  · simp only [hk, Bool.false_eq_true, if_false]
    have h0 := htgt [] rfl
    simp only [List.map_nil] at h0
    rw [h0, hRg]

example : ((argextGraph (.inp 0) true 6 2 (some (-1)) false).eval [constT [2, 3] [1, 5, 5, 7, 2, 7]]).toFlat = [1, 0] := by decide
example : ((argextGraph (.inp 0) false 7 2 none true).eval [constT [2, 3] [4, 1, 5, 1, 2, 7]]).toFlat = [1] := by decide

end Ndx.TGraph
