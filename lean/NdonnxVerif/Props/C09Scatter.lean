import NdonnxVerif.Lemmas.SetitemGraph
/-!
# C09 — `x[index] = v` at graph level: the exported coordinate-grid / index / Expand / ScatterND term writes NumPy's positions

`setitemGraph` is the term `tg_render setitem` prints and the check compares with the exported graph of every traced
assignment (tie B, `harness/scattertie.py`).
-/
namespace Ndx.TGraph
open Ndx Ndx.Spec Ndx.C08

theorem find?_congr' {β : Type} {p q : β → Bool} : ∀ (l : List β), (∀ x ∈ l, p x = q x) → l.find? p = l.find? q
  | [], _ => rfl
  | a :: l, h => by
    simp only [List.find?_cons, h a (by simp)]
    rw [find?_congr' l (fun x hx => h x (by simp [hx]))]

/-- **The exported `__setitem__` term evaluates to the model of `opx.setitem`.** -/
theorem setitemGraph_eval (env : List (Tensor Int)) (x upd : TG) (rank : Nat) (E : List NIx)
    (hr : (x.eval env).rank = rank) (hpos : 0 < rank)
    (hlen : (dropNew E).length = rank) (hi : IntsInRange (dropNew E) (x.eval env).shape)
    (hposR : ∀ o, InRange (modelS' E (x.eval env).shape) o → InRange (x.eval env).shape (modelF' E (x.eval env).shape o))
    (hb : bshape (upd.eval env).shape (modelS' E (x.eval env).shape) = some (modelS' E (x.eval env).shape)) :
    ((setitemGraph x upd rank E).eval env).Equiv (scatterND (x.eval env) (setitemWrites (x.eval env) E (upd.eval env))) := by
  have hne : ¬ rank = 0 := by omega
  simp only [setitemGraph, hne, if_false, scatterWith, TG.eval, getitemGraph_eval, eval_ivec_toFlat]
  obtain ⟨hGs, hGg⟩ := ndindexGraph_eval env x rank hr hpos
  generalize hT : x.eval env = T at *
  generalize hU : upd.eval env = U at *
  generalize hS : T.shape = S at *
  have hSl : S.length = rank := by rw [← hS]; exact hr
  generalize hG : (ndindexGraph x rank).eval env = G at *
  -- positions
  obtain ⟨hPs, hPg⟩ := getitemCore_trailing G E S rank hGs (by rw [hlen, hSl]) hi
  obtain ⟨hCs, hCg⟩ := getitemCore_withNew (coords S) E (by simpa [coords, hSl] using hlen) (by simpa [coords] using hi)
  simp only [coords] at hCs hCg
  generalize hQ : modelS' E S = Q at *
  generalize hPdef : getitemCore G E = P at *
  -- the index-path shape
  have hsl : (sliceOp (shapeOp P) [0] [-1] (List.map Int.ofNat (List.range ([0] : List Int).length)) (List.map (fun _ => (1 : Int)) ([0] : List Int))).toFlat
      = Q.map Int.ofNat := by
    have e1 : List.map Int.ofNat (List.range ([0] : List Int).length) = [0] := rfl
    have e2 : List.map (fun _ => (1 : Int)) ([0] : List Int) = [1] := rfl
    have e3 : shapeOp P = vec ((Q ++ [rank]).map Int.ofNat) := by simp only [shapeOp, hPs]
    rw [e1, e2, e3, slice3_dropLast _ (by simp)]
    simp
  rw [hsl]
  -- Expand
  have hVs : (expandOp U (Q.map Int.ofNat)).shape = Q := by
    simp only [expandOp, map_toNat_ofNat, hb, Option.getD_some, bcastTo]
  have hVg : ∀ o, (expandOp U (Q.map Int.ofNat)).get o = U.get (bcastIndex U.shape Q o) := by
    intro o; simp only [expandOp, map_toNat_ofNat, hb, Option.getD_some, bcastTo]
  generalize expandOp U (Q.map Int.ofNat) = V at hVs hVg
  -- the model's writes
  simp only [setitemWrites, hS, coords]
  generalize hpdef : getitemCore (⟨S, fun ix => ix⟩ : Tensor (List Nat)) E = pos at hCs hCg
  rw [hCs]
  refine ⟨rfl, ?_⟩
  intro p hp
  have hpl : p.length = rank := by
    have := C11.inRange_length _ _ hp
    simp only [scatterNDOp] at this
    rw [this, hS, hSl]
  have hlast : P.shape.getLastD 0 = rank := by rw [hPs]; simp
  have hdl : P.shape.dropLast = Q := by rw [hPs]; simp
  have htake : p.take rank = p := by rw [← hpl]; simp
  have hdrop : p.drop rank = [] := by rw [← hpl]; simp
  simp only [scatterNDOp, scatterND, hlast, hdl, htake, hdrop, List.append_nil]
  rw [← List.map_reverse, List.find?_map]
  have hmem : ∀ o ∈ (allIdx Q).reverse, InRange Q o := fun o ho => mem_allIdx_inRange _ _ (List.mem_reverse.mp ho)
  have hcongr : List.find? (fun o => scatterPath T.shape P o == p) (allIdx Q).reverse
      = List.find? ((fun w : List Nat × Int => w.1 == p) ∘ (fun o => (pos.get o, (expandTo U Q).get o))) (allIdx Q).reverse := by
    apply find?_congr'
    intro o ho
    have hoR := hmem o ho
    have hpath : scatterPath T.shape P o = modelF' E S o := by
      apply scatterPath_of_grid _ _ _ _ rank hlast
      · rw [C11.inRange_length _ _ (hposR o hoR), hSl]
      · intro j hj
        rw [hPg o j hoR hj, hGg _ (hposR o hoR) j hj]
    simp only [Function.comp, hpath, hCg o hoR]
  rw [hcongr]
  cases hf : List.find? ((fun w : List Nat × Int => w.1 == p) ∘ (fun o => (pos.get o, (expandTo U Q).get o))) (allIdx Q).reverse with
  | none => simp
  | some o =>
    have hoR := hmem o (List.mem_of_find?_eq_some hf)
    simp only [Option.map_some]
    rw [hVg, bcastIndex_eq_expandTo _ _ _ (C11.inRange_length _ _ hoR)]
    simp only [expandTo]

/-- **C09, assignment, exported graph.**  For an admissible basic index `I` (in-range integers, in-bounds slices, `None`)
on an array of rank ≥ 1 and an update that broadcasts into the selection: the term ndonnx exports for `x[I] = v`
(coordinate grid → the same index → `Expand` → `ScatterND`; compared with the exported graph on every run) evaluates to
an array of `x`'s shape that holds the broadcast update at exactly the positions NumPy's `x[I]` selects and `x`'s own
element everywhere else — for every shape, every data and every update. -/
theorem exported_setitem_graph_correct (env : List (Tensor Int)) (x upd : TG) (I : List Ix) (T U : Tensor Int)
    (hT : x.eval env = T) (hU : upd.eval env = U)
    (h : AdmissibleN I T.shape) (hr : T.rank ≠ 0)
    (hb : bshape U.shape (Spec.getitem (coords T.shape) I).shape = some (Spec.getitem (coords T.shape) I).shape) :
    ((setitemGraph x upd T.rank (I.map normE)).eval env).shape = T.shape ∧
    (∀ o, InRange (Spec.getitem (coords T.shape) I).shape o →
      ((setitemGraph x upd T.rank (I.map normE)).eval env).get ((Spec.getitem (coords T.shape) I).get o)
        = (expandTo U (Spec.getitem (coords T.shape) I).shape).get o) ∧
    (∀ p, InRange T.shape p → (∀ o, InRange (Spec.getitem (coords T.shape) I).shape o → (Spec.getitem (coords T.shape) I).get o ≠ p) →
      ((setitemGraph x upd T.rank (I.map normE)).eval env).get p = T.get p) := by
  obtain ⟨hent, hlen, hints⟩ := admN_facts I T.shape h
  have hnoE : ∀ e ∈ I, e ≠ .ellipsis := by
    intro e he
    rcases hent e he with ⟨i, rfl⟩ | ⟨a, b, c, rfl⟩ | rfl <;> simp
  obtain ⟨s1, s2⟩ := basic_eq_modelN I T.shape h
  have hSshape : (Spec.getitem (coords T.shape) I).shape = modelS' (I.map normE) T.shape := by
    simp only [Spec.getitem, expand_noEllipsis _ I hnoE]; exact s1
  have hSget : ∀ o, InRange (modelS' (I.map normE) T.shape) o →
      (Spec.getitem (coords T.shape) I).get o = modelF' (I.map normE) T.shape o := by
    intro o ho
    simp only [Spec.getitem, expand_noEllipsis _ I hnoE, coords]
    exact s2 o ho
  have hposR := modelF'_inRange I T.shape h
  have hgraph := setitemGraph_eval env x upd T.rank (I.map normE) (by rw [hT]) (by omega) hlen
    (by rw [hT]; exact hints) (by rw [hT]; exact hposR) (by rw [hT, hU, ← hSshape]; exact hb)
  rw [hT, hU] at hgraph
  obtain ⟨r0, hr0, hs0, hhit, hframe⟩ := setitem_basic_correct T I U h hr
  have hok : setitem T I U = .ok (scatterND T (setitemWrites T (I.map normE) U)) := by
    simp only [setitem, hr, if_false, normaliseIndex_admN T.rank I T.shape rfl h, bind, Except.bind]
  rw [hok] at hr0
  injection hr0 with hr0
  subst hr0
  obtain ⟨hgs, hgg⟩ := hgraph
  refine ⟨hgs.trans hs0, ?_, ?_⟩
  · intro o ho
    have hin : InRange T.shape ((Spec.getitem (coords T.shape) I).get o) := by
      rw [hSget o (hSshape ▸ ho)]; exact hposR o (hSshape ▸ ho)
    rw [hgg _ (by rw [hgs]; exact hin)]
    exact hhit o ho
  · intro p hp hfree
    rw [hgg p (by rw [hgs]; exact hp)]
    exact hframe p hfree

/-- Non-vacuity and a concrete reading: `x[1:, ::-1] = v` on a 2×3 array, `v` of shape `[3]`. -/
example : ((setitemGraph (.inp 0) (.inp 1) 2 [.sl 1 int64Max 1, .sl int64Max int64Min (-1)]).eval
    [constT [2, 3] [0, 1, 2, 3, 4, 5], constT [3] [10, 11, 12]]).toFlat = [0, 1, 2, 12, 11, 10] := by decide

/-- The normalised form of an index with one ellipsis is the normalised form of its expansion. -/
theorem normaliseIndex_ellipsis (rank : Nat) (pre post : List Ix) (sh : List Nat) (hr : sh.length = rank)
    (hpre : ∀ e ∈ pre, e ≠ .ellipsis) (hpost : ∀ e ∈ post, e ≠ .ellipsis)
    (h : AdmissibleN (expandEllipsis rank pre post) sh) :
    normaliseIndex rank (pre ++ .ellipsis :: post) = .ok ((expandEllipsis rank pre post).map normE) := by
  obtain ⟨hc, _⟩ := ellipsis_expansion rank pre post hpre hpost
  obtain ⟨hent, _, _⟩ := admN_facts _ sh h
  have hne : (expandEllipsis rank pre post).any isEllipsis = false := by
    rw [List.any_eq_false]
    intro e he'
    rcases hent e he' with ⟨i, rfl⟩ | ⟨a, b, c, rfl⟩ | rfl <;> simp [isEllipsis]
  have hsame : normaliseIndex rank (pre ++ .ellipsis :: post) = normaliseIndex rank (expandEllipsis rank pre post) := by
    simp only [normaliseIndex, hc]
    simp only [constructIndex, hne, Bool.false_eq_true, if_false]
  rw [hsame]
  exact normaliseIndex_admN rank _ sh hr h

/-- **C09, assignment with an ellipsis, exported graph.**  `x[pre…, ..., post…] = v`: the index normalises to the expansion
of the ellipsis (so the exported term is `setitemGraph` of that expansion), and the graph writes the broadcast update at
exactly the positions NumPy's `x[pre…, ..., post…]` selects, leaving every other element untouched. -/
theorem exported_setitem_graph_ellipsis (env : List (Tensor Int)) (x upd : TG) (pre post : List Ix) (T U : Tensor Int)
    (hT : x.eval env = T) (hU : upd.eval env = U)
    (hpre : ∀ e ∈ pre, e ≠ .ellipsis) (hpost : ∀ e ∈ post, e ≠ .ellipsis)
    (h : AdmissibleN (expandEllipsis T.rank pre post) T.shape) (hr : T.rank ≠ 0)
    (hb : bshape U.shape (Spec.getitem (coords T.shape) (pre ++ .ellipsis :: post)).shape
        = some (Spec.getitem (coords T.shape) (pre ++ .ellipsis :: post)).shape) :
    normaliseIndex T.rank (pre ++ .ellipsis :: post) = .ok ((expandEllipsis T.rank pre post).map normE) ∧
    ((setitemGraph x upd T.rank ((expandEllipsis T.rank pre post).map normE)).eval env).shape = T.shape ∧
    (∀ o, InRange (Spec.getitem (coords T.shape) (pre ++ .ellipsis :: post)).shape o →
      ((setitemGraph x upd T.rank ((expandEllipsis T.rank pre post).map normE)).eval env).get
          ((Spec.getitem (coords T.shape) (pre ++ .ellipsis :: post)).get o)
        = (expandTo U (Spec.getitem (coords T.shape) (pre ++ .ellipsis :: post)).shape).get o) ∧
    (∀ p, InRange T.shape p →
      (∀ o, InRange (Spec.getitem (coords T.shape) (pre ++ .ellipsis :: post)).shape o →
        (Spec.getitem (coords T.shape) (pre ++ .ellipsis :: post)).get o ≠ p) →
      ((setitemGraph x upd T.rank ((expandEllipsis T.rank pre post).map normE)).eval env).get p = T.get p) := by
  have hs : Spec.getitem (coords T.shape) (pre ++ .ellipsis :: post)
      = Spec.getitem (coords T.shape) (expandEllipsis T.rank pre post) := by
    obtain ⟨_, he⟩ := ellipsis_expansion T.rank pre post hpre hpost
    obtain ⟨hent', _, _⟩ := admN_facts _ T.shape h
    have hnoE : ∀ e ∈ expandEllipsis T.rank pre post, e ≠ .ellipsis := by
      intro e he'
      rcases hent' e he' with ⟨i, rfl⟩ | ⟨a, b, c, rfl⟩ | rfl <;> simp
    have hrk : (coords T.shape).rank = T.rank := rfl
    simp only [Spec.getitem, hrk, he, expand_noEllipsis T.rank _ hnoE]
  rw [hs] at hb ⊢
  exact ⟨normaliseIndex_ellipsis T.rank pre post T.shape rfl hpre hpost h,
    exported_setitem_graph_correct env x upd _ T U hT hU h hr hb⟩


end Ndx.TGraph
