import NdonnxVerif.Props.C02Graph
import NdonnxVerif.Model.GraphCast
/-!
# C14, graph level — `astype` between integer / boolean dtypes exports one `Cast` (or nothing)

`castTerms src dst` are the graph shapes the model accepts for `ndx.astype(x : src, dst)`; the check's
translator verifies that the exported graph is one of them (tie B).  The theorems give the value of that
graph for every operand: two's-complement wrap into the target (so every in-range value is preserved,
as NumPy's `astype` does), zero / non-zero for boolean targets, 0 / 1 from boolean sources.
-/
namespace Ndx.Graph
open Ndx.C02

theorem cast_int_int (s d : IType) (hd : d ∈ itypes) (g : G) (hg : g = cast (codeOf d) a) (x : Int) :
    eval [.i (codeOf s) x] g = some (.i (codeOf d) (d.wrap x)) := by
  subst hg
  obtain ⟨hcode, hc9⟩ := codeOf_itype d hd
  simp [eval, cast, a, evalUn, castTo, hcode, hc9]

/-- In-range values survive an integer cast unchanged (NumPy `astype` on representable values). -/
theorem cast_int_int_in_range (s d : IType) (hd : d ∈ itypes) (x : Int) (hx : d.inRange x = true) :
    eval [.i (codeOf s) x] (cast (codeOf d) a) = some (.i (codeOf d) x) := by
  rw [cast_int_int s d hd _ rfl x, wrap_id d (bits_pos d hd).1 x hx]

theorem cast_int_bool (s : IType) (x : Int) :
    eval [.i (codeOf s) x] (cast 9 a) = some (.b (x != 0)) := by
  simp [eval, cast, a, evalUn, castTo]

theorem cast_bool_int (d : IType) (hd : d ∈ itypes) (p : Bool) :
    eval [.b p] (cast (codeOf d) a) = some (.i (codeOf d) (if p then 1 else 0)) := by
  obtain ⟨hcode, hc9⟩ := codeOf_itype d hd
  simp [eval, cast, a, evalUn, castTo, hcode, hc9]

theorem cast_same (v : SV) : eval [v] a = some v := by simp [eval, a]

/-- Every name of the fragment has a code, and `castTerms` is never empty on it. -/
theorem castTerms_total : ∀ s ∈ ["int8", "int16", "int32", "int64", "uint8", "uint16", "uint32", "uint64", "bool"],
    ∀ d ∈ ["int8", "int16", "int32", "int64", "uint8", "uint16", "uint32", "uint64", "bool"],
    (castTerms s d).length = 1 := by decide

end Ndx.Graph
