import NdonnxVerif.Model.Scalar
/-!
# C20 — scalar conversion, truthiness, `len` and iteration match NumPy or refuse
-/
namespace Ndx.C20
open Ndx

/-- On every data-holding array — any dtype kind, rank and size — each protocol does what NumPy does
for the same value (wherever the property fixes NumPy's answer). -/
theorem eager_matches_numpy (p : Proto) (a : ArrInfo) (h : a.EagerOK) (o : POut)
    (hn : protoNumpy p a = some o) : protoModel p a = o := by
  obtain ⟨hv, hl, hl2, h0⟩ := h
  cases p <;> simp only [protoModel, protoNumpy] at *
  · -- bool
    simp only [hv, true_and] at *
    injection hn
  · split at hn
    · injection hn with hn; subst hn; simp_all
    · split at hn
      · injection hn with hn; subst hn; simp_all
      · cases hn
  · split at hn
    · injection hn with hn; subst hn; simp_all
    · split at hn
      · injection hn with hn; subst hn; simp_all
      · cases hn
  · simp only [hv, true_and] at *
    injection hn with hn
  · injection hn with hn; subst hn
    by_cases h1 : a.ndim = 0
    · have := hl.mp h1; simp [h1, this]
    · have hne : a.lead ≠ none := fun hc => h1 (hl.mpr hc)
      cases hlead : a.lead with
      | none => exact absurd hlead hne
      | some l =>
        cases l with
        | none => exact absurd rfl (hl2 none hlead)
        | some n => simp [h1]
  · injection hn with hn; subst hn
    by_cases h1 : a.ndim = 0
    · have := hl.mp h1; simp [h1, this]
    · have hne : a.lead ≠ none := fun hc => h1 (hl.mpr hc)
      cases hlead : a.lead with
      | none => exact absurd hlead hne
      | some l =>
        cases l with
        | none => exact absurd rfl (hl2 none hlead)
        | some n => simp [h1]

/-- A placeholder (no value) refuses every scalar conversion and use as an index. -/
theorem placeholder_refuses_scalars (p : Proto) (hp : p = .pbool ∨ p = .pint ∨ p = .pfloat ∨ p = .pindex)
    (a : ArrInfo) (h : a.hasValue = false) : protoModel p a = .refuse := by
  rcases hp with rfl | rfl | rfl | rfl <;> simp [protoModel, h]

/-- `len` and iteration are refused exactly when the leading extent is not a known integer. -/
theorem len_iter_iff_known_leading_extent (p : Proto) (hp : p = .plen ∨ p = .piter) (a : ArrInfo) :
    protoModel p a = .value ↔ ∃ n, a.lead = some (some n) := by
  rcases hp with rfl | rfl <;> simp only [protoModel] <;>
    (cases hl : a.lead with
     | none => simp
     | some l => cases l <;> simp)

/-- Iteration terminates and yields exactly `shape[0]` items: it is a map over `range n`. -/
def iterItems (n : Nat) : List Nat := List.range n

theorem iter_yields_leading_extent (n : Nat) : (iterItems n).length = n := by simp [iterItems]

theorem iter_item_is_index (n i : Nat) (h : i < n) : (iterItems n)[i]? = some i := by
  simp [iterItems, h]

/-- Non-vacuity: a rank-2 single-element data-holding array is `EagerOK`. -/
example : ({ hasValue := true, size := 1, ndim := 2, kind := .floating, lead := some (some 1) } : ArrInfo).EagerOK := by
  refine ⟨rfl, ?_, ?_, ?_⟩ <;> simp

end Ndx.C20
