import NdonnxVerif.Model.Graph
/-!
# C04, graph level — null masks of the element-wise functions, and structural payload independence

`nullTerms2` / `nullTerms1` are the graph shapes the model accepts for the *null mask output* of an
element-wise function on nullable operands (`Or` of the operands' masks; an all-false mask of the
operand's shape stands in for a non-nullable operand).  `null_graph_correct` is the masking rule for every
member; `eval_congr` says that the value of a graph depends only on the inputs that occur in it — so a
mask graph that mentions no values input cannot depend on a payload, and a values graph that mentions no
mask input cannot depend on which elements are null.
-/
namespace Ndx.Graph

/-- Inputs occurring in a term. -/
def G.inputs : G → List Nat
  | .inp i => [i]
  | .const _ _ => []
  | .un _ x => x.inputs
  | .bin _ x y => x.inputs ++ y.inputs
  | .sel c x y => c.inputs ++ x.inputs ++ y.inputs
  | .falseLike x => x.inputs

/-- **The value of a graph depends only on the inputs that occur in it.** -/
theorem eval_congr (g : G) (env env' : List SV) (h : ∀ i ∈ g.inputs, env[i]? = env'[i]?) :
    eval env g = eval env' g := by
  induction g with
  | inp i => simpa [eval, G.inputs] using h i (by simp [G.inputs])
  | const c v => simp [eval]
  | un op x ih =>
    simp only [eval]; rw [ih (fun i hi => h i (by simpa [G.inputs] using hi))]
  | bin op x y ihx ihy =>
    simp only [eval]
    rw [ihx (fun i hi => h i (by simp [G.inputs, hi])), ihy (fun i hi => h i (by simp [G.inputs, hi]))]
  | sel c x y ihc ihx ihy =>
    simp only [eval]
    rw [ihc (fun i hi => h i (by simp [G.inputs, hi])), ihx (fun i hi => h i (by simp [G.inputs, hi])),
      ihy (fun i hi => h i (by simp [G.inputs, hi]))]
  | falseLike x ih =>
    simp only [eval]; rw [ih (fun i hi => h i (by simpa [G.inputs] using hi))]

/-- Environment of a binary function on (possibly) nullable operands. -/
def envN (va vb : SV) (na nb : Bool) : List SV := [va, vb, .b na, .b nb]

/-- **Masking rule, binary**: the mask graph yields `na ∨ nb`, a non-nullable operand counting as not null. -/
theorem null_graph_correct (an bn : Bool) (g : G) (hg : g ∈ nullTerms2 an bn) (va vb : SV) (na nb : Bool)
    (ha : an = false → na = false) (hb : bn = false → nb = false) :
    eval (envN va vb na nb) g = some (.b (na || nb)) := by
  cases an <;> cases bn <;> simp only [nullTerms2, List.mem_cons, List.not_mem_nil, or_false] at hg
  · have := ha rfl; subst this
    rcases hg with rfl | rfl <;> simp [eval, envN, a, bNull, evalBin, evalBinBool]
  · have := hb rfl; subst this
    rcases hg with rfl | rfl <;> simp [eval, envN, b, aNull, evalBin, evalBinBool]
  · subst hg; simp [eval, envN, aNull, bNull, evalBin, evalBinBool]

/-- **Masking rule, unary**: the result's mask is the operand's. -/
theorem null_graph_correct_unary (g : G) (hg : g ∈ nullTerms1) (va : SV) (na : Bool) :
    eval [va, va, .b na, .b na] g = some (.b na) := by
  simp only [nullTerms1, List.mem_cons, List.not_mem_nil, or_false] at hg
  rcases hg with rfl | rfl <;> simp [eval, aNull, evalBin, evalBinBool]

/-- **Payloads never reach the mask**: the accepted mask graphs of two nullable operands mention no values
input, so any two environments with the same masks give the same mask — whatever is stored under the nulls. -/
theorem null_graph_ignores_values (g : G) (hg : g ∈ nullTerms2 true true) (va vb va' vb' : SV) (na nb : Bool) :
    eval (envN va vb na nb) g = eval (envN va' vb' na nb) g := by
  simp only [nullTerms2, List.mem_cons, List.not_mem_nil, or_false] at hg
  subst hg
  apply eval_congr
  intro i hi
  simp only [G.inputs, aNull, bNull, List.cons_append, List.nil_append, List.mem_cons, List.not_mem_nil, or_false] at hi
  rcases hi with rfl | rfl <;> rfl

/-- **Masks never reach the values**: a values graph over `inp 0`, `inp 1` only (every term of `gterms`)
computes the same element whatever the masks are. -/
theorem values_graph_ignores_masks (g : G) (hin : ∀ i ∈ g.inputs, i < 2) (va vb : SV) (na nb na' nb' : Bool) :
    eval (envN va vb na nb) g = eval (envN va vb na' nb') g := by
  apply eval_congr
  intro i hi
  have := hin i hi
  match i, this with
  | 0, _ => rfl
  | 1, _ => rfl

/-- Every accepted values graph of the integer functions mentions only the two values inputs. -/
theorem gterms_inputs_lt_two : ∀ fn ∈ ["add", "subtract", "multiply", "square", "negative", "positive", "abs", "sign",
      "bitwise_invert", "bitwise_and", "bitwise_or", "bitwise_xor", "equal", "not_equal", "less", "less_equal", "greater",
      "greater_equal", "bitwise_left_shift", "bitwise_right_shift", "remainder"],
    ∀ t ∈ itypes, ∀ g ∈ gterms fn t, ∀ i ∈ g.inputs, i < 2 := by decide

end Ndx.Graph
