import NdonnxVerif.Lemmas.Heap
/-!
# C09 / C18 — writes update only their target (frame theorems)

On the propagation state machine: a transition changes no existing cell except the explicit target of
`_set` (the only in-place mutation, behind `__setitem__`); over whole histories, a cell that is never a
`_set` target keeps its graph variable and its value.  Hence an array obtained earlier from a library
function (which owns fresh cells — checked on every run by the cell-sharing table) is not affected
by in-place updates of other arrays, and exporting/reading (which are not transitions at all) change
nothing.
-/
namespace Ndx.C09
open Ndx.Heap
variable {Val : Type} (sem : String → List Val → Option Val)

/-- The `_set` targets of a history. -/
def setTargets : List (Step Val) → List Nat
  | [] => []
  | .set d _ :: ss => d :: setTargets ss
  | _ :: ss => setTargets ss

/-- **Frame.** A cell that no `_set` of the history targets is unchanged by the whole history. -/
theorem run_frame (ort : Bool) : ∀ (steps : List (Step Val)) (h h' : Heap Val) (i : Nat), i < h.length →
    i ∉ setTargets steps → run sem ort steps h = some h' → h'[i]? = h[i]? := by
  intro steps
  induction steps with
  | nil => intro h h' i _ _ hr; simp [run] at hr; subst hr; rfl
  | cons s ss ih =>
    intro h h' i hi hnt hr
    simp only [run] at hr
    cases h1 : step sem ort h s with
    | none => simp [h1] at hr
    | some hm =>
      simp only [h1, Option.bind_some] at hr
      have hlen := step_length sem ort h hm s h1
      have hi' : i < hm.length := by
        cases s <;> simp at hlen <;> omega
      have hnt' : i ∉ setTargets ss := by
        cases s <;> simp [setTargets] at hnt ⊢ <;> first | exact hnt | exact hnt.2
      have hne : ∀ d src, s = .set d src → i ≠ d := by
        intro d src hs; subst hs
        simp [setTargets] at hnt
        exact hnt.1
      rw [ih hm h' i hi' hnt' hr, step_frame sem ort h hm s h1 i hi hne]

/-- Fresh cells: every transition other than `_set` allocates exactly one new cell and `_set`
allocates none, so results of library functions never reuse an existing cell index. -/
theorem result_is_fresh (ort : Bool) (h h' : Heap Val) (s : Step Val) (hs : ∀ d src, s ≠ .set d src)
    (hstep : step sem ort h s = some h') : h'.length = h.length + 1 := by
  have := step_length sem ort h h' s hstep
  cases s <;> first | exact this | exact absurd rfl (hs _ _)

/-- An in-place update replaces variable and value *together* (no stale value survives; C07). -/
theorem set_replaces_both (ort : Bool) (h h' : Heap Val) (d src : Nat) (c : Cell Val)
    (hc : h[src]? = some c) (hd : d < h.length) (hstep : step sem ort h (.set d src) = some h') :
    h'[d]? = some ⟨c.var, c.eager⟩ := by
  simp only [step, resolve, stepBase, hc, Option.bind_some, hd, if_true, Option.some.injEq] at hstep
  subst hstep
  simp [hd]

example : setTargets ([.data 1, .set 0 1, .copy 0, .set 2 0] : List (Step Nat)) = [0, 2] := rfl

end Ndx.C09
