import NdonnxVerif.Lemmas.Broadcast
import NdonnxVerif.Props.C10GraphSum
import NdonnxVerif.Model.TGraphScatter
/-!
# C11 — `broadcast_to` with a run-time shape and `broadcast_arrays` at graph level

`broadcastArraysGraph` (Model/TGraphScatter.lean) is the term `tg_render broadcast_arrays` prints and the check compares
with the exported graph (tie B).
-/
namespace Ndx.TGraph
open Ndx

/-- `broadcast_to(x, shape(s))` as exported: `Expand(x, Shape(s))`.  When `x`'s shape broadcasts into `s`'s, the result
has `s`'s shape and repeats `x` along the stretched axes — NumPy's `broadcast_to`. -/
theorem expand_like_eval (env : List (Tensor Int)) (x s : TG) (out : List Nat) (hs : (s.eval env).shape = out)
    (hb : bshape (x.eval env).shape out = some out) :
    ((TG.expand x (.shape s)).eval env).shape = out ∧
    ∀ ix, ((TG.expand x (.shape s)).eval env).get ix = (x.eval env).get (bcastIndex (x.eval env).shape out ix) := by
  simp only [TG.eval, shapeOp_toFlat, hs, expandOp, List.map_map]
  have : (Int.toNat ∘ Int.ofNat) = id := by funext a; simp
  simp only [this, List.map_id, hb, Option.getD_some, bcastTo]
  exact ⟨trivial, fun _ => trivial⟩

theorem bcast2_shape (f : Int → Int → Int) (a b : Tensor Int) (out : List Nat) (h : bshape a.shape b.shape = some out) :
    (bcast2 f a b).shape = out := by
  simp [bcast2, h]

/-- **C11, `broadcast_arrays`, exported graph** (two operands).  ndonnx reads the common shape off a sum of the operands
(`carrier`: any term whose value has the shape of `a + b`, e.g. `Cast(Add(Cast a, Cast b))`) and expands each operand to
it.  For all shapes that broadcast together both results have NumPy's common shape and repeat their operand along the
stretched axes. -/
theorem broadcast_arrays_graph_correct (env : List (Tensor Int)) (a b carrier : TG) (out : List Nat)
    (hab : bshape (a.eval env).shape (b.eval env).shape = some out)
    (hc : (carrier.eval env).shape = ((TG.bin .add a b).eval env).shape) :
    (((TG.expand a (.shape carrier)).eval env).shape = out ∧
      ∀ ix, ((TG.expand a (.shape carrier)).eval env).get ix = (a.eval env).get (bcastIndex (a.eval env).shape out ix)) ∧
    (((TG.expand b (.shape carrier)).eval env).shape = out ∧
      ∀ ix, ((TG.expand b (.shape carrier)).eval env).get ix = (b.eval env).get (bcastIndex (b.eval env).shape out ix)) := by
  have hcs : (carrier.eval env).shape = out := by
    rw [hc]; simp only [TG.eval]; exact bcast2_shape _ _ _ out hab
  exact ⟨expand_like_eval env a carrier out hcs (bshape_absorb _ _ _ hab),
         expand_like_eval env b carrier out hcs (bshape_absorb_right _ _ _ hab)⟩

end Ndx.TGraph

namespace Ndx.TGraph
open Ndx

/-- **C11, `broadcast_arrays`, three operands.**  The common shape is read off `(a + b) + c`; every operand expanded to it
has NumPy's common shape `broadcast_shapes(a, b, c)` and repeats its operand along the stretched axes. -/
theorem broadcast_arrays3_graph_correct (env : List (Tensor Int)) (a b c carrier : TG) (ab out : List Nat)
    (hab : bshape (a.eval env).shape (b.eval env).shape = some ab)
    (habc : bshape ab (c.eval env).shape = some out)
    (hc : (carrier.eval env).shape = ((TG.bin .add (.bin .add a b) c).eval env).shape) :
    ∀ x ∈ [a, b, c],
      ((TG.expand x (.shape carrier)).eval env).shape = out ∧
      ∀ ix, ((TG.expand x (.shape carrier)).eval env).get ix = (x.eval env).get (bcastIndex (x.eval env).shape out ix) := by
  have hcs : (carrier.eval env).shape = out := by
    rw [hc]
    simp only [TG.eval]
    apply bcast2_shape
    rw [bcast2_shape _ _ _ ab hab]; exact habc
  have hab_out : bshape ab out = some out := bshape_absorb _ _ _ habc
  intro x hx
  simp only [List.mem_cons, List.mem_nil_iff, or_false] at hx
  rcases hx with rfl | rfl | rfl
  · exact expand_like_eval env _ carrier out hcs (bshape_into_trans _ ab out (bshape_absorb _ _ _ hab) hab_out)
  · exact expand_like_eval env _ carrier out hcs (bshape_into_trans _ ab out (bshape_absorb_right _ _ _ hab) hab_out)
  · exact expand_like_eval env _ carrier out hcs (bshape_absorb_right _ _ _ habc)

end Ndx.TGraph
