import NdonnxVerif.Model.Dtype
import NdonnxVerif.Model.FnLaw
/-!
# C03 — result dtypes follow the promotion lattice; nullability is opt-in and closed

Theorems about the closed-form model `Ndx.resultType` (tied to `/repo` on every run by the
generated table `Gen.ResultType`, whose rows are dumped from the running implementation and
checked equal to this model by `decide +kernel`).  All statements quantify over *every* dtype
(`Dt` has exactly the 24 inhabitants of `Dt.all`: `mem_all`).
-/
namespace Ndx.C03
open Ndx

theorem core_mem_all (c : Core) : c ∈ Core.all := by cases c <;> decide

/-- `Dt.all` really lists every dtype, so the `∀ a ∈ Dt.all` statements below are `∀ a : Dt`. -/
theorem mem_all (d : Dt) : d ∈ Dt.all := by
  rcases d with ⟨c, n⟩
  cases c <;> cases n <;> decide

/-- Promotion is commutative — including which mixes are refused. -/
theorem comm_all : ∀ a ∈ Dt.all, ∀ b ∈ Dt.all, resultType a b = resultType b a := by decide +kernel

theorem comm (a b : Dt) : resultType a b = resultType b a :=
  comm_all a (mem_all a) b (mem_all b)

/-- A result is nullable iff some operand is nullable. -/
theorem nullable_iff_all : ∀ a ∈ Dt.all, ∀ b ∈ Dt.all, ∀ d, resultType a b = some d →
    d.nullable = (a.nullable || b.nullable) := by
  intro a _ b _ d h
  simp only [resultType, Option.map_eq_some_iff] at h
  obtain ⟨c, _, rfl⟩ := h
  rfl

theorem nullable_iff (a b d : Dt) (h : resultType a b = some d) :
    d.nullable = (a.nullable || b.nullable) :=
  nullable_iff_all a (mem_all a) b (mem_all b) d h

/-- Nullability does not influence the promoted value dtype (promotion acts on the value dtypes). -/
theorem core_independent_of_nullability (a b : Dt) :
    (resultType a b).map (·.core) = promoteCore a.core b.core := by
  simp [resultType, Function.comp_def]

/-- Strings never promote with non-strings, and promote among themselves to a string dtype. -/
theorem string_isolated_all : ∀ a ∈ Dt.all, ∀ b ∈ Dt.all,
    (a.core = .utf8) ≠ (b.core = .utf8) → resultType a b = none := by decide +kernel

theorem string_closed_all : ∀ a ∈ Dt.all, ∀ b ∈ Dt.all,
    (resultType a b).all (fun d => decide ((d.core = .utf8) ↔ (a.core = .utf8 ∧ b.core = .utf8))) = true := by
  decide +kernel

/-- Promotion is idempotent and total on non-string pairs. -/
theorem idem_all : ∀ a ∈ Dt.all, resultType a a = some a := by decide +kernel

theorem total_nonstring_all : ∀ a ∈ Dt.all, ∀ b ∈ Dt.all, a.core ≠ .utf8 → b.core ≠ .utf8 →
    (resultType a b).isSome = true := by decide +kernel

/-- Triples that do not mix signed, unsigned and floating kinds (C03's restriction). -/
def sameLattice (a b c : Dt) : Bool :=
  let ks := [a.core.kind, b.core.kind, c.core.kind]
  !(ks.contains .signed && ks.contains .unsigned && ks.contains .floating)

/-- Associativity wherever the standard's lattice applies (errors included: both sides refuse the
same triples). -/
theorem assoc_all : ∀ a ∈ Dt.all, ∀ b ∈ Dt.all, ∀ c ∈ Dt.all, sameLattice a b c = true →
    (resultType b c).bind (resultType a ·) = (resultType a b).bind (resultType · c) := by
  decide +kernel

/-- The n-ary form is the fold of the binary one (by definition of the model; the generated triple
table ties the implementation's n-ary `result_type` to it). -/
theorem nary_is_fold (a b c : Dt) :
    resultTypeN [a, b, c] = (resultType a b).bind (resultType · c) := by
  simp [resultTypeN]

/-- The restriction is necessary: NumPy-style cross-kind promotion is not associative. -/
theorem assoc_fails_cross_kind :
    (resultType ⟨.int16, false⟩ ⟨.float32, false⟩).bind (resultType ⟨.uint16, false⟩ ·)
      ≠ (resultType ⟨.uint16, false⟩ ⟨.int16, false⟩).bind (resultType · ⟨.float32, false⟩) := by
  decide

/-- Same-kind promotion picks the wider dtype (Array-API table). -/
theorem same_kind_is_max_all : ∀ a ∈ Core.all, ∀ b ∈ Core.all, a.kind = b.kind → a.kind ≠ .string →
    promoteCore a b = some (if a.bits ≥ b.bits then a else b) := by decide +kernel

/-- A Python scalar never changes an array's dtype within its kind. -/
theorem scalar_keeps_dtype_all : ∀ d ∈ Dt.all, ∀ k ∈ [PyScalar.pbool, .pint, .pfloat, .pstr],
    scalarWithinKind d k = true → scalarResult d k = some d := by decide +kernel

/-- A string scalar never meets a non-string array, nor a non-string scalar a string array. -/
theorem scalar_string_isolated_all : ∀ d ∈ Dt.all, ∀ k ∈ [PyScalar.pbool, .pint, .pfloat, .pstr],
    ((k = .pstr) ≠ (d.core = .utf8)) → scalarResult d k = none := by decide +kernel

/-- Comparisons and predicates yield boolean, nullable iff an operand is. -/
theorem comparison_is_bool_all : ∀ a ∈ Dt.all, ∀ b ∈ Dt.all, ∀ cls ∈ [FnClass.equality, .ordering],
    (lawArr2 cls a b).demands (· == boolOf (a.nullable || b.nullable)) = true := by decide +kernel

theorem predicate_is_bool_all : ∀ a ∈ Dt.all,
    (lawArr1 .predicate a).demands (· == boolOf a.nullable) = true := by decide +kernel

/-- Whatever the law demands as a result dtype is nullable iff an operand is. -/
theorem law_nullable_iff_all : ∀ cls ∈ FnClass.all, ∀ a ∈ Dt.all, ∀ b ∈ Dt.all,
    (lawArr2 cls a b).demands (fun d => d.nullable == (a.nullable || b.nullable)) = true := by
  decide +kernel

/-- Non-vacuity: the lattice hypothesis is satisfiable by a cross-width, cross-nullability triple. -/
example : sameLattice ⟨.int8, true⟩ ⟨.int32, false⟩ ⟨.float32, false⟩ = true := by decide
example : scalarWithinKind ⟨.uint8, true⟩ .pint = true := by decide

end Ndx.C03
