import NdonnxVerif.Model.Setitem
/-!
# C09, value level — `x[index] = v` changes exactly the selected elements

Theorems about `Ndx.setitem` (`Model/Setitem.lean`, the algorithm of `opx.setitem`): the shape is kept,
every position the index does not select keeps its element (frame), every selected position holds the
broadcast update (hit), for all shapes, indices and update shapes.  Tied to the code by the driver command
`setitem` (harness/setitemtie.py).
-/
namespace Ndx.C09

theorem scatter_shape (t : Tensor α) (w : List (List Nat × α)) : (scatterND t w).shape = t.shape := rfl

/-- **Frame**: a position no write addresses keeps its element. -/
theorem scatter_frame (t : Tensor α) (w : List (List Nat × α)) (ix : List Nat)
    (h : ∀ p ∈ w, p.1 ≠ ix) : (scatterND t w).get ix = t.get ix := by
  unfold scatterND
  simp only
  have : w.reverse.find? (fun p => p.1 == ix) = none := by
    rw [List.find?_eq_none]
    intro p hp
    have := h p (List.mem_reverse.mp hp)
    simpa using this
  rw [this]

/-- **Hit**: when no two writes address the same position, a written position holds its update. -/
theorem scatter_hit (t : Tensor α) (w : List (List Nat × α)) (hnd : (w.map (·.1)).Nodup)
    (p : List Nat × α) (hp : p ∈ w) : (scatterND t w).get p.1 = p.2 := by
  unfold scatterND
  simp only
  have hrev : (w.reverse.map (·.1)).Nodup := by
    rw [List.map_reverse]
    exact List.pairwise_reverse.mpr (hnd.imp (fun h => Ne.symm h))
  have hmem : p ∈ w.reverse := List.mem_reverse.mpr hp
  generalize w.reverse = l at hrev hmem
  induction l with
  | nil => cases hmem
  | cons q l ih =>
    simp only [List.map_cons, List.nodup_cons] at hrev
    rcases List.mem_cons.mp hmem with rfl | hin
    · simp [List.find?]
    · have hne : q.1 ≠ p.1 := by
        intro he
        exact hrev.1 (he ▸ List.mem_map_of_mem (f := (·.1)) hin)
      have hb : (q.1 == p.1) = false := by simpa using hne
      rw [List.find?_cons, hb]
      exact ih hrev.2 hin

/-- `x[idx] = v` keeps the shape of `x`. -/
theorem setitem_shape (t : Tensor α) (idx : List Ix) (upd r : Tensor α) (hr : t.rank ≠ 0)
    (h : setitem t idx upd = .ok r) : r.shape = t.shape := by
  unfold setitem at h
  simp only [hr, if_false] at h
  cases hn : normaliseIndex t.rank idx with
  | error e => simp [hn, bind, Except.bind] at h
  | ok n =>
    simp only [hn, bind, Except.bind] at h
    cases h; rfl

/-- **C09, frame**: every element whose coordinates are not among the selected positions is untouched. -/
theorem setitem_frame (t : Tensor α) (idx : List Ix) (upd r : Tensor α) (hr : t.rank ≠ 0)
    (h : setitem t idx upd = .ok r) (n : List NIx) (hn : normaliseIndex t.rank idx = .ok n)
    (ix : List Nat) (hfree : ∀ o ∈ allIdx (getitemCore (coords t.shape) n).shape,
      (getitemCore (coords t.shape) n).get o ≠ ix) :
    r.get ix = t.get ix := by
  unfold setitem at h
  simp only [hr, if_false, hn, bind, Except.bind] at h
  cases h
  apply scatter_frame
  intro p hp
  simp only [setitemWrites, List.mem_map] at hp
  obtain ⟨o, ho, rfl⟩ := hp
  exact hfree o ho

/-- **C09, hit**: when the index selects every position at most once (true of every basic index: slice
steps are non-zero), the element at a selected position is the broadcast update. -/
theorem setitem_hit (t : Tensor α) (idx : List Ix) (upd r : Tensor α) (hr : t.rank ≠ 0)
    (h : setitem t idx upd = .ok r) (n : List NIx) (hn : normaliseIndex t.rank idx = .ok n)
    (hinj : ((allIdx (getitemCore (coords t.shape) n).shape).map (getitemCore (coords t.shape) n).get).Nodup)
    (o : List Nat) (ho : o ∈ allIdx (getitemCore (coords t.shape) n).shape) :
    r.get ((getitemCore (coords t.shape) n).get o) =
      (expandTo upd (getitemCore (coords t.shape) n).shape).get o := by
  unfold setitem at h
  simp only [hr, if_false, hn, bind, Except.bind] at h
  cases h
  have hnd : ((setitemWrites t n upd).map (·.1)).Nodup := by
    simp only [setitemWrites, List.map_map]
    exact hinj
  have := scatter_hit t (setitemWrites t n upd) hnd
    ((getitemCore (coords t.shape) n).get o, (expandTo upd (getitemCore (coords t.shape) n).shape).get o)
    (by simp only [setitemWrites, List.mem_map]; exact ⟨o, ho, rfl⟩)
  exact this

/-- Positions of a slice with a non-zero step are pairwise distinct (the per-axis reason `hinj` holds). -/
theorem slice_positions_nodup (first : Int) (cnt : Nat) (step : Int) (hs : step ≠ 0) :
    ((List.range cnt).map (fun k => first + Int.ofNat k * step)).Nodup := by
  apply List.Pairwise.map (R := (· < ·)) _ _ List.pairwise_lt_range
  intro a b hab heq
  have h1 : (Int.ofNat a - Int.ofNat b) * step = 0 := by
    rw [Int.sub_mul]; omega
  rcases Int.mul_eq_zero.mp h1 with h | h
  · have : (a : Int) = (b : Int) := by
      have : Int.ofNat a = Int.ofNat b := by omega
      exact this
    omega
  · exact hs h

/-- Non-vacuity and a concrete instance: `x[1:4:2] = [10, 20]` on five tokens. -/
example : (match setitem (tokens [5]) [.slice (some 1) (some 4) (some 2)] (ofFlat [2] #[10, 20]) with
    | .ok r => r.toFlat | .error _ => []) = [0, 10, 2, 20, 4] := by decide

end Ndx.C09
