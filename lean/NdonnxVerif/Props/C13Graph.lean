import NdonnxVerif.Props.C11Trilu
import NdonnxVerif.Props.C13
/-!
# C13 at graph level — creation functions whose shape, fill value or bound is an array or a placeholder

`fullGraph`, `constFillGraph`, `arangeGraph` are the terms `tg_render creation …` prints and the check compares with the
exported graphs of `full`, `full_like`, `zeros`, `ones`, `empty`, `zeros_like`, `ones_like`, `arange` (tie B).
-/
namespace Ndx.TGraph
open Ndx Ndx.Spec Ndx.C02

/-- A shape given as a vector of non-negative int64 entries. -/
def shapeOfVec (s : Tensor Int) : List Nat := s.toFlat.map Int.toNat

theorem bshape_nil_left' (s : List Nat) : bshape [] s = some s := by simp [bshape, bshapeRev]

/-- **C13, `full` / `full_like`.**  `Expand(fill, shape)` for a rank-0 fill value: exactly the requested shape, every
element the fill value — whatever the shape vector holds at run time (zero extents included). -/
theorem full_graph_correct (env : List (Tensor Int)) (fill shape : TG) (hf : (fill.eval env).shape = []) :
    ((fullGraph fill shape).eval env).shape = shapeOfVec (shape.eval env) ∧
    ∀ ix, ((fullGraph fill shape).eval env).get ix = (fill.eval env).get [] := by
  simp only [fullGraph, TG.eval, expandOp, hf, bshape_nil_left', Option.getD_some, bcastTo, shapeOfVec, bcastIndex]
  exact ⟨trivial, fun ix => by simp⟩

/-- **C13, `zeros` / `ones` / `empty` and the `*_like` forms.**  The requested shape; every element the constant cast to
the requested integer dtype (`0` and `1` are representable in every integer dtype). -/
theorem constFill_graph_correct (env : List (Tensor Int)) (v : Int) (shape : TG) (dt : Nat) :
    ((constFillGraph v shape dt).eval env).shape = shapeOfVec (shape.eval env) ∧
    ∀ ix, ((constFillGraph v shape dt).eval env).get ix = (if 7 = dt then v else castElem dt v) := by
  obtain ⟨hs, hg⟩ := astypeG_eval env (.expand (iscalar v) shape) 7 dt
  obtain ⟨h1, h2⟩ := full_graph_correct env (iscalar v) shape (by simp [TG.eval, iscalar, constT])
  simp only [fullGraph] at h1 h2
  refine ⟨hs.trans h1, fun ix => ?_⟩
  rw [constFillGraph, hg, h2]
  simp only [eval_iscalar, constT_scalar_get]
  split <;> rfl

theorem castElem_one (c : Nat) (T : IType) (hT : typeOfCode c = some T) : castElem c 1 = 1 := by
  unfold typeOfCode at hT
  split at hT <;> first | (injection hT with hT; subst hT; decide) | cases hT

/-- **C13, `arange` with a run-time bound.**  `Range(start, stop, step)` (then the cast to the requested dtype): the number
of elements is `rangeLen start stop step` — `⌈(stop − start) / step⌉` clipped at 0, NumPy's length (`rangeLen_pos_spec`,
`rangeLen_empty`) — and element `i` is `start + i·step`. -/
theorem arange_graph_correct (env : List (Tensor Int)) (start step : Int) (stop : TG) (dt : Nat) :
    ((arangeGraph start stop step dt).eval env).shape = [rangeLen start ((stop.eval env).get []) step] ∧
    ∀ i, ((arangeGraph start stop step dt).eval env).get [i]
      = (if 7 = dt then id else castElem dt) (start + Int.ofNat i * step) := by
  obtain ⟨hs, hg⟩ := astypeG_eval env (.range (iscalar start) stop (iscalar step)) 7 dt
  refine ⟨by rw [arangeGraph, hs]; simp [TG.eval, rangeOp], fun i => ?_⟩
  rw [arangeGraph, hg]
  simp [TG.eval, rangeOp]

example : ((constFillGraph 1 (.inp 0) 3).eval [constT [2] [2, 0]]).shape = [2, 0] := by decide
example : ((arangeGraph 2 (.inp 0) 3 6).eval [constT [] [11]]).toFlat = [2, 5, 8] := by decide
example : ((fullGraph (.inp 1) (.shape (.inp 0))).eval [constT [2, 2] [0, 0, 0, 0], constT [] [7]]).toFlat = [7, 7, 7, 7] := by decide

end Ndx.TGraph
