import NdonnxVerif.Model.Layout
import NdonnxVerif.Props.C08
/-!
# C11 — shape-manipulation functions are pure data movement (algorithmic part)

`roll` and `flip` are the two layout functions ndonnx *computes* instead of delegating to a single
ONNX operator.  For every rank, every shape (extents 0 and 1 included), every axis and every shift of
any sign and magnitude, the emitted composition is NumPy's index map.
-/
namespace Ndx.C11
open Ndx Ndx.Spec

theorem inRange_length : ∀ (sh ix : List Nat), InRange sh ix → ix.length = sh.length
  | [], [], _ => rfl
  | n :: sh, i :: ix, h => by simp [inRange_length sh ix h.2]
  | [], _ :: _, h => absurd h (by simp [InRange])
  | _ :: _, [], h => absurd h (by simp [InRange])

theorem inRange_get : ∀ (sh ix : List Nat), InRange sh ix → ∀ k (hk : k < ix.length),
    ix[k] < sh.getD k 0
  | [], [], _, k, hk => by simp at hk
  | n :: sh, i :: ix, h, 0, _ => by simpa using h.1
  | n :: sh, i :: ix, h, k + 1, hk => by
      have := inRange_get sh ix h.2 k (by simpa using hk)
      simpa using this
  | [], _ :: _, h, _, _ => absurd h (by simp [InRange])
  | _ :: _, [], h, _, _ => absurd h (by simp [InRange])

/-- Two maps that agree on the component actually stored at `axis` give the same index. -/
theorem updAxis_congr (ix : List Nat) (axis : Nat) (f g : Nat → Nat)
    (h : ∀ (hk : axis < ix.length), f ix[axis] = g ix[axis]) : updAxis ix axis f = updAxis ix axis g := by
  apply List.ext_getElem
  · simp [updAxis]
  · intro k h1 h2
    simp only [updAxis, List.getElem_mapIdx]
    by_cases hk : k = axis
    · subst hk; simp [h (by simpa [updAxis] using h1)]
    · simp [hk]

theorem rollIndices_length (n : Nat) (sh : Int) : (rollIndices n sh).length = n := by
  simp [rollIndices]

theorem set_getD_self (l : List Nat) (axis : Nat) : l.set axis (l.getD axis 0) = l := by
  apply List.ext_getElem
  · simp
  · intro k h1 h2
    by_cases hk : axis = k
    · subst hk
      simp [List.getD_eq_getElem?_getD, List.getElem?_eq_getElem (by simpa using h1 : axis < l.length)]
    · simp [List.getElem_set_ne hk]

/-- **roll.** For every tensor, shift (any sign, any magnitude) and axis, the Range/Add/Mod/Gather
composition ndonnx emits is NumPy's rotation. -/
theorem roll_axis (t : Tensor α) (sh : Int) (axis : Nat) :
    Tensor.Equiv (rollAxisModel t sh axis) (Spec.rollAxis t sh axis) := by
  refine ⟨?_, ?_⟩
  · simp only [rollAxisModel, onnxGatherAxis, Spec.rollAxis, rollIndices_length]
    exact set_getD_self t.shape axis
  · intro ix hin
    have hshape : (rollAxisModel t sh axis).shape = t.shape := by
      simp only [rollAxisModel, onnxGatherAxis, rollIndices_length]
      exact set_getD_self t.shape axis
    rw [hshape] at hin
    simp only [rollAxisModel, onnxGatherAxis, Spec.rollAxis]
    congr 1
    apply updAxis_congr
    intro hk
    have hi : ix[axis] < t.shape.getD axis 0 := inRange_get t.shape ix hin axis hk
    generalize hn : t.shape.getD axis 0 = n at hi
    generalize hv : ix[axis] = i at hi
    have hpos : (0 : Int) < (n : Int) := by omega
    have hget : (rollIndices n sh).getD i 0 = ((i : Int) + (-sh + (n : Int))) % (n : Int) := by
      simp [rollIndices, List.getD_eq_getElem?_getD, hi]
    have e : ((i : Int) + (-sh + (n : Int))) % (n : Int) = ((i : Int) - sh) % (n : Int) := by
      have : (i : Int) + (-sh + (n : Int)) = ((i : Int) - sh) + (n : Int) := by omega
      rw [this, Int.add_emod_right]
    have h0 := Int.emod_nonneg ((i : Int) - sh) (by omega : (n : Int) ≠ 0)
    simp only [hget, e]
    simp [Int.not_lt.mpr h0]

/-- Rolling by a multiple of the extent is the identity map; rolling composes additively. -/
theorem roll_full_turn (n : Nat) (i : Nat) (k : Int) :
    (((i : Int) - k * (n : Int)) % (n : Int)) = ((i : Int) % (n : Int)) := by
  rw [Int.sub_emod]; simp

/-- **flip.** `x[::-1]` on one axis, for every extent `n ≥ 0`: the open-ended negative-step `Slice`
selects `n − 1, n − 2, …, 0`. -/
theorem flip_slice_triple (n : Nat) (hn : (n : Int) ≤ int64Max) :
    C08.positions (C08.modelAxis n (.sl int64Max int64Min (-1))) = (List.range n).map (fun (k : Nat) => (n : Int) - 1 - (k : Int)) := by
  have hb : sliceInBounds n none none (some (-1)) := by
    refine ⟨by decide, ?_, ?_⟩ <;> intro v hv <;> cases hv
  have he : normaliseEntry (.slice none none (some (-1))) = .ok (.sl int64Max int64Min (-1)) := by
    simp [normaliseEntry, stepPositive, defaultStart, defaultStop, int64Max, int64Min]
  rw [C08.slice_axis_agree n hn none none (some (-1)) hb _ he]
  simp only [C08.positions, pySlice, pyStart, pyStop, Option.getD]
  have hcount : rangeLen ((n : Int) - 1) (-1) (-1) = n := by
    unfold rangeLen
    simp only [show ¬ ((-1 : Int) > 0) by decide, if_false, show ((-1 : Int) < 0) by decide, if_true]
    split
    · simp only [Int.neg_neg]
      omega
    · omega
  simp only [show ¬ ((-1 : Int) > 0) by decide, if_false, hcount]
  apply List.map_congr_left
  intro k _
  simp only [Int.ofNat_eq_natCast]
  omega

/-- `matrix_transpose` swaps exactly the last two axes and keeps the others in place. -/
theorem matrix_transpose_perm (rank : Nat) (h : 2 ≤ rank) :
    (matrixTransposePerm rank).length = rank ∧
    (matrixTransposePerm rank)[rank - 2]? = some (rank - 1) ∧
    (matrixTransposePerm rank)[rank - 1]? = some (rank - 2) ∧
    ∀ i, i < rank - 2 → (matrixTransposePerm rank)[i]? = some i := by
  have hl : (List.range (rank - 2)).length = rank - 2 := by simp
  refine ⟨by simp [matrixTransposePerm]; omega, ?_, ?_, ?_⟩
  · rw [matrixTransposePerm, List.getElem?_append_right (by simp)]
    simp
  · rw [matrixTransposePerm, List.getElem?_append_right (by simp; omega)]
    have : rank - 1 - (List.range (rank - 2)).length = 1 := by simp; omega
    rw [this]; rfl
  · intro i hi
    rw [matrixTransposePerm, List.getElem?_append_left (by simpa using hi)]
    simp [hi]

/-- `_transmute`: a struct array is moved field by field with one and the same index map, so values
and null flags stay aligned — for any number of fields and any map. -/
theorem transmute_aligned (fields : List (Tensor β)) (f : List Nat → List Nat) (newShape : List Nat)
    (ix : List Nat) :
    (fields.map (fun t => (⟨newShape, fun i => t.get (f i)⟩ : Tensor β))).map (fun t => t.get ix)
      = fields.map (fun t => t.get (f ix)) := by
  simp [List.map_map, Function.comp_def]

example : (rollAxisModel (tokens [2, 3]) 4 1).toFlat = [2, 0, 1, 5, 3, 4] := by decide
example : (rollAxisModel (tokens [2, 3]) (-1) 0).toFlat = [3, 4, 5, 0, 1, 2] := by decide
example : (flipAxisModel (tokens [2, 3]) 1).toFlat = [2, 1, 0, 5, 4, 3] := by decide

end Ndx.C11
