import NdonnxVerif.Props.C08MaskGraph
import NdonnxVerif.Props.C08IntGraph
/-!
# C04 at graph level — through indexing the null flag travels with its element

A nullable array is a pair of fields (values, null) of one shape; ndonnx applies the index to each field
(`UniformShapeOperations.getitem`).  The check verifies on every run that both fields of `x[mask]` and `x[int array]` are
exported as the *same* term, each on its own field (`harness/scattertie.py`, kind `null_travel`).  The theorems below say
that the two results then read their fields at the same source position — the flag stays with its element.
-/
namespace Ndx.TGraph
open Ndx Ndx.Spec

/-- **Boolean-mask selection moves flags with elements**: output position `o` of the values result and of the null result
read their fields at one and the same source position (the `o.head`-th selected leading index, then `o.tail`). -/
theorem mask_null_travels (env : List (Tensor Int)) (v n m : TG) (k : Nat)
    (hshape : (n.eval env).shape = (v.eval env).shape)
    (hk : (m.eval env).rank = k) (hle : k ≤ (v.eval env).rank)
    (hs : (m.eval env).shape = (v.eval env).shape.take k)
    (hz : 2 ≤ k → sizeOf' ((v.eval env).shape.drop k) ≠ 0) :
    ((maskGraph v m k).eval env).shape = ((maskGraph n m k).eval env).shape ∧
    ∀ o, InRange ((maskGraph v m k).eval env).shape o →
      ∃ p, ((maskGraph v m k).eval env).get o = (v.eval env).get p ∧ ((maskGraph n m k).eval env).get o = (n.eval env).get p := by
  have hv := exported_mask_graph_correct env v m k hk hle hs hz
  have hn := exported_mask_graph_correct env n m k hk (by simp only [Tensor.rank, hshape] at *; exact hle)
    (by rw [hshape]; exact hs) (by rw [hshape]; exact hz)
  have hsh : ((maskGraph v m k).eval env).shape = ((maskGraph n m k).eval env).shape := by
    rw [hv.1, hn.1]; simp only [Spec.maskSelect, hshape]
  refine ⟨hsh, ?_⟩
  intro o ho
  refine ⟨((allIdx (maskOf (m.eval env)).shape).filter (maskOf (m.eval env)).get).getD (o.headD 0) [] ++ o.tail, ?_, ?_⟩
  · rw [hv.2 o ho]; rfl
  · rw [hn.2 o (hsh ▸ ho)]; rfl

/-- **Integer-array selection moves flags with elements.** -/
theorem int_index_null_travels (env : List (Tensor Int)) (v n idx : TG) (code : Nat)
    (hshape : (n.eval env).shape = (v.eval env).shape) (hr : 1 ≤ (v.eval env).rank)
    (hrange : ∀ ix, InRange (idx.eval env).shape ix →
      -(2 : Int) ^ 63 ≤ (idx.eval env).get ix ∧ (idx.eval env).get ix < (2 : Int) ^ 63) :
    ((intIndexGraph v idx code).eval env).shape = ((intIndexGraph n idx code).eval env).shape ∧
    ∀ o, InRange ((intIndexGraph v idx code).eval env).shape o →
      ∃ p, ((intIndexGraph v idx code).eval env).get o = (v.eval env).get p ∧ ((intIndexGraph n idx code).eval env).get o = (n.eval env).get p := by
  have hv := intIndexGraph_correct env v idx code hr hrange
  have hn := intIndexGraph_correct env n idx code (by simp only [Tensor.rank, hshape] at *; exact hr) hrange
  have hsh : ((intIndexGraph v idx code).eval env).shape = ((intIndexGraph n idx code).eval env).shape := by
    rw [hv.1, hn.1]; simp only [Spec.intSelect, hshape]
  refine ⟨hsh, ?_⟩
  intro o ho
  refine ⟨_, hv.2 o ho, ?_⟩
  rw [hn.2 o (hsh ▸ ho)]
  simp only [Spec.intSelect, hshape]

end Ndx.TGraph
