import NdonnxVerif.Props.C10GraphProd
/-!
# C10 / C04 at graph level — `prod` of a nullable integer array: nulls count as absent (factor 1)
-/
namespace Ndx.TGraph
open Ndx Ndx.Spec Ndx.C02

theorem reduceProd_pointwise' (e x : Tensor Int) (g : Int → Int) (axis : AxisArg) (keepdims : Bool)
    (hv : axisValid x.rank axis) (hs : e.shape = x.shape) (hg : ∀ ix, InRange x.shape ix → e.get ix = g (x.get ix)) :
    (reduceOp .prod keepdims (axis != .none) e (normalizeAxes x.rank axis)).shape = reducedShape x.shape axis keepdims ∧
    ∀ o, InRange (reducedShape x.shape axis keepdims) o →
      (reduceOp .prod keepdims (axis != .none) e (normalizeAxes x.rank axis)).get o
        = ((reduceVals x (npFlags x.rank axis) (keptIndex (npFlags x.rank axis) keepdims o)).map g).foldl prodf 1 := by
  have her : e.rank = x.rank := by simp [Tensor.rank, hs]
  have hflags := reduceOp_flags x.rank axis hv
  have hl : (npFlags x.rank axis).length = x.shape.length := by simp [npFlags, Tensor.rank]
  obtain ⟨hps, hpg⟩ := reduceT_of_pointwise prodf 1 e x g (npFlags x.rank axis) keepdims hl hs hg
  have hxs : (reduceT prodf 1 x (npFlags x.rank axis) keepdims).shape = reducedShape x.shape axis keepdims := by
    rw [← hflags, reduceT_shape, normAxes_id _ _ hv, ← C10.reduce_shape]; rfl
  have hR : reduceOp .prod keepdims (axis != .none) e (normalizeAxes x.rank axis)
      = reduceT prodf 1 e (npFlags x.rank axis) keepdims := by
    simp only [reduceOp]
    rw [her, hflags]
    rfl
  rw [hR]
  refine ⟨hps.trans hxs, ?_⟩
  intro o ho
  exact hpg o (hxs ▸ ho)

/-- Core of the `prod` theorems (as `sum_via_core`): the routed `ReduceProd` over an operand that is `g ∘ X` on in-range
indices, with `g` congruent to the identity modulo `2^bits` of the accumulator type. -/
theorem prod_via_core (env) (inner : TG) (X : Tensor Int) (g : Int → Int) (acc : Nat) (T : IType) (hT : typeOfCode acc = some T)
    (axis : AxisArg) (keepdims : Bool) (hv : axisValid X.rank axis)
    (hs : (inner.eval env).shape = X.shape)
    (hg : ∀ ix, InRange X.shape ix → (inner.eval env).get ix = g (X.get ix))
    (hgU : ∀ v, wrapU T.bits (g v) = wrapU T.bits v) :
    ((viaI64 acc (reduceCore .prod keepdims axis X.rank) inner).eval env).shape = reducedShape X.shape axis keepdims ∧
    ∀ o, InRange (reducedShape X.shape axis keepdims) o →
      ((viaI64 acc (reduceCore .prod keepdims axis X.rank) inner).eval env).get o
        = T.wrap (prodL (reduceVals X (npFlags X.rank axis) (keptIndex (npFlags X.rank axis) keepdims o))) := by
  obtain ⟨hcast, hbits⟩ := castElem_of_code acc T hT
  unfold viaI64
  by_cases h7 : acc = 7
  · subst h7
    have hT' : T = ⟨64, true⟩ := by simp [typeOfCode] at hT; exact hT.symm
    simp only [if_true, reduceCore, TG.eval, eval_ivec_toFlat]
    obtain ⟨h1, h2⟩ := reduceProd_pointwise' _ X g axis keepdims hv hs hg
    refine ⟨h1, fun o ho => ?_⟩
    rw [h2 o ho, ← prod_fold_value T hbits _ hgU, hT']
    exact (fold_prod_fixed _ 1 (by decide)).symm
  · simp only [h7, if_false, reduceCore, TG.eval, eval_ivec_toFlat]
    have hes : (Tensor.map (castElem 7) (inner.eval env)).shape = X.shape := hs
    have heg : ∀ ix, InRange X.shape ix → (Tensor.map (castElem 7) (inner.eval env)).get ix
        = (fun v => castElem 7 (g v)) (X.get ix) := by
      intro ix hix; simp only [Tensor.map]; rw [hg ix hix]
    obtain ⟨h1, h2⟩ := reduceProd_pointwise' _ X (fun v => castElem 7 (g v)) axis keepdims hv hes heg
    refine ⟨by simpa [Tensor.map] using h1, fun o ho => ?_⟩
    have h2' := h2 o ho
    simp only [Tensor.map] at h2' ⊢
    rw [h2', hcast]
    apply prod_fold_value T hbits
    intro v
    show wrapU T.bits (wrapS 64 _) = _
    rw [wrapU_wrapS64 T.bits hbits]
    exact hgU v

theorem castElem_one_of_code (c : Nat) (T : IType) (hT : typeOfCode c = some T) : castElem c 1 = 1 := by
  unfold typeOfCode at hT
  split at hT <;> first | (injection hT with hT; subst hT; decide) | cases hT

theorem cast_or_id_one (t acc : Nat) (T : IType) (hT : typeOfCode acc = some T) :
    (if t = acc then id else castElem acc) 1 = 1 := by
  split
  · rfl
  · exact castElem_one_of_code acc T hT

/-- `whereFill … 1 …` is, on in-range indices, `g` of `fillNull 1 values null` with `g` congruent to the identity modulo
`2^bits` (the casts fix 1). -/
theorem whereFill_one_eval (env) (values null : TG) (t acc : Nat) (T : IType) (hT : typeOfCode acc = some T)
    (hs : (null.eval env).shape = (values.eval env).shape) :
    ∃ g : Int → Int, (∀ v, wrapU T.bits (g v) = wrapU T.bits v) ∧
      ((whereFill acc null 1 (astypeG t acc values)).eval env).shape = (values.eval env).shape ∧
      ∀ ix, InRange (values.eval env).shape ix →
        ((whereFill acc null 1 (astypeG t acc values)).eval env).get ix
          = g ((fillNull 1 (values.eval env) (null.eval env)).get ix) := by
  obtain ⟨hcast, hbits⟩ := castElem_of_code acc T hT
  obtain ⟨has, hag⟩ := astypeG_eval env values t acc
  have h1 := cast_or_id_one t acc T hT
  have hU := cast_or_id_wrapU t acc T hT
  unfold whereFill
  by_cases hu : isUnsignedCode acc = true
  · simp only [hu, if_true]
    refine ⟨fun v => castElem acc (castElem 7 ((if t = acc then id else castElem acc) v)), ?_, ?_, ?_⟩
    · intro v
      show wrapU T.bits (castElem acc (castElem 7 ((if t = acc then id else castElem acc) v))) = _
      rw [hcast, wrapU_twrap]
      show wrapU T.bits (wrapS 64 _) = _
      rw [wrapU_wrapS64 T.bits hbits]
      exact hU v
    · obtain ⟨hws, _⟩ := where_fill_eval (null.eval env) ((iscalar 1).eval env) (((astypeG t acc values).eval env).map (castElem 7)) 1
        (isScalar_iscalar env 1) (hs.trans has.symm)
      simp only [TG.eval, Tensor.map] at hws ⊢
      exact hws.trans has
    · intro ix hix
      obtain ⟨_, hwg⟩ := where_fill_eval (null.eval env) ((iscalar 1).eval env) (((astypeG t acc values).eval env).map (castElem 7)) 1
        (isScalar_iscalar env 1) (hs.trans has.symm)
      have := hwg ix (has ▸ hix)
      simp only [TG.eval, Tensor.map] at this ⊢
      rw [this]
      simp only [fillNull, hag]
      split
      · rw [h1, castElem_one_of_code 7 ⟨64, true⟩ rfl, castElem_one_of_code acc T hT]
      · rfl
  · simp only [hu, Bool.false_eq_true, if_false]
    refine ⟨(if t = acc then id else castElem acc), hU, ?_, ?_⟩
    · obtain ⟨hws, _⟩ := where_fill_eval (null.eval env) ((iscalar 1).eval env) ((astypeG t acc values).eval env) 1
        (isScalar_iscalar env 1) (hs.trans has.symm)
      simp only [TG.eval]; exact hws.trans has
    · intro ix hix
      obtain ⟨_, hwg⟩ := where_fill_eval (null.eval env) ((iscalar 1).eval env) ((astypeG t acc values).eval env) 1
        (isScalar_iscalar env 1) (hs.trans has.symm)
      simp only [TG.eval]
      rw [hwg ix (has ▸ hix)]
      simp only [fillNull, hag]
      split
      · exact h1.symm
      · rfl

/-- **`prod` of a nullable integer array at graph level (C04 / C10).**  The exported graph (`astype` → `where(null, 1, values)`
→ through int64 → `ReduceProd` → cast back) returns, at every result position, the exact product of the **non-null**
elements of the reduced slice wrapped into the accumulator dtype; the result is a function of `fillNull 1 values null`,
which reads `values` at non-null positions only (`fillNull_ignores_payload`). -/
theorem prod_nullable_graph_correct (env) (values null : TG) (t acc : Nat) (T : IType) (hT : typeOfCode acc = some T)
    (axis : AxisArg) (keepdims : Bool) (hv : axisValid (values.eval env).rank axis)
    (hs : (null.eval env).shape = (values.eval env).shape) :
    ((viaI64 acc (reduceCore .prod keepdims axis (values.eval env).rank) (whereFill acc null 1 (astypeG t acc values))).eval env).shape
      = reducedShape (values.eval env).shape axis keepdims ∧
    ∀ o, InRange (reducedShape (values.eval env).shape axis keepdims) o →
      ((viaI64 acc (reduceCore .prod keepdims axis (values.eval env).rank) (whereFill acc null 1 (astypeG t acc values))).eval env).get o
        = T.wrap (prodL (reduceVals (fillNull 1 (values.eval env) (null.eval env)) (npFlags (values.eval env).rank axis)
            (keptIndex (npFlags (values.eval env).rank axis) keepdims o))) := by
  obtain ⟨g, hgU, hws, hwg⟩ := whereFill_one_eval env values null t acc T hT hs
  exact prod_via_core env (whereFill acc null 1 (astypeG t acc values)) (fillNull 1 (values.eval env) (null.eval env))
    g acc T hT axis keepdims hv hws hwg hgU

/-- Non-vacuity: a nullable int32 vector [5, <null: payload 1000>, 7] has product 35. -/
example : (((prodNullableGraph (.inp 0) (.inp 1) 6 1 .none false).get!).eval
    [⟨[3], fun ix => [5, 1000, 7].getD (ix.headD 0) 0⟩, ⟨[3], fun ix => [0, 1, 0].getD (ix.headD 0) 0⟩]).toFlat = [35] := by decide

end Ndx.TGraph
