import NdonnxVerif.Lemmas.HeapSim
/-!
# C19 — spox interop and `eager_propagate` over nested argument structures (model part)

`_aggregate_arguments` walks positional and keyword arguments through lists, tuples, dicts and slices,
replaces data-holding core arrays by themselves (strings by placeholders fed at inference time) and
computes `constant_inputs`.  Model: argument trees; theorem: `constant_inputs` is true iff *every*
array leaf holds data, for every nesting; the rewritten arguments have the same structure.
`from_spox_var(spox_var(a))` keeps the graph term and drops the value: a cell transition that preserves
denotation (soundness is inherited from C07).
-/
namespace Ndx.C19
open Ndx.Heap

/-- Nested arguments of a wrapped function. -/
inductive ArgTree
  | array (holdsData : Bool)          -- a `_CoreArray` / `Array` leaf
  | other                              -- any non-array Python object (passed through)
  | seq (xs : List ArgTree)            -- list / tuple
  | dict (xs : List (String × ArgTree))
  | slice (a b c : ArgTree)

mutual
/-- The array leaves, in traversal order (= order of `flattened_inference_inputs` for strings). -/
def leaves : ArgTree → List Bool
  | .array d => [d]
  | .other => []
  | .seq xs => leavesList xs
  | .dict xs => leavesDict xs
  | .slice a b c => leaves a ++ leaves b ++ leaves c
def leavesList : List ArgTree → List Bool
  | [] => []
  | x :: xs => leaves x ++ leavesList xs
def leavesDict : List (String × ArgTree) → List Bool
  | [] => []
  | (_, x) :: xs => leaves x ++ leavesDict xs
end

mutual
/-- `collect_lazy_arguments` with its `nonlocal constant_inputs` flag threaded through. -/
def aggregate (flag : Bool) : ArgTree → Bool × ArgTree
  | .array d => (flag && d, .array d)
  | .other => (flag, .other)
  | .seq xs => let r := aggregateList flag xs; (r.1, .seq r.2)
  | .dict xs => let r := aggregateDict flag xs; (r.1, .dict r.2)
  | .slice a b c =>
      let ra := aggregate flag a
      let rb := aggregate ra.1 b
      let rc := aggregate rb.1 c
      (rc.1, .slice ra.2 rb.2 rc.2)
def aggregateList (flag : Bool) : List ArgTree → Bool × List ArgTree
  | [] => (flag, [])
  | x :: xs => let r := aggregate flag x; let rs := aggregateList r.1 xs; (rs.1, r.2 :: rs.2)
def aggregateDict (flag : Bool) : List (String × ArgTree) → Bool × List (String × ArgTree)
  | [] => (flag, [])
  | (k, x) :: xs => let r := aggregate flag x; let rs := aggregateDict r.1 xs; (rs.1, (k, r.2) :: rs.2)
end

mutual
theorem aggregate_flag (flag : Bool) : ∀ (t : ArgTree), (aggregate flag t).1 = (flag && (leaves t).all id)
  | .array d => by simp [aggregate, leaves]
  | .other => by simp [aggregate, leaves]
  | .seq xs => by simp [aggregate, leaves, aggregateList_flag flag xs]
  | .dict xs => by simp [aggregate, leaves, aggregateDict_flag flag xs]
  | .slice a b c => by
      simp only [aggregate, leaves, List.all_append]
      rw [aggregate_flag _ c, aggregate_flag _ b, aggregate_flag _ a]
      simp [Bool.and_assoc]
theorem aggregateList_flag (flag : Bool) : ∀ (xs : List ArgTree),
    (aggregateList flag xs).1 = (flag && (leavesList xs).all id)
  | [] => by simp [aggregateList, leavesList]
  | x :: xs => by
      simp only [aggregateList, leavesList, List.all_append]
      rw [aggregateList_flag _ xs, aggregate_flag _ x]
      simp [Bool.and_assoc]
theorem aggregateDict_flag (flag : Bool) : ∀ (xs : List (String × ArgTree)),
    (aggregateDict flag xs).1 = (flag && (leavesDict xs).all id)
  | [] => by simp [aggregateDict, leavesDict]
  | (k, x) :: xs => by
      simp only [aggregateDict, leavesDict, List.all_append]
      rw [aggregateDict_flag _ xs, aggregate_flag _ x]
      simp [Bool.and_assoc]
end

/-- **`constant_inputs` ⇔ every array leaf holds data**, for any nesting of lists, tuples, dicts and
slices, positional and keyword arguments alike. -/
theorem constant_inputs_iff (args : List ArgTree) (kwargs : List (String × ArgTree)) :
    (aggregateDict (aggregateList true args).1 kwargs).1 =
      ((leavesList args ++ leavesDict kwargs).all id) := by
  rw [aggregateDict_flag, aggregateList_flag]
  simp [List.all_append]

mutual
/-- The rewritten arguments have the same structure (and, in this model, the same leaves). -/
theorem aggregate_structure (flag : Bool) : ∀ (t : ArgTree), (aggregate flag t).2 = t
  | .array d => rfl
  | .other => rfl
  | .seq xs => by simp [aggregate, aggregateList_structure flag xs]
  | .dict xs => by simp [aggregate, aggregateDict_structure flag xs]
  | .slice a b c => by
      simp only [aggregate]
      rw [aggregate_structure _ a, aggregate_structure _ b, aggregate_structure _ c]
theorem aggregateList_structure (flag : Bool) : ∀ (xs : List ArgTree), (aggregateList flag xs).2 = xs
  | [] => rfl
  | x :: xs => by simp [aggregateList, aggregate_structure flag x, aggregateList_structure _ xs]
theorem aggregateDict_structure (flag : Bool) : ∀ (xs : List (String × ArgTree)), (aggregateDict flag xs).2 = xs
  | [] => rfl
  | (k, x) :: xs => by simp [aggregateDict, aggregate_structure flag x, aggregateDict_structure _ xs]
end

/-- `from_spox_var(a.spox_var())`: a new cell with the same graph term and no value. It denotes the
same value under every environment. -/
def viaSpox {Val : Type} (c : Cell Val) : Cell Val := ⟨c.var, none⟩

theorem via_spox_same_denotation {Val : Type} (sem : String → List Val → Option Val) (c : Cell Val) (env) :
    eval sem env (viaSpox c).var = eval sem env c.var ∧ (viaSpox c).eager = none := ⟨rfl, rfl⟩

example : (aggregate true (.seq [.array true, .dict [("k", .slice (.array true) .other (.array false))]])).1 = false := by
  decide

end Ndx.C19
