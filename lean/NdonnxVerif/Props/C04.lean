import NdonnxVerif.Model.Basic
/-!
# C04 — nulls propagate by the masking rule and null payloads never leak

Model of `_core/_utils.py::variadic_op` (`split_nulls_and_values`, the operator applied to the value
fields, `_or_nulls` folded over the null fields) on index-function tensors with NumPy/ONNX
broadcasting, for any number of operands; of `where` on nullable operands; of `_transmute`-based
functions (indexing, layout); and of the fill-with-neutral-element reductions.
-/
namespace Ndx.C04

/-- A nullable array: values (payload included) and null flags, as index functions. -/
structure NArr (α : Type) where
  shape : List Nat
  values : List Nat → α
  null : List Nat → Bool

/-- Broadcasting of an output index back to an operand of shape `s` (right-aligned; extent-1 axes
read index 0). -/
def bidx (s : List Nat) (idx : List Nat) : List Nat :=
  let j := idx.drop (idx.length - s.length)
  List.zipWith (fun d i => if d = 1 then 0 else i) s j

/-- `variadic_op(args, op)` for a *pointwise* operator `f` on any number of operands. -/
def variadicOp (f : List α → β) (oshape : List Nat) (xs : List (NArr α)) : NArr β :=
  ⟨oshape,
   fun idx => f (xs.map (fun x => x.values (bidx x.shape idx))),
   fun idx => xs.any (fun x => x.null (bidx x.shape idx))⟩

/-- Two arrays that differ only in the payload stored under nulls. -/
def SameUpToPayload (a b : NArr α) : Prop :=
  a.shape = b.shape ∧ (∀ i, a.null i = b.null i) ∧ (∀ i, a.null i = false → a.values i = b.values i)

/-- Operand lists that differ only in payloads, operand by operand. -/
inductive AllSame : List (NArr α) → List (NArr α) → Prop
  | nil : AllSame [] []
  | cons {x x' xs xs'} (h : SameUpToPayload x x') (t : AllSame xs xs') : AllSame (x :: xs) (x' :: xs')

/-- **Mask rule (element-wise).** An output element is null iff some contributing input element is. -/
theorem mask_rule (f : List α → β) (o) (xs : List (NArr α)) (idx) :
    (variadicOp f o xs).null idx = xs.any (fun x => x.null (bidx x.shape idx)) := rfl

/-- **Non-null outputs are the plain-data result.** -/
theorem values_are_plain (f : List α → β) (o) (xs : List (NArr α)) (idx) :
    (variadicOp f o xs).values idx = f (xs.map (fun x => x.values (bidx x.shape idx))) := rfl

/-- **Payload non-interference**, any arity, any broadcasting: changing what is stored under nulls
changes neither the output mask nor any non-null output value. -/
theorem payload_noninterference (f : List α → β) (o) :
    ∀ (xs xs' : List (NArr α)), AllSame xs xs' →
      (∀ idx, (variadicOp f o xs).null idx = (variadicOp f o xs').null idx) ∧
      (∀ idx, (variadicOp f o xs).null idx = false →
          (variadicOp f o xs).values idx = (variadicOp f o xs').values idx) := by
  intro xs xs' h
  induction h with
  | nil => exact ⟨fun _ => rfl, fun _ _ => rfl⟩
  | cons hx _ ih =>
    rename_i x x' xs xs' _
    obtain ⟨hs, hn, hv⟩ := hx
    obtain ⟨ihn, ihv⟩ := ih
    constructor
    · intro idx
      have := ihn idx
      simp only [variadicOp, List.any_cons] at this ⊢
      rw [hs, hn, this]
    · intro idx hnull
      simp only [variadicOp, List.any_cons, Bool.or_eq_false_iff] at hnull ⊢
      have htail := ihv idx (by simpa [variadicOp] using hnull.2)
      simp only [variadicOp] at htail
      simp only [List.map_cons]
      rw [hv _ hnull.1, hs]
      -- the tail's value lists agree because `f` is arbitrary: use congruence on the tail via `g`
      have key : xs.map (fun x => x.values (bidx x.shape idx)) = xs'.map (fun x => x.values (bidx x.shape idx)) := by
        clear htail ihv ihn hv hn hs
        rename_i hrest
        have hnn : ∀ y ∈ xs, y.null (bidx y.shape idx) = false := by
          intro y hy
          have := hnull.2
          rw [List.any_eq_false] at this
          simpa using this y hy
        clear hnull
        induction hrest with
        | nil => rfl
        | cons hy _ ih2 =>
          rename_i y y' ys ys' _
          obtain ⟨hs2, _, hv2⟩ := hy
          simp only [List.map_cons]
          rw [hv2 _ (hnn y (by simp)), hs2, ih2 (fun z hz => hnn z (by simp [hz]))]
      rw [key]

/-- **Selection (`where`).** Output null iff the condition is null or the selected branch is null;
the payloads of the condition and of the unselected branch are irrelevant. -/
def whereN (c : NArr Bool) (x y : NArr α) (o : List Nat) : NArr α :=
  ⟨o,
   fun idx => if c.values (bidx c.shape idx) then x.values (bidx x.shape idx) else y.values (bidx y.shape idx),
   fun idx => c.null (bidx c.shape idx) ||
     (if c.values (bidx c.shape idx) then x.null (bidx x.shape idx) else y.null (bidx y.shape idx))⟩

theorem where_payload (c c' : NArr Bool) (x x' y y' : NArr α) (o)
    (hc : SameUpToPayload c c') (hx : SameUpToPayload x x') (hy : SameUpToPayload y y') :
    (∀ idx, c.null (bidx c.shape idx) = false →
      (whereN c x y o).null idx = (whereN c' x' y' o).null idx) ∧
    (∀ idx, (whereN c x y o).null idx = false →
      (whereN c x y o).values idx = (whereN c' x' y' o).values idx) := by
  obtain ⟨hcs, hcn, hcv⟩ := hc
  obtain ⟨hxs, hxn, hxv⟩ := hx
  obtain ⟨hys, hyn, hyv⟩ := hy
  constructor
  · intro idx h0
    simp only [whereN]
    rw [← hcs, ← hcn, ← hcv _ h0, ← hxs, ← hys, ← hxn, ← hyn]
  · intro idx hnull
    simp only [whereN, Bool.or_eq_false_iff] at hnull ⊢
    obtain ⟨h0, hsel⟩ := hnull
    rw [← hcs, ← hcv _ h0, ← hxs, ← hys]
    by_cases hb : c.values (bidx c.shape idx) = true
    · simp only [hb, if_true] at hsel ⊢; exact hxv _ hsel
    · simp only [Bool.not_eq_true] at hb
      simp only [hb, Bool.false_eq_true, if_false] at hsel ⊢
      exact hyv _ hsel

/-- **Indexing / layout (`_transmute`).** The null flag travels with its element: values and null are
moved by the same index map, whatever the map. -/
def transmute (g : List Nat → List Nat) (newShape : List Nat) (x : NArr α) : NArr α :=
  ⟨newShape, fun i => x.values (g i), fun i => x.null (g i)⟩

theorem transmute_aligned (g : List Nat → List Nat) (s) (x : NArr α) (i) :
    (transmute g s x).null i = x.null (g i) ∧ (transmute g s x).values i = x.values (g i) := ⟨rfl, rfl⟩

theorem transmute_payload (g : List Nat → List Nat) (s) (x x' : NArr α) (h : SameUpToPayload x x') :
    SameUpToPayload (transmute g s x) (transmute g s x') :=
  ⟨rfl, fun i => h.2.1 (g i), fun i hn => h.2.2 (g i) hn⟩

/-- **Reductions treat nulls as absent** (fill-with-neutral): folding `op` over the values with every
null replaced by the neutral element `e` equals folding over the non-null values only. -/
theorem fill_neutral_fold (op : α → α → α) (e : α) (hl : ∀ a, op a e = a) :
    ∀ (vs : List (α × Bool)) (acc : α),
      (vs.map (fun p => if p.2 then e else p.1)).foldl op acc =
      ((vs.filter (fun p => !p.2)).map (·.1)).foldl op acc := by
  intro vs
  induction vs with
  | nil => intro acc; rfl
  | cons p ps ih =>
    intro acc
    cases hp : p.2
    · simp [hp, ih]
    · simp [hp, hl, ih]

/-- …and hence does not depend on the payload under the nulls. -/
theorem reduce_payload_independent (op : α → α → α) (e : α) (hl : ∀ a, op a e = a)
    (vs vs' : List (α × Bool)) (acc : α)
    (h : (vs.filter (fun p => !p.2)).map (·.1) = (vs'.filter (fun p => !p.2)).map (·.1)) :
    (vs.map (fun p => if p.2 then e else p.1)).foldl op acc =
    (vs'.map (fun p => if p.2 then e else p.1)).foldl op acc := by
  rw [fill_neutral_fold op e hl, fill_neutral_fold op e hl, h]

/-- Non-vacuity: two operands that differ under a null are `SameUpToPayload`. -/
example : SameUpToPayload (⟨[2], fun i => if i = [0] then 7 else 1, fun i => i == [0]⟩ : NArr Nat)
    ⟨[2], fun i => if i = [0] then 99 else 1, fun i => i == [0]⟩ := by
  refine ⟨rfl, fun _ => rfl, ?_⟩
  intro i hi
  simp at hi
  simp [hi]

end Ndx.C04
