import NdonnxVerif.Lemmas.SetitemGraph
import NdonnxVerif.Props.C08MaskGraph
import NdonnxVerif.Props.C08IntGraph
/-!
# C09 — `x[mask] = scalar` at graph level

`setitemMaskGraph` is the term `tg_render setitem_mask` prints and the check compares with the exported graph (tie B):
the boolean-mask selection applied to the coordinate grid, `Expand` of the update, `ScatterND`.  For a rank-0 update the
exported term writes the update at exactly the positions whose leading coordinates the mask selects — NumPy's
`x[mask] = v` — for every rank, every mask rank from 0 to the array's, every shape and data (for a mask of rank ≥ 2 with
non-zero trailing extents: the recorded C08 finding `zero-extent-raises` is the complement).
-/
namespace Ndx.TGraph
open Ndx Ndx.Spec Ndx.C08

theorem inRange_append : ∀ (A B u t : List Nat), InRange A u → InRange B t → InRange (A ++ B) (u ++ t)
  | [], B, [], t, _, h => by simpa using h
  | a :: A, B, i :: u, t, h1, h2 => ⟨h1.1, inRange_append A B u t h1.2 h2⟩
  | [], _, _ :: _, _, h, _ => absurd h (by simp [InRange])
  | _ :: _, _, [], _, h, _ => absurd h (by simp [InRange])

theorem inRange_drop : ∀ (A B ix : List Nat), InRange (A ++ B) ix → InRange B (ix.drop A.length)
  | [], B, ix, h => by simpa using h
  | a :: A, B, [], h => by simp [InRange] at h
  | a :: A, B, i :: ix, h => by
    simp only [List.cons_append, InRange] at h
    simp only [List.length_cons, List.drop_succ_cons]
    exact inRange_drop A B ix h.2

/-- **C09, `x[mask] = scalar`, exported graph.**  The result has `x`'s shape; an element whose leading `k` coordinates the
mask selects holds the update, every other element is `x`'s own. -/
theorem setitemMaskGraph_scalar (env : List (Tensor Int)) (x m upd : TG) (rank k : Nat)
    (hr : (x.eval env).rank = rank) (hpos : 0 < rank)
    (hk : (m.eval env).rank = k) (hle : k ≤ rank)
    (hs : (m.eval env).shape = (x.eval env).shape.take k)
    (hz : 2 ≤ k → sizeOf' ((x.eval env).shape.drop k) ≠ 0)
    (hu : (upd.eval env).shape = []) :
    ((setitemMaskGraph x m upd rank k).eval env).shape = (x.eval env).shape ∧
    ∀ p, InRange (x.eval env).shape p →
      ((setitemMaskGraph x m upd rank k).eval env).get p
        = if (m.eval env).get (p.take k) ≠ 0 then (upd.eval env).get [] else (x.eval env).get p := by
  obtain ⟨hGs, hGg⟩ := ndindexGraph_eval env x rank hr hpos
  generalize hT : x.eval env = T at *
  generalize hM : m.eval env = M at *
  generalize hU : upd.eval env = U at *
  -- split the shape at the mask's rank
  obtain ⟨A, B, hS, hA⟩ : ∃ A B, T.shape = A ++ B ∧ A.length = k := by
    refine ⟨T.shape.take k, T.shape.drop k, (List.take_append_drop k T.shape).symm, ?_⟩
    have hl : T.shape.length = rank := hr
    simp only [List.length_take]; omega
  have hMA : M.shape = A := by rw [hs, hS, ← hA]; simp
  have hrank : A.length + B.length = rank := by
    have : T.shape.length = rank := hr
    rw [hS] at this; simpa using this
  rw [hS] at hGs hGg
  have hdropB : T.shape.drop k = B := by rw [hS, ← hA]; simp
  have hq4 : 2 ≤ k → sizeOf' (((ndindexGraph x rank).eval env).shape.drop k) ≠ 0 := by
    intro h2
    have hB := hz h2
    rw [hdropB] at hB
    have : (A ++ B ++ [rank]).drop k = B ++ [rank] := by rw [← hA]; simp
    rw [hGs, this, sizeOf'_append]
    simp only [sizeOf', List.foldr_cons, List.foldr_nil, Nat.mul_one] at hB ⊢
    exact Nat.mul_ne_zero hB (by omega)
  have hmask := exported_mask_graph_correct env (ndindexGraph x rank) m k (by rw [hM]; exact hk)
    (by simp only [Tensor.rank, hGs, List.length_append, List.length_cons, List.length_nil]; omega)
    (by rw [hM, hGs, hMA, ← hA]; simp) hq4
  rw [hM] at hmask
  obtain ⟨hIs, hIg⟩ := hmask
  simp only [Spec.maskSelect] at hIs hIg
  have hmr : (maskOf M).rank = k := hk
  have hmsh : (maskOf M).shape = A := hMA
  rw [hmr, hmsh, hGs] at hIs
  rw [hmsh] at hIg
  have hd : (A ++ B ++ [rank]).drop k = B ++ [rank] := by rw [← hA]; simp
  rw [hd] at hIs
  generalize hsel : (allIdx A).filter (maskOf M).get = sel at hIs hIg
  have hselmem : ∀ u, u ∈ sel ↔ (InRange A u ∧ M.get u ≠ 0) := by
    intro u
    rw [← hsel, List.mem_filter]
    constructor
    · intro ⟨h1, h2⟩
      exact ⟨mem_allIdx_inRange _ _ h1, by simpa [maskOf] using h2⟩
    · intro ⟨h1, h2⟩
      exact ⟨inRange_mem_allIdx _ _ h1, by simpa [maskOf] using h2⟩
  simp only [setitemMaskGraph, scatterWith, TG.eval, eval_ivec_toFlat]
  generalize hI : (maskGraph (ndindexGraph x rank) m k).eval env = I at hIs hIg ⊢
  -- index-path shape and the expanded update
  have hsl : (sliceOp (shapeOp I) [0] [-1] (List.map Int.ofNat (List.range ([0] : List Int).length)) (List.map (fun _ => (1 : Int)) ([0] : List Int))).toFlat
      = (sel.length :: B).map Int.ofNat := by
    have e1 : List.map Int.ofNat (List.range ([0] : List Int).length) = [0] := rfl
    have e2 : List.map (fun _ => (1 : Int)) ([0] : List Int) = [1] := rfl
    have e3 : shapeOp I = vec ((sel.length :: B ++ [rank]).map Int.ofNat) := by simp only [shapeOp, hIs]; simp
    rw [e1, e2, e3, slice3_dropLast _ (by simp)]
    have : ((sel.length :: B ++ [rank]).map Int.ofNat) = ((sel.length :: B).map Int.ofNat) ++ [Int.ofNat rank] := by simp
    rw [this, List.dropLast_concat]
  rw [hsl, hT, hU]
  have hbq : bshape U.shape (sel.length :: B) = some (sel.length :: B) := by
    rw [hu]; simp [bshape, bshapeRev]
  have hVg : ∀ o, (expandOp U ((sel.length :: B).map Int.ofNat)).get o = U.get [] := by
    intro o; simp only [expandOp, map_toNat_ofNat, hbq, Option.getD_some, bcastTo, bcastIndex, hu]; simp
  generalize expandOp U ((sel.length :: B).map Int.ofNat) = V at hVg
  refine ⟨rfl, ?_⟩
  intro p hp
  have hp' : InRange (A ++ B) p := by simpa [scatterNDOp, hS] using hp
  have hpl : p.length = rank := by rw [C11.inRange_length _ _ hp']; simpa using hrank
  have hlast : I.shape.getLastD 0 = rank := by
    have : sel.length :: (B ++ [rank]) = (sel.length :: B) ++ [rank] := rfl
    rw [hIs, this, List.getLastD_eq_getLast?, List.getLast?_concat]; rfl
  have hdl : I.shape.dropLast = sel.length :: B := by
    have : sel.length :: (B ++ [rank]) = (sel.length :: B) ++ [rank] := rfl
    rw [hIs, this, List.dropLast_concat]
  have htake : p.take rank = p := by rw [← hpl]; simp
  have hdrop : p.drop rank = [] := by rw [← hpl]; simp
  simp only [scatterNDOp, hlast, hdl, htake, hdrop, List.append_nil, hVg]
  -- the path written by the update at o = a :: t is sel[a] ++ t
  have hpath : ∀ a t, a < sel.length → InRange B t → scatterPath T.shape I (a :: t) = sel.getD a [] ++ t := by
    intro a t ha ht
    have hmem : sel.getD a [] ∈ sel := by
      rw [List.getD_eq_getElem?_getD, List.getElem?_eq_getElem ha]; simp
    have hAu := ((hselmem _).mp hmem).1
    have hin : InRange (A ++ B) (sel.getD a [] ++ t) := inRange_append _ _ _ _ hAu ht
    apply scatterPath_of_grid _ _ _ _ rank hlast
    · rw [C11.inRange_length _ _ hin]; simpa using hrank
    · intro j hj
      have hir : InRange I.shape ((a :: t) ++ [j]) := by
        rw [hIs]
        exact ⟨ha, inRange_snoc _ _ rank j ht hj⟩
      rw [hIg _ hir]
      simp only [List.cons_append, List.headD_cons, List.tail_cons]
      rw [← List.append_assoc]
      exact hGg _ hin j hj
  have hAk : InRange A (p.take k) := by rw [← hA]; exact inRange_take _ _ p hp'
  have hBk : InRange B (p.drop k) := by rw [← hA]; exact inRange_drop _ _ p hp'
  by_cases hm : M.get (p.take k) ≠ 0
  · rw [if_pos hm]
    have hin : p.take k ∈ sel := (hselmem _).mpr ⟨hAk, hm⟩
    obtain ⟨a, ha, hsa⟩ := List.getElem_of_mem hin
    cases hf : List.find? (fun o => scatterPath T.shape I o == p) (allIdx (sel.length :: B)).reverse with
    | some o => rfl
    | none =>
      exfalso
      have hnone := List.find?_eq_none.mp hf (a :: p.drop k) (by
        rw [List.mem_reverse]
        exact inRange_mem_allIdx _ _ ⟨ha, hBk⟩)
      rw [hpath a _ ha hBk] at hnone
      have : sel.getD a [] = p.take k := by
        rw [List.getD_eq_getElem?_getD, List.getElem?_eq_getElem ha]; simpa using hsa
      rw [this, List.take_append_drop] at hnone
      simp at hnone
  · rw [if_neg hm]
    have hf : List.find? (fun o => scatterPath T.shape I o == p) (allIdx (sel.length :: B)).reverse = none := by
      rw [List.find?_eq_none]
      intro o ho
      have hoR := mem_allIdx_inRange _ _ (List.mem_reverse.mp ho)
      match o, hoR with
      | a :: t, hoR =>
        rw [hpath a t hoR.1 hoR.2]
        intro heq
        have heq' : sel.getD a [] ++ t = p := by simpa using heq
        have hmem : sel.getD a [] ∈ sel := by
          rw [List.getD_eq_getElem?_getD, List.getElem?_eq_getElem hoR.1]; simp
        have hAu := (hselmem _).mp hmem
        have : p.take k = sel.getD a [] := by
          rw [← heq', ← hA, ← C11.inRange_length _ _ hAu.1]; simp
        exact hm (this ▸ hAu.2)
    rw [hf]

example : ((setitemMaskGraph (.inp 0) (.inp 1) (.inp 2) 2 1).eval
    [constT [3, 2] [0, 1, 2, 3, 4, 5], constT [3] [1, 0, 1], constT [] [9]]).toFlat = [9, 9, 2, 3, 9, 9] := by decide

end Ndx.TGraph
