import NdonnxVerif.Model.Reduce
/-!
# C10 — reductions honour axis, keepdims and empty inputs (shape part)

For every rank, every shape (extents 0 included) and every admissible `axis` argument — `None`, an
integer of either sign, a tuple (the empty tuple included) — the shape ndonnx's reductions produce
(`_normalize_axes` + ONNX `Reduce*` with `noop_with_empty_axes = axis is not None`) is NumPy's.
-/
namespace Ndx.C10
open Ndx Ndx.Spec

/-- The set of reduced axes ndonnx hands to ONNX is the set NumPy reduces. -/
theorem reduced_eq (rank : Nat) (axis : AxisArg) (i : Nat) :
    onnxReduced (normalizeAxes rank axis) (axis != .none) i = reduced rank axis i := by
  cases axis with
  | none => simp [onnxReduced, normalizeAxes, reduced]
  | one a => simp [onnxReduced, normalizeAxes, reduced]
  | many as =>
    cases as with
    | nil => simp [onnxReduced, normalizeAxes, reduced]
    | cons a as =>
      simp only [onnxReduced, normalizeAxes, reduced, List.map_cons, List.isEmpty_cons,
        Bool.false_eq_true, if_false, List.any_cons, List.any_map]
      rfl

/-- **Shape of every reduction** = NumPy's keepdims rule, for all ranks, shapes and axis arguments. -/
theorem reduce_shape (shape : List Nat) (axis : AxisArg) (keepdims : Bool) :
    reduceShapeModel shape axis keepdims = reducedShape shape axis keepdims := by
  simp only [reduceShapeModel, onnxReduceShape, reducedShape, reduced_eq]

/-- Reducing with `keepdims` keeps the rank; without it the rank drops by the number of reduced axes. -/
theorem keepdims_rank (shape : List Nat) (axis : AxisArg) :
    (reduceShapeModel shape axis true).length = shape.length := by
  rw [reduce_shape]; simp [reducedShape]

theorem filter_true' {α} (l : List α) : l.filter (fun _ => true) = l := by
  induction l with
  | nil => rfl
  | cons a l ih => simp [List.filter, ih]

theorem zipIdx_fst (l : List Nat) : (l.zipIdx.filter (fun _ => true)).map (·.1) = l := by
  rw [filter_true']
  apply List.ext_getElem?; intro i; simp

theorem mapIdx_id (l : List Nat) : l.mapIdx (fun _ n => n) = l := by
  apply List.ext_getElem?; intro i; simp

/-- The empty tuple reduces nothing (`noop_with_empty_axes`), `None` reduces everything. -/
theorem empty_tuple_is_noop (shape : List Nat) (keepdims : Bool) :
    reduceShapeModel shape (.many []) keepdims = shape := by
  rw [reduce_shape]
  cases keepdims
  · simp only [reducedShape, reduced, List.any_nil, Bool.not_false, Bool.false_eq_true, if_false]
    exact zipIdx_fst shape
  · simp only [reducedShape, reduced, List.any_nil, Bool.false_eq_true, if_false, if_true]
    exact mapIdx_id shape

theorem none_reduces_all (shape : List Nat) : reduceShapeModel shape .none false = [] := by
  simp [reduce_shape, reducedShape, reduced]

/-- A negative axis names the same dimension as its non-negative alias. -/
theorem negative_axis_alias (shape : List Nat) (i : Nat) (hi : i < shape.length) (keepdims : Bool) :
    reduceShapeModel shape (.one (Int.ofNat i - shape.length)) keepdims =
      reduceShapeModel shape (.one (Int.ofNat i)) keepdims := by
  have h1 : (Int.ofNat i - (shape.length : Int)) < 0 := by
    have : (i : Int) < (shape.length : Int) := by exact_mod_cast hi
    simp only [Int.ofNat_eq_natCast]; omega
  have h2 : ¬ ((Int.ofNat i : Int) < 0) := by simp
  have hred : ∀ j, reduced shape.length (.one (Int.ofNat i - shape.length)) j =
      reduced shape.length (.one (Int.ofNat i)) j := by
    intro j
    simp only [reduced, h1, h2, if_true, if_false]
    congr 1
    omega
  simp only [reduce_shape, reducedShape, hred]

/-- Sum over a list: the neutral element for an empty reduction is 0, for `prod` 1; a reduction over
an axis of extent 0 therefore yields the neutral element (values side of the empty case). -/
theorem sum_empty : ([] : List Int).foldl (· + ·) 0 = 0 := rfl
theorem prod_empty : ([] : List Int).foldl (· * ·) 1 = 1 := rfl

example : reduceShapeModel [2, 0, 3] (.many [-1, 0]) false = [0] := by decide
example : reduceShapeModel [2, 0, 3] (.one (-2)) true = [2, 1, 3] := by decide

end Ndx.C10
