import NdonnxVerif.Props.C10GraphSum
/-!
# C10 at graph level — `prod`
-/
namespace Ndx.TGraph
open Ndx Ndx.Spec Ndx.C02

def prodf (acc v : Int) : Int := wrapS 64 (acc * v)
def prodL : List Int → Int
  | [] => 1
  | v :: l => v * prodL l

theorem fold_prod_wrapU (l : List Int) : ∀ a : Int, wrapU 64 (l.foldl prodf a) = wrapU 64 (a * prodL l) := by
  induction l with
  | nil => intro a; simp [prodL]
  | cons v l ih =>
    intro a
    simp only [List.foldl_cons, prodL]
    rw [ih, prodf, ← wrapU_mul, wrapS_congr, wrapU_mul, Int.mul_assoc]

theorem fold_prod_fixed (l : List Int) : ∀ a : Int, wrapS 64 a = a → wrapS 64 (l.foldl prodf a) = l.foldl prodf a := by
  induction l with
  | nil => intro a h; exact h
  | cons v l ih =>
    intro a _
    simp only [List.foldl_cons]
    apply ih
    simp only [prodf]
    apply wrapS_congr_of_wrapU
    exact wrapS_congr 64 (a * v)

theorem prod_map_wrapU (k : Nat) (g : Int → Int) (hg : ∀ v, wrapU k (g v) = wrapU k v) (l : List Int) :
    wrapU k (prodL (l.map g)) = wrapU k (prodL l) := by
  induction l with
  | nil => rfl
  | cons v l ih =>
    simp only [List.map_cons, prodL]
    rw [← wrapU_mul, hg, ih, wrapU_mul]

theorem prod_fold_value (T : IType) (hb : T.bits ≤ 64) (g : Int → Int) (hg : ∀ v, wrapU T.bits (g v) = wrapU T.bits v)
    (vals : List Int) :
    T.wrap ((vals.map g).foldl prodf 1) = T.wrap (prodL vals) := by
  apply wrap_congr_of_wrapU
  rw [← wrapU_wrapU T.bits 64 hb, fold_prod_wrapU, wrapU_wrapU T.bits 64 hb, Int.one_mul]
  exact prod_map_wrapU T.bits g hg vals

theorem reduceProd_pointwise (e x : Tensor Int) (g : Int → Int) (axis : AxisArg) (keepdims : Bool)
    (hv : axisValid x.rank axis) (hs : e.shape = x.shape) (hg : ∀ ix, e.get ix = g (x.get ix)) :
    (reduceOp .prod keepdims (axis != .none) e (normalizeAxes x.rank axis)).shape = reducedShape x.shape axis keepdims ∧
    ∀ o, InRange (reducedShape x.shape axis keepdims) o →
      (reduceOp .prod keepdims (axis != .none) e (normalizeAxes x.rank axis)).get o
        = ((reduceVals x (npFlags x.rank axis) (keptIndex (npFlags x.rank axis) keepdims o)).map g).foldl prodf 1 := by
  have her : e.rank = x.rank := by simp [Tensor.rank, hs]
  have hflags := reduceOp_flags x.rank axis hv
  have hl : (npFlags x.rank axis).length = x.shape.length := by simp [npFlags, Tensor.rank]
  obtain ⟨hps, hpg⟩ := reduceT_of_pointwise prodf 1 e x g (npFlags x.rank axis) keepdims hl hs (fun ix _ => hg ix)
  have hxs : (reduceT prodf 1 x (npFlags x.rank axis) keepdims).shape = reducedShape x.shape axis keepdims := by
    rw [← hflags, reduceT_shape, normAxes_id _ _ hv, ← C10.reduce_shape]; rfl
  have hR : reduceOp .prod keepdims (axis != .none) e (normalizeAxes x.rank axis)
      = reduceT prodf 1 e (npFlags x.rank axis) keepdims := by
    simp only [reduceOp]
    rw [her, hflags]
    rfl
  rw [hR]
  refine ⟨hps.trans hxs, ?_⟩
  intro o ho
  exact hpg o (hxs ▸ ho)

/-- **`prod` at graph level**: the exact product of the reduced slice wrapped into the accumulator dtype (default or
`dtype=`), for every rank, shape, valid `axis` and `keepdims`; empty slices give 1. -/
theorem prod_graph_correct (env) (x : TG) (t acc : Nat) (T : IType) (hT : typeOfCode acc = some T)
    (axis : AxisArg) (keepdims : Bool) (hv : axisValid (x.eval env).rank axis) :
    ((viaI64 acc (reduceCore .prod keepdims axis (x.eval env).rank) (astypeG t acc x)).eval env).shape
      = reducedShape (x.eval env).shape axis keepdims ∧
    ∀ o, InRange (reducedShape (x.eval env).shape axis keepdims) o →
      ((viaI64 acc (reduceCore .prod keepdims axis (x.eval env).rank) (astypeG t acc x)).eval env).get o
        = T.wrap (prodL (reduceVals (x.eval env) (npFlags (x.eval env).rank axis)
            (keptIndex (npFlags (x.eval env).rank axis) keepdims o))) := by
  obtain ⟨hcast, hbits⟩ := castElem_of_code acc T hT
  obtain ⟨has, hag⟩ := astypeG_eval env x t acc
  have hgU : ∀ v, wrapU T.bits ((if t = acc then id else castElem acc) v) = wrapU T.bits v := by
    intro v; split
    · rfl
    · rw [hcast]; exact wrapU_twrap T v
  unfold viaI64
  by_cases h7 : acc = 7
  · subst h7
    have hT' : T = ⟨64, true⟩ := by simp [typeOfCode] at hT; exact hT.symm
    simp only [if_true, reduceCore, TG.eval, eval_ivec_toFlat]
    obtain ⟨h1, h2⟩ := reduceProd_pointwise _ (x.eval env) _ axis keepdims hv has hag
    refine ⟨h1, fun o ho => ?_⟩
    rw [h2 o ho, ← prod_fold_value T hbits _ hgU, hT']
    exact (fold_prod_fixed _ 1 (by decide)).symm
  · simp only [h7, if_false, reduceCore, TG.eval, eval_ivec_toFlat]
    have hes : (Tensor.map (castElem 7) ((astypeG t acc x).eval env)).shape = (x.eval env).shape := has
    have heg : ∀ ix, (Tensor.map (castElem 7) ((astypeG t acc x).eval env)).get ix
        = (fun v => castElem 7 ((if t = acc then id else castElem acc) v)) ((x.eval env).get ix) := by
      intro ix; simp only [Tensor.map]; rw [hag]
    obtain ⟨h1, h2⟩ := reduceProd_pointwise _ (x.eval env) (fun v => castElem 7 ((if t = acc then id else castElem acc) v)) axis keepdims hv hes heg
    refine ⟨by simpa [Tensor.map] using h1, fun o ho => ?_⟩
    have h2' := h2 o ho
    simp only [Tensor.map] at h2' ⊢
    rw [h2', hcast]
    apply prod_fold_value T hbits
    intro v
    show wrapU T.bits (wrapS 64 _) = _
    rw [wrapU_wrapS64 T.bits hbits]
    exact hgU v

end Ndx.TGraph
