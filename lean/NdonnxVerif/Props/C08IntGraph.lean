import NdonnxVerif.Lemmas.TGraphScatter
import NdonnxVerif.Props.C11
/-!
# C08 — integer index arrays at graph level: `Gather(axis=0)` (with the int64 cast of the index) is NumPy's `x[idx]`

`intIndexGraph` is the term `tg_render intindex` prints and the check compares with the exported graph (tie B).
-/
namespace Ndx.TGraph
open Ndx Ndx.Spec

theorem castElem7_id (v : Int) (h : -(2 : Int) ^ 63 ≤ v ∧ v < (2 : Int) ^ 63) : castElem 7 v = v := by
  simp only [castElem, C02.IType.wrap, C02.wrapS, C02.wrapU]
  simp
  omega

theorem inRange_take : ∀ (A B ix : List Nat), InRange (A ++ B) ix → InRange A (ix.take A.length)
  | [], B, ix, _ => by simp [InRange]
  | a :: A, B, [], h => by simp [InRange] at h
  | a :: A, B, i :: ix, h => by
    simp only [List.cons_append, InRange] at h
    simp only [List.length_cons, List.take_succ_cons, InRange]
    exact ⟨h.1, inRange_take A B ix h.2⟩

/-- `Gather(axis=0)` with an integer index tensor of any rank is NumPy's `x[idx]` (leading axis; negative entries count
from the end). -/
theorem gather0_intSelect (T : Tensor α) (idx : Tensor Int) (hr : 1 ≤ T.rank) :
    (gatherOp T 0 idx).Equiv (Spec.intSelect T idx) := by
  obtain ⟨n, tl, hsh⟩ : ∃ n tl, T.shape = n :: tl := by
    cases h : T.shape with
    | nil => simp [Tensor.rank, h] at hr
    | cons a l => exact ⟨a, l, rfl⟩
  have hax : normAxis T.rank 0 = 0 := by simp [normAxis]
  unfold gatherOp
  rw [hax]
  cases hs : idx.shape with
  | nil =>
    simp only [Spec.intSelect, onnxGatherScalar, hs, hsh, Tensor.rank]
    refine ⟨by simp, ?_⟩
    intro ix _
    simp
  | cons m rest =>
    cases rest with
    | nil =>
      simp only [Spec.intSelect, onnxGatherAxis, hs, hsh, Tensor.rank]
      refine ⟨by simp [toFlat_vec_shape idx m hs], ?_⟩
      intro ix hix
      simp only [List.set_cons_zero] at hix
      match ix, hix with
      | i :: r, hix =>
        simp only [updAxis, List.mapIdx_cons, if_true, List.headD_cons, List.tail_cons, List.getD_cons_zero,
          List.take_succ_cons, List.take_zero, List.drop_succ_cons, List.drop_zero]
        have hi : i < m := by
          have := hix.1
          simpa [toFlat_vec_shape idx m hs] using this
        have hflat : idx.toFlat.getD i 0 = idx.get [i] := by
          rw [toFlat_vec_shape idx m hs]
          simp [List.getD_eq_getElem?_getD, hi]
        rw [hflat]
        congr 2
        simp only [Nat.add_one_ne_zero, if_false]
        apply List.ext_getElem
        · simp
        · intro k h1 h2; simp
    | cons m2 rest2 =>
      simp only [Spec.intSelect, gatherGen, hs, hsh, Tensor.rank]
      refine ⟨by simp, ?_⟩
      intro ix _
      simp

/-- **C08, integer index array, exported graph.**  The term ndonnx exports for `x[idx]` (and `take(x, idx)` on the
leading axis) — `Gather(axis=0)`, with a `Cast` to int64 for index dtypes ONNX's `Gather` does not accept — evaluates,
for every data of rank ≥ 1, every index tensor of any rank and every index value representable in int64, to NumPy's
`x[idx]`. -/
theorem intIndexGraph_correct (env : List (Tensor Int)) (x idx : TG) (code : Nat) (hr : 1 ≤ (x.eval env).rank)
    (hrange : ∀ ix, InRange (idx.eval env).shape ix →
      -(2 : Int) ^ 63 ≤ (idx.eval env).get ix ∧ (idx.eval env).get ix < (2 : Int) ^ 63) :
    ((intIndexGraph x idx code).eval env).Equiv (Spec.intSelect (x.eval env) (idx.eval env)) := by
  unfold intIndexGraph
  by_cases hc : code = 6 ∨ code = 7
  · simp only [hc, if_true, TG.eval]
    exact gather0_intSelect _ _ hr
  · simp only [hc, if_false, TG.eval]
    refine equiv_trans (gather0_intSelect _ _ hr) ?_
    refine ⟨by simp [Spec.intSelect, Tensor.map], ?_⟩
    intro ix hix
    simp only [Spec.intSelect, Tensor.map, Tensor.rank] at hix ⊢
    have := inRange_take _ _ ix hix
    simp only [castElem7_id _ (hrange _ this)]
    rfl

example : ((intIndexGraph (.inp 0) (.inp 1) 3).eval [constT [3, 2] [0, 1, 2, 3, 4, 5], constT [2] [-1, 0]]).toFlat = [4, 5, 0, 1] := by
  decide

end Ndx.TGraph
