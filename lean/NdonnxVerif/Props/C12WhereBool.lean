import NdonnxVerif.Props.C12Where
import NdonnxVerif.Lemmas.BcastIndex
/-!
# C12 — `where` on boolean operands at graph level: `xor(and(c, x), and(not c, y))` with three-way broadcasting

Uses the broadcasting algebra of `Lemmas/Broadcast.lean` (associativity, absorption, least upper bound, antisymmetry) for
the shape and `bcastIndex_comp` (Lemmas/BcastIndex.lean) for the elements.
-/
namespace Ndx.TGraph
open Ndx Ndx.Spec Ndx.C02

theorem bool_select (c a b : Int) (ha : a = 0 ∨ a = 1) (hb : b = 0 ∨ b = 1) :
    evalBOp .xor (evalBOp .and c a) (evalBOp .and (b2i (c == 0)) b) = if c ≠ 0 then a else b := by
  by_cases hc : c = 0
  · subst hc
    rcases ha with rfl | rfl <;> rcases hb with rfl | rfl <;> decide
  · have hc' : (c == 0) = false := by simpa using hc
    rcases ha with rfl | rfl <;> rcases hb with rfl | rfl <;> simp [evalBOp, b2i, hc, hc']

/-- Shapes of the boolean `where` term: all three operands broadcast into the common shape, and the nested
`and` / `xor` broadcasts arrive at exactly that shape. -/
theorem where_bool_shapes (C A B out : List Nat) (hout : (bshape A B).bind (bshape C) = some out) :
    ∃ s1 s2, bshape C A = some s1 ∧ bshape C B = some s2 ∧ bshape s1 s2 = some out ∧
      bshape C s1 = some s1 ∧ bshape A s1 = some s1 ∧ bshape C s2 = some s2 ∧ bshape B s2 = some s2 ∧
      bshape s1 out = some out ∧ bshape s2 out = some out ∧
      bshape C out = some out ∧ bshape A out = some out ∧ bshape B out = some out := by
  cases hAB : bshape A B with
  | none => simp [hAB] at hout
  | some AB =>
    simp only [hAB, Option.bind_some] at hout
    have hCo := bshape_absorb _ _ _ hout
    have hABo := bshape_absorb_right _ _ _ hout
    have hAo := bshape_into_trans _ _ _ (bshape_absorb _ _ _ hAB) hABo
    have hBo := bshape_into_trans _ _ _ (bshape_absorb_right _ _ _ hAB) hABo
    obtain ⟨s1, hs1, hs1o⟩ := bshape_lub C A out hCo hAo
    obtain ⟨s2, hs2, hs2o⟩ := bshape_lub C B out hCo hBo
    obtain ⟨s12, hs12, hs12o⟩ := bshape_lub s1 s2 out hs1o hs2o
    have hC1 := bshape_absorb _ _ _ hs1
    have hA1 := bshape_absorb_right _ _ _ hs1
    have hC2 := bshape_absorb _ _ _ hs2
    have hB2 := bshape_absorb_right _ _ _ hs2
    -- out broadcasts into s12, hence they are equal
    have h1_12 := bshape_absorb _ _ _ hs12
    have h2_12 := bshape_absorb_right _ _ _ hs12
    have hA12 := bshape_into_trans _ _ _ hA1 h1_12
    have hB12 := bshape_into_trans _ _ _ hB2 h2_12
    have hC12 := bshape_into_trans _ _ _ hC1 h1_12
    obtain ⟨AB', hAB', hAB'12⟩ := bshape_lub A B s12 hA12 hB12
    rw [hAB] at hAB'; cases hAB'
    obtain ⟨out', hout', hout'12⟩ := bshape_lub C AB s12 hC12 hAB'12
    rw [hout] at hout'; cases hout'
    have heq : s12 = out := bshape_antisymm _ _ hs12o hout'12
    subst heq
    exact ⟨s1, s2, hs1, hs2, hs12, hC1, hA1, hC2, hB2, hs1o, hs2o, hCo, hAo, hBo⟩

/-- **C12, `where` on boolean operands, exported graph.**  The exported term `xor(and(c, x), and(not c, y))` has the
three-way broadcast shape and selects element-wise — NumPy's `where(c, x, y)` — for all shapes that broadcast together
(boolean values are 0 / 1). -/
theorem where_bool_graph_correct (env : List (Tensor Int)) (c x y : TG) (out : List Nat)
    (hout : (bshape (x.eval env).shape (y.eval env).shape).bind (bshape (c.eval env).shape) = some out)
    (hx : ∀ ix, (x.eval env).get ix = 0 ∨ (x.eval env).get ix = 1)
    (hy : ∀ ix, (y.eval env).get ix = 0 ∨ (y.eval env).get ix = 1) :
    ((whereGraph c x y 9).eval env).Equiv (where3 (c.eval env) (x.eval env) (y.eval env)) := by
  generalize hC : c.eval env = C at *
  generalize hA : x.eval env = A at *
  generalize hB : y.eval env = B at *
  obtain ⟨s1, s2, hs1, hs2, hs12, hC1, hA1, hC2, hB2, hs1o, hs2o, hCo, hAo, hBo⟩ := where_bool_shapes _ _ _ out hout
  have hshape : ((whereGraph c x y 9).eval env).shape = out := by
    simp [whereGraph, TG.eval, bcast2, Tensor.map, hC, hA, hB, hs1, hs2, hs12]
  refine ⟨by rw [hshape]; simp [where3, hout], ?_⟩
  intro ix hix
  rw [hshape] at hix
  have hl : ix.length = out.length := C11.inRange_length _ _ hix
  have l1 := bshape_into_length _ _ hs1o
  have l2 := bshape_into_length _ _ hs2o
  simp only [whereGraph, if_true, TG.eval, bcast2, Tensor.map, hC, hA, hB, hs1, hs2, hs12, Option.getD_some, where3, hout]
  rw [bcastIndex_comp C.shape s1 out ix hl hC1 l1, bcastIndex_comp A.shape s1 out ix hl hA1 l1,
    bcastIndex_comp C.shape s2 out ix hl hC2 l2, bcastIndex_comp B.shape s2 out ix hl hB2 l2]
  exact bool_select _ _ _ (hx _) (hy _)

example : ((whereGraph (.inp 0) (.inp 1) (.inp 2) 9).eval
    [constT [2, 1] [1, 0], constT [3] [1, 0, 1], constT [] [0]]).toFlat = [1, 0, 1, 0, 0, 0] := by decide

end Ndx.TGraph
