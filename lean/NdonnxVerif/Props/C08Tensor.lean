import NdonnxVerif.Props.C08
/-!
# C08, tensor level (rank 1) — `x[a:b:c]` and `x[i]` on a one-dimensional array return NumPy's elements
-/
namespace Ndx.C08
open Ndx Ndx.Spec

theorem positions_length (t : Int × Nat × Int) : (positions t).length = t.2.1 := by simp [positions]

theorem positions_get (t : Int × Nat × Int) (k : Nat) (hk : k < t.2.1) :
    (positions t)[k]'(by rw [positions_length]; exact hk) = t.1 + Int.ofNat k * t.2.2 := by
  simp [positions]

/-- Equal position lists mean equal counts and equal positions. -/
theorem positions_eq_iff (s t : Int × Nat × Int) (h : positions s = positions t) :
    s.2.1 = t.2.1 ∧ ∀ k, k < s.2.1 → s.1 + Int.ofNat k * s.2.2 = t.1 + Int.ofNat k * t.2.2 := by
  have hl : s.2.1 = t.2.1 := by rw [← positions_length s, ← positions_length t, h]
  refine ⟨hl, fun k hk => ?_⟩
  have h1 := positions_get s k hk
  have h2 := positions_get t k (hl ▸ hk)
  rw [← h1, ← h2]
  congr 1

/-- **C08 on rank-1 tensors, slices**: for every extent, every in-bounds slice and every element type,
`x[a:b:c]` as ndonnx emits it is NumPy's `x[a:b:c]` (same shape, same element at every position). -/
theorem getitem_rank1_slice (t : Tensor α) (n : Nat) (hs : t.shape = [n]) (hn' : (n : Int) ≤ int64Max)
    (a b c : Option Int) (hb : sliceInBounds n a b c) :
    ∃ r, Ndx.getitem t [.slice a b c] = .ok r ∧ r.Equiv (Spec.getitem t [.slice a b c]) := by
  obtain ⟨e, he⟩ : ∃ e, normaliseEntry (.slice a b c) = .ok e := by
    simp only [normaliseEntry]; split <;> exact ⟨_, rfl⟩
  have hagree := slice_axis_agree n hn' a b c hb e he
  obtain ⟨hcnt, hpos⟩ := positions_eq_iff _ _ hagree
  have hrank : t.rank = 1 := by simp [Tensor.rank, hs]
  have hnorm : normaliseIndex t.rank [.slice a b c] = .ok [e] := by
    have hnn : isNewaxis e = false := by
      simp only [normaliseEntry] at he
      split at he <;> injection he with he <;> subst he <;> rfl
    simp [normaliseIndex, constructIndex, normaliseAll, he, isEllipsis, hrank, hnn, bind, Except.bind]
  -- the specification side
  have hspec_shape : (Spec.getitem t [.slice a b c]).shape = [(pySlice n a b c).2.1] := by
    simp [Spec.getitem, Spec.expand, isNoneOrEllipsis, Spec.basic, hs]
  have hspec_get : ∀ k, (Spec.getitem t [.slice a b c]).get [k] =
      t.get [((pySlice n a b c).1 + Int.ofNat k * (pySlice n a b c).2.2).toNat] := by
    intro k; simp [Spec.getitem, Spec.expand, isNoneOrEllipsis, Spec.basic, hs]
  simp only [Ndx.getitem, hnorm, bind, Except.bind]
  refine ⟨_, rfl, ?_⟩
  simp only [normaliseEntry] at he
  split at he
  · -- the full slice: nothing is emitted
    injection he with he; subst he
    simp only [modelAxis] at hcnt hpos
    constructor
    · simp [getitemCore, axisSlices, axisIndices, axisNewAxes, isNewaxis, isIntEntry, hs, hspec_shape, ← hcnt]
    · intro ix hix
      simp only [getitemCore, axisSlices, axisIndices, axisNewAxes, isNewaxis, isIntEntry] at hix ⊢
      simp only [List.filter_cons, List.filter_nil, Bool.not_false, if_true, List.zipIdx_cons, List.zipIdx_nil,
        List.filterMap_cons, List.filterMap_nil, List.isEmpty_nil, List.reverse_nil, List.foldl_nil] at hix ⊢
      rw [hs] at hix
      match ix, hix with
      | [k], ⟨hk, _⟩ =>
        rw [hspec_get k, ← hpos k hk]; simp
  · injection he with he; subst he
    simp only [modelAxis] at hcnt hpos
    constructor
    · simp [getitemCore, axisSlices, axisIndices, axisNewAxes, isNewaxis, isIntEntry, onnxSlice, hs, hspec_shape, ← hcnt]
    · intro ix hix
      have hsh : (getitemCore t [NIx.sl (defaultStart (stepPositive c) a) (defaultStop (stepPositive c) b) (c.getD 1)]).shape =
          [(oxSliceAxis n (defaultStart (stepPositive c) a) (defaultStop (stepPositive c) b) (c.getD 1)).2.1] := by
        simp [getitemCore, axisSlices, axisIndices, axisNewAxes, isNewaxis, isIntEntry, onnxSlice, hs]
      rw [hsh] at hix
      match ix, hix with
      | [k], ⟨hk, _⟩ =>
        rw [hspec_get k, ← hpos k hk]
        simp [getitemCore, axisSlices, axisIndices, axisNewAxes, isNewaxis, isIntEntry, onnxSlice, hs]

/-- **C08 on rank-1 tensors, integer index**: `x[i]` for `-n ≤ i < n` is the 0-d array holding NumPy's element. -/
theorem getitem_rank1_int (t : Tensor α) (n : Nat) (hs : t.shape = [n]) (i : Int) :
    ∃ r, Ndx.getitem t [.int i] = .ok r ∧ r.Equiv (Spec.getitem t [.int i]) := by
  have hrank : t.rank = 1 := by simp [Tensor.rank, hs]
  have hnorm : normaliseIndex t.rank [.int i] = .ok [.int i] := by
    simp [normaliseIndex, constructIndex, normaliseAll, normaliseEntry, isEllipsis, hrank, isNewaxis, bind, Except.bind]
  simp only [Ndx.getitem, hnorm, bind, Except.bind]
  refine ⟨_, rfl, ?_⟩
  constructor
  · simp [getitemCore, axisSlices, axisIndices, axisNewAxes, isNewaxis, isIntEntry, onnxGatherScalar, hs,
      Spec.getitem, Spec.expand, isNoneOrEllipsis, Spec.basic]
  · intro ix hix
    have hsh : (getitemCore t [NIx.int i]).shape = [] := by
      simp [getitemCore, axisSlices, axisIndices, axisNewAxes, isNewaxis, isIntEntry, onnxGatherScalar, hs]
    rw [hsh] at hix
    match ix, hix with
    | [], _ =>
      simp [getitemCore, axisSlices, axisIndices, axisNewAxes, isNewaxis, isIntEntry, onnxGatherScalar, hs,
        Spec.getitem, Spec.expand, isNoneOrEllipsis, Spec.basic]

/-- Non-vacuity: a concrete rank-1 instance through both theorems' statements. -/
example : (match Ndx.getitem (tokens [5]) [.slice (some 4) none (some (-2))] with | .ok r => r.toFlat | .error _ => [])
    = (Spec.getitem (tokens [5]) [.slice (some 4) none (some (-2))]).toFlat := by decide

end Ndx.C08
