import NdonnxVerif.Lemmas.Positions
import NdonnxVerif.Props.C11Graph
/-!
# C11 — `reshape` keeps the row-major order of the elements
-/
namespace Ndx.TGraph
open Ndx Ndx.Spec

theorem allIdx_map_ravel (sh : List Nat) : (allIdx sh).map (ravel sh) = List.range (sizeOf' sh) := by
  have h := allIdx_zipIdx sh 0
  have := congrArg (List.map Prod.snd) h
  rw [List.zipIdx_map_snd] at this
  rw [← C10.allIdx_length sh, List.range_eq_range']
  simpa [List.map_map, Function.comp_def] using this.symm

theorem range_map_unravel (sh : List Nat) : (List.range (sizeOf' sh)).map (unravel sh) = allIdx sh := by
  rw [← allIdx_map_ravel, List.map_map]
  conv => rhs; rw [← List.map_id (allIdx sh)]
  apply List.map_congr_left
  intro ix hix
  exact unravel_ravel sh ix (mem_allIdx_inRange sh ix hix)

/-- **`reshape` keeps the row-major order of the elements**: for every tensor and every target shape with the same
number of elements, the flattened result is the flattened operand. -/
theorem reshape_preserves_flat_order (t : Tensor α) (newShape : List Nat) (h : sizeOf' newShape = sizeOf' t.shape) :
    (onnxReshape t newShape).toFlat = t.toFlat := by
  unfold Tensor.toFlat onnxReshape
  simp only
  have h1 : (allIdx newShape).map (fun ix => t.get (unravel t.shape (ravel newShape ix)))
      = ((allIdx newShape).map (ravel newShape)).map (fun k => t.get (unravel t.shape k)) := by
    rw [List.map_map]; rfl
  rw [h1, allIdx_map_ravel, h]
  have h2 : (List.range (sizeOf' t.shape)).map (fun k => t.get (unravel t.shape k))
      = ((List.range (sizeOf' t.shape)).map (unravel t.shape)).map t.get := by
    rw [List.map_map]; rfl
  rw [h2, range_map_unravel]

/-- At graph level: the exported `Reshape` with a static target of the operand's size lists the same elements in the
same row-major order. -/
theorem reshape_graph_flat (env) (x : TG) (rank : Nat) (target : List Nat)
    (h : sizeOf' target = sizeOf' (x.eval env).shape) (hne : ¬ (target.map Int.ofNat = [-1] ∧ rank = 1)) :
    ((reshapeGraph x rank (target.map Int.ofNat)).eval env).toFlat = (x.eval env).toFlat := by
  simp only [reshapeGraph, hne, if_false, TG.eval, eval_ivec_toFlat, reshapeOp, reshapeTarget_of_nat]
  exact reshape_preserves_flat_order _ _ h

example : (onnxReshape (tokens [2, 3]) [3, 2]).toFlat = (tokens [2, 3]).toFlat := by decide

theorem eraseIdx_set_same {β : Type} (l : List β) (a : Nat) (v : β) : (l.set a v).eraseIdx a = l.eraseIdx a := by
  induction l generalizing a with
  | nil => simp
  | cons x l ih =>
    cases a with
    | zero => simp
    | succ a => simp [ih]

theorem set_prefix {β : Type} (pre post : List β) (v w : β) : (pre ++ v :: post).set pre.length w = pre ++ w :: post := by
  induction pre with
  | nil => rfl
  | cons p pre ih => simp [ih]

theorem getD_prefix {β : Type} (pre post : List β) (v d : β) : (pre ++ v :: post).getD pre.length d = v := by
  induction pre with
  | nil => rfl
  | cons p pre ih => simpa using ih

/-- **`stack([x, y], axis)` at graph level** (`Concat` of two `Unsqueeze`s): a new axis of extent 2 at NumPy's position;
index 0 along it reads `x`, index 1 reads `y`, at the remaining coordinates. -/
theorem stack_graph_correct (env) (x y : TG) (axis : Int) (hs : (x.eval env).shape = (y.eval env).shape)
    (ha : normAxis ((x.eval env).rank + 1) axis ≤ (x.eval env).rank) :
    ((stackGraph x y axis).eval env).shape
      = (x.eval env).shape.take (normAxis ((x.eval env).rank + 1) axis) ++ 2 :: (x.eval env).shape.drop (normAxis ((x.eval env).rank + 1) axis) ∧
    ∀ ix, ((stackGraph x y axis).eval env).get ix
        = if ix.getD (normAxis ((x.eval env).rank + 1) axis) 0 < 1 then (x.eval env).get (ix.eraseIdx (normAxis ((x.eval env).rank + 1) axis))
          else (y.eval env).get (ix.eraseIdx (normAxis ((x.eval env).rank + 1) axis)) := by
  generalize hA : normAxis ((x.eval env).rank + 1) axis = a at ha
  have hx := expandDims_graph_correct env x axis
  have hy := expandDims_graph_correct env y axis
  have hry : (y.eval env).rank = (x.eval env).rank := by simp [Tensor.rank, hs]
  simp only [expandDimsGraph] at hx hy
  rw [hry, ← hs] at hy
  rw [hA] at hx hy
  simp only [stackGraph, TG.eval] at hx hy ⊢
  rw [hx, hy]
  have htl : ((x.eval env).shape.take a).length = a := by
    simp only [List.length_take, Tensor.rank] at ha ⊢; omega
  have hrank : (List.take a (x.eval env).shape ++ 1 :: List.drop a (x.eval env).shape).length = (x.eval env).rank + 1 := by
    simp only [List.length_append, List.length_cons, List.length_take, List.length_drop, Tensor.rank] at ha ⊢; omega
  simp only [concatOp, Tensor.rank, hrank]
  rw [show normAxis ((x.eval env).shape.length + 1) axis = a from hA]
  constructor
  · have := set_prefix ((x.eval env).shape.take a) ((x.eval env).shape.drop a) 1 (1 + 1)
    rw [htl] at this
    have hg := getD_prefix ((x.eval env).shape.take a) ((x.eval env).shape.drop a) 1 0
    rw [htl] at hg
    rw [hg, this]
  · intro ix
    have hg := getD_prefix ((x.eval env).shape.take a) ((x.eval env).shape.drop a) 1 0
    rw [htl] at hg
    rw [hg]
    split
    · rfl
    · rw [eraseIdx_set_same]

end Ndx.TGraph
