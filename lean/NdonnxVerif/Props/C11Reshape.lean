import NdonnxVerif.Lemmas.Positions
import NdonnxVerif.Props.C11Graph
/-!
# C11 — `reshape` keeps the row-major order of the elements
-/
namespace Ndx.TGraph
open Ndx Ndx.Spec

theorem allIdx_map_ravel (sh : List Nat) : (allIdx sh).map (ravel sh) = List.range (sizeOf' sh) := by
  have h := allIdx_zipIdx sh 0
  have := congrArg (List.map Prod.snd) h
  rw [List.zipIdx_map_snd] at this
  rw [← C10.allIdx_length sh, List.range_eq_range']
  simpa [List.map_map, Function.comp_def] using this.symm

theorem range_map_unravel (sh : List Nat) : (List.range (sizeOf' sh)).map (unravel sh) = allIdx sh := by
  rw [← allIdx_map_ravel, List.map_map]
  conv => rhs; rw [← List.map_id (allIdx sh)]
  apply List.map_congr_left
  intro ix hix
  exact unravel_ravel sh ix (mem_allIdx_inRange sh ix hix)

/-- **`reshape` keeps the row-major order of the elements**: for every tensor and every target shape with the same
number of elements, the flattened result is the flattened operand. -/
theorem reshape_preserves_flat_order (t : Tensor α) (newShape : List Nat) (h : sizeOf' newShape = sizeOf' t.shape) :
    (onnxReshape t newShape).toFlat = t.toFlat := by
  unfold Tensor.toFlat onnxReshape
  simp only
  have h1 : (allIdx newShape).map (fun ix => t.get (unravel t.shape (ravel newShape ix)))
      = ((allIdx newShape).map (ravel newShape)).map (fun k => t.get (unravel t.shape k)) := by
    rw [List.map_map]; rfl
  rw [h1, allIdx_map_ravel, h]
  have h2 : (List.range (sizeOf' t.shape)).map (fun k => t.get (unravel t.shape k))
      = ((List.range (sizeOf' t.shape)).map (unravel t.shape)).map t.get := by
    rw [List.map_map]; rfl
  rw [h2, range_map_unravel]

/-- At graph level: the exported `Reshape` with a static target of the operand's size lists the same elements in the
same row-major order. -/
theorem reshape_graph_flat (env) (x : TG) (rank : Nat) (target : List Nat)
    (h : sizeOf' target = sizeOf' (x.eval env).shape) (hne : ¬ (target.map Int.ofNat = [-1] ∧ rank = 1)) :
    ((reshapeGraph x rank (target.map Int.ofNat)).eval env).toFlat = (x.eval env).toFlat := by
  simp only [reshapeGraph, hne, if_false, TG.eval, eval_ivec_toFlat, reshapeOp, reshapeTarget_of_nat]
  exact reshape_preserves_flat_order _ _ h

example : (onnxReshape (tokens [2, 3]) [3, 2]).toFlat = (tokens [2, 3]).toFlat := by decide

end Ndx.TGraph
