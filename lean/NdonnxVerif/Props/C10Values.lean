import NdonnxVerif.Model.ReduceVal
/-!
# C10, value level — which elements a reduction combines

Theorems about `Ndx.reduceT` (`Model/ReduceVal.lean`): a reduction over an empty extent yields the neutral
element at every output position, reducing over no axes returns the elements themselves, and the number of
combined elements is the product of the reduced extents.  Tied to NumPy and the code by the driver command
`reduce_val` (harness/reducetie.py).
-/
namespace Ndx.C10

theorem allIdx_zero_mem (sh : List Nat) (h : 0 ∈ sh) : allIdx sh = [] := by
  induction sh with
  | nil => cases h
  | cons n sh ih =>
    rcases List.mem_cons.mp h with h0 | hin
    · subst h0; simp [allIdx]
    · simp [allIdx, ih hin]

/-- **Empty reductions yield the neutral element**: if a reduced axis has extent 0, every output
element is `init` (0 for `sum`, 1 for `prod`, `True` for `all`, `False` for `any`). -/
theorem reduce_empty_is_neutral (f : β → α → β) (init : β) (t : Tensor α) (red : List Bool) (keepdims : Bool)
    (h : 0 ∈ reducedExtents t.shape red) (o : List Nat) :
    (reduceT f init t red keepdims).get o = init := by
  unfold reduceT
  split <;> simp [reduceVals, allIdx_zero_mem _ h]

theorem reducedExtents_all_false (sh : List Nat) (red : List Bool) (h : ∀ b ∈ red, b = false) :
    reducedExtents sh red = [] := by
  induction sh generalizing red with
  | nil => cases red <;> simp [reducedExtents]
  | cons n sh ih =>
    cases red with
    | nil => simp [reducedExtents]
    | cons b rs =>
      have hb : b = false := h b (by simp)
      subst hb
      simp [reducedExtents, ih rs (fun b hb => h b (by simp [hb]))]

theorem mergeIdx_all_false (red : List Bool) (o : List Nat) (h : ∀ b ∈ red, b = false) (hl : o.length = red.length) :
    mergeIdx red o [] = o := by
  induction red generalizing o with
  | nil => cases o with | nil => rfl | cons _ _ => simp at hl
  | cons b rs ih =>
    have hb : b = false := h b (by simp)
    subst hb
    cases o with
    | nil => simp at hl
    | cons y o =>
      simp only [mergeIdx, List.cons.injEq, true_and]
      exact ih o (fun b hb => h b (by simp [hb])) (by simpa using hl)

/-- **The empty tuple of axes reduces nothing**: every output element is `f init x` of the one input
element at the same position (`sum(x, axis=()) = x`). -/
theorem reduce_no_axes (f : β → α → β) (init : β) (t : Tensor α) (red : List Bool)
    (h : ∀ b ∈ red, b = false) (o : List Nat) (hl : o.length = red.length) :
    (reduceT f init t red false).get o = f init (t.get o) := by
  simp [reduceT, reduceVals, reducedExtents_all_false _ _ h, allIdx, mergeIdx_all_false red o h hl]

theorem allIdx_length (sh : List Nat) : (allIdx sh).length = sizeOf' sh := by
  induction sh with
  | nil => rfl
  | cons n sh ih =>
    simp only [allIdx, sizeOf', List.foldr_cons]
    have : ∀ (l : List Nat), (l.flatMap (fun i => (allIdx sh).map (fun r => i :: r))).length = l.length * (allIdx sh).length := by
      intro l
      induction l with
      | nil => simp
      | cons a l ihl => simp [List.flatMap_cons, ihl, Nat.succ_mul, Nat.add_comm]
    rw [this, List.length_range, ih]; rfl

/-- **How many elements are combined** = the product of the reduced extents (the `N` of `mean`, `var`). -/
theorem reduceVals_length (t : Tensor α) (red : List Bool) (o : List Nat) :
    (reduceVals t red o).length = sizeOf' (reducedExtents t.shape red) := by
  simp [reduceVals, allIdx_length]

/-- Non-vacuity / concrete instance: the sum of the tokens of a 2×3 array along axis 1 with keepdims. -/
example : (reduceT (· + ·) 0 (tokens [2, 3]) [false, true] true).toFlat = [3, 12] := by decide
example : (reduceT (· + ·) 0 (tokens [2, 0]) [false, true] false).toFlat = [0, 0] := by decide

end Ndx.C10
