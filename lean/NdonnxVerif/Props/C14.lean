import NdonnxVerif.Model.Dtype
import NdonnxVerif.Props.C02
/-!
# C14 — casts keep the mask and never drop nulls silently (decision part)

`castOutcome` mirrors the cast protocol of `ndx.astype` (source `_cast_to`, then target `_cast_from`,
else `CastError`).  The generated table `Gen.CastMatrix` (all 24 × 24 ordered pairs, dumped from the
running implementation on every run) is checked equal to it by the Lean kernel.
-/
namespace Ndx.C14
open Ndx

/-- A cast that would have to discard nulls raises; every other built-in cast is defined. -/
theorem nullable_to_core_raises_all : ∀ a ∈ Dt.all, ∀ b ∈ Dt.all, a.nullable = true → b.nullable = false →
    castOutcome a b = .castError := by decide +kernel

theorem defined_casts_return_target_all : ∀ a ∈ Dt.all, ∀ b ∈ Dt.all, ¬ (a.nullable = true ∧ b.nullable = false) →
    castOutcome a b = .ok b := by decide +kernel

/-- Null masks: model of `NullableCore._cast_to/_cast_from` on the mask. -/
def castMask (srcNullable : Bool) (mask : List Bool) (n : Nat) : List Bool :=
  if srcNullable then mask else List.replicate n false

/-- nullable → nullable keeps the mask; core → nullable gets an all-false mask of the source's size. -/
theorem mask_preserved (mask : List Bool) : castMask true mask mask.length = mask := rfl
theorem mask_all_false (n : Nat) : castMask false [] n = List.replicate n false ∧ (castMask false [] n).length = n := by
  simp [castMask]

/-- Integer → integer casts wrap modulo 2^bits: in-range values are preserved exactly (so
`astype` agrees with NumPy on every in-range value), and narrowing twice is narrowing once. -/
theorem int_cast_in_range (bits : Nat) (hb : 1 ≤ bits) (v : Int) (hlo : -(2 ^ (bits - 1) : Int) ≤ v)
    (hhi : v < 2 ^ (bits - 1)) : C02.wrapS bits v = v := C02.wrapS_id bits hb v hlo hhi

/-- `can_cast` (NumPy's safe-casting table): reflexive and transitive on the core dtypes. -/
theorem can_cast_refl_all : ∀ a ∈ Core.all, canCastCore a a = true := by decide +kernel
theorem can_cast_trans_all : ∀ a ∈ Core.all, ∀ b ∈ Core.all, ∀ c ∈ Core.all,
    canCastCore a b = true → canCastCore b c = true → canCastCore a c = true := by decide +kernel
/-- A safe cast never narrows an integer or float. -/
theorem can_cast_never_narrows_all : ∀ a ∈ Core.all, ∀ b ∈ Core.all, canCastCore a b = true →
    a.kind = b.kind → a.bits ≤ b.bits := by decide +kernel

example : castOutcome ⟨.int8, true⟩ ⟨.float32, false⟩ = .castError := by decide

end Ndx.C14
