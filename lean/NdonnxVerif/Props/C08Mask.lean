import NdonnxVerif.Lemmas.TGraphReduce
/-!
# C08 — boolean-mask index: `Reshape` + `Compress` selects NumPy's elements
-/
namespace Ndx.TGraph
open Ndx Ndx.Spec

theorem zipIdx_append' {β : Type} (A B : List β) (k : Nat) : (A ++ B).zipIdx k = A.zipIdx k ++ B.zipIdx (k + A.length) := by
  induction A generalizing k with
  | nil => simp
  | cons a A ih => simp [List.zipIdx_cons, ih, Nat.add_assoc, Nat.add_comm 1]

theorem zipIdx_map' {β γ : Type} (f : β → γ) (l : List β) (k : Nat) : (l.map f).zipIdx k = (l.zipIdx k).map (fun p => (f p.1, p.2)) := by
  induction l generalizing k with
  | nil => rfl
  | cons a l ih => simp [List.zipIdx_cons, ih]

/-- Row-major enumeration: the `j`-th index of `allIdx sh` has flat offset `j`. -/
theorem allIdx_zipIdx : ∀ (sh : List Nat) (k : Nat),
    (allIdx sh).zipIdx k = (allIdx sh).map (fun ix => (ix, k + ravel sh ix))
  | [], k => by simp [allIdx, ravel]
  | n :: sh, k => by
    have ih := allIdx_zipIdx sh
    have hS : (allIdx sh).length = sizeOf' sh := C10.allIdx_length sh
    simp only [allIdx]
    -- blocks i = 0 .. n-1, each of length S
    have key : ∀ m k, ((List.range m).flatMap (fun i => (allIdx sh).map (fun r => i :: r))).zipIdx k
        = ((List.range m).flatMap (fun i => (allIdx sh).map (fun r => i :: r))).map (fun ix => (ix, k + ravel (n :: sh) ix))
        ∧ ((List.range m).flatMap (fun i => (allIdx sh).map (fun r => i :: r))).length = m * sizeOf' sh := by
      intro m
      induction m with
      | zero => intro k; simp
      | succ m ihm =>
        intro k
        obtain ⟨h1, h2⟩ := ihm k
        rw [List.range_succ, List.flatMap_append, List.flatMap_cons, List.flatMap_nil, List.append_nil]
        constructor
        · rw [zipIdx_append', h1, h2, List.map_append, zipIdx_map', ih]
          congr 1
          rw [List.map_map, List.map_map]
          apply List.map_congr_left
          intro r _
          simp only [Function.comp, ravel]
          congr 1
          omega
        · rw [List.length_append, h2, List.length_map, hS]
          rw [Nat.succ_mul]
    exact (key n k).1

/-- Flat positions of the `true` entries of a mask = offsets of NumPy's selected indices. -/
theorem truePositions_toFlat (mask : Tensor Bool) :
    truePositions mask.toFlat = ((allIdx mask.shape).filter mask.get).map (ravel mask.shape) := by
  unfold truePositions Tensor.toFlat
  rw [zipIdx_map', allIdx_zipIdx]
  simp only [List.map_map, List.filter_map, Nat.zero_add]
  rfl


theorem sizeOf'_append (A B : List Nat) : sizeOf' (A ++ B) = sizeOf' A * sizeOf' B := by
  induction A with
  | nil => simp [sizeOf']
  | cons a A ih => simp only [sizeOf', List.cons_append, List.foldr_cons] at ih ⊢; rw [ih, Nat.mul_assoc]

/-- Splitting a flat offset of a reshaped tensor: leading block offset `p`, trailing index `r`. -/
theorem unravel_split : ∀ (A B : List Nat) (p : Nat) (r : List Nat), p < sizeOf' A → InRange B r →
    unravel (A ++ B) (p * sizeOf' B + ravel B r) = unravel A p ++ r
  | [], B, p, r, hp, hr => by
    have : p = 0 := by simp [sizeOf'] at hp; omega
    subst this
    simp [unravel, unravel_ravel B r hr]
  | a :: A, B, p, r, hp, hr => by
    have hρ := ravel_lt B r hr
    have hBpos : 0 < sizeOf' B := by omega
    have hApos : 0 < sizeOf' A := by
      rcases Nat.eq_zero_or_pos (sizeOf' A) with h | h
      · simp only [sizeOf', List.foldr_cons] at hp h; rw [h] at hp; simp at hp
      · exact h
    simp only [List.cons_append, unravel, sizeOf'_append]
    have hp' : p % sizeOf' A < sizeOf' A := Nat.mod_lt _ hApos
    have ih := unravel_split A B (p % sizeOf' A) r hp' hr
    have hk : p * sizeOf' B + ravel B r = (p / sizeOf' A) * (sizeOf' A * sizeOf' B) + ((p % sizeOf' A) * sizeOf' B + ravel B r) := by
      have := Nat.div_add_mod p (sizeOf' A)
      calc p * sizeOf' B + ravel B r = (sizeOf' A * (p / sizeOf' A) + p % sizeOf' A) * sizeOf' B + ravel B r := by rw [this]
        _ = _ := by rw [Nat.add_mul, Nat.mul_comm (sizeOf' A) (p / sizeOf' A), Nat.mul_assoc, Nat.add_assoc]
    have hlt : (p % sizeOf' A) * sizeOf' B + ravel B r < sizeOf' A * sizeOf' B := by
      calc (p % sizeOf' A) * sizeOf' B + ravel B r < (p % sizeOf' A) * sizeOf' B + sizeOf' B := by omega
        _ = (p % sizeOf' A + 1) * sizeOf' B := by rw [Nat.add_mul]; simp
        _ ≤ sizeOf' A * sizeOf' B := Nat.mul_le_mul_right _ hp'
    have hpos : 0 < sizeOf' A * sizeOf' B := Nat.mul_pos hApos hBpos
    have hdiv : (p * sizeOf' B + ravel B r) / (sizeOf' A * sizeOf' B) = p / sizeOf' A := by
      rw [hk, Nat.mul_comm (p / sizeOf' A), Nat.mul_add_div hpos, Nat.div_eq_of_lt hlt]; simp
    have hmod : (p * sizeOf' B + ravel B r) % (sizeOf' A * sizeOf' B) = (p % sizeOf' A) * sizeOf' B + ravel B r := by
      rw [hk, Nat.mul_comm (p / sizeOf' A), Nat.mul_add_mod, Nat.mod_eq_of_lt hlt]
    rw [hdiv, hmod, ih]


theorem getD_map_ravel (A : List Nat) (sel : List (List Nat)) (j : Nat) (hj : j < sel.length) :
    (sel.map (ravel A)).getD j 0 = ravel A (sel.getD j []) := by
  simp [List.getD_eq_getElem?_getD, List.getElem?_eq_getElem hj]

/-- Common core of the three branches of `getitem_null`: `Compress` over a tensor `u` whose leading axis enumerates the
mask's index space row-major. -/
theorem compress_core (t u : Tensor α) (mask : Tensor Bool) (B : List Nat)
    (hus : u.shape.tail = B)
    (hu : ∀ (s r : List Nat), InRange mask.shape s → InRange B r → u.get (ravel mask.shape s :: r) = t.get (s ++ r)) :
    (onnxCompress0 u mask.toFlat).Equiv
      ⟨((allIdx mask.shape).filter mask.get).length :: B,
       fun ix => t.get (((allIdx mask.shape).filter mask.get).getD (ix.headD 0) [] ++ ix.tail)⟩ := by
  have hsel := truePositions_toFlat mask
  constructor
  · simp [onnxCompress0, hsel, hus]
  · intro ix hix
    simp only [onnxCompress0, hsel, List.length_map, hus] at hix ⊢
    match ix, hix with
    | j :: r, ⟨hj, hr⟩ =>
      simp only [List.headD_cons, List.tail_cons]
      rw [getD_map_ravel _ _ j hj]
      apply hu _ _ _ hr
      apply mem_allIdx_inRange
      have hm : ((allIdx mask.shape).filter mask.get).getD j [] ∈ (allIdx mask.shape).filter mask.get := by
        rw [List.getD_eq_getElem?_getD, List.getElem?_eq_getElem hj]; exact List.getElem_mem _
      exact (List.mem_filter.mp hm).1

/-- **C08, boolean-mask index.**  `x[mask]` for a mask whose shape is the leading part of `x`'s shape (any rank from 0 to
`x`'s): the model of what ndonnx emits (`Reshape` that merges the masked axes, then `Compress(axis=0)` with the flattened
mask; no reshape for a rank-1 mask; a leading unit axis for a rank-0 mask) returns the elements NumPy returns — the
sub-arrays at the `True` positions in row-major order, trailing axes kept — for every shape and element type. -/
theorem mask_select_correct (t : Tensor α) (mask : Tensor Bool) (hk : mask.rank ≤ t.rank)
    (hs : mask.shape = t.shape.take mask.rank) :
    ∃ r, getitemMask t mask = .ok r ∧ r.Equiv (Spec.maskSelect t mask) := by
  have hnot : ¬ t.rank < mask.rank := by omega
  have hsplit : t.shape = mask.shape ++ t.shape.drop mask.rank := by rw [hs]; simp
  unfold getitemMask Spec.maskSelect
  simp only [hnot, if_false]
  by_cases h0 : mask.rank = 0
  · -- rank-0 mask
    simp only [h0, if_true]
    refine ⟨_, rfl, ?_⟩
    have hm : mask.shape = [] := List.eq_nil_of_length_eq_zero h0
    have hflat : [mask.get []] = mask.toFlat := by simp [Tensor.toFlat, hm, allIdx]
    rw [hflat]
    have := compress_core t (onnxReshape t (1 :: t.shape)) mask (t.shape.drop 0) (by simp [onnxReshape]) (by
      intro s r hsr hr
      rw [hm] at hsr
      match s, hsr with
      | [], _ =>
        simp only [onnxReshape, hm, ravel, List.nil_append, Nat.zero_mul, Nat.zero_add]
        simp only [List.drop_zero] at hr
        rw [unravel_ravel _ _ hr])
    simpa [h0] using this
  · by_cases h1 : mask.rank = 1
    · simp only [h0, h1, if_false, if_true]
      refine ⟨_, rfl, ?_⟩
      have := compress_core t t mask (t.shape.drop 1) (by simp) (by
        intro s r hsr hr
        obtain ⟨n, hn⟩ : ∃ n, mask.shape = [n] := by
          match hq : mask.shape with
          | [n] => exact ⟨n, rfl⟩
          | [] => simp [Tensor.rank, hq] at h1
          | _ :: _ :: _ => simp [Tensor.rank, hq] at h1
        rw [hn] at hsr ⊢
        match s, hsr with
        | [i], _ => simp [ravel, sizeOf'])
      simpa [h1] using this
    · simp only [h0, h1, if_false]
      refine ⟨_, rfl, ?_⟩
      have := compress_core t (onnxReshape t (sizeOf' (t.shape.take mask.rank) :: t.shape.drop mask.rank)) mask
        (t.shape.drop mask.rank) (by simp [onnxReshape]) (by
        intro s r hsr hr
        simp only [onnxReshape, ravel]
        have hun : unravel t.shape = unravel (mask.shape ++ t.shape.drop mask.rank) := by rw [← hsplit]
        rw [hun]
        rw [unravel_split mask.shape (t.shape.drop mask.rank) (ravel mask.shape s) r (ravel_lt _ _ hsr) hr,
          unravel_ravel _ _ hsr])
      exact this

/-- Non-vacuity: a 2×2 mask over a 2×2×2 tensor. -/
example : ((getitemMask (tokens [2, 2, 2]) (ofFlat [2, 2] #[true, false, false, true])).toOption.map Tensor.toFlat)
    = some (Spec.maskSelect (tokens [2, 2, 2]) (ofFlat [2, 2] #[true, false, false, true])).toFlat := by decide

end Ndx.TGraph
