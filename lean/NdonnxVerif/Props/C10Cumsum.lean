import NdonnxVerif.Props.C10GraphSum
import NdonnxVerif.Model.TGraphScatter
/-!
# C10 at graph level — `cumulative_sum`: the exported graph holds the exact running sum wrapped into the result dtype

`cumsumGraph` is the term `tg_render cumsum` prints and the check compares with the exported graph (tie B); the
`include_initial=True` form (a `ScatterND` on the shape vector, `Expand` of a zero, `Concat`) is covered by tie D — the
Lean evaluation of the exported graph against onnxruntime and NumPy.
-/
namespace Ndx.TGraph
open Ndx Ndx.Spec Ndx.C02

/-- The elements a running sum has seen at `ix`: positions `0 … ix[ax]` along the axis. -/
def prefixVals (X : Tensor Int) (ax : Nat) (ix : List Nat) : List Int :=
  (List.range (ix.getD ax 0 + 1)).map (fun j => X.get (ix.set ax j))

theorem cumsumOp_pointwise (inner X : Tensor Int) (g0 : Int → Int) (axis : Int) (hs : inner.shape = X.shape)
    (hg : ∀ ix, inner.get ix = g0 (X.get ix)) (ix : List Nat) :
    (cumsumOp inner axis).get ix = ((prefixVals X (normAxis X.rank axis) ix).map g0).foldl sumf 0 := by
  simp only [cumsumOp, prefixVals, Tensor.rank, hs, List.map_map]
  congr 1
  apply List.map_congr_left
  intro j _
  simp [hg]

theorem cumsum_core (inner X : Tensor Int) (g0 : Int → Int) (axis : Int) (T : IType) (hb : T.bits ≤ 64)
    (hs : inner.shape = X.shape) (hg : ∀ ix, inner.get ix = g0 (X.get ix))
    (hgU : ∀ v, wrapU T.bits (g0 v) = wrapU T.bits v) (ix : List Nat) :
    T.wrap ((cumsumOp inner axis).get ix) = T.wrap ((prefixVals X (normAxis X.rank axis) ix).sum) := by
  rw [cumsumOp_pointwise inner X g0 axis hs hg ix]
  exact sum_fold_value T hb g0 hgU _

theorem cumsum_core64 (inner X : Tensor Int) (g0 : Int → Int) (axis : Int)
    (hs : inner.shape = X.shape) (hg : ∀ ix, inner.get ix = g0 (X.get ix))
    (hgU : ∀ v, wrapU 64 (g0 v) = wrapU 64 v) (ix : List Nat) :
    (cumsumOp inner axis).get ix = (IType.mk 64 true).wrap ((prefixVals X (normAxis X.rank axis) ix).sum) := by
  have h := cumsum_core inner X g0 axis ⟨64, true⟩ (by decide) hs hg hgU ix
  rw [← h, cumsumOp_pointwise inner X g0 axis hs hg ix]
  exact (fold_sum_fixed _ 0 (by decide)).symm

theorem compose_wrapU (t t1 : Nat) (T : IType) (hb : T.bits ≤ 64)
    (h1 : t = t1 ∨ ∀ v, castElem t1 v = T.wrap v) (v : Int) :
    wrapU T.bits ((if t1 = 7 then id else castElem 7) ((if t = t1 then id else castElem t1) v)) = wrapU T.bits v := by
  have inner : wrapU T.bits ((if t = t1 then id else castElem t1) v) = wrapU T.bits v := by
    split
    · rfl
    · rename_i hne
      rcases h1 with h | h
      · exact absurd h hne
      · rw [h]; exact wrapU_twrap T v
  split
  · exact inner
  · show wrapU T.bits (wrapS 64 _) = _
    rw [wrapU_wrapS64 T.bits hb]; exact inner

theorem cumsumGraph_none_eq (x : TG) (t : Nat) (axis : Int) :
    cumsumGraph x t none axis = if (isUnsignedCode t && bitsOfCode t == 64) = true then none else
      some (if isUnsignedCode t = true then .cast 13 (TG.cumsum (astypeG t 7 (astypeG t t x)) (iscalar axis))
            else TG.cumsum (astypeG t 7 (astypeG t t x)) (iscalar axis)) := by
  simp [cumsumGraph]

theorem cumsumGraph_some_eq (x : TG) (t d : Nat) (axis : Int) :
    cumsumGraph x t (some d) axis =
      if (isUnsignedCode (if d = 13 then t else d) && bitsOfCode (if d = 13 then t else d) == 64) = true then none
      else if (!isUnsignedCode (if d = 13 then t else d) && d == 13) = true then none
      else some (astypeG 7 d (TG.cumsum (astypeG (if d = 13 then t else d) 7 (astypeG t (if d = 13 then t else d) x)) (iscalar axis))) := by
  simp [cumsumGraph]

/-- **C10, `cumulative_sum`, exported graph** (`include_initial=False`).  Whenever the call is accepted, the exported term
(cast to the requested dtype, running sum in int64, cast to the result dtype) has the operand's shape and holds at every
position the exact sum of the elements up to that position along the axis, wrapped into the result dtype — NumPy's
`cumsum(x, axis, dtype)` — for every rank, shape, data and any of the eight integer dtypes. -/
theorem cumsum_graph_correct (env : List (Tensor Int)) (x g : TG) (t : Nat) (dtype : Option Nat) (axis : Int)
    (h : cumsumGraph x t dtype axis = some g) (T : IType) (hT : typeOfCode (cumsumResultCode t dtype) = some T) :
    (g.eval env).shape = (x.eval env).shape ∧
    ∀ ix, (g.eval env).get ix = T.wrap ((prefixVals (x.eval env) (normAxis (x.eval env).rank axis) ix).sum) := by
  obtain ⟨hcast, hbits⟩ := castElem_of_code _ T hT
  -- the operand of CumSum, for the intermediate dtype t1
  have operand : ∀ t1, ((astypeG t1 7 (astypeG t t1 x)).eval env).shape = (x.eval env).shape ∧
      ∀ ix, ((astypeG t1 7 (astypeG t t1 x)).eval env).get ix
        = (fun v => (if t1 = 7 then id else castElem 7) ((if t = t1 then id else castElem t1) v)) ((x.eval env).get ix) := by
    intro t1
    obtain ⟨ha1s, ha1g⟩ := astypeG_eval env x t t1
    obtain ⟨ha2s, ha2g⟩ := astypeG_eval env (astypeG t t1 x) t1 7
    exact ⟨ha2s.trans ha1s, fun ix => by rw [ha2g, ha1g]⟩
  cases dtype with
  | none =>
    rw [cumsumGraph_none_eq] at h
    obtain ⟨hs, hg⟩ := operand t
    simp only [cumsumResultCode] at hT hcast
    split at h
    · cases h
    · injection h with h
      subst h
      by_cases hu : isUnsignedCode t = true
      · simp only [hu, if_true] at hT hcast ⊢
        refine ⟨by simpa [TG.eval, Tensor.map, cumsumOp] using hs, fun ix => ?_⟩
        simp only [TG.eval, Tensor.map, eval_iscalar, constT_scalar_get, hcast]
        exact cumsum_core _ (x.eval env) _ axis T hbits hs hg (compose_wrapU t t T hbits (Or.inl rfl)) ix
      · have hu' : isUnsignedCode t = false := by simpa using hu
        simp only [hu', Bool.false_eq_true, if_false] at hT hcast ⊢
        have hT' : T = ⟨64, true⟩ := by simp [typeOfCode] at hT; exact hT.symm
        subst hT'
        refine ⟨by simpa [TG.eval, cumsumOp] using hs, fun ix => ?_⟩
        simp only [TG.eval, eval_iscalar, constT_scalar_get]
        exact cumsum_core64 _ (x.eval env) _ axis hs hg (compose_wrapU t t ⟨64, true⟩ (by decide) (Or.inl rfl)) ix
  | some d =>
    rw [cumsumGraph_some_eq] at h
    simp only [cumsumResultCode] at hT hcast
    generalize ht1 : (if d = 13 then t else d) = t1 at h
    obtain ⟨hs, hg⟩ := operand t1
    split at h
    · cases h
    · split at h
      · cases h
      · rename_i hA hB
        injection h with h
        subst h
        -- congruence of the element casts modulo 2^bits of the result type
        have hgU : ∀ v, wrapU T.bits ((if t1 = 7 then id else castElem 7) ((if t = t1 then id else castElem t1) v)) = wrapU T.bits v := by
          apply compose_wrapU t t1 T hbits
          by_cases hd : d = 13
          · left; simp [hd] at ht1; exact ht1
          · right; simp [hd] at ht1; subst ht1; exact hcast
        obtain ⟨hfs, hfg⟩ := astypeG_eval env (TG.cumsum (astypeG t1 7 (astypeG t t1 x)) (iscalar axis)) 7 d
        refine ⟨by rw [hfs]; simpa [TG.eval, cumsumOp] using hs, fun ix => ?_⟩
        rw [hfg]
        simp only [TG.eval, eval_iscalar, constT_scalar_get]
        split
        · rename_i h7
          subst h7
          have hT' : T = ⟨64, true⟩ := by simp [typeOfCode] at hT; exact hT.symm
          subst hT'
          simp only [id]
          exact cumsum_core64 _ (x.eval env) _ axis hs hg hgU ix
        · rw [hcast]
          exact cumsum_core _ (x.eval env) _ axis T hbits hs hg hgU ix

example : (((cumsumGraph (.inp 0) 3 none 1).get!).eval [constT [2, 3] [1, 2, 3, 127, 127, 127]]).toFlat = [1, 3, 6, 127, 254, 381] := by decide
example : (((cumsumGraph (.inp 0) 5 (some 3) (-1)).get!).eval [constT [3] [127, 1, 300]]).toFlat = [127, -128, -84] := by decide

end Ndx.TGraph
