import NdonnxVerif.Lemmas.HeapSim
import NdonnxVerif.Lemmas.Broadcast
/-!
# C01 — an exported model computes exactly what eager evaluation computes

`refinement`: for every program (any length, any mix of primitives, copies and in-place cell
updates), every tuple of input values and every subset of inputs bound as placeholders, if eager
evaluation succeeds then the traced run succeeds too ("a computation that evaluates on data also
traces") and every traced cell denotes, under the environment binding the placeholders to the input
values, exactly the value the eager run reports for that cell.

Scope of the model (`_partial`): transitions are the `@eager_propagate` primitives, `copy`, `_set`
and input creation.  The Python-level *value-dependent shortcuts* (`where`, `logical_and/or`,
`all/any`) branch on build-time values before any primitive is emitted and are not transitions of
this state machine; they are covered by the correspondence run of the check (and the `where`
shortcuts are a recorded finding).
-/
namespace Ndx.C01
open Ndx.Heap
variable {Val : Type} (sem : String → List Val → Option Val)

/-- The environment binds every program input to its value. -/
def EnvOK (env : String → Option Val) (p : List (PStep Val)) : Prop :=
  ∀ n v, PStep.input n v ∈ p → env n = some v

/-- Every value-dependent shortcut a program takes is semantically neutral (the requirement the property names); programs
that take shortcuts are considered over total operator semantics and environments that bind every placeholder. -/
def ShortcutsNeutral (env : String → Option Val) (p : List (PStep Val)) : Prop :=
  (∀ op args g choice, PStep.guarded op args g choice ∈ p →
    Neutral sem op args.length g choice ∧ Total sem ∧ ∀ n, ∃ v, env n = some v) ∧
  (∀ op a b chA chB, PStep.guarded2 op a b chA chB ∈ p →
    Neutral2 sem op chA chB ∧ Total sem ∧ ∀ n, ∃ v, env n = some v)

theorem stepsRel_of_prog (env : String → Option Val) (lz1 lz2 : String → Bool)
    (hl : ∀ n, lz1 n = true → lz2 n = true) :
    ∀ (p : List (PStep Val)), EnvOK env p → ShortcutsNeutral sem env p →
      StepsRel sem env (p.map (PStep.toStep lz1)) (p.map (PStep.toStep lz2)) := by
  intro p
  induction p with
  | nil => intro _ _; exact .nil
  | cons s ss ih =>
    intro henv hN
    have hss : EnvOK env ss := fun n v hm => henv n v (List.mem_cons_of_mem _ hm)
    have hNs : ShortcutsNeutral sem env ss :=
      ⟨fun op args g choice hm => hN.1 op args g choice (List.mem_cons_of_mem _ hm),
       fun op a b chA chB hm => hN.2 op a b chA chB (List.mem_cons_of_mem _ hm)⟩
    refine .cons ?_ (ih hss hNs)
    cases s with
    | guarded op args g choice =>
      obtain ⟨h1, h2, h3⟩ := hN.1 op args g choice (by simp)
      exact .guarded op args g choice h1 h2 h3
    | guarded2 op a b chA chB =>
      obtain ⟨h1, h2, h3⟩ := hN.2 op a b chA chB (by simp)
      exact .guarded2 op a b chA chB h1 h2 h3
    | input n v =>
      simp only [PStep.toStep]
      by_cases h1 : lz1 n = true
      · simp [h1, hl n h1]; exact .same _ rfl
      · by_cases h2 : lz2 n = true
        · simp [h1, h2]; exact .bind n v (henv n v (by simp))
        · simp [h1, h2]; exact .same _ rfl
    | prim op args => exact .same _ rfl
    | copy r => exact .same _ rfl
    | set d s => exact .same _ rfl

/-- **Refinement, general form.** A run that is *less eager* (more placeholders, or onnxruntime
absent) simulates a run that is more eager: it succeeds whenever the latter does, cell by cell it
denotes the same value under the binding environment, and whatever value it reports the more eager
run reports too. -/
theorem refinement_general (env : String → Option Val) (o1 o2 : Bool) (ho : o2 = true → o1 = true)
    (lz1 lz2 : String → Bool) (hl : ∀ n, lz1 n = true → lz2 n = true)
    (p : List (PStep Val)) (henv : EnvOK env p) (hN : ShortcutsNeutral sem env p) (he : Heap Val)
    (hrun : runProg sem o1 lz1 p [] = some he) :
    ∃ hlz, runProg sem o2 lz2 p [] = some hlz ∧ Rel sem env he hlz :=
  run_sim sem env o1 o2 ho _ _ (stepsRel_of_prog sem env lz1 lz2 hl p henv hN) [] [] he
    (rel_nil sem env) closed_nil closed_nil hrun

/-- **C01 (programs over primitives, copies, in-place updates and value-dependent shortcuts).** Eager evaluation
(`lz1 = none lazy`) against tracing with an arbitrary subset `S` of the inputs as placeholders: the traced program
exists and every cell denotes the eagerly reported value — provided every shortcut the program takes is semantically
neutral (`ShortcutsNeutral`; for programs without shortcuts the hypothesis is vacuous, see `refinement_no_shortcuts`). -/
theorem refinement_partial (env : String → Option Val) (ort : Bool) (S : String → Bool)
    (p : List (PStep Val)) (henv : EnvOK env p) (hN : ShortcutsNeutral sem env p) (he : Heap Val)
    (hrun : runProg sem ort (fun _ => false) p [] = some he) :
    ∃ hlz, runProg sem ort S p [] = some hlz ∧ hlz.length = he.length ∧
      ∀ (i : Nat) (c c' : Cell Val), he[i]? = some c → hlz[i]? = some c' →
        ∀ v, c.eager = some v → eval sem env c'.var = some v := by
  obtain ⟨hlz, h1, h2⟩ := refinement_general sem env ort ort (fun h => h) (fun _ => false) S
    (by intro n h; simp at h) p henv hN he hrun
  refine ⟨hlz, h1, h2.1.symm, ?_⟩
  intro i c c' hc hc' v hv
  have hclosed : Closed he := run_closed sem ort _ [] he closed_nil hrun
  have hsound := closed_sound sem he hclosed c (List.mem_of_getElem? hc) v hv env
  rw [(h2.2 i c c' hc hc').1, hsound]

/-- Non-vacuity: a three-step program with one in-place update, traced with `x` lazy. -/
example :
    let sem := fun (_ : String) (vs : List Int) => some vs.sum
    let p : List (PStep Int) := [.input "x" 5, .input "y" 7, .prim "Add" [0, 1], .set 0 2]
    (runProg sem true (fun _ => false) p []).map (·.map (·.eager)) = some [some 12, some 7, some 12]
    ∧ (runProg sem true (· == "x") p []).map (·.map (fun c => eval sem (fun n => if n == "x" then some 5 else none) c.var))
        = some [some 12, some 7, some 12] := by decide

/-- Programs without shortcuts need no neutrality hypothesis. -/
theorem refinement_no_shortcuts (env : String → Option Val) (ort : Bool) (S : String → Bool)
    (p : List (PStep Val)) (henv : EnvOK env p)
    (hns : ∀ op args g choice, PStep.guarded op args g choice ∉ p)
    (hns2 : ∀ op a b chA chB, PStep.guarded2 op a b chA chB ∉ p) (he : Heap Val)
    (hrun : runProg sem ort (fun _ => false) p [] = some he) :
    ∃ hlz, runProg sem ort S p [] = some hlz ∧ hlz.length = he.length ∧
      ∀ (i : Nat) (c c' : Cell Val), he[i]? = some c → hlz[i]? = some c' →
        ∀ v, c.eager = some v → eval sem env c'.var = some v :=
  refinement_partial sem env ort S p henv
    ⟨fun op args g choice hm => absurd hm (hns op args g choice), fun op a b chA chB hm => absurd hm (hns2 op a b chA chB)⟩ he hrun

/-- Non-vacuity of the shortcut case: `Where` over integers ("c ≠ 0 selects x"), guarded on operand 0 with the choice
"true → operand 1, false → operand 2" — both shortcuts of `where` — is neutral and total; the eager run (condition holds
data) copies the selected branch, the traced run (condition a placeholder) emits the node, and both denote the same. -/
def whereSem : String → List Int → Option Int
  | "Where", [c, x, y] => some (if c ≠ 0 then x else y)
  | _, vs => some vs.sum

def whereChoice (c : Int) : Option Nat := if c ≠ 0 then some 1 else some 2

theorem where_neutral : Neutral whereSem "Where" 3 0 whereChoice := by
  intro vs v k hl hg hch hk
  match vs, hl, hg with
  | [c, x, y], _, hg =>
    simp at hg; subst hg
    unfold whereChoice at hch
    by_cases hc : c ≠ 0
    · simp [hc] at hch; subst hch; simp [whereSem, hc]
    · simp [hc] at hch; subst hch; simp [whereSem, hc]

theorem where_total : Total whereSem := by
  intro op vs
  unfold whereSem
  split <;> exact ⟨_, rfl⟩

example :
    let p : List (PStep Int) := [.input "c" 0, .input "x" 5, .input "y" 7, .guarded "Where" [0, 1, 2] 0 whereChoice]
    (runProg whereSem true (fun _ => false) p []).map (·.map (·.eager)) = some [some 0, some 5, some 7, some 7]
    ∧ (runProg whereSem true (· == "c") p []).map (·.map (fun c => eval whereSem (fun n => if n == "c" then some 0 else none) c.var))
        = some [some 0, some 5, some 7, some 7] := by decide

/-! ## The value-dependent shortcuts: their guards make them shape-neutral

The shortcuts of `logical_and/or` (return the other operand when one operand is a data-holding single
element of rank ≤ the other's) and of `where` (return the selected branch for a data-holding
single-element condition; since the repair only when the other branch provably broadcasts into it)
replace a broadcasting operator by a copy.  They do not change the answer because, under exactly these
guards, broadcasting leaves the returned operand's shape unchanged — for every rank and all extents. -/

theorem logical_shortcut_shape_neutral (s t : List Nat) (h : singleElementOfRankLe s t = true) :
    bshape s t = some t := bshape_of_single_element s t h

theorem where_shortcut_shape_neutral (c x y : List Nat) (hc : knownToBroadcastInto c x = true)
    (hy : knownToBroadcastInto y x = true) : (bshape c x).bind (fun cx => bshape cx y) = some x :=
  where_shortcut_shape c x y hc hy

/-- The guard on the unselected branch is necessary (the defect repaired in `/repo`). -/
theorem where_shortcut_unsound_without_guard :
    (bshape [] [1]).bind (fun cx => bshape cx [3]) = some [3] ∧ knownToBroadcastInto [3] [1] = false :=
  where_shortcut_needs_guard

example : singleElementOfRankLe [1, 1] [4, 5] = true ∧ bshape [1, 1] [4, 5] = some [4, 5] := by decide

/-- The two-sided shortcuts of `logical_and` / `logical_or`: `and(true, y) ↦ y`, `and(x, true) ↦ x`, `or(false, y) ↦ y`,
`or(x, false) ↦ x` are neutral and the operators total. -/
def boolSem : String → List Bool → Option Bool
  | "And", [x, y] => some (x && y)
  | "Or", [x, y] => some (x || y)
  | _, vs => some (vs.all id)

theorem and_neutral : Neutral2 boolSem "And" id id := by
  intro va vb
  constructor <;> intro h <;> simp at h <;> subst h <;> simp [boolSem]

theorem or_neutral : Neutral2 boolSem "Or" (fun v => !v) (fun v => !v) := by
  intro va vb
  constructor <;> intro h <;> simp at h <;> subst h <;> simp [boolSem]

theorem bool_total : Total boolSem := by
  intro op vs
  unfold boolSem
  split <;> exact ⟨_, rfl⟩

/-- Non-vacuity: `and(x, y)` and `and(y, x)` with `x = true`; eagerly both calls hand back a copy of `y`; traced with
`x` a placeholder the first emits the node, the second takes the second-operand shortcut… only if `y` is true — here
`y = false`, so both emit nodes; all denote the eager values. -/
example :
    let p : List (PStep Bool) := [.input "x" true, .input "y" false, .guarded2 "And" 0 1 id id, .guarded2 "And" 1 0 id id,
      .guarded2 "Or" 1 0 (fun v => !v) (fun v => !v)]
    (runProg boolSem true (fun _ => false) p []).map (·.map (·.eager)) = some [some true, some false, some false, some false, some true]
    ∧ (runProg boolSem true (· == "x") p []).map (·.map (fun c => eval boolSem (fun n => if n == "x" then some true else none) c.var))
        = some [some true, some false, some false, some false, some true] := by decide

end Ndx.C01
