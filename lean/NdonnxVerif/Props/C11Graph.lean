import NdonnxVerif.Props.C08Graph
import NdonnxVerif.Lemmas.TGraphRoll
/-!
# C11 at graph level — the exported layout graphs evaluate to NumPy's arrangement

The terms are the ones `Model/TGraphFns.lean` rebuilds from the Python-level arguments; the C11 and C06 checks
compare them, on every run, with the graphs the library really exports (static, symbolic and unknown dimensions,
all dtypes, both fields of nullable arrays).  Every theorem quantifies over the environment: every shape of the
traced rank (extents 0 and 1 included) and every element value.
-/
namespace Ndx.TGraph
open Ndx Ndx.Spec Ndx.C08

/-- **C11 / C06, `roll` at graph level.**  The graph `roll(x, shifts, axes)` exports — for a plain array
(`field = src`), for the values field and for the null field of a nullable array — evaluates, for every shape
(extents 0 and 1 included), every element value, every shift of any sign and magnitude and every list of valid
(possibly negative, possibly repeated) axes, to NumPy's `roll` of that field. -/
theorem roll_graph_correct (env) (f s : TG) (steps : List (Int × Int))
    (hfs : (f.eval env).shape = (s.eval env).shape)
    (hax : ∀ p ∈ steps, normAxis (s.eval env).rank p.2 < (s.eval env).rank)
    (hn : ∀ k, Int.ofNat ((s.eval env).shape.getD k 0) ≤ int64Max) :
    ((rollGraph f s steps).eval env).Equiv (Spec.rollSteps (f.eval env) steps) := by
  obtain ⟨h1, h2⟩ := rollSteps_eval env steps f s hfs hax hn
  simp only [rollGraph, TG.eval]
  exact equiv_trans (reshape_to_same_shape _ _ h2) h1


/-- The slice arguments `flip` writes: `::-1` on the listed axes, `:` elsewhere. -/
def flipArgs (rank : Nat) (axes : List Nat) : List SliceArg :=
  (List.range rank).map (fun i => if axes.contains i then (none, none, some (-1)) else (none, none, none))

theorem flipIndex_eq (rank : Nat) (axes : List Nat) : flipIndex rank axes = (flipArgs rank axes).map normSl := by
  simp only [flipIndex, flipArgs, List.map_map]
  apply List.map_congr_left
  intro i _
  by_cases h : i ∈ axes <;> simp [h, normSl, stepPositive, defaultStart, defaultStop, int64Max, int64Min]

theorem pySlice_rev (n : Nat) : pySlice n none none (some (-1)) = ((n : Int) - 1, n, -1) := by
  simp only [pySlice, pyStart, pyStop, Option.getD, show ¬ ((-1 : Int) > 0) by decide, if_false]
  have : rangeLen ((n : Int) - 1) (-1) (-1) = n := by
    unfold rangeLen
    simp only [show ¬ ((-1 : Int) > 0) by decide, if_false, show ((-1 : Int) < 0) by decide, if_true]
    split
    · simp only [Int.neg_neg]; omega
    · omega
  rw [this]

theorem pySlice_full (n : Nat) : pySlice n none none none = (0, n, 1) := by
  simp only [pySlice, pyStart, pyStop, Option.getD, show ((1 : Int) > 0) by decide, if_true]
  have : rangeLen 0 (n : Int) 1 = n := rangeLen_zero_n_one n
  rw [this]

theorem flip_spec (t : Tensor α) (axes : List Nat) :
    (axesT t (pyTriples (flipArgs t.rank axes) t.shape)).Equiv (Spec.flipAxes t axes) := by
  have htr : ∀ k (hk : k < t.shape.length), (pyTriples (flipArgs t.rank axes) t.shape)[k]'(by simp [pyTriples, flipArgs, Tensor.rank]; exact hk)
      = if axes.contains k then ((t.shape[k] : Int) - 1, t.shape[k], -1) else (0, t.shape[k], 1) := by
    intro k hk
    simp only [pyTriples, flipArgs, List.getElem_zipWith, List.getElem_map, List.getElem_range]
    by_cases h : axes.contains k <;> simp only [h, if_true, if_false, Bool.false_eq_true] <;> first | exact pySlice_rev _ | exact pySlice_full _
  constructor
  · simp only [axesT, Spec.flipAxes]
    apply List.ext_getElem
    · simp [pyTriples, flipArgs, Tensor.rank]
    · intro k h1 h2
      simp only [List.getElem_map]
      rw [htr k h2]
      split <;> rfl
  · intro ix hix
    have hshape : (axesT t (pyTriples (flipArgs t.rank axes) t.shape)).shape = t.shape := by
      simp only [axesT]
      apply List.ext_getElem
      · simp [pyTriples, flipArgs, Tensor.rank]
      · intro k h1 h2
        simp only [List.getElem_map]
        rw [htr k h2]
        split <;> rfl
    rw [hshape] at hix
    have hixlen := C11.inRange_length _ _ hix
    simp only [axesT, Spec.flipAxes]
    congr 1
    apply List.ext_getElem
    · simp [pyTriples, flipArgs, Tensor.rank, hixlen]
    · intro k h1 h2
      simp only [List.length_mapIdx] at h2
      have hk : k < t.shape.length := by omega
      have hi := C11.inRange_get _ _ hix k h2
      have hg : t.shape.getD k 0 = t.shape[k] := by simp [List.getD_eq_getElem?_getD, List.getElem?_eq_getElem hk]
      rw [hg] at hi
      simp only [List.getElem_zipWith, List.getElem_mapIdx]
      rw [htr k hk, hg]
      by_cases h : axes.contains k
      · simp only [h, if_true]
        simp only [Int.ofNat_eq_natCast]
        omega
      · simp only [h, if_false, Bool.false_eq_true]
        simp

/-- **C11 / C06, `flip` at graph level.**  The graph `flip(x, axes)` exports (one `Slice` with `INT64_MAX`,
`INT64_MIN`, `-1` on the listed axes), evaluated on any tensor of the traced rank — every shape, extents 0 and 1
included — is NumPy's `flip`. -/
theorem flip_graph_correct (env) (x : TG) (axes : List Nat)
    (hn : ∀ k, Int.ofNat ((x.eval env).shape.getD k 0) ≤ int64Max) :
    ((flipGraph x (x.eval env).rank axes).eval env).Equiv (Spec.flipAxes (x.eval env) axes) := by
  generalize hT : x.eval env = T at hn ⊢
  unfold flipGraph
  split
  · rename_i h0
    rw [hT]
    refine ⟨rfl, ?_⟩
    intro ix hix
    have : T.shape = [] := List.eq_nil_of_length_eq_zero h0
    rw [this] at hix
    match ix, hix with
    | [], _ => simp [Spec.flipAxes]
  · rw [getitemGraph_eval, hT, flipIndex_eq]
    have hlen : (flipArgs T.rank axes).length = T.rank := by simp [flipArgs]
    have hb : ∀ k (hk : k < (flipArgs T.rank axes).length),
        sliceInBounds (Int.ofNat (T.shape.getD k 0)) (flipArgs T.rank axes)[k].1 (flipArgs T.rank axes)[k].2.1 (flipArgs T.rank axes)[k].2.2 := by
      intro k hk
      simp only [flipArgs, List.getElem_map]
      split <;> (refine ⟨by decide, ?_, ?_⟩ <;> intro v hv <;> simp at hv)
    obtain ⟨r, hr, he⟩ := getitem_slices_nd T _ hlen hn hb
    simp only [Ndx.getitem, normaliseIndex_slices T.rank _ hlen, bind, Except.bind] at hr
    injection hr with hr
    rw [hr]
    exact equiv_trans he (equiv_trans (spec_getitem_slices T _ hlen) (flip_spec T axes))


theorem removeAt_single_aux {β : Type} : ∀ (l : List β) (k a : Nat),
    ((l.zipIdx k).filter (fun p => !decide (p.2 = a))).map (·.1) = if a < k then l else l.eraseIdx (a - k) := by
  intro l
  induction l with
  | nil => intro k a; simp
  | cons x l ih =>
    intro k a
    simp only [List.zipIdx_cons, List.filter_cons]
    by_cases h : k = a
    · subst h
      simp only [decide_true, Bool.not_true, Bool.false_eq_true, if_false, Nat.lt_irrefl, Nat.sub_self, List.eraseIdx_cons_zero]
      rw [ih (k + 1) k]
      simp
    · simp only [h, decide_false, Bool.not_false, if_true, List.map_cons]
      rw [ih (k + 1) a]
      by_cases hlt : a < k
      · simp [hlt, show a < k + 1 by omega]
      · have h1 : ¬ a < k + 1 := by omega
        have hak : a - k = (a - (k + 1)) + 1 := by omega
        simp only [hlt, h1, if_false]
        rw [hak, List.eraseIdx_cons_succ]

theorem removeAt_single {β : Type} (l : List β) (a : Nat) : removeAt l [a] = l.eraseIdx a := by
  have := removeAt_single_aux l 0 a
  simpa [removeAt] using this

/-- **`expand_dims(x, axis)` at graph level**: the exported `Unsqueeze` with the (possibly negative) axis inserts
one extent-1 axis at NumPy's position and moves no element. -/
theorem expandDims_graph_correct (env) (x : TG) (axis : Int) :
    (expandDimsGraph x axis).eval env
      = ⟨(x.eval env).shape.take (normAxis ((x.eval env).rank + 1) axis) ++ 1 :: (x.eval env).shape.drop (normAxis ((x.eval env).rank + 1) axis),
         fun ix => (x.eval env).get (ix.eraseIdx (normAxis ((x.eval env).rank + 1) axis))⟩ := by
  simp only [expandDimsGraph, TG.eval, eval_ivec_toFlat, unsqueezeOp, List.map_cons, List.map_nil, List.length_cons,
    List.length_nil, sortNat, List.foldr_cons, List.foldr_nil, insertSorted, onnxUnsqueeze, insertAt, List.foldl_cons, List.foldl_nil]
  congr 1
  funext ix
  rw [removeAt_single]

/-- **`squeeze(x, axis)` at graph level** (one axis): the exported `Squeeze` removes that axis and reads the element
at position 0 of it. -/
theorem squeeze_graph_correct (env) (x : TG) (axis : Int) :
    (squeezeGraph x [axis]).eval env
      = ⟨(x.eval env).shape.eraseIdx (normAxis (x.eval env).rank axis),
         fun ix => (x.eval env).get (ix.take (normAxis (x.eval env).rank axis) ++ 0 :: ix.drop (normAxis (x.eval env).rank axis))⟩ := by
  simp only [squeezeGraph, List.isEmpty_cons, Bool.false_eq_true, if_false, TG.eval, eval_ivec_toFlat, squeezeOp,
    List.map_cons, List.map_nil, sortNat, List.foldr_cons, List.foldr_nil, insertSorted, insertAt, List.foldl_cons, List.foldl_nil,
    removeAt_single]

/-- `permute_dims` / `matrix_transpose` export one `Transpose` whose permutation is the argument / swaps the last
two axes (`C11.matrix_transpose_perm`). -/
theorem permute_graph_eval (env) (x : TG) (perm : List Nat) :
    (permuteGraph x perm).eval env = onnxTranspose (x.eval env) perm := rfl

theorem matrixTranspose_graph_eval (env) (x : TG) (rank : Nat) :
    (matrixTransposeGraph x rank).eval env = onnxTranspose (x.eval env) (matrixTransposePerm rank) := rfl

/-- **`concat([x, y], axis)` at graph level** is NumPy's concatenation along the normalised axis. -/
theorem concat_graph_correct (env) (x y : TG) (axis : Int) :
    (concatGraph x y axis).eval env
      = Spec.concat (x.eval env) (y.eval env) (normAxis (x.eval env).rank axis) := rfl

/-- Non-vacuity and a concrete reading: rolling a 2×3 token tensor by (1, -1) on axes (1, -2). -/
example : ((rollGraph (.inp 0) (.inp 0) [(1, 1), (-1, -2)]).eval [⟨[2, 3], fun ix => Int.ofNat (ravel [2, 3] ix)⟩]).toFlat
    = [5, 3, 4, 2, 0, 1] := by decide
example : ((flipGraph (.inp 0) 2 [1]).eval [⟨[2, 3], fun ix => Int.ofNat (ravel [2, 3] ix)⟩]).toFlat
    = [2, 1, 0, 5, 4, 3] := by decide

end Ndx.TGraph
