import NdonnxVerif.Props.C01
/-!
# C16 — without onnxruntime at trace time, exported models compute the same results

Corollary of the simulation (`Ndx.C01.refinement_general`) with the same placeholders and
onnxruntime present in one run, absent in the other.
-/
namespace Ndx.C16
open Ndx.Heap Ndx.C01
variable {Val : Type} (sem : String → List Val → Option Val)

/-- Whatever traces with onnxruntime present also traces without it, every cell of the
onnxruntime-absent run denotes the same value under every binding environment, and every value it
reports is the one the onnxruntime-present run reports. -/
theorem equiv (env : String → Option Val) (S : String → Bool) (p : List (PStep Val))
    (henv : EnvOK env p) (hN : ShortcutsNeutral sem env p) (h : Heap Val) (hrun : runProg sem true S p [] = some h) :
    ∃ h', runProg sem false S p [] = some h' ∧ Rel sem env h h' :=
  refinement_general sem env true false (by intro h; cases h) S S (fun _ h => h) p henv hN h hrun

/-- Cells that existed before a step and are not its `set` target. -/
def Derived : Step Val → Bool
  | .prim _ _ => true
  | _ => false

/-- Without onnxruntime a primitive never reports a value: derived arrays hold none. -/
theorem derived_no_value (h h' : Heap Val) (op : String) (args : List Nat)
    (hstep : step sem false h (.prim op args) = some h') :
    ∃ vars, h' = h ++ [⟨.node op vars, none⟩] := by
  simp only [step, resolve, stepBase] at hstep
  cases hv : varsOf h args with
  | none => simp [hv] at hstep
  | some vars =>
    simp only [hv, Option.bind_some] at hstep
    simp at hstep
    exact ⟨vars, hstep.symm⟩

/-- Without onnxruntime no operator semantics is ever consulted: tracing cannot fail in a kernel. -/
theorem no_kernel_needed (sem' : String → List Val → Option Val) :
    ∀ (steps : List (Step Val)) (h : Heap Val), run sem false steps h = run sem' false steps h := by
  intro steps
  induction steps with
  | nil => intro h; rfl
  | cons s ss ih =>
    intro h
    have hs : step sem false h s = step sem' false h s := by
      simp only [step]
      generalize resolve h s = r
      cases r <;> simp [stepBase]
    simp only [run, hs]
    cases step sem' false h s with
    | none => rfl
    | some hm => simp [ih hm]

example :
    let sem := fun (_ : String) (vs : List Int) => some vs.sum
    let p : List (PStep Int) := [.input "x" 5, .input "y" 7, .prim "Add" [0, 1], .copy 2]
    (runProg sem false (· == "x") p []).map (·.map (·.eager)) = some [none, some 7, none, none] := by
  decide

end Ndx.C16
