import NdonnxVerif.Model.Search
/-!
# C12, the `searchsorted` algorithm (`_numericimpl.searchsorted`): ranks → scattered multiplicities →
cumulative sum → slot lookup equals the counting specification, for all inputs (no size bound).
-/
namespace Ndx.C12
open Ndx.Search

theorem sum_indicator (a n : Nat) :
    ((List.range n).map (fun s => if a == s then 1 else 0)).sum = if a < n then 1 else 0 := by
  induction n with
  | zero => simp
  | succ n ih =>
    rw [List.range_succ, List.map_append, List.sum_append, ih]
    by_cases h1 : a < n
    · have : ¬ a = n := by omega
      simp [h1, this]; omega
    · by_cases h2 : a = n
      · subst h2; simp
      · have : ¬ a < n + 1 := by omega
        simp [h1, h2, this]

/-- Summing the per-slot multiplicities over slots `0..k` counts the elements whose slot is `≤ k`. -/
theorem sum_slots (f : Int → Nat) (xs : List Int) (k : Nat) :
    ((List.range (k + 1)).map (fun s => (xs.filter (fun w => f w == s)).length)).sum
      = (xs.filter (fun w => decide (f w ≤ k))).length := by
  induction xs with
  | nil =>
    simp only [List.filter_nil, List.length_nil]
    induction (List.range (k + 1)) with
    | nil => rfl
    | cons a l ih => simpa using ih
  | cons x xs ih =>
    have hsplit : ∀ s, ((x :: xs).filter (fun w => f w == s)).length
        = (if f x == s then 1 else 0) + (xs.filter (fun w => f w == s)).length := by
      intro s; by_cases h : f x == s <;> simp [List.filter_cons, h] <;> omega
    simp only [hsplit]
    have hadd : ∀ (g h : Nat → Nat) (l : List Nat), (l.map (fun s => g s + h s)).sum = (l.map g).sum + (l.map h).sum := by
      intro g h l; induction l with
      | nil => simp
      | cons a l ih => simp [ih]; omega
    rw [hadd, ih, sum_indicator]
    by_cases h : f x ≤ k
    · have : f x < k + 1 := by omega
      simp [List.filter_cons, h, this]; omega
    · have : ¬ f x < k + 1 := by omega
      simp [List.filter_cons, h, this]

theorem rank_mono (u : List Int) (w v : Int) (h : w ≤ v) : rank u w ≤ rank u v := by
  unfold rank
  have : (u.filter (· < w)).length ≤ (u.filter (· < v)).length := by
    induction u with
    | nil => simp
    | cons a u ih =>
      simp only [List.filter_cons]
      by_cases h1 : a < w
      · have h2 : a < v := by omega
        simp [h1, h2]; exact ih
      · by_cases h2 : a < v
        · simp [h1, h2]; omega
        · simp [h1, h2]; exact ih
  omega

theorem rank_strict (u : List Int) (w v : Int) (hw : w ∈ u) (h : w < v) : rank u w < rank u v := by
  unfold rank
  have : (u.filter (· < w)).length < (u.filter (· < v)).length := by
    induction u with
    | nil => simp at hw
    | cons a u ih =>
      simp only [List.filter_cons]
      rcases List.mem_cons.mp hw with rfl | hw'
      · have h1 : ¬ w < w := by omega
        have hm := rank_mono u w v (by omega)
        unfold rank at hm
        simp [h1, h]; omega
      · have ih' := ih hw'
        by_cases h1 : a < w
        · have h2 : a < v := by omega
          simp [h1, h2]; exact ih'
        · by_cases h2 : a < v
          · simp [h1, h2]; omega
          · simp [h1, h2]; exact ih'
  omega

theorem rank_lt_iff (u : List Int) (w v : Int) (hw : w ∈ u) : rank u w < rank u v ↔ w < v := by
  constructor
  · intro h
    by_cases hv : v ≤ w
    · have := rank_mono u v w hv; omega
    · omega
  · exact rank_strict u w v hw

theorem rank_le_iff (u : List Int) (w v : Int) (hv : v ∈ u) : rank u w ≤ rank u v ↔ w ≤ v := by
  constructor
  · intro h
    by_cases hwv : v < w
    · have := rank_strict u v w hv hwv; omega
    · omega
  · exact rank_mono u w v

theorem filter_length_congr (xs : List Int) (p q : Int → Bool) (h : ∀ w ∈ xs, p w = q w) :
    (xs.filter p).length = (xs.filter q).length := by
  rw [List.filter_congr h]

/-- **searchsorted, the algorithm ndonnx runs** (ranks among the distinct values, scatter of multiplicities,
cumulative sum, slot lookup) returns the counting specification — `#{x ∈ x1 | x < v}` for `side="left"`,
`#{x ∈ x1 | x ≤ v}` for `side="right"` — for every haystack (sorted or not: the counting specification is what
NumPy returns on sorted input), every needle, every list `u` of "distinct values" that contains the haystack's
values and the needle. No size bound. -/
theorem searchsortedImpl_eq_count (u xs : List Int) (v : Int) (right : Bool)
    (hx : ∀ w ∈ xs, w ∈ u) (hv : v ∈ u) :
    searchsortedImpl u xs v right
      = (xs.filter (fun w => if right then decide (w ≤ v) else decide (w < v))).length := by
  unfold searchsortedImpl cumSlot slot
  cases right with
  | true =>
    simp only [if_true]
    rw [sum_slots (fun w => rank u w + 1) xs (rank u v + 1)]
    apply filter_length_congr
    intro w _
    have := rank_le_iff u w v hv
    by_cases h : w ≤ v
    · have h' : rank u w + 1 ≤ rank u v + 1 := by have := this.mpr h; omega
      simp [h, h']
    · have h' : ¬ rank u w + 1 ≤ rank u v + 1 := by intro hh; exact h (this.mp (by omega))
      simp [h, h']
  | false =>
    simp only [Bool.false_eq_true, if_false]
    rw [sum_slots (fun w => rank u w + 1) xs (rank u v)]
    apply filter_length_congr
    intro w hw
    have := rank_lt_iff u w v (hx w hw)
    by_cases h : w < v
    · have h' : rank u w + 1 ≤ rank u v := by have := this.mpr h; omega
      simp [h, h']
    · have h' : ¬ rank u w + 1 ≤ rank u v := by intro hh; exact h (this.mp (by omega))
      simp [h, h']

theorem mem_distinct (l : List Int) : ∀ w : Int, w ∈ distinct l ↔ w ∈ l := by
  induction l with
  | nil => simp [distinct]
  | cons a l ih =>
    intro w
    simp only [distinct]
    split
    · rename_i h; rw [ih] at h ⊢
      constructor
      · intro hw; exact List.mem_cons_of_mem _ hw
      · intro hw; rcases List.mem_cons.mp hw with rfl | h'
        · exact h
        · exact h'
    · simp [ih]

/-- With `u` the distinct values of `x1 ++ x2` (what `unique_all` hands the algorithm). -/
theorem searchsorted_correct (x1 x2 : List Int) (v : Int) (hv : v ∈ x2) (right : Bool) :
    searchsortedImpl (distinct (x1 ++ x2)) x1 v right
      = (x1.filter (fun w => if right then decide (w ≤ v) else decide (w < v))).length :=
  searchsortedImpl_eq_count _ _ _ _
    (fun w hw => (mem_distinct _ _).mpr (List.mem_append_left _ hw))
    ((mem_distinct _ _).mpr (List.mem_append_right _ hv))

example : searchsortedImpl (distinct ([1, 3, 3, 7] ++ [3])) [1, 3, 3, 7] 3 true = 3 := by decide
example : searchsortedImpl (distinct ([1, 3, 3, 7] ++ [3])) [1, 3, 3, 7] 3 false = 1 := by decide
end Ndx.C12
