import NdonnxVerif.Lemmas.SlicesNd
/-!
# C08 at graph level — the exported `x[index]` graph evaluates to NumPy's selection

* `getitemGraph_eval`: the term `getitem` is modelled to emit (and that the check compares, on every run, with the
  graph the library really exported for thousands of indices × ranks × dimension styles × dtypes) evaluates to the
  operator-level model `getitemCore`, for every normalised index, every shape and every element value.
* `getitem_slices_nd`: for **every rank**, an index made of one slice per axis inside the standard's bounds is
  accepted and returns NumPy's elements in NumPy's shape and order (the N-d composition of `slice_axis_agree`).
* `exported_slices_graph_correct`: both together — the exported graph itself, evaluated on any input, is NumPy's
  `x[s_0, …, s_{r-1}]`.
-/
namespace Ndx.TGraph
open Ndx Ndx.Spec Ndx.C08

/-- **The graph `getitem` emits evaluates to the operator-level model** `getitemCore`, for every normalised
index, every operand term, every environment (all shapes, all element values). -/
theorem getitemGraph_eval (env : List (Tensor Int)) (x : TG) (index : List NIx) :
    (getitemGraph x index).eval env = getitemCore (x.eval env) index := by
  unfold getitemGraph getitemCore
  simp only []
  have h1 : (if (axisSlices index).isEmpty = true then x else
      TG.slice x (ivec ((axisSlices index).map (·.2.1))) (ivec ((axisSlices index).map (·.2.2.1)))
        (ivec ((axisSlices index).map (fun s => Int.ofNat s.1))) (ivec ((axisSlices index).map (·.2.2.2)))).eval env
      = (if (axisSlices index).isEmpty = true then x.eval env else onnxSlice (x.eval env) (axisSlices index)) := by
    split
    · rfl
    · simp only [TG.eval, eval_ivec_toFlat]
      exact sliceOp_of_specs _ _
  split
  · rw [gather_fold, h1]
  · simp only [TG.eval, eval_ivec_toFlat]
    rw [unsqueezeOp_of_sorted _ _ (axisNewAxes_sorted index), gather_fold, h1]

/-- `x[idx]` as the model computes it *is* the evaluation of the emitted graph on `x`. -/
theorem getitem_via_graph (t : Tensor Int) (idx : List Ix) (n : List NIx) (h : normaliseIndex t.rank idx = .ok n) :
    Ndx.getitem t idx = .ok ((getitemGraph (.inp 0) n).eval [t]) := by
  simp only [Ndx.getitem, h, bind, Except.bind, getitemGraph_eval]
  rfl

/-- **C08 for every rank, slice-only indices.**  `x[s_0, …, s_{r-1}]` with one slice per axis (any step sign, any
start/stop given or omitted inside the standard's bounds) on a tensor of any rank and shape: the model of what
ndonnx emits (`index_normalise` + one ONNX `Slice`) accepts the index and returns NumPy's elements in NumPy's
shape and order. -/
theorem getitem_slices_nd (t : Tensor α) (sl : List SliceArg) (hlen : sl.length = t.rank)
    (hn : ∀ k, Int.ofNat (t.shape.getD k 0) ≤ int64Max)
    (hb : ∀ k (hk : k < sl.length), sliceInBounds (Int.ofNat (t.shape.getD k 0)) sl[k].1 sl[k].2.1 sl[k].2.2) :
    ∃ r, Ndx.getitem t (slicesIx sl) = .ok r ∧ r.Equiv (Spec.getitem t (slicesIx sl)) := by
  simp only [Ndx.getitem, normaliseIndex_slices t.rank sl hlen, bind, Except.bind]
  refine ⟨_, rfl, ?_⟩
  have hnn : ∀ e ∈ sl.map normSl, isNewaxis e = false := by
    intro e he; obtain ⟨s, _, rfl⟩ := List.mem_map.mp he; exact normSl_not_newaxis s
  have hlen' : (sl.map normSl).length = t.shape.length := by simpa [Tensor.rank] using hlen
  have hcore : (getitemCore t (sl.map normSl)).Equiv (axesT t (modelTriples (sl.map normSl) t.shape)) := by
    simp only [getitemCore, axisIndices_slices, axisNewAxes_slices, List.reverse_nil, List.foldl_nil, List.isEmpty_nil, if_true]
    have h := onnxSlice_eq_axesT t (sl.map normSl) hnn hlen'
    split
    · rename_i hemp
      rw [List.isEmpty_iff.mp hemp] at h
      exact equiv_trans (equiv_symm (onnxSlice_nil t)) h
    · exact h
  refine equiv_trans hcore (equiv_trans ?_ (equiv_symm (spec_getitem_slices t sl hlen)))
  apply axesT_congr _ _ _ (by simp [modelTriples, pyTriples])
  intro k hk
  simp only [modelTriples, List.length_zipWith, List.length_map] at hk
  have hks : k < sl.length := by omega
  have hkt : k < t.shape.length := by omega
  simp only [modelTriples, pyTriples, List.getElem_zipWith, List.getElem_map]
  have hg : t.shape.getD k 0 = t.shape[k] := by simp [List.getD_eq_getElem?_getD, List.getElem?_eq_getElem hkt]
  have hagree := slice_axis_agree t.shape[k] (by have := hn k; rwa [hg] at this) sl[k].1 sl[k].2.1 sl[k].2.2
    (by have := hb k hks; rwa [hg] at this) (normSl sl[k]) (normaliseEntry_slice sl[k])
  obtain ⟨hc, hp⟩ := positions_eq_iff _ _ hagree
  exact ⟨hc, fun i hi => hp i hi⟩

/-- **C08 / C06 at graph level, every rank.**  The graph exported for a slice-only index, evaluated on any integer
tensor of any shape, is NumPy's `x[s_0, …, s_{r-1}]` (shape, order, elements). -/
theorem exported_slices_graph_correct (t : Tensor Int) (sl : List SliceArg) (hlen : sl.length = t.rank)
    (hn : ∀ k, Int.ofNat (t.shape.getD k 0) ≤ int64Max)
    (hb : ∀ k (hk : k < sl.length), sliceInBounds (Int.ofNat (t.shape.getD k 0)) sl[k].1 sl[k].2.1 sl[k].2.2) :
    ((getitemGraph (.inp 0) (sl.map normSl)).eval [t]).Equiv (Spec.getitem t (slicesIx sl)) := by
  obtain ⟨r, hr, he⟩ := getitem_slices_nd t sl hlen hn hb
  rw [getitem_via_graph t _ _ (normaliseIndex_slices t.rank sl hlen)] at hr
  injection hr with hr
  rw [hr]; exact he

/-- Rank 1, integer index: the exported graph (`Gather` with a scalar) returns NumPy's element. -/
theorem exported_int_graph_correct_rank1 (t : Tensor Int) (n : Nat) (hs : t.shape = [n]) (i : Int) :
    ((getitemGraph (.inp 0) [.int i]).eval [t]).Equiv (Spec.getitem t [.int i]) := by
  obtain ⟨r, hr, he⟩ := getitem_rank1_int t n hs i
  have hrank : t.rank = 1 := by simp [Tensor.rank, hs]
  have hnorm : normaliseIndex t.rank [.int i] = .ok [.int i] := by
    simp [normaliseIndex, constructIndex, normaliseAll, normaliseEntry, isEllipsis, hrank, isNewaxis, bind, Except.bind]
  rw [getitem_via_graph t _ _ hnorm] at hr
  injection hr with hr
  rw [hr]; exact he

/-- Non-vacuity: the hypotheses hold for a concrete rank-2 instance (extents 3 and 0; a negative-step slice with an
explicit start, and an open slice on the empty axis). -/
example : sliceInBounds (Int.ofNat 3) (some 2) none (some (-2)) := by
  refine ⟨by decide, ?_, ?_⟩ <;> intro v hv <;> simp at hv <;> subst_vars <;> decide
example : sliceInBounds (Int.ofNat 0) none none none := by
  refine ⟨by decide, ?_, ?_⟩ <;> intro v hv <;> simp at hv

example : ((getitemGraph (.inp 0) ([(some 2, none, some (-2)), (none, some 1, none)].map normSl)).eval
    [⟨[3, 2], fun ix => Int.ofNat (ravel [3, 2] ix)⟩]).toFlat = [4, 0] := by decide

end Ndx.TGraph
