import NdonnxVerif.Lemmas.TGraphReduce
/-!
# C10 at graph level — the exported reduction graphs

The terms are those of `Model/TGraphFns.lean` (`sumGraph`, `prodGraph`, `minGraph`, `maxGraph`, `allGraph`,
`anyGraph`), compared on every run with the graphs the library exports for integer and boolean operands.
-/
namespace Ndx.TGraph
open Ndx Ndx.Spec

/-- **Shape of every exported reduction node** (`ReduceSum/Prod/Min/Max` as `sum/prod/min/max/all/any` emit them)
is NumPy's `keepdims` rule — every rank, every shape (extents 0 included), every valid `axis` argument. -/
theorem reduceCore_shape (env) (k : RKind) (keepdims : Bool) (axis : AxisArg) (x : TG)
    (hv : axisValid (x.eval env).rank axis) :
    ((reduceCore k keepdims axis (x.eval env).rank x).eval env).shape
      = reducedShape (x.eval env).shape axis keepdims := by
  simp only [reduceCore, TG.eval, eval_ivec_toFlat, reduceOp]
  rw [normAxes_id _ _ hv]
  rw [← C10.reduce_shape]
  simp only [reduceShapeModel, Tensor.rank]
  cases k <;> exact reduceT_shape _ _ _ _ _ _

/-- NumPy's reduced-axes flags for an `axis` argument. -/
def npFlags (rank : Nat) (axis : AxisArg) : List Bool := (List.range rank).map (reduced rank axis)

theorem reduceOp_flags (rank : Nat) (axis : AxisArg) (hv : axisValid rank axis) :
    (List.range rank).map (onnxReduced ((normalizeAxes rank axis).map (fun a => Int.ofNat (normAxis rank a))) (axis != .none))
      = npFlags rank axis := by
  rw [normAxes_id _ _ hv]
  simp only [npFlags]
  apply List.map_congr_left
  intro i _
  exact C10.reduced_eq rank axis i

theorem anyGraph_eval (env) (x : TG) (t rank : Nat) (axis : AxisArg) (keepdims : Bool) :
    (anyGraph x t rank axis keepdims).eval env
      = ((reduceOp .max keepdims (axis != .none) ((TG.cast 7 (.cast 3 (truthy x t))).eval env) (normalizeAxes rank axis)).map
          (castElem 3)).map (castElem 9) := by
  simp only [anyGraph, viaI64, show ¬ (3 = 7) by decide, if_false, reduceCore]
  show Tensor.map (castElem 9) (Tensor.map (castElem 3) (reduceOp .max keepdims (axis != .none) _ ((ivec (normalizeAxes rank axis)).eval env).toFlat)) = _
  rw [eval_ivec_toFlat]

theorem allGraph_eval (env) (x : TG) (t rank : Nat) (axis : AxisArg) (keepdims : Bool) :
    (allGraph x t rank axis keepdims).eval env
      = ((reduceOp .min keepdims (axis != .none) ((TG.cast 7 (.cast 3 (truthy x t))).eval env) (normalizeAxes rank axis)).map
          (castElem 3)).map (castElem 9) := by
  simp only [allGraph, viaI64, show ¬ (3 = 7) by decide, if_false, reduceCore]
  show Tensor.map (castElem 9) (Tensor.map (castElem 3) (reduceOp .min keepdims (axis != .none) _ ((ivec (normalizeAxes rank axis)).eval env).toFlat)) = _
  rw [eval_ivec_toFlat]

/-- **`any` at graph level.**  The exported graph (`x != 0` → int8 → int64 → `ReduceMax` → int8 → bool) returns, at
every result position, whether some element of the reduced slice is truthy — for every rank, shape, valid `axis`
argument and `keepdims`, **including slices with no element** (`False`, through the int8 round trip of
`INT64_MIN`); and the result has NumPy's shape. -/
theorem any_graph_correct (env) (x : TG) (t : Nat) (axis : AxisArg) (keepdims : Bool)
    (hv : axisValid (x.eval env).rank axis)
    (hbool : t = 9 → ∀ ix, (x.eval env).get ix = 0 ∨ (x.eval env).get ix = 1) :
    ((anyGraph x t (x.eval env).rank axis keepdims).eval env).shape = reducedShape (x.eval env).shape axis keepdims ∧
    ∀ o, InRange ((anyGraph x t (x.eval env).rank axis keepdims).eval env).shape o →
      ((anyGraph x t (x.eval env).rank axis keepdims).eval env).get o
        = b2i ((reduceVals (x.eval env) (npFlags (x.eval env).rank axis)
            (keptIndex (npFlags (x.eval env).rank axis) keepdims o)).any (tv t)) := by
  obtain ⟨hes, heg⟩ := truthy_eval env x t hbool
  have her : ((TG.cast 7 (.cast 3 (truthy x t))).eval env).rank = (x.eval env).rank := by simp [Tensor.rank, hes]
  have hflags := reduceOp_flags (x.eval env).rank axis hv
  have hl : (npFlags (x.eval env).rank axis).length = (x.eval env).shape.length := by simp [npFlags, Tensor.rank]
  obtain ⟨hps, hpg⟩ := reduceT_of_pointwise maxf int64Min _ (x.eval env) (fun v => b2i (tv t v))
    (npFlags (x.eval env).rank axis) keepdims hl hes heg
  have hshape : ((anyGraph x t (x.eval env).rank axis keepdims).eval env).shape
      = (reduceT maxf int64Min (x.eval env) (npFlags (x.eval env).rank axis) keepdims).shape := by
    rw [anyGraph_eval]
    generalize hE : (TG.cast 7 (.cast 3 (truthy x t))).eval env = E at hes heg her hps hpg ⊢
    simp only [Tensor.map, reduceOp]
    rw [her, hflags]
    exact hps
  refine ⟨?_, ?_⟩
  · rw [hshape, ← hflags]
    have := reduceT_shape maxf int64Min (x.eval env) ((normalizeAxes (x.eval env).rank axis).map (fun a => Int.ofNat (normAxis (x.eval env).rank a))) (axis != .none) keepdims
    rw [this, normAxes_id _ _ hv, ← C10.reduce_shape]
    rfl
  · intro o ho
    rw [hshape] at ho
    rw [anyGraph_eval]
    generalize hE : (TG.cast 7 (.cast 3 (truthy x t))).eval env = E at hes heg her hps hpg ⊢
    simp only [Tensor.map, reduceOp]
    rw [her, hflags]
    change castElem 9 (castElem 3 ((reduceT maxf int64Min E (npFlags (x.eval env).rank axis) keepdims).get o)) = _
    rw [hpg o ho]
    have hm : (reduceVals (x.eval env) (npFlags (x.eval env).rank axis) (keptIndex (npFlags (x.eval env).rank axis) keepdims o)).map (fun v => b2i (tv t v))
        = ((reduceVals (x.eval env) (npFlags (x.eval env).rank axis) (keptIndex (npFlags (x.eval env).rank axis) keepdims o)).map (tv t)).map b2i := by
      rw [List.map_map]; rfl
    rw [hm]
    rw [fold_max_bools _ int64Min (Or.inl rfl)]
    simp [List.any_map, Function.comp_def, int64Min]

/-- **`all` at graph level**: true exactly when every element of the reduced slice is truthy; `True` on empty slices. -/
theorem all_graph_correct (env) (x : TG) (t : Nat) (axis : AxisArg) (keepdims : Bool)
    (hv : axisValid (x.eval env).rank axis)
    (hbool : t = 9 → ∀ ix, (x.eval env).get ix = 0 ∨ (x.eval env).get ix = 1) :
    ((allGraph x t (x.eval env).rank axis keepdims).eval env).shape = reducedShape (x.eval env).shape axis keepdims ∧
    ∀ o, InRange ((allGraph x t (x.eval env).rank axis keepdims).eval env).shape o →
      ((allGraph x t (x.eval env).rank axis keepdims).eval env).get o
        = b2i ((reduceVals (x.eval env) (npFlags (x.eval env).rank axis)
            (keptIndex (npFlags (x.eval env).rank axis) keepdims o)).all (tv t)) := by
  obtain ⟨hes, heg⟩ := truthy_eval env x t hbool
  have her : ((TG.cast 7 (.cast 3 (truthy x t))).eval env).rank = (x.eval env).rank := by simp [Tensor.rank, hes]
  have hflags := reduceOp_flags (x.eval env).rank axis hv
  have hl : (npFlags (x.eval env).rank axis).length = (x.eval env).shape.length := by simp [npFlags, Tensor.rank]
  obtain ⟨hps, hpg⟩ := reduceT_of_pointwise minf int64Max _ (x.eval env) (fun v => b2i (tv t v))
    (npFlags (x.eval env).rank axis) keepdims hl hes heg
  have hshape : ((allGraph x t (x.eval env).rank axis keepdims).eval env).shape
      = (reduceT minf int64Max (x.eval env) (npFlags (x.eval env).rank axis) keepdims).shape := by
    rw [allGraph_eval]
    generalize hE : (TG.cast 7 (.cast 3 (truthy x t))).eval env = E at hes heg her hps hpg ⊢
    simp only [Tensor.map, reduceOp]
    rw [her, hflags]
    exact hps
  refine ⟨?_, ?_⟩
  · rw [hshape, ← hflags]
    have := reduceT_shape minf int64Max (x.eval env) ((normalizeAxes (x.eval env).rank axis).map (fun a => Int.ofNat (normAxis (x.eval env).rank a))) (axis != .none) keepdims
    rw [this, normAxes_id _ _ hv, ← C10.reduce_shape]
    rfl
  · intro o ho
    rw [hshape] at ho
    rw [allGraph_eval]
    generalize hE : (TG.cast 7 (.cast 3 (truthy x t))).eval env = E at hes heg her hps hpg ⊢
    simp only [Tensor.map, reduceOp]
    rw [her, hflags]
    change castElem 9 (castElem 3 ((reduceT minf int64Max E (npFlags (x.eval env).rank axis) keepdims).get o)) = _
    rw [hpg o ho]
    have hm : (reduceVals (x.eval env) (npFlags (x.eval env).rank axis) (keptIndex (npFlags (x.eval env).rank axis) keepdims o)).map (fun v => b2i (tv t v))
        = ((reduceVals (x.eval env) (npFlags (x.eval env).rank axis) (keptIndex (npFlags (x.eval env).rank axis) keepdims o)).map (tv t)).map b2i := by
      rw [List.map_map]; rfl
    rw [hm]
    rw [fold_min_bools _ int64Max (Or.inl rfl)]
    simp [List.all_map, Function.comp_def, int64Max]

/-- Non-vacuity and a concrete reading: `any` over an empty axis of a 0×3 int32 tensor is `[False, False, False]`;
`all` is `[True, True, True]`. -/
example : ((anyGraph (.inp 0) 6 2 (.one 0) false).eval [⟨[0, 3], fun _ => 5⟩]).toFlat = [0, 0, 0] := by decide
example : ((allGraph (.inp 0) 6 2 (.one 0) false).eval [⟨[0, 3], fun _ => 5⟩]).toFlat = [1, 1, 1] := by decide
example : ((anyGraph (.inp 0) 7 2 (.one (-1)) true).eval [⟨[2, 2], fun ix => Int.ofNat (ravel [2, 2] ix) - 1 - Int.ofNat (ix.headD 0)⟩]).toFlat = [1, 1] := by decide

end Ndx.TGraph
