import NdonnxVerif.Lemmas.NdIndex
import NdonnxVerif.Props.C08MaskGraph
/-!
# C12 — `nonzero` at graph level: coordinates of the non-zero elements in row-major order

`nonzeroGraph` is the term `tg_render nonzero` prints and the check compares with the exported graph of every output of
`ndx.nonzero(x)` (tie B): coordinate grid (`ndindex`), boolean-mask selection with `x != 0`, flatten, strided
`GatherElements`.
-/
namespace Ndx.TGraph
open Ndx Ndx.Spec

theorem toFlat_of_equiv {a b : Tensor α} (h : a.Equiv b) : a.toFlat = b.toFlat := by
  unfold Tensor.toFlat
  rw [← h.1]
  apply List.map_congr_left
  intro ix hix
  exact h.2 ix (mem_allIdx_inRange _ _ hix)

/-- What `x != 0` tests on an element `v` of dtype code `code` (the operand is promoted to int64 first). -/
def nzTruth (code : Nat) (v : Int) : Bool := decide ((if code = 7 then v else castElem 7 v) ≠ 0)

theorem neZero_eval (env : List (Tensor Int)) (x : TG) (code : Nat) :
    ((neZero x code).eval env).shape = (x.eval env).shape ∧
    ∀ ix, InRange (x.eval env).shape ix →
      decide (((neZero x code).eval env).get ix ≠ 0) = nzTruth code ((x.eval env).get ix) := by
  unfold neZero nzTruth
  by_cases h7 : code = 7
  · simp only [h7, if_true, TG.eval]
    have := bcast2_scalar_right (evalBOp .equal) (x.eval env) ((iscalar 0).eval env) 0 (isScalar_iscalar env 0)
    refine ⟨by simpa [Tensor.map] using this.1, ?_⟩
    intro ix hix
    simp only [Tensor.map, this.2 ix hix, evalBOp, b2i]
    by_cases hv : (x.eval env).get ix = 0 <;> simp [hv]
  · simp only [h7, if_false, TG.eval]
    have := bcast2_scalar_right (evalBOp .equal) ((x.eval env).map (castElem 7)) ((iscalar 0).eval env) 0 (isScalar_iscalar env 0)
    refine ⟨by simpa [Tensor.map] using this.1, ?_⟩
    intro ix hix
    have h2 := this.2 ix (by simpa [Tensor.map] using hix)
    simp only [Tensor.map] at h2 ⊢
    simp only [h2, evalBOp, b2i]
    by_cases hv : castElem 7 ((x.eval env).get ix) = 0 <;> simp [hv]

theorem rangeLen_stride (i r c : Nat) (hi : i < r) : rangeLen (i : Int) ((c * r : Nat) : Int) (r : Int) = c := by
  unfold rangeLen
  have hr : (0 : Int) < (r : Int) := by omega
  simp only [gt_iff_lt, hr, if_true]
  by_cases hc : c = 0
  · subst hc; simp; omega
  · have hlt : (i : Int) < ((c * r : Nat) : Int) := by
      have : r ≤ c * r := Nat.le_mul_of_pos_left r (Nat.pos_of_ne_zero hc)
      omega
    simp only [hlt, if_true]
    have e : ((c * r : Nat) : Int) - (i : Int) + (r : Int) - 1 = ((r : Int) - 1 - (i : Int)) + (c : Int) * (r : Int) := by
      push_cast; omega
    rw [e, Int.add_mul_ediv_right _ _ (by omega), Int.ediv_eq_zero_of_lt (by omega) (by omega)]
    simp

theorem reshapeTarget_neg1 (n : Nat) : reshapeTarget n [-1] = [n] := by
  have := reshapeTarget_neg1_head n [] (by simp [sizeOf'])
  simpa [sizeOf'] using this

/-- The element the mask of `nonzero` tests, for an input element `v` of dtype code `code` (booleans pass through int8). -/
def nzIn (code : Nat) (v : Int) : Bool := nzTruth code (if code = 9 then castElem 3 v else v)

/-- **C12, `nonzero`, exported graph.**  Output `i` of the term ndonnx exports for `nonzero(x)` lists, for every shape
(zero extents included) and every data, the `i`-th coordinate of the elements that `x != 0` selects, in row-major order. -/
theorem nonzero_graph_eval (env : List (Tensor Int)) (x0 : TG) (code rank i : Nat)
    (hr : (x0.eval env).rank = rank) (hi : i < rank) :
    ((nonzeroGraph x0 code rank i).eval env).toFlat
      = ((allIdx (x0.eval env).shape).filter (fun ix => nzIn code ((x0.eval env).get ix))).map (fun ix => Int.ofNat (ix.getD i 0)) := by
  -- the operand after the boolean → int8 cast
  obtain ⟨x, hx, hxs, hxg⟩ : ∃ x : TG, x = (if code = 9 then TG.cast 3 x0 else x0) ∧ (x.eval env).shape = (x0.eval env).shape ∧
      ∀ ix, (x.eval env).get ix = (if code = 9 then castElem 3 ((x0.eval env).get ix) else (x0.eval env).get ix) := by
    refine ⟨_, rfl, ?_, ?_⟩
    · split <;> simp [TG.eval, Tensor.map]
    · intro ix; split <;> simp [TG.eval, Tensor.map]
  have hpos : 0 < rank := by omega
  generalize hS : (x0.eval env).shape = S at *
  have hSl : S.length = rank := by rw [← hS]; exact hr
  have hxr : (x.eval env).rank = rank := by simp only [Tensor.rank, hxs, hSl]
  -- grid and mask
  obtain ⟨hGs, hGg⟩ := ndindexGraph_eval env x rank hxr hpos
  obtain ⟨hMs, hMg⟩ := neZero_eval env x code
  rw [hxs] at hGs hGg hMs hMg
  have hq1 : ((neZero x code).eval env).rank = rank := by simp only [Tensor.rank, hMs, hSl]
  have hq2 : rank ≤ ((ndindexGraph x rank).eval env).rank := by
    simp only [Tensor.rank, hGs, List.length_append, hSl]; simp
  have hq3 : ((neZero x code).eval env).shape = ((ndindexGraph x rank).eval env).shape.take rank := by
    rw [hGs, hMs, ← hSl]; simp
  have hq4 : 2 ≤ rank → sizeOf' (((ndindexGraph x rank).eval env).shape.drop rank) ≠ 0 := by
    intro h2; rw [hGs, ← hSl, List.drop_left]
    simp only [sizeOf', List.foldr_cons, List.foldr_nil, Nat.mul_one]; omega
  have hmask := exported_mask_graph_correct env (ndindexGraph x rank) (neZero x code) rank hq1 hq2 hq3 hq4
  simp only [nonzeroGraph, ← hx, nonzeroFlat]
  generalize hmk : (maskGraph (ndindexGraph x rank) (neZero x code) rank) = MK at hmask ⊢
  -- the selection
  have hfilter : (allIdx (maskOf ((neZero x code).eval env)).shape).filter (maskOf ((neZero x code).eval env)).get
      = (allIdx S).filter (fun ix => nzIn code ((x0.eval env).get ix)) := by
    simp only [maskOf, hMs]
    apply List.filter_congr
    intro ix hix
    rw [hMg ix (mem_allIdx_inRange _ _ hix), hxg ix]
    rfl
  generalize hsel : (allIdx S).filter (fun ix => nzIn code ((x0.eval env).get ix)) = sel at *
  have hselR : ∀ a, a < sel.length → InRange S (sel.getD a []) := by
    intro a ha
    have hm : sel.getD a [] ∈ sel := by
      rw [List.getD_eq_getElem?_getD, List.getElem?_eq_getElem ha]; simp
    have hall : ∀ y ∈ sel, y ∈ allIdx S := by
      intro y hy; rw [← hsel] at hy; exact (List.mem_filter.mp hy).1
    exact mem_allIdx_inRange _ _ (hall _ hm)
  obtain ⟨hks, hkg⟩ := hmask
  simp only [Spec.maskSelect, hfilter] at hks hkg
  have hdrop : (TG.eval env (ndindexGraph x rank)).shape.drop (maskOf (TG.eval env (neZero x code))).rank = [rank] := by
    rw [hGs]; simp only [maskOf, Tensor.rank, hMs]; rw [← hSl]; simp
  rw [hdrop] at hks
  -- flatten
  have hflat_shape : (reshapeOp (MK.eval env) [-1]).shape = [sel.length * rank] := by
    simp only [reshapeOp, onnxReshape, reshapeTarget_neg1, hks]
    simp [sizeOf']
  have hflat_get : ∀ a, a < sel.length → (reshapeOp (MK.eval env) [-1]).get [i + a * rank] = Int.ofNat ((sel.getD a []).getD i 0) := by
    intro a ha
    simp only [reshapeOp, onnxReshape, reshapeTarget_neg1, hks]
    have hun : unravel [sel.length, rank] (ravel [sizeOf' [sel.length, rank]] [i + a * rank]) = [a, i] := by
      simp only [ravel, sizeOf', List.foldr_nil, Nat.mul_one, Nat.add_zero, unravel, List.foldr_cons, Nat.div_one]
      rw [Nat.add_mul_div_right _ _ hpos, Nat.div_eq_of_lt hi, Nat.add_mul_mod_self_right, Nat.mod_eq_of_lt hi]
      simp
    rw [hun, hkg [a, i] (by rw [hks]; exact ⟨ha, hi, trivial⟩)]
    simp only [List.headD_cons, List.tail_cons]
    exact hGg _ (hselR a ha) i hi
  -- the strided gather
  simp only [TG.eval, eval_ivec_toFlat, eval_iscalar, constT_scalar_get]
  have hlen := isScalar_len env (.reshape MK (ivec [-1])) 0 (by simp only [TG.eval, eval_ivec_toFlat, Tensor.rank, hflat_shape]; simp [normAxis])
  simp only [TG.eval, eval_ivec_toFlat, eval_iscalar, Tensor.rank, hflat_shape] at hlen
  have hn0 : normAxis [sel.length * rank].length 0 = 0 := by simp [normAxis]
  rw [hn0] at hlen
  simp only [List.getD_cons_zero] at hlen
  generalize hL : gatherOp (shapeOp (reshapeOp (MK.eval env) [-1])) 0 (constT [] [0]) = L at hlen ⊢
  rw [hlen.2]
  have hrl := rangeLen_stride i rank sel.length hi
  have hout_shape : (gatherElementsOp (reshapeOp (MK.eval env) [-1]) (rangeOp (i : Int) (Int.ofNat (sel.length * rank)) (rank : Int))).shape = [sel.length] := by
    simp only [gatherElementsOp, rangeOp]
    rw [show Int.ofNat (sel.length * rank) = ((sel.length * rank : Nat) : Int) from rfl, hrl]
  rw [toFlat_vec_shape _ _ hout_shape]
  apply List.ext_getElem
  · simp
  · intro a h1 h2
    simp only [List.length_map, List.length_range] at h1
    simp only [List.getElem_map, List.getElem_range]
    have hidx : (rangeOp (i : Int) (Int.ofNat (sel.length * rank)) (rank : Int)).get [a] = ((i + a * rank : Nat) : Int) := by
      simp only [rangeOp, List.headD_cons]
      push_cast; rfl
    simp only [gatherElementsOp, List.tail_cons]
    rw [hidx]
    have hnn : ¬ (((i + a * rank : Nat) : Int) < 0) := by omega
    simp only [hnn, if_false, Int.toNat_natCast]
    rw [hflat_get a h1]
    congr 2
    rw [List.getD_eq_getElem?_getD, List.getElem?_eq_getElem h1]; simp

/-- Within the value range of the array's dtype the promoted test is `v ≠ 0`: int64 wrap-around maps only multiples of
`2^64` to zero, and a boolean passes through int8 unchanged. -/
theorem nzIn_spec (code : Nat) (v : Int) (hb : code = 9 → v = 0 ∨ v = 1)
    (hrange : -(2 : Int) ^ 63 ≤ v ∧ v < (2 : Int) ^ 64) : nzIn code v = decide (v ≠ 0) := by
  unfold nzIn nzTruth
  by_cases h9 : code = 9
  · rcases hb h9 with rfl | rfl <;> simp [h9] <;> decide
  · simp only [h9, if_false]
    by_cases h7 : code = 7
    · simp [h7]
    · simp only [h7, if_false]
      have : castElem 7 v = 0 ↔ v = 0 := by
        simp only [castElem, C02.IType.wrap, C02.wrapS, C02.wrapU]
        simp
        omega
      simp [this]

/-- **C12, `nonzero`.**  For data inside the value range of its dtype (booleans are 0/1), output `i` of the exported term
is the list of `i`-th coordinates of the non-zero elements in row-major order — `numpy.nonzero(x)[i]`. -/
theorem nonzero_graph_correct (env : List (Tensor Int)) (x0 : TG) (code rank i : Nat)
    (hr : (x0.eval env).rank = rank) (hi : i < rank)
    (hb : code = 9 → ∀ ix, InRange (x0.eval env).shape ix → (x0.eval env).get ix = 0 ∨ (x0.eval env).get ix = 1)
    (hrange : ∀ ix, InRange (x0.eval env).shape ix → -(2 : Int) ^ 63 ≤ (x0.eval env).get ix ∧ (x0.eval env).get ix < (2 : Int) ^ 64) :
    ((nonzeroGraph x0 code rank i).eval env).toFlat
      = ((allIdx (x0.eval env).shape).filter (fun ix => decide ((x0.eval env).get ix ≠ 0))).map (fun ix => Int.ofNat (ix.getD i 0)) := by
  rw [nonzero_graph_eval env x0 code rank i hr hi]
  congr 1
  apply List.filter_congr
  intro ix hix
  have hin := mem_allIdx_inRange _ _ hix
  exact nzIn_spec code _ (fun h9 => hb h9 ix hin) (hrange ix hin)

/-- Concrete reading: a 2×3 array with non-zeros at (0,1), (1,0), (1,2). -/
example : ((nonzeroGraph (.inp 0) 7 2 0).eval [constT [2, 3] [0, 5, 0, -1, 0, 7]]).toFlat = [0, 1, 1]
    ∧ ((nonzeroGraph (.inp 0) 7 2 1).eval [constT [2, 3] [0, 5, 0, -1, 0, 7]]).toFlat = [1, 0, 2] := by decide

end Ndx.TGraph
