import NdonnxVerif.Props.C12Where
import NdonnxVerif.Props.C11Broadcast
/-!
# C11 — `tril` / `triu` and the shape carrier of `broadcast_arrays` at graph level

`triluGraph`, `broadcastArraysGraph` are the terms `tg_render trilu` / `tg_render broadcast_arrays` print and the check
compares with the exported graphs (tie B).
-/
namespace Ndx.TGraph
open Ndx Ndx.Spec Ndx.C02

/-- NumPy's `tril` / `triu`: on the last two axes keep the elements on and below (above) the `k`-th diagonal. -/
def Spec.trilu (upper : Bool) (t : Tensor Int) (k : Int) : Tensor Int := triluOp upper t k

theorem castElem_zero' (c : Nat) : castElem c 0 = 0 := by
  unfold castElem
  split <;> simp [IType.wrap, wrapS, wrapU, b2i]

/-- **C11, `tril` / `triu`, exported graph.**  For integer data inside the value range of its dtype the exported term
(`Cast` to int64, `Trilu`, `Cast` back; `Trilu` alone for int64) keeps exactly the elements with `j - i ≤ k` (lower) /
`j - i ≥ k` (upper) of every trailing matrix and zeroes the others, for every rank ≥ 2, shape and diagonal `k`. -/
theorem trilu_graph_correct (env : List (Tensor Int)) (x : TG) (t : Nat) (T : IType) (hT : typeOfCode t = some T)
    (upper : Bool) (k : Int) (hx : ∀ ix, T.wrap ((x.eval env).get ix) = (x.eval env).get ix) :
    ((triluGraph x t upper k).eval env).shape = (x.eval env).shape ∧
    ∀ ix, ((triluGraph x t upper k).eval env).get ix = (triluOp upper (x.eval env) k).get ix := by
  unfold triluGraph viaI64
  by_cases h7 : t = 7
  · simp only [h7, if_true, TG.eval, eval_iscalar, constT_scalar_get]
    exact ⟨rfl, fun _ => trivial⟩
  · simp only [h7, if_false, TG.eval, eval_iscalar, constT_scalar_get, Tensor.map, triluOp]
    refine ⟨trivial, fun ix => ?_⟩
    have hle : T.bits ≤ 64 := (castElem_of_code t T hT).2
    exact ite_map _ _ _ _ _ _ (cast_roundtrip t 7 T ⟨64, true⟩ hT rfl hle _ (hx _)) (castElem_zero' t)

/-- The shape of a sum as ndonnx emits it is the shape of the plain `Add`. -/
theorem addG_shape (env : List (Tensor Int)) (t : Nat) (x y : TG) :
    ((addG t x y).eval env).shape = ((TG.bin .add x y).eval env).shape := by
  unfold addG
  split
  · rfl
  · simp [TG.eval, Tensor.map, bcast2]

/-- The carrier of two integer operands has the shape of `a + b`, so `broadcast_arrays_graph_correct` applies to the
exported `broadcast_arrays` term. -/
theorem exported_broadcast_arrays_correct (env : List (Tensor Int)) (a b : TG) (t : Nat) (ht : t ≠ 9) (out : List Nat)
    (hab : bshape (a.eval env).shape (b.eval env).shape = some out) :
    (((broadcastArraysGraph [a, b] t 0).eval env).shape = out ∧
      ∀ ix, ((broadcastArraysGraph [a, b] t 0).eval env).get ix = (a.eval env).get (bcastIndex (a.eval env).shape out ix)) ∧
    (((broadcastArraysGraph [a, b] t 1).eval env).shape = out ∧
      ∀ ix, ((broadcastArraysGraph [a, b] t 1).eval env).get ix = (b.eval env).get (bcastIndex (b.eval env).shape out ix)) := by
  have hcar : carrierG t [a, b] = addG t a b := by
    simp [carrierG, numericLike, ht]
  have := broadcast_arrays_graph_correct env a b (carrierG t [a, b]) out hab (by rw [hcar]; exact addG_shape env t a b)
  simpa [broadcastArraysGraph] using this

example : ((triluGraph (.inp 0) 3 false 0).eval [constT [2, 3] [1, 2, 3, 4, 5, 6]]).toFlat = [1, 0, 0, 4, 5, 0] := by decide
example : ((broadcastArraysGraph [.inp 0, .inp 1] 6 0).eval [constT [2, 1] [1, 2], constT [3] [7, 8, 9]]).toFlat = [1, 1, 1, 2, 2, 2] := by decide

/-- **C11, `take` with a constant 1-D index list, exported graph.**  `Gather(axis)` with the indices as an int64 vector:
the result has the operand's shape with the axis extent replaced by the number of indices, and position `i` of the axis
reads position `indices[i]` (negative entries count from the end) — NumPy's `take(x, indices, axis)`. -/
theorem take_graph_correct (env : List (Tensor Int)) (x : TG) (indices : List Int) (axis : Int) :
    ((takeGraph x indices axis).eval env).shape
      = (x.eval env).shape.set (normAxis (x.eval env).rank axis) indices.length ∧
    ∀ ix, ((takeGraph x indices axis).eval env).get ix
      = (x.eval env).get (updAxis ix (normAxis (x.eval env).rank axis) (fun i =>
          let j := indices.getD i 0
          (if j < 0 then j + Int.ofNat ((x.eval env).shape.getD (normAxis (x.eval env).rank axis) 0) else j).toNat)) := by
  simp only [takeGraph, TG.eval, gatherOp]
  have hs : ((ivec indices).eval env).shape = [indices.length] := by simp [ivec, TG.eval, constT]
  rw [hs]
  simp only [onnxGatherAxis, eval_ivec_toFlat]
  exact ⟨trivial, fun _ => rfl⟩

example : ((takeGraph (.inp 0) [2, -3, 0] (-1)).eval [constT [2, 3] [0, 1, 2, 3, 4, 5]]).toFlat = [2, 0, 0, 5, 3, 3] := by decide


end Ndx.TGraph
