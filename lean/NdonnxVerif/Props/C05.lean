import NdonnxVerif.Model.Build
/-!
# C05 — the exported model exposes exactly the requested interface (naming / order part)

`collectAll` (the dict-merging fold of `_build.py`) equals the documented interface — every request
flattened in request order, a core array under its own name, a nullable array as `<name>_values`,
`<name>_null` — **provided the flattened names are pairwise distinct** (otherwise the dict merge
silently drops an entry: stated as the exact guard).  Schema round trip for the 24 built-in dtypes is
checked on the generated table (`Gen.Schema`).
-/
namespace Ndx.C05
open Ndx

theorem flatten_core (name : String) (c : Core) : (DTree.core c).flatten name = [(name, c)] := by
  simp [DTree.flatten]

/-- A nullable array becomes exactly two tensors, `<name>_values` of the value dtype and `<name>_null`
of boolean dtype, in that order; a core array one tensor under its own name. -/
theorem flatten_builtin (name : String) (d : Dt) :
    (DTree.ofDt d).flatten name =
      if d.nullable then [(name ++ "_values", d.core), (name ++ "_null", .bool)] else [(name, d.core)] := by
  cases hn : d.nullable <;> simp [DTree.ofDt, hn, DTree.flatten, DTree.flattenFields, String.append_assoc]

theorem dictUnion_fresh (acc : List (String × α)) : ∀ (new : List (String × α)),
    (∀ kv ∈ new, ∀ e ∈ acc, e.1 ≠ kv.1) → (new.map (·.1)).Nodup → dictUnion acc new = acc ++ new := by
  intro new
  induction new generalizing acc with
  | nil => intro _ _; simp [dictUnion]
  | cons kv rest ih =>
    intro hfresh hnd
    simp only [dictUnion, List.foldl_cons]
    have h1 : acc.any (·.1 == kv.1) = false := by
      rw [List.any_eq_false]
      intro e he
      simpa using hfresh kv (by simp) e he
    simp only [h1, Bool.false_eq_true, if_false]
    have hnd' := List.nodup_cons.mp hnd
    have := ih (acc ++ [kv]) (by
      intro kv' hkv' e he
      rcases List.mem_append.mp he with he | he
      · exact hfresh kv' (List.mem_cons_of_mem _ hkv') e he
      · simp at he; subst he
        intro heq
        exact hnd'.1 (by simpa [heq] using List.mem_map_of_mem (f := (·.1)) hkv')) hnd'.2
    simpa [dictUnion, List.append_assoc] using this

/-- **Names and order.** If all flattened names are distinct, the built interface is the documented
one: requests in order, each flattened in field order. -/
theorem interface_names_order : ∀ (reqs : List (String × DTree)),
    ((Spec.interface reqs).map (·.1)).Nodup → collectAll reqs = Spec.interface reqs := by
  intro reqs hnd
  suffices h : ∀ (acc : List (String × Core)) (rs : List (String × DTree)),
      ((acc ++ Spec.interface rs).map (·.1)).Nodup →
      rs.foldl (fun a r => dictUnion a (r.2.flatten r.1)) acc = acc ++ Spec.interface rs by
    simpa [collectAll] using h [] reqs (by simpa using hnd)
  intro acc rs
  induction rs generalizing acc with
  | nil => intro _; simp [Spec.interface]
  | cons r rest ih =>
    intro hnd
    simp only [List.foldl_cons, Spec.interface, List.flatMap_cons] at hnd ⊢
    have hsplit : ((acc ++ r.2.flatten r.1) ++ List.flatMap (fun r => r.2.flatten r.1) rest).map (·.1) =
        (acc ++ (r.2.flatten r.1 ++ List.flatMap (fun r => r.2.flatten r.1) rest)).map (·.1) := by
      simp [List.append_assoc]
    have hnd1 : ((acc ++ r.2.flatten r.1).map (·.1)).Nodup := by
      rw [← hsplit] at hnd
      rw [List.map_append] at hnd
      exact (List.nodup_append.mp hnd).1
    have hu : dictUnion acc (r.2.flatten r.1) = acc ++ r.2.flatten r.1 := by
      apply dictUnion_fresh
      · intro kv hkv e he heq
        rw [List.map_append] at hnd1
        have := (List.nodup_append.mp hnd1).2.2 e.1 (List.mem_map_of_mem (f := (·.1)) he) kv.1 (List.mem_map_of_mem (f := (·.1)) hkv)
        exact this heq
      · rw [List.map_append] at hnd1
        exact (List.nodup_append.mp hnd1).2.1
    rw [hu, ih (acc ++ r.2.flatten r.1) (by simpa only [Spec.interface, hsplit] using hnd)]
    simp [Spec.interface, List.append_assoc]

/-- The guard is necessary: a request whose name equals another request's flattened field name is
merged away by the dict union (one tensor instead of two). -/
theorem name_clash_witness :
    collectAll [("a", DTree.ofDt ⟨.int64, true⟩), ("a_null", .core .bool)] ≠
      Spec.interface [("a", DTree.ofDt ⟨.int64, true⟩), ("a_null", .core .bool)] := by decide

example : collectAll [("x", DTree.ofDt ⟨.float32, true⟩), ("y", .core .utf8)] =
    [("x_values", .float32), ("x_null", .bool), ("y", .utf8)] := by decide

end Ndx.C05
