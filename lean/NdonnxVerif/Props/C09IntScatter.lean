import NdonnxVerif.Props.C09MaskScatter
/-!
# C09 — `x[int array] = scalar` at graph level

`setitemIntGraph` is the term `tg_render setitem_int` prints and the check compares with the exported graph (tie B).
-/
namespace Ndx.TGraph
open Ndx Ndx.Spec Ndx.C08

/-- Row a (possibly negative) index entry addresses on an axis of extent `n`. -/
def rowOf (n : Nat) (i : Int) : Nat := (if i < 0 then i + Int.ofNat n else i).toNat

/-- **C09, `x[int array] = scalar`, exported graph.**  The result has `x`'s shape; every element whose leading coordinate is
addressed by some entry of the index array (negative entries count from the end) holds the update, every other element is
`x`'s own — for every rank ≥ 1, every shape of the index array and all in-range entries. -/
theorem setitemIntGraph_scalar (env : List (Tensor Int)) (x idx upd : TG) (rank code : Nat)
    (hr : (x.eval env).rank = rank) (hpos : 0 < rank)
    (hin : ∀ o, InRange (idx.eval env).shape o →
      -(Int.ofNat ((x.eval env).shape.headD 0)) ≤ (idx.eval env).get o ∧ (idx.eval env).get o < Int.ofNat ((x.eval env).shape.headD 0))
    (hn64 : Int.ofNat ((x.eval env).shape.headD 0) ≤ (2 : Int) ^ 63)
    (hu : (upd.eval env).shape = []) :
    ((setitemIntGraph x idx upd rank code).eval env).shape = (x.eval env).shape ∧
    ∀ p, InRange (x.eval env).shape p →
      ((setitemIntGraph x idx upd rank code).eval env).get p
        = bif (allIdx (idx.eval env).shape).any (fun o => rowOf ((x.eval env).shape.headD 0) ((idx.eval env).get o) == p.headD 0)
          then (upd.eval env).get [] else (x.eval env).get p := by
  obtain ⟨hGs, hGg⟩ := ndindexGraph_eval env x rank hr hpos
  generalize hT : x.eval env = T at *
  generalize hM : idx.eval env = M at *
  generalize hU : upd.eval env = U at *
  obtain ⟨n, B, hS⟩ : ∃ n B, T.shape = n :: B := by
    cases h : T.shape with
    | nil => simp [Tensor.rank, h] at hr; omega
    | cons a l => exact ⟨a, l, rfl⟩
  have hrank : B.length + 1 = rank := by
    have : T.shape.length = rank := hr
    rw [hS] at this; simpa using this
  rw [hS] at hGs hGg hin hn64
  simp only [List.headD_cons] at hin hn64
  -- the gathered grid
  have hint := intIndexGraph_correct env (ndindexGraph x rank) idx code
    (by simp only [Tensor.rank, hGs]; simp)
    (by
      rw [hM]; intro ix hix
      have := hin ix hix
      constructor <;> omega)
  rw [hM] at hint
  obtain ⟨hIs, hIg⟩ := hint
  simp only [Spec.intSelect, hGs] at hIs hIg
  have htail : (n :: B ++ [rank]).tail = B ++ [rank] := rfl
  have hhead : (n :: B ++ [rank]).headD 0 = n := rfl
  rw [htail] at hIs
  simp only [hhead] at hIg
  simp only [setitemIntGraph, scatterWith, TG.eval, eval_ivec_toFlat]
  generalize hI : (intIndexGraph (ndindexGraph x rank) idx code).eval env = I at hIs hIg ⊢
  have hIs' : I.shape = (M.shape ++ B) ++ [rank] := by rw [hIs, List.append_assoc]
  -- index-path shape and the expanded update
  have hsl : (sliceOp (shapeOp I) [0] [-1] (List.map Int.ofNat (List.range ([0] : List Int).length)) (List.map (fun _ => (1 : Int)) ([0] : List Int))).toFlat
      = (M.shape ++ B).map Int.ofNat := by
    have e1 : List.map Int.ofNat (List.range ([0] : List Int).length) = [0] := rfl
    have e2 : List.map (fun _ => (1 : Int)) ([0] : List Int) = [1] := rfl
    have e3 : shapeOp I = vec (((M.shape ++ B) ++ [rank]).map Int.ofNat) := by simp only [shapeOp, hIs']
    rw [e1, e2, e3, slice3_dropLast _ (by simp)]
    have : (((M.shape ++ B) ++ [rank]).map Int.ofNat) = ((M.shape ++ B).map Int.ofNat) ++ [Int.ofNat rank] := by simp
    rw [this, List.dropLast_concat]
  rw [hsl, hT, hU]
  have hbq : bshape U.shape (M.shape ++ B) = some (M.shape ++ B) := by
    rw [hu]; simp [bshape, bshapeRev]
  have hVg : ∀ o, (expandOp U ((M.shape ++ B).map Int.ofNat)).get o = U.get [] := by
    intro o; simp only [expandOp, map_toNat_ofNat, hbq, Option.getD_some, bcastTo, bcastIndex, hu]; simp
  generalize expandOp U ((M.shape ++ B).map Int.ofNat) = V at hVg
  refine ⟨rfl, ?_⟩
  intro p hp
  have hp' : InRange (n :: B) p := by simpa [scatterNDOp, hS] using hp
  have hpl : p.length = rank := by rw [C11.inRange_length _ _ hp']; simpa using hrank
  have hlast : I.shape.getLastD 0 = rank := by
    rw [hIs', List.getLastD_eq_getLast?, List.getLast?_concat]; rfl
  have hdl : I.shape.dropLast = M.shape ++ B := by rw [hIs', List.dropLast_concat]
  have htake : p.take rank = p := by rw [← hpl]; simp
  have hdrop : p.drop rank = [] := by rw [← hpl]; simp
  simp only [scatterNDOp, hlast, hdl, htake, hdrop, List.append_nil, hVg]
  -- the path written by the update at o = oi ++ t is rowOf(idx[oi]) :: t
  have hpath : ∀ oi t, InRange M.shape oi → InRange B t →
      scatterPath T.shape I (oi ++ t) = rowOf n (M.get oi) :: t := by
    intro oi t hoi ht
    have hrow : rowOf n (M.get oi) < n := by
      have := hin oi hoi
      simp only [rowOf, Int.ofNat_eq_natCast] at this ⊢
      split <;> omega
    have hinr : InRange (n :: B) (rowOf n (M.get oi) :: t) := ⟨hrow, ht⟩
    apply scatterPath_of_grid _ _ _ _ rank hlast
    · simp only [List.length_cons]; rw [C11.inRange_length _ _ ht]; exact hrank
    · intro j hj
      have hir : InRange I.shape ((oi ++ t) ++ [j]) := by
        rw [hIs']
        exact inRange_snoc _ _ rank j (inRange_append _ _ _ _ hoi ht) hj
      rw [hIg _ hir]
      have htk : ((oi ++ t) ++ [j]).take M.rank = oi := by
        have : M.rank = oi.length := (C11.inRange_length _ _ hoi).symm
        rw [this, List.append_assoc]; simp
      have hdk : ((oi ++ t) ++ [j]).drop M.rank = t ++ [j] := by
        have : M.rank = oi.length := (C11.inRange_length _ _ hoi).symm
        rw [this, List.append_assoc]; simp
      rw [htk, hdk]
      have := hGg _ hinr j hj
      simpa [rowOf] using this
  obtain ⟨p0, pt, hpeq⟩ : ∃ p0 pt, p = p0 :: pt := by
    match p, hp' with
    | a :: l, _ => exact ⟨a, l, rfl⟩
  subst hpeq
  have hpt : InRange B pt := hp'.2
  have hh : T.shape.headD 0 = n := by rw [hS]; rfl
  simp only [List.headD_cons, hh]
  cases hC : (allIdx M.shape).any (fun o => rowOf n (M.get o) == p0) with
  | true =>
    simp only [cond_true]
    obtain ⟨oi, hoim, hoe⟩ := List.any_eq_true.mp hC
    have hoi := mem_allIdx_inRange _ _ hoim
    cases hf : List.find? (fun o => scatterPath T.shape I o == p0 :: pt) (allIdx (M.shape ++ B)).reverse with
    | some o => rfl
    | none =>
      exfalso
      have hnone := List.find?_eq_none.mp hf (oi ++ pt) (by
        rw [List.mem_reverse]
        exact inRange_mem_allIdx _ _ (inRange_append _ _ _ _ hoi hpt))
      rw [hpath oi pt hoi hpt] at hnone
      have : rowOf n (M.get oi) = p0 := by simpa using hoe
      rw [this] at hnone
      simp at hnone
  | false =>
    simp only [cond_false]
    have hf : List.find? (fun o => scatterPath T.shape I o == p0 :: pt) (allIdx (M.shape ++ B)).reverse = none := by
      rw [List.find?_eq_none]
      intro o ho
      have hoR := mem_allIdx_inRange _ _ (List.mem_reverse.mp ho)
      have h1 := inRange_take _ _ o hoR
      have h2 := inRange_drop _ _ o hoR
      have hsplit : o = o.take M.shape.length ++ o.drop M.shape.length := (List.take_append_drop _ o).symm
      rw [hsplit, hpath _ _ h1 h2]
      intro heq
      have hC' : ¬ ((allIdx M.shape).any (fun o => rowOf n (M.get o) == p0) = true) := by simp [hC]
      apply hC'
      rw [List.any_eq_true]
      refine ⟨o.take M.shape.length, inRange_mem_allIdx _ _ h1, ?_⟩
      have : rowOf n (M.get (o.take M.shape.length)) :: o.drop M.shape.length = p0 :: pt := by simpa using heq
      simpa using (List.cons.inj this).1
    rw [hf]

example : ((setitemIntGraph (.inp 0) (.inp 1) (.inp 2) 2 5).eval
    [constT [3, 2] [0, 1, 2, 3, 4, 5], constT [2] [-1, 0], constT [] [9]]).toFlat = [9, 9, 2, 3, 9, 9] := by decide

end Ndx.TGraph
