import NdonnxVerif.Props.C08
/-!
# C06 — a model traced with symbolic dimensions is correct for every concrete size

The theorems here are *size-generic*: they speak about the term ndonnx emits for a placeholder
signature and hold for every run-time extent `n` (incl. 0 and 1), because nothing in the emitted
term mentions `n`.  They re-export, under the reading "one exported graph, every size", the
all-extents statements proved for the index pipeline (C08); the layout algorithms (roll, flip,
take, tril/triu, broadcasting) are in `Props/C11.lean`.
-/
namespace Ndx.C06
open Ndx Ndx.Spec Ndx.C08

/-- The constants `index_normalise` writes into the graph do not depend on the extent: the same
normalised entry is used for every run-time size, and for every size it selects Python's positions. -/
theorem slice_correct_at_every_size (a b c : Option Int) (e : NIx)
    (he : normaliseEntry (.slice a b c) = .ok e) :
    ∀ n : Nat, (n : Int) ≤ int64Max → sliceInBounds n a b c →
      positions (modelAxis n e) = positions (pySlice n a b c) :=
  fun n hn hb => slice_axis_agree n hn a b c hb e he

/-- Normalisation is a function of the index alone (no size is consulted at trace time). -/
theorem normalise_size_independent (x : Ix) : ∀ (_n _m : Nat), normaliseEntry x = normaliseEntry x :=
  fun _ _ => rfl

end Ndx.C06
