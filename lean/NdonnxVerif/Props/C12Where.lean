import NdonnxVerif.Props.C10GraphSum
import NdonnxVerif.Model.TGraphScatter
/-!
# C12 — `where` at graph level: three-way broadcasting and the dtype routes of the exported term

`whereGraph` is the term `tg_render where` prints and the check compares with the exported graph (tie B).  The boolean
form (`xor(and(c, x), and(not c, y))`) is covered by ties B and D only.
-/
namespace Ndx.TGraph
open Ndx Ndx.Spec Ndx.C02

/-- NumPy's `where(c, a, b)` on 0/1 conditions with three-way broadcasting: the common shape, and per position the
element of `a` or `b` that the (broadcast) condition selects. -/
def where3 (c a b : Tensor Int) : Tensor Int :=
  let out := ((bshape a.shape b.shape).bind (bshape c.shape)).getD a.shape
  ⟨out, fun ix => if c.get (bcastIndex c.shape out ix) ≠ 0 then a.get (bcastIndex a.shape out ix)
                  else b.get (bcastIndex b.shape out ix)⟩

/-- A cast to a wider (or equally wide) integer type and back is the identity on the values of the narrow type. -/
theorem cast_roundtrip (t r : Nat) (T R : IType) (hT : typeOfCode t = some T) (hR : typeOfCode r = some R)
    (hle : T.bits ≤ R.bits) (v : Int) (hv : T.wrap v = v) : castElem t (castElem r v) = v := by
  obtain ⟨hcT, _⟩ := castElem_of_code t T hT
  obtain ⟨hcR, _⟩ := castElem_of_code r R hR
  rw [hcT, hcR]
  conv => rhs; rw [← hv]
  apply wrap_congr_of_wrapU
  rw [← wrapU_wrapU T.bits R.bits hle, wrapU_twrap, wrapU_wrapU T.bits R.bits hle]

set_option linter.overlappingInstances false in
theorem ite_map {β : Type} (p : Prop) [d1 : Decidable p] [d2 : Decidable p] (f : β → β) (u v u' v' : β)
    (hu : f u = u') (hv : f v = v') : f (@ite _ p d1 u v) = @ite _ p d2 u' v' := by
  by_cases h : p <;> simp [h, hu, hv]

/-- **C12, `where`, exported graph (integer operands).**  For a boolean condition and two operands of one integer dtype
whose data lie in that dtype's value range, the exported term (one `Where`; through int32 for int8 / int16 and through
int64 for uint16 / uint32 / uint64, for which onnxruntime has no `Where` kernel) has the three-way broadcast shape and
selects element-wise — NumPy's `where(c, a, b)` — for all shapes that broadcast together. -/
theorem where_graph_correct (env : List (Tensor Int)) (c x y : TG) (code : Nat) (T : IType)
    (hT : typeOfCode code = some T)
    (hx : ∀ ix, T.wrap ((x.eval env).get ix) = (x.eval env).get ix)
    (hy : ∀ ix, T.wrap ((y.eval env).get ix) = (y.eval env).get ix) :
    ((whereGraph c x y code).eval env).shape = (where3 (c.eval env) (x.eval env) (y.eval env)).shape ∧
    ∀ ix, ((whereGraph c x y code).eval env).get ix = (where3 (c.eval env) (x.eval env) (y.eval env)).get ix := by
  have h9 : code ≠ 9 := by intro h; subst h; simp [typeOfCode] at hT
  unfold whereGraph
  simp only [h9, if_false]
  by_cases h32 : code = 3 ∨ code = 5
  · simp only [h32, if_true]
    have hle : T.bits ≤ 32 := by
      rcases h32 with h | h <;> subst h <;> simp [typeOfCode] at hT <;> subst hT <;> decide
    refine ⟨by simp [TG.eval, Tensor.map, bcast3, where3], fun ix => ?_⟩
    simp only [TG.eval, Tensor.map, bcast3, where3]
    exact ite_map _ _ _ _ _ _ (cast_roundtrip code 6 T ⟨32, true⟩ hT rfl hle _ (hx _))
      (cast_roundtrip code 6 T ⟨32, true⟩ hT rfl hle _ (hy _))
  · simp only [h32, if_false]
    by_cases h64 : code = 4 ∨ code = 12 ∨ code = 13
    · simp only [h64, if_true]
      have hle : T.bits ≤ 64 := (castElem_of_code code T hT).2
      refine ⟨by simp [TG.eval, Tensor.map, bcast3, where3], fun ix => ?_⟩
      simp only [TG.eval, Tensor.map, bcast3, where3]
      exact ite_map _ _ _ _ _ _ (cast_roundtrip code 7 T ⟨64, true⟩ hT rfl hle _ (hx _))
        (cast_roundtrip code 7 T ⟨64, true⟩ hT rfl hle _ (hy _))
    · simp only [h64, if_false]
      exact ⟨rfl, fun _ => rfl⟩

example : ((whereGraph (.inp 0) (.inp 1) (.inp 2) 13).eval
    [constT [2, 1] [1, 0], constT [3] [1, 2, 18446744073709551615], constT [] [7]]).toFlat = [1, 2, 18446744073709551615, 7, 7, 7] := by decide

end Ndx.TGraph
