import NdonnxVerif.Model.Index
/-!
# C15 — static metadata never contradicts run time

ndonnx overrides ONNX shape inference in a few places with hand-written annotations
(`unsafe_reshape` in `getitem`, `getitem_null`, `reshape_like`).  The theorems below prove, on the
model of the emitted operators, that these annotations are *valid for every input*: the annotated rank
is the run-time rank.  (All other static metadata comes from ONNX shape inference, which is spox/onnx
code outside the model; the check compares it with run-time results.)
-/
namespace Ndx.C15
open Ndx

/-- `Slice` never changes the rank (annotation in `opx.getitem`: "all extents unknown, same rank"). -/
theorem slice_preserves_rank (t : Tensor α) (specs : List (Nat × Int × Int × Int)) :
    (onnxSlice t specs).rank = t.rank := by
  simp [onnxSlice, Tensor.rank]

/-- A scalar `Gather` on an existing axis removes exactly that axis. -/
theorem gather_scalar_rank (t : Tensor α) (i : Int) (axis : Nat) (h : axis < t.rank) :
    (onnxGatherScalar t i axis).rank + 1 = t.rank := by
  simp only [onnxGatherScalar, Tensor.rank] at *
  rw [List.length_eraseIdx]
  simp [h]; omega

/-- Boolean-mask selection: annotation of `getitem_null` — the result has rank
`rank x − rank mask + 1`, for every mask of rank ≤ `rank x` and every shape. -/
theorem mask_select_rank (t : Tensor α) (mask : Tensor Bool) (r : Tensor α)
    (h : getitemMask t mask = .ok r) : r.rank + mask.rank = t.rank + 1 := by
  unfold getitemMask at h
  simp only [] at h
  split at h
  · cases h
  · rename_i hk
    split at h
    · rename_i h0
      injection h with h; subst h
      simp only [onnxCompress0, onnxReshape, Tensor.rank, List.length_cons, List.tail_cons] at *
      omega
    · split at h
      · rename_i h0 h1
        injection h with h; subst h
        simp only [onnxCompress0, Tensor.rank, List.length_cons, List.length_tail] at *
        omega
      · rename_i h0 h1
        injection h with h; subst h
        simp only [onnxCompress0, onnxReshape, Tensor.rank, List.length_cons, List.tail_cons,
          List.length_drop] at *
        omega

/-- A mask of higher rank than the array is rejected at build time (IndexError), never mis-annotated. -/
theorem mask_rank_too_large (t : Tensor α) (mask : Tensor Bool) (h : t.rank < mask.rank) :
    getitemMask t mask = .error .indexError := by
  simp [getitemMask, h]

/-- Integer-array indexing: result rank = index rank + rank x − 1 (Gather on axis 0). -/
theorem int_select_rank (t : Tensor α) (index : Tensor Int) (h : 1 ≤ t.rank) :
    (getitemInt t index).rank + 1 = index.rank + t.rank := by
  simp only [getitemInt, Tensor.rank, List.length_append, List.length_tail] at *
  omega

/-- `Unsqueeze` at `k` distinct in-range positions adds `k` axes. -/
theorem insertAt_length (xs : List α) (v : α) : ∀ (axes : List Nat), (insertAt xs v axes).length = xs.length + axes.length := by
  intro axes
  unfold insertAt
  induction axes generalizing xs with
  | nil => simp
  | cons a as ih =>
    simp only [List.foldl_cons, List.length_cons]
    rw [ih]
    simp only [List.length_append, List.length_take, List.length_cons, List.length_drop]
    omega

theorem unsqueeze_rank (t : Tensor α) (axes : List Nat) :
    (onnxUnsqueeze t axes).rank = t.rank + axes.length := by
  simp [onnxUnsqueeze, Tensor.rank, insertAt_length]

example : (getitemMask (tokens [2, 3, 4]) (ofFlat [2, 3] #[true, false, true, true, false, false])).toOption.map (·.shape)
    = some [3, 4] := by decide

end Ndx.C15
