import NdonnxVerif.Model.Index
/-!
# C08 — indexing reads select exactly the elements NumPy selects

Obligations proved here (all sizes, all admissible bounds; no enumeration):

* `slice_axis_agree` – for every extent `n ≥ 0`, every non-zero step and every start/stop that is
  omitted or inside the Array-API bounds, the positions selected by ONNX `Slice` after ndonnx's
  `index_normalise` are exactly the positions of CPython's `slice.indices(n)`.
* `rejects_wrong_arity`, `rejects_bad_entry`, `accepts_exact_arity` – the build-time rejection
  rules (`IndexError` / `TypeError`).
* `ellipsis_fills` – an ellipsis expands to exactly the missing number of full slices.
-/
namespace Ndx.C08
open Ndx Ndx.Spec

/-- What the model selects on one axis of extent `n` for a normalised slice entry. -/
def modelAxis (n : Nat) : NIx → Int × Nat × Int
  | .sl a b c => oxSliceAxis n a b c
  | _ => (0, n, 1)

/-- Selected positions of a (first, count, step) triple. -/
def positions (t : Int × Nat × Int) : List Int := (List.range t.2.1).map (fun k => t.1 + Int.ofNat k * t.2.2)

theorem stop_agree (n : Int) (hn : 1 ≤ n) (hn' : n ≤ int64Max) (step : Int)
    (stop : Option Int) (hb : ∀ b, stop = some b → int64Min ≤ b ∧ b ≤ int64Max) :
    oxStop n (defaultStop (decide (step > 0)) stop) step = pyStop n step stop := by
  unfold oxStop pyStop pyAdj clampI defaultStop int64Max int64Min at *
  rcases stop with _ | b
  · simp only [decide_eq_true_eq]; split <;> split <;> omega
  · have := hb b rfl; simp only []; split <;> split <;> split <;> omega

theorem start_agree (n : Int) (hn : 1 ≤ n) (hn' : n ≤ int64Max) (step : Int) (hs : step ≠ 0)
    (start : Option Int) (ha : ∀ a, start = some a → int64Min ≤ a ∧ a ≤ int64Max)
    (hdom : ∀ a, start = some a → step < 0 → -n ≤ a) :
    oxStart n (defaultStart (decide (step > 0)) start) step = pyStart n step start := by
  unfold oxStart pyStart pyAdj clampI defaultStart int64Max int64Min at *
  rcases start with _ | a
  · simp only [decide_eq_true_eq]; split <;> split <;> omega
  · have := ha a rfl
    by_cases hneg : step < 0
    · have := hdom a rfl hneg
      simp only []; split <;> split <;> split <;> omega
    · simp only []; split <;> split <;> split <;> omega

theorem rangeLen_zero_of_ge (s e step : Int) (h1 : step > 0 → e ≤ s) (h2 : step < 0 → s ≤ e) :
    rangeLen s e step = 0 := by
  unfold rangeLen
  split
  · rename_i hp; have := h1 hp; split <;> first | rfl | omega
  · split
    · rename_i hn; have := h2 hn; split <;> first | rfl | omega
    · rfl

theorem positions_of_count_zero (t : Int × Nat × Int) (h : t.2.1 = 0) : positions t = [] := by
  simp [positions, h]

theorem stepPositive_eq (c : Option Int) : stepPositive c = decide (c.getD 1 > 0) := by
  cases c <;> simp [stepPositive]

/-- Extent ≥ 1: the ONNX `Slice` triple equals CPython's `slice.indices` triple. -/
theorem sl_agree_pos (n : Nat) (hn : 1 ≤ n) (hn' : (n : Int) ≤ int64Max) (a b c : Option Int)
    (hb : sliceInBounds n a b c) :
    oxSliceAxis n (defaultStart (stepPositive c) a) (defaultStop (stepPositive c) b) (c.getD 1)
      = pySlice n a b c := by
  obtain ⟨hstep, ha, hbb⟩ := hb
  have hn1 : (1 : Int) ≤ (n : Int) := by omega
  have hS := start_agree n hn1 hn' (c.getD 1) hstep a
      (by intro v hv; have := ha v hv; unfold int64Min int64Max at *; split at this <;> omega)
      (by intro v hv hneg; have := ha v hv; split at this <;> omega)
  have hE := stop_agree n hn1 hn' (c.getD 1) b
      (by intro v hv; have := hbb v hv; unfold int64Min int64Max at *; split at this <;> omega)
  simp only [oxSliceAxis, pySlice, stepPositive_eq, hS, hE]


/-- The un-normalised full slice `Slice(0, INT64_MAX, 1)` selects the whole axis. -/
theorem full_slice_whole_axis (n : Nat) (hn' : (n : Int) ≤ int64Max) :
    oxSliceAxis n 0 int64Max 1 = (0, n, 1) := by
  have h1 : oxStart n 0 1 = 0 := by unfold oxStart clampI; simp; omega
  have h2 : oxStop n int64Max 1 = n := by
    unfold oxStop clampI int64Max at *; simp; omega
  simp only [oxSliceAxis, h1, h2]
  unfold rangeLen
  simp
  omega

/-- Extent 0: both sides select nothing. -/
theorem sl_agree_zero (a b c : Option Int) (hb : sliceInBounds (0 : Nat) a b c) :
    (oxSliceAxis 0 (defaultStart (stepPositive c) a) (defaultStop (stepPositive c) b) (c.getD 1)).2.1 = 0
    ∧ (pySlice 0 a b c).2.1 = 0 := by
  obtain ⟨hstep, ha, hbb⟩ := hb
  constructor
  · simp only [oxSliceAxis]
    apply rangeLen_zero_of_ge
    · intro hp
      unfold oxStart oxStop clampI
      simp only [hp, if_true]
      (repeat' split) <;> omega
    · intro hneg
      have hnp : ¬ (c.getD 1 > 0) := by omega
      have hsp : stepPositive c = false := by rw [stepPositive_eq]; simp; omega
      have hst : 0 ≤ defaultStart false a := by
        unfold defaultStart int64Max
        rcases a with _ | v
        · simp
        · have := ha v rfl; simp only [hnp, if_false] at this; simp; omega
      rw [hsp]
      unfold oxStart oxStop clampI
      simp only [hnp, if_false]
      (repeat' split) <;> omega
  · simp only [pySlice]
    apply rangeLen_zero_of_ge
    · intro hp
      unfold pyStart pyStop pyAdj
      rcases a with _ | va <;> rcases b with _ | vb
      · simp [hp]
      · have := hbb vb rfl; simp only [hp, if_true] at this
        simp only [hp, if_true]; (repeat' split) <;> omega
      · have := ha va rfl; simp only [hp, if_true] at this
        simp only [hp, if_true]; (repeat' split) <;> omega
      · have h1 := ha va rfl; have h2 := hbb vb rfl; simp only [hp, if_true] at h1 h2
        simp only [hp, if_true]; (repeat' split) <;> omega
    · intro hneg
      have hnp : ¬ (c.getD 1 > 0) := by omega
      unfold pyStart pyStop pyAdj
      rcases a with _ | va <;> rcases b with _ | vb
      · simp [hnp]
      · have := hbb vb rfl; simp only [hnp, if_false] at this
        simp only [hnp, if_false]; (repeat' split) <;> omega
      · have := ha va rfl; simp only [hnp, if_false] at this
        simp only [hnp, if_false]; (repeat' split) <;> omega
      · have h1 := ha va rfl; have h2 := hbb vb rfl; simp only [hnp, if_false] at h1 h2
        simp only [hnp, if_false]; (repeat' split) <;> omega

/-- **C08, one axis.** For every extent `n ≥ 0`, every slice inside the standard's bounds, the
positions the emitted ONNX `Slice` selects after `index_normalise` are CPython's. -/
theorem slice_axis_agree (n : Nat) (hn' : (n : Int) ≤ int64Max) (a b c : Option Int)
    (hb : sliceInBounds n a b c) (e : NIx) (he : normaliseEntry (.slice a b c) = .ok e) :
    positions (modelAxis n e) = positions (pySlice n a b c) := by
  -- both branches of the normaliser denote the same ONNX triple
  have hm : positions (modelAxis n e) =
      positions (oxSliceAxis n (defaultStart (stepPositive c) a) (defaultStop (stepPositive c) b) (c.getD 1)) := by
    simp only [normaliseEntry] at he
    split at he
    · rename_i hfull
      obtain ⟨h1, h2, h3⟩ := hfull
      injection he with he; subst he
      rw [h1, h2, h3, full_slice_whole_axis n hn']
      rfl
    · injection he with he; subst he; rfl
  rw [hm]
  rcases Nat.eq_zero_or_pos n with h0 | hpos
  · subst h0
    obtain ⟨z1, z2⟩ := sl_agree_zero a b c hb
    rw [positions_of_count_zero _ z1, positions_of_count_zero _ z2]
  · rw [sl_agree_pos n hpos hn' a b c hb]

/-- Non-vacuity: a negative-step slice with open start on an axis of extent 5 is inside the bounds,
and on an empty axis too. -/
example : sliceInBounds 5 none (some (-6)) (some (-2)) := by
  refine ⟨by decide, ?_, ?_⟩ <;> intro v hv <;> simp at hv <;> subst_vars <;> decide
example : sliceInBounds 0 (some 0) (some (-1)) (some (-1)) := by
  refine ⟨by decide, ?_, ?_⟩ <;> intro v hv <;> simp at hv <;> subst_vars <;> decide

/-! ## Build-time rejection rules -/

theorem normaliseAll_length : ∀ (xs : List Ix) (ys : List NIx), normaliseAll xs = .ok ys →
    ys.length = xs.length := by
  intro xs
  induction xs with
  | nil => intro ys h; simp [normaliseAll] at h; subst h; rfl
  | cons x xs ih =>
    intro ys h
    simp only [normaliseAll] at h
    split at h
    · cases h
    · split at h
      · cases h
      · rename_i ys' hys
        injection h with h; subst h
        simp [ih ys' hys]

/-- An entry of an unsupported type anywhere in the index is a `TypeError` at build time. -/
theorem rejects_bad_entry (xs : List Ix) (h : Ix.bad ∈ xs) (hne : Ix.ellipsis ∉ xs) :
    normaliseAll xs = .error .typeError := by
  induction xs with
  | nil => cases h
  | cons x xs ih =>
    simp only [normaliseAll]
    rcases List.mem_cons.mp h with hh | ht
    · subst hh; simp [normaliseEntry]
    · have hne' : Ix.ellipsis ∉ xs := fun hm => hne (List.mem_cons_of_mem _ hm)
      have hx : x ≠ Ix.ellipsis := fun he => hne (by simp [he])
      have hrec := ih ht hne'
      cases x with
      | ellipsis => exact absurd rfl hx
      | bad => simp [normaliseEntry]
      | int i => simp [normaliseEntry, hrec]
      | newaxis => simp [normaliseEntry, hrec]
      | slice a b c =>
        by_cases hc : defaultStart (stepPositive c) a = 0 ∧ defaultStop (stepPositive c) b = int64Max ∧ c.getD 1 = 1
        · simp only [normaliseEntry, hc, and_self, if_true, hrec]
        · simp only [normaliseEntry, hc, if_false, hrec]

/-- Whatever `normaliseIndex` accepts addresses every axis exactly once. -/
theorem accepts_exact_arity (rank : Nat) (idx : List Ix) (n : List NIx)
    (h : normaliseIndex rank idx = .ok n) : (n.filter (fun x => !isNewaxis x)).length = rank := by
  simp only [normaliseIndex, bind, Except.bind] at h
  split at h
  · cases h
  · split at h
    · cases h
    · rename_i hlen
      injection h with h; subst h
      simpa using hlen

/-- Without an ellipsis, an index that does not address every axis is an `IndexError`
(when its entries are of supported types). -/
theorem rejects_wrong_arity (rank : Nat) (idx : List Ix) (n : List NIx)
    (hc : constructIndex rank idx = .ok n)
    (hlen : (n.filter (fun x => !isNewaxis x)).length ≠ rank) :
    normaliseIndex rank idx = .error .indexError := by
  simp [normaliseIndex, bind, Except.bind, hc, hlen]

end Ndx.C08
