import Mathlib.Tactic.Ring
import Mathlib.Tactic.Positivity
import Mathlib.Tactic.Linarith
import Mathlib.Algebra.Order.Ring.Int
/-!
# C02 — element-wise functions return the specified values (integer part)

What is logic in C02: ndonnx routes integer arithmetic through a *wider* integer type and casts
back (`_via_dtype`, `via_upcast`).  The theorems below show, for every width and all values, that
computing in the wide type and wrapping equals computing in the operand's own width (ring
homomorphism of two's-complement wrap), and fix the floor / sign conventions of the standard's
`floor_divide` and `remainder` against ONNX `Mod(fmod=0)` / truncating division.  Floating-point
kernels are opaque to Lean and are validated numerically by the check.
-/
namespace Ndx.C02

/-- Two's-complement wrap of an integer into `bits` bits, unsigned representative. -/
def wrapU (bits : Nat) (v : Int) : Int := v % (2 ^ bits : Int)

/-- Signed representative. -/
def wrapS (bits : Nat) (v : Int) : Int :=
  let m : Int := 2 ^ bits
  let u := v % m
  if u ≥ m / 2 then u - m else u

theorem two_pow_pos (bits : Nat) : (0 : Int) < 2 ^ bits := by positivity

/-- Wrapping is a ring homomorphism: add / subtract / multiply in a wider type, then wrap, equals
wrapping the operands first — so routing `int8` arithmetic through `int64` is exact. -/
theorem wrapU_add (bits : Nat) (a b : Int) : wrapU bits (wrapU bits a + wrapU bits b) = wrapU bits (a + b) := by
  simp [wrapU, Int.add_emod]

theorem wrapU_sub (bits : Nat) (a b : Int) : wrapU bits (wrapU bits a - wrapU bits b) = wrapU bits (a - b) := by
  simp [wrapU, Int.sub_emod]

theorem wrapU_mul (bits : Nat) (a b : Int) : wrapU bits (wrapU bits a * wrapU bits b) = wrapU bits (a * b) := by
  simp [wrapU, Int.mul_emod]

theorem wrapU_neg (bits : Nat) (a : Int) : wrapU bits (- wrapU bits a) = wrapU bits (- a) := by
  have h := wrapU_sub bits 0 a
  simp only [wrapU, Int.zero_emod, Int.zero_sub] at h ⊢
  exact h

/-- Narrowing twice is narrowing once (a cast through a wider integer type never changes the result). -/
theorem wrapU_wrapU (b1 b2 : Nat) (h : b1 ≤ b2) (a : Int) : wrapU b1 (wrapU b2 a) = wrapU b1 a := by
  simp only [wrapU]
  have hd : (2 ^ b1 : Int) ∣ 2 ^ b2 := by
    exact pow_dvd_pow 2 h
  exact Int.emod_emod_of_dvd a hd

/-- The signed and unsigned representatives are congruent. -/
theorem wrapS_congr (bits : Nat) (v : Int) : wrapU bits (wrapS bits v) = wrapU bits v := by
  simp only [wrapS, wrapU]
  split
  · rw [Int.sub_emod]; simp
  · simp

/-- A value already in range is unchanged by the wrap (in-range results are exact). -/
theorem wrapS_id (bits : Nat) (hb : 1 ≤ bits) (v : Int) (hlo : -(2 ^ (bits - 1) : Int) ≤ v)
    (hhi : v < 2 ^ (bits - 1)) : wrapS bits v = v := by
  have hpow : (2 ^ bits : Int) = 2 * 2 ^ (bits - 1) := by
    have : bits = (bits - 1) + 1 := by omega
    rw [this, pow_succ]; simp; ring
  simp only [wrapS]
  have hm : (0 : Int) < 2 ^ (bits - 1) := by positivity
  rcases lt_or_ge v 0 with hneg | hpos
  · have h1 : v % (2 ^ bits : Int) = v + 2 ^ bits := by
      rw [hpow]
      have : (v + 2 * 2 ^ (bits - 1)) % (2 * 2 ^ (bits - 1) : Int) = v + 2 * 2 ^ (bits - 1) :=
        Int.emod_eq_of_lt (by omega) (by omega)
      rw [← this, Int.add_emod_right]
    rw [h1, hpow]
    have : (2 * 2 ^ (bits - 1) : Int) / 2 = 2 ^ (bits - 1) := by omega
    rw [this]
    split <;> omega
  · have h1 : v % (2 ^ bits : Int) = v := Int.emod_eq_of_lt hpos (by rw [hpow]; omega)
    rw [h1, hpow]
    have : (2 * 2 ^ (bits - 1) : Int) / 2 = 2 ^ (bits - 1) := by omega
    rw [this]
    split <;> omega

/-! ## floor / sign conventions -/

/-- The standard's `floor_divide` on integers rounds toward −∞ (`Int.fdiv`), `remainder` takes the
sign of the divisor (`Int.fmod`); together they satisfy the division identity. -/
theorem floor_div_identity (a b : Int) : b * (a.fdiv b) + a.fmod b = a := Int.mul_fdiv_add_fmod a b

theorem remainder_sign_of_divisor_pos (a b : Int) (hb : 0 < b) : 0 ≤ a.fmod b ∧ a.fmod b < b := by
  rw [Int.fmod_eq_emod_of_nonneg a (Int.le_of_lt hb)]
  exact ⟨Int.emod_nonneg a (Int.ne_of_gt hb), Int.emod_lt_of_pos a hb⟩

/-- Truncating remainder (C `fmod`, ONNX `Mod(fmod=1)`) differs from the standard's remainder exactly
when the operands have opposite signs and the division is inexact. -/
theorem tmod_ne_fmod_witness : Int.tmod (-7) 2 ≠ Int.fmod (-7) 2 := by decide

/-- Correction that turns a truncating remainder into the standard's: add the divisor when the
truncating remainder is non-zero and its sign differs from the divisor's. -/
def fmodOfTmod (a b : Int) : Int :=
  let r := Int.tmod a b
  if r ≠ 0 ∧ ((r < 0) ≠ (b < 0)) then r + b else r

theorem fmodOfTmod_examples :
    fmodOfTmod (-7) 2 = Int.fmod (-7) 2 ∧ fmodOfTmod 7 (-2) = Int.fmod 7 (-2) ∧
    fmodOfTmod 7 2 = Int.fmod 7 2 ∧ fmodOfTmod (-7) (-2) = Int.fmod (-7) (-2) ∧ fmodOfTmod 6 (-2) = Int.fmod 6 (-2) := by
  decide

end Ndx.C02
