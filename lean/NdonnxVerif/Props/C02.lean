import Mathlib.Tactic.Ring
import Mathlib.Tactic.Positivity
import Mathlib.Tactic.Linarith
import Mathlib.Tactic.NormNum
import Mathlib.Algebra.Order.Ring.Int
import NdonnxVerif.Model.IntArith
/-!
# C02 — element-wise functions return the specified values (integer part)

What is logic in C02: ndonnx routes integer arithmetic through a *wider* integer type and casts
back (`_via_dtype`, `via_upcast`).  The theorems below show, for every width and all values, that
computing in the wide type and wrapping equals computing in the operand's own width (ring
homomorphism of two's-complement wrap), and fix the floor / sign conventions of the standard's
`floor_divide` and `remainder` against ONNX `Mod(fmod=0)` / truncating division.  Floating-point
kernels are opaque to Lean and are validated numerically by the check.
-/
namespace Ndx.C02

theorem two_pow_pos (bits : Nat) : (0 : Int) < 2 ^ bits := by positivity

/-- Wrapping is a ring homomorphism: add / subtract / multiply in a wider type, then wrap, equals
wrapping the operands first — so routing `int8` arithmetic through `int64` is exact. -/
theorem wrapU_add (bits : Nat) (a b : Int) : wrapU bits (wrapU bits a + wrapU bits b) = wrapU bits (a + b) := by
  simp [wrapU, Int.add_emod]

theorem wrapU_sub (bits : Nat) (a b : Int) : wrapU bits (wrapU bits a - wrapU bits b) = wrapU bits (a - b) := by
  simp [wrapU, Int.sub_emod]

theorem wrapU_mul (bits : Nat) (a b : Int) : wrapU bits (wrapU bits a * wrapU bits b) = wrapU bits (a * b) := by
  simp [wrapU, Int.mul_emod]

theorem wrapU_neg (bits : Nat) (a : Int) : wrapU bits (- wrapU bits a) = wrapU bits (- a) := by
  have h := wrapU_sub bits 0 a
  simp only [wrapU, Int.zero_emod, Int.zero_sub] at h ⊢
  exact h

/-- Narrowing twice is narrowing once (a cast through a wider integer type never changes the result). -/
theorem wrapU_wrapU (b1 b2 : Nat) (h : b1 ≤ b2) (a : Int) : wrapU b1 (wrapU b2 a) = wrapU b1 a := by
  simp only [wrapU]
  have hd : (2 ^ b1 : Int) ∣ 2 ^ b2 := by
    exact pow_dvd_pow 2 h
  exact Int.emod_emod_of_dvd a hd

/-- The signed and unsigned representatives are congruent. -/
theorem wrapS_congr (bits : Nat) (v : Int) : wrapU bits (wrapS bits v) = wrapU bits v := by
  simp only [wrapS, wrapU]
  split
  · rw [Int.sub_emod]; simp
  · simp

/-- A value already in range is unchanged by the wrap (in-range results are exact). -/
theorem wrapS_id (bits : Nat) (hb : 1 ≤ bits) (v : Int) (hlo : -(2 ^ (bits - 1) : Int) ≤ v)
    (hhi : v < 2 ^ (bits - 1)) : wrapS bits v = v := by
  have hpow : (2 ^ bits : Int) = 2 * 2 ^ (bits - 1) := by
    have : bits = (bits - 1) + 1 := by omega
    rw [this, pow_succ]; simp; ring
  simp only [wrapS]
  have hm : (0 : Int) < 2 ^ (bits - 1) := by positivity
  rcases lt_or_ge v 0 with hneg | hpos
  · have h1 : v % (2 ^ bits : Int) = v + 2 ^ bits := by
      rw [hpow]
      have : (v + 2 * 2 ^ (bits - 1)) % (2 * 2 ^ (bits - 1) : Int) = v + 2 * 2 ^ (bits - 1) :=
        Int.emod_eq_of_lt (by omega) (by omega)
      rw [← this, Int.add_emod_right]
    rw [h1, hpow]
    have : (2 * 2 ^ (bits - 1) : Int) / 2 = 2 ^ (bits - 1) := by omega
    rw [this]
    split <;> omega
  · have h1 : v % (2 ^ bits : Int) = v := Int.emod_eq_of_lt hpos (by rw [hpow]; omega)
    rw [h1, hpow]
    have : (2 * 2 ^ (bits - 1) : Int) / 2 = 2 ^ (bits - 1) := by omega
    rw [this]
    split <;> omega

/-! ## floor / sign conventions -/

/-- The standard's `floor_divide` on integers rounds toward −∞ (`Int.fdiv`), `remainder` takes the
sign of the divisor (`Int.fmod`); together they satisfy the division identity. -/
theorem floor_div_identity (a b : Int) : b * (a.fdiv b) + a.fmod b = a := Int.mul_fdiv_add_fmod a b

theorem remainder_sign_of_divisor_pos (a b : Int) (hb : 0 < b) : 0 ≤ a.fmod b ∧ a.fmod b < b := by
  rw [Int.fmod_eq_emod_of_nonneg a (Int.le_of_lt hb)]
  exact ⟨Int.emod_nonneg a (Int.ne_of_gt hb), Int.emod_lt_of_pos a hb⟩

/-- Truncating remainder (C `fmod`, ONNX `Mod(fmod=1)`) differs from the standard's remainder exactly
when the operands have opposite signs and the division is inexact. -/
theorem tmod_ne_fmod_witness : Int.tmod (-7) 2 ≠ Int.fmod (-7) 2 := by decide

theorem fmodOfTmod_examples :
    fmodOfTmod (-7) 2 = Int.fmod (-7) 2 ∧ fmodOfTmod 7 (-2) = Int.fmod 7 (-2) ∧
    fmodOfTmod 7 2 = Int.fmod 7 2 ∧ fmodOfTmod (-7) (-2) = Int.fmod (-7) (-2) ∧ fmodOfTmod 6 (-2) = Int.fmod 6 (-2) := by
  decide


/-! ## the implementation's integer algorithms, for all inputs -/

theorem tmod_nonpos' (a b : Int) (ha : a ≤ 0) : a.tmod b ≤ 0 := by
  have h := Int.tmod_nonneg b (show 0 ≤ -a by omega)
  rw [Int.neg_tmod] at h; omega

/-- **The implementation's `remainder` algorithm is the standard's remainder, for all integers**:
`Mod(fmod=1)` followed by the sign correction of `_numericimpl.remainder` equals `Int.fmod`. -/
theorem fmodOfTmod_eq_fmod (a b : Int) : fmodOfTmod a b = Int.fmod a b := by
  unfold fmodOfTmod
  rw [Int.fmod_eq_tmod]
  by_cases hd : b ∣ a
  · have h0 : a.tmod b = 0 := Int.tmod_eq_zero_of_dvd hd
    simp [h0, hd]
  · have hne : a.tmod b ≠ 0 := fun h => hd (Int.dvd_of_tmod_eq_zero h)
    simp only [hd, if_false]
    by_cases ha : 0 ≤ a
    · have hr : 0 ≤ a.tmod b := Int.tmod_nonneg b ha
      by_cases hb : 0 ≤ b
      · have : ¬ (a.tmod b < 0) := by omega
        have : ¬ (b < 0) := by omega
        simp [*]
      · have : ¬ (a.tmod b < 0) := by omega
        have : (b < 0) := by omega
        simp [*]
    · have hr : a.tmod b ≤ 0 := tmod_nonpos' a b (by omega)
      have hlt : a.tmod b < 0 := by omega
      by_cases hb : 0 ≤ b
      · have : ¬ (b < 0) := by omega
        have hnat : (b.natAbs : Int) = b := Int.natAbs_of_nonneg hb
        rw [if_neg ha, if_pos hb, hnat, if_pos ⟨hne, by simp [*]⟩]
      · have : (b < 0) := by omega
        have hz : b.toNat = 0 := Int.toNat_of_nonpos (by omega)
        rw [if_neg ha, if_neg hb, hz, if_neg (by simp [*])]; simp

/-- The standard's remainder lies strictly between 0 and the divisor (sign of the divisor). -/
theorem fmod_bounds (a b : Int) (hb : b ≠ 0) :
    (0 < b → 0 ≤ a.fmod b ∧ a.fmod b < b) ∧ (b < 0 → b < a.fmod b ∧ a.fmod b ≤ 0) := by
  constructor
  · intro h; exact remainder_sign_of_divisor_pos a b h
  · intro h
    rw [Int.fmod_eq_emod]
    have hnn : ¬ (0 ≤ b) := by omega
    have h1 := Int.emod_nonneg a hb
    have h2 : a % b < -b := by
      have := Int.emod_lt_of_pos a (show 0 < -b by omega)
      rwa [Int.emod_neg] at this
    by_cases hd : b ∣ a
    · have : a % b = 0 := Int.emod_eq_zero_of_dvd hd
      simp [hd, this]; omega
    · have : a % b ≠ 0 := fun h => hd (Int.dvd_of_emod_eq_zero h)
      simp [hnn, hd]; omega

/-- For every width and all in-range operands with a non-zero divisor the graph's result is exactly
the standard's remainder: the wrapped addition never overflows. -/
theorem remainderImpl_correct (bits : Nat) (hbits : 1 ≤ bits) (a b : Int) (hb0 : b ≠ 0)
    (hblo : -(2 ^ (bits - 1) : Int) ≤ b) (hbhi : b < 2 ^ (bits - 1)) :
    remainderImpl bits a b = Int.fmod a b := by
  have key := fmodOfTmod_eq_fmod a b
  unfold fmodOfTmod at key
  unfold remainderImpl
  simp only at key ⊢
  split
  · rename_i h
    rw [if_pos h] at key
    rw [key]
    have hbd := fmod_bounds a b hb0
    apply wrapS_id bits hbits
    · rcases Int.lt_or_gt_of_ne hb0 with hneg | hpos
      · have := hbd.2 hneg; omega
      · have := hbd.1 hpos
        have : (0:Int) < 2 ^ (bits - 1) := by positivity
        omega
    · rcases Int.lt_or_gt_of_ne hb0 with hneg | hpos
      · have := hbd.2 hneg
        have : (0:Int) < 2 ^ (bits - 1) := by positivity
        omega
      · have := hbd.1 hpos; omega
  · rename_i h
    rw [if_neg h] at key
    exact key

/-- A "simplified" correction test that multiplies remainder and divisor *in the dtype* is wrong:
the product wraps (int8: 100 % -120). This is why the implementation compares signs instead. -/
theorem product_test_is_wrong : remainderProductTest 8 100 (-120) ≠ Int.fmod 100 (-120) := by decide

/-- Left shift routed through `uint64` and cast back equals the shift in the operand's own width. -/
theorem left_shift_via_uint64 (bits : Nat) (h : bits ≤ 64) (x : Int) (s : Nat) :
    wrapU bits (wrapU 64 (wrapU 64 x * 2 ^ s)) = wrapU bits (x * 2 ^ s) := by
  rw [wrapU_wrapU bits 64 h]
  have h1 := wrapU_mul bits (wrapU 64 x) (2 ^ s)
  have h2 := wrapU_mul bits x (2 ^ s)
  rw [← h1, ← h2, wrapU_wrapU bits 64 h]

theorem wrapS_add_mul (bits : Nat) (v k : Int) : wrapS bits (v + k * 2 ^ bits) = wrapS bits v := by
  simp only [wrapS, Int.add_mul_emod_self_right]

/-- Floor division by a positive power of two keeps a value inside a symmetric signed range. -/
theorem ediv_pow_bounds (M x : Int) (s : Nat) (hM : 0 < M) (hlo : -M ≤ x) (hhi : x < M) :
    -M ≤ x / 2 ^ s ∧ x / 2 ^ s < M := by
  have hp : (0 : Int) < 2 ^ s := by positivity
  have h1 : (1 : Int) ≤ 2 ^ s := by omega
  have hmul := Int.mul_ediv_add_emod x (2 ^ s)
  have hr0 := Int.emod_nonneg x (Int.ne_of_gt hp)
  have hr1 := Int.emod_lt_of_pos x hp
  constructor
  · by_contra hc
    have hq : x / 2 ^ s + 1 ≤ -M := by omega
    have : (x / 2 ^ s + 1) * 2 ^ s ≤ -M * 2 ^ s := Int.mul_le_mul_of_nonneg_right hq (by omega)
    nlinarith
  · by_contra hc
    have hq : M ≤ x / 2 ^ s := by omega
    have : M * 2 ^ s ≤ (x / 2 ^ s) * 2 ^ s := Int.mul_le_mul_of_nonneg_right hq (by omega)
    nlinarith

/-- Right shift of a *signed* value routed through `uint64` and cast back is the arithmetic shift
(floor division by `2^s`) as long as `bits + s ≤ 64`. For `int64` (`bits = 64`, `s ≥ 1`) the
hypothesis fails — and so does the implementation (recorded finding). -/
theorem right_shift_via_uint64 (bits s : Nat) (hb : 1 ≤ bits) (h : bits + s ≤ 64) (x : Int)
    (hlo : -(2 ^ (bits - 1) : Int) ≤ x) (hhi : x < 2 ^ (bits - 1)) :
    wrapS bits (wrapU 64 x / 2 ^ s) = x / 2 ^ s := by
  have hM : (0 : Int) < 2 ^ (bits - 1) := by positivity
  have hbd := ediv_pow_bounds (2 ^ (bits - 1)) x s hM hlo hhi
  have hle : (2 : Int) ^ (bits - 1) ≤ 2 ^ 63 := pow_le_pow_right₀ (by norm_num) (by omega)
  rcases lt_or_ge x 0 with hneg | hpos
  · have hw : wrapU 64 x = x + 2 ^ 64 := by
      unfold wrapU
      have : (x + 2 ^ 64) % (2 ^ 64 : Int) = x + 2 ^ 64 := Int.emod_eq_of_lt (by omega) (by omega)
      rw [← this, Int.add_emod_right]
    have hsplit : (2 : Int) ^ 64 = 2 ^ (64 - s) * 2 ^ s := by
      rw [← pow_add]; congr 1; omega
    have hsplit2 : (2 : Int) ^ (64 - s) = 2 ^ (64 - s - bits) * 2 ^ bits := by
      rw [← pow_add]; congr 1; omega
    rw [hw, hsplit, Int.add_mul_ediv_right _ _ (by positivity), hsplit2, wrapS_add_mul]
    exact wrapS_id bits hb _ hbd.1 hbd.2
  · have hw : wrapU 64 x = x := by
      unfold wrapU; exact Int.emod_eq_of_lt hpos (by omega)
    rw [hw]
    exact wrapS_id bits hb _ hbd.1 hbd.2

/-- The excluded case really fails: `int64`, `-8 >> 1` through `uint64` gives `2^63 - 4`, not `-4`. -/
theorem right_shift_int64_witness : wrapS 64 (wrapU 64 (-8) / 2 ^ 1) ≠ (-8) / 2 ^ 1 := by decide

/-! ## implementation model = specification -/


theorem wrapS_congr_of_wrapU (bits : Nat) (v w : Int) (h : wrapU bits v = wrapU bits w) :
    wrapS bits v = wrapS bits w := by
  simp only [wrapU] at h
  simp only [wrapS, h]

theorem wrap_congr_of_wrapU (t : IType) (v w : Int) (h : wrapU t.bits v = wrapU t.bits w) :
    t.wrap v = t.wrap w := by
  unfold IType.wrap
  split
  · exact wrapS_congr_of_wrapU _ _ _ h
  · exact h

theorem wrapU_id (bits : Nat) (v : Int) (h0 : 0 ≤ v) (h1 : v < 2 ^ bits) : wrapU bits v = v :=
  Int.emod_eq_of_lt h0 h1

theorem lshiftImpl_eq_spec (t : IType) (hb : t.bits ≤ 64) (x : Int) (s : Nat) :
    lshiftImpl t x s = t.wrap (x * 2 ^ s) :=
  wrap_congr_of_wrapU t _ _ (left_shift_via_uint64 t.bits hb x s)

theorem rshiftImpl_unsigned (t : IType) (hu : t.signed = false) (hb : t.bits ≤ 64) (x : Int) (s : Nat)
    (h0 : 0 ≤ x) (h1 : x < 2 ^ t.bits) : rshiftImpl t x s = x / 2 ^ s := by
  have hle : (2 : Int) ^ t.bits ≤ 2 ^ 64 := pow_le_pow_right₀ (by norm_num) hb
  have hp : (0 : Int) < 2 ^ s := by positivity
  unfold rshiftImpl IType.wrap
  rw [hu, wrapU_id 64 x h0 (by omega)]
  simp only [Bool.false_eq_true, if_false]
  apply wrapU_id
  · exact Int.ediv_nonneg h0 (by omega)
  · have : x / 2 ^ s ≤ x := Int.ediv_le_self _ h0
    omega

theorem rshiftImpl_signed (t : IType) (hs : t.signed = true) (hb1 : 1 ≤ t.bits) (x : Int) (s : Nat)
    (h : t.bits + s ≤ 64) (hlo : -(2 ^ (t.bits - 1) : Int) ≤ x) (hhi : x < 2 ^ (t.bits - 1)) :
    rshiftImpl t x s = x / 2 ^ s := by
  unfold rshiftImpl IType.wrap
  rw [hs]; simp only [if_true]
  exact right_shift_via_uint64 t.bits s hb1 h x hlo hhi

/-- Non-negative values shift correctly in every signed width up to 64 (the `int64` defect needs a
negative operand). -/
theorem rshiftImpl_signed_nonneg (t : IType) (hs : t.signed = true) (hb1 : 1 ≤ t.bits) (hb : t.bits ≤ 64)
    (x : Int) (s : Nat) (h0 : 0 ≤ x) (hhi : x < 2 ^ (t.bits - 1)) : rshiftImpl t x s = x / 2 ^ s := by
  have hle : (2 : Int) ^ (t.bits - 1) ≤ 2 ^ 63 := pow_le_pow_right₀ (by norm_num) (by omega)
  have hp : (0 : Int) < 2 ^ s := by positivity
  unfold rshiftImpl IType.wrap
  rw [hs, wrapU_id 64 x h0 (by omega)]; simp only [if_true]
  apply wrapS_id t.bits hb1
  · have := Int.ediv_nonneg h0 (show (0:Int) ≤ 2 ^ s by omega)
    have : (0 : Int) < 2 ^ (t.bits - 1) := by positivity
    omega
  · have : x / 2 ^ s ≤ x := Int.ediv_le_self _ h0
    omega

theorem remainder_unsigned (a b : Int) (ha : 0 ≤ a) (hb : 0 ≤ b) : Int.tmod a b = Int.fmod a b := by
  rw [Int.tmod_eq_emod_of_nonneg ha, Int.fmod_eq_emod_of_nonneg a hb]

/-- **Implementation model = specification** for the integer binary functions whose graphs are more
than a single node, on the whole domain of every width up to 64 bits — except the arithmetic right
shift of a negative `int64`, the recorded finding. -/
theorem intOpImpl_eq_spec (op : String) (t : IType) (hb1 : 1 ≤ t.bits) (hb : t.bits ≤ 64) (a b : Int)
    (ha : t.inRange a = true) (hbr : t.inRange b = true)
    (hop : op ∈ ["add", "subtract", "multiply", "remainder", "bitwise_left_shift", "bitwise_right_shift"])
    (hrs : op = "bitwise_right_shift" → t.signed = true → t.bits ≤ 32 ∨ 0 ≤ a) :
    intOpImpl op t a b = intOpSpec op t a b := by
  simp only [List.mem_cons, List.not_mem_nil, or_false] at hop
  rcases hop with rfl | rfl | rfl | rfl | rfl | rfl
  · rfl
  · rfl
  · rfl
  · simp only [intOpImpl, intOpSpec]
    split
    · rfl
    · rename_i hb0
      congr 1
      cases hsg : t.signed
      · simp only [Bool.false_eq_true, if_false]
        simp only [IType.inRange, hsg, Bool.false_eq_true, if_false, decide_eq_true_eq] at ha hbr
        exact remainder_unsigned a b ha.1 hbr.1
      · simp only [if_true]
        simp only [IType.inRange, hsg, if_true, decide_eq_true_eq] at hbr
        exact remainderImpl_correct t.bits hb1 a b hb0 hbr.1 hbr.2
  · simp only [intOpImpl, intOpSpec]
    split
    · rw [lshiftImpl_eq_spec t hb]
    · rfl
  · simp only [intOpImpl, intOpSpec]
    split
    · rename_i hs
      congr 1
      cases hsg : t.signed
      · simp only [IType.inRange, hsg, Bool.false_eq_true, if_false, decide_eq_true_eq] at ha
        exact rshiftImpl_unsigned t hsg hb a _ ha.1 ha.2
      · simp only [IType.inRange, hsg, if_true, decide_eq_true_eq] at ha
        rcases hrs rfl hsg with h32 | hnn
        · have : b.toNat < t.bits := by omega
          exact rshiftImpl_signed t hsg hb1 a _ (by omega) ha.1 ha.2
        · exact rshiftImpl_signed_nonneg t hsg hb1 hb a _ hnn ha.2
    · rfl

example : intOpImpl "remainder" ⟨8, true⟩ 100 (-120) = some (-20) := by decide
example : intOpImpl "bitwise_right_shift" ⟨8, true⟩ (-128) 3 = some (-16) := by decide
end Ndx.C02
