import NdonnxVerif.Lemmas.TGraphScatter
import NdonnxVerif.Props.C08Mask
import NdonnxVerif.Props.C11Reshape
/-!
# C08 — boolean-mask index at graph level: the exported `Reshape` + `Compress(axis=0)` term selects NumPy's elements

`maskGraph` is the term `tg_render mask` prints and the check compares with the exported graph of `x[mask]` (tie B).
-/
namespace Ndx.TGraph
open Ndx Ndx.Spec

/-- The boolean reading of a 0/1 tensor. -/
def maskOf (m : Tensor Int) : Tensor Bool := ⟨m.shape, fun ix => decide (m.get ix ≠ 0)⟩

theorem maskOf_toFlat (m : Tensor Int) : (maskOf m).toFlat = m.toFlat.map (fun v => decide (v ≠ 0)) := by
  simp [maskOf, Tensor.toFlat, List.map_map, Function.comp_def]

theorem reshape_neg1_toFlat (m : Tensor Int) : (reshapeOp m [-1]).toFlat = m.toFlat := by
  have h : reshapeTarget (sizeOf' m.shape) [-1] = [sizeOf' m.shape] := by
    have := reshapeTarget_neg1_head (sizeOf' m.shape) [] (by simp [sizeOf'])
    simpa [sizeOf'] using this
  unfold reshapeOp
  rw [h]
  exact reshape_preserves_flat_order m _ (by simp [sizeOf'])

/-- **The exported mask-selection term evaluates to the model of `getitem_null`.**  Rank-0, rank-1 and higher-rank
masks; for a mask of rank ≥ 2 the trailing (unmasked) extents must be non-zero — with a zero among them ONNX rejects
the `[-1, …]` reshape (the recorded C08 finding `zero-extent-raises`). -/
theorem maskGraph_eval (env : List (Tensor Int)) (x m : TG) (k : Nat)
    (hk : (m.eval env).rank = k) (hle : k ≤ (x.eval env).rank)
    (hs : (m.eval env).shape = (x.eval env).shape.take k)
    (hz : 2 ≤ k → sizeOf' ((x.eval env).shape.drop k) ≠ 0) :
    getitemMask (x.eval env) (maskOf (m.eval env)) = .ok ((maskGraph x m k).eval env) := by
  generalize hT : x.eval env = T at *
  generalize hM : m.eval env = M at *
  have hnot : ¬ T.rank < k := by omega
  have hrk : (maskOf M).rank = k := hk
  unfold getitemMask maskGraph
  simp only [hrk, hnot, if_false]
  by_cases h0 : k = 0
  · subst h0
    simp only [if_true, TG.eval, hT, hM]
    have hMs : M.shape = [] := List.eq_nil_of_length_eq_zero hk
    have hc1 := concat_vec_toFlat (ivec [1] |>.eval env) (shapeOp T) 1 T.shape.length (by simp [ivec, TG.eval, constT]) (by simp [shapeOp, vec])
    have hc2 := concat_vec_toFlat (ivec [1] |>.eval env) (shapeOp M) 1 0 (by simp [ivec, TG.eval, constT]) (by simp [shapeOp, vec, hMs])
    rw [hc1.2, hc2.2, eval_ivec_toFlat, shapeOp_toFlat, shapeOp_toFlat, hMs]
    have e1 : ([1] : List Int) ++ T.shape.map Int.ofNat = (1 :: T.shape).map Int.ofNat := by simp
    have e2 : ([1] : List Int) ++ ([] : List Nat).map Int.ofNat = ([1] : List Nat).map Int.ofNat := by simp
    rw [e1, e2]
    unfold compressOp reshapeOp
    rw [reshapeTarget_of_nat, reshapeTarget_of_nat]
    congr 2
    simp [onnxReshape, Tensor.toFlat, allIdx, hMs, unravel, maskOf]
  · by_cases h1 : k = 1
    · subst h1
      simp only [show ¬ ((1 : Nat) = 0) by decide, if_false, if_true, TG.eval, hT, hM, compressOp, maskOf_toFlat]
    · have h2 : 2 ≤ k := by omega
      simp only [h0, h1, if_false, TG.eval, hT, hM]
      have hc := concat_vec_toFlat (ivec [-1] |>.eval env) (vec ((T.shape.drop k).map Int.ofNat)) 1 (T.shape.drop k).length
        (by simp [ivec, TG.eval, constT]) (by simp [vec])
      rw [hc.2, eval_ivec_toFlat, vec_toFlat]
      unfold compressOp reshapeOp
      have hsz : sizeOf' T.shape / sizeOf' (T.shape.drop k) = sizeOf' (T.shape.take k) := by
        conv => lhs; rw [← List.take_append_drop k T.shape, sizeOf'_append]
        simp only [List.take_append_drop]
        exact Nat.mul_div_cancel _ (Nat.pos_of_ne_zero (hz h2))
      have e : ([-1] : List Int) ++ (T.shape.drop k).map Int.ofNat = -1 :: (T.shape.drop k).map Int.ofNat := rfl
      rw [e, reshapeTarget_neg1_head _ _ (hz h2), hsz]
      have := reshape_neg1_toFlat M
      unfold reshapeOp at this
      rw [this, maskOf_toFlat]

/-- **C08, boolean mask, exported graph.**  The term ndonnx exports for `x[mask]` (checked against the exported graph on
every run) evaluates, for every data tensor, every mask whose shape is the leading part of the data's shape, and every
extent, to NumPy's selection: the elements at the `true` positions in row-major order, trailing axes kept. -/
theorem exported_mask_graph_correct (env : List (Tensor Int)) (x m : TG) (k : Nat)
    (hk : (m.eval env).rank = k) (hle : k ≤ (x.eval env).rank)
    (hs : (m.eval env).shape = (x.eval env).shape.take k)
    (hz : 2 ≤ k → sizeOf' ((x.eval env).shape.drop k) ≠ 0) :
    ((maskGraph x m k).eval env).Equiv (Spec.maskSelect (x.eval env) (maskOf (m.eval env))) := by
  have h1 := maskGraph_eval env x m k hk hle hs hz
  have hk' : (maskOf (m.eval env)).rank = k := hk
  obtain ⟨r, hr, he⟩ := mask_select_correct (x.eval env) (maskOf (m.eval env)) (by rw [hk']; exact hle) (by rw [hk']; exact hs)
  rw [h1] at hr
  injection hr with hr
  rw [hr]; exact he

/-- Non-vacuity and a concrete reading: a 2×2 mask on a 2×2×2 token tensor. -/
example : ((maskGraph (.inp 0) (.inp 1) 2).eval [⟨[2, 2, 2], fun ix => Int.ofNat (ravel [2, 2, 2] ix)⟩, constT [2, 2] [0, 1, 1, 0]]).toFlat
    = [2, 3, 4, 5] := by decide

/-- The zero-extent hypothesis is needed: with a trailing extent 0 the `-1` of the reshape has no quotient (ONNX rejects
the graph; the model's reading gives extent 0 where NumPy has 4). -/
example : ((TG.reshape (.inp 0) (.concat 0 (ivec [-1]) (.shapeFrom 2 (.inp 0)))).eval [⟨[2, 2, 0], fun _ => 0⟩]).shape = [0, 0] := by decide

end Ndx.TGraph
