import NdonnxVerif.Lemmas.GetitemNd
import NdonnxVerif.Props.C08Graph
/-!
# C08 — `x[index]` for every rank: integers and slices (model = NumPy), and the exported graph
-/
namespace Ndx.TGraph
open Ndx Ndx.Spec Ndx.C08

/-- `index_normalise` on an entry that is an integer or a slice. -/
def normE : Ix → NIx
  | .int i => .int i
  | .slice a b c => normSl (a, b, c)
  | .newaxis => .newaxis
  | _ => .full

/-- Entries of a basic index without `None`/`...`: integers inside `[-n, n)`, slices inside the standard's bounds. -/
def Admissible : List Ix → List Nat → Prop
  | [], [] => True
  | .int i :: I, n :: sh => (-(n : Int) ≤ i ∧ i < (n : Int)) ∧ Admissible I sh
  | .slice a b c :: I, n :: sh => (sliceInBounds (Int.ofNat n) a b c ∧ Int.ofNat n ≤ int64Max) ∧ Admissible I sh
  | _, _ => False

theorem admissible_length : ∀ (I : List Ix) (sh : List Nat), Admissible I sh → I.length = sh.length
  | [], [], _ => rfl
  | .int _ :: I, _ :: sh, h => by simp [admissible_length I sh h.2]
  | .slice _ _ _ :: I, _ :: sh, h => by simp [admissible_length I sh h.2]
  | [], _ :: _, h => by cases h
  | .ellipsis :: _, _, h => by cases h
  | .newaxis :: _, _, h => by cases h
  | .bad :: _, _, h => by cases h
  | .int _ :: _, [], h => by cases h
  | .slice _ _ _ :: _, [], h => by cases h

theorem admissible_ints : ∀ (I : List Ix) (sh : List Nat), Admissible I sh → IntsInRange (I.map normE) sh
  | [], [], _ => trivial
  | .int i :: I, n :: sh, h => ⟨h.1, admissible_ints I sh h.2⟩
  | .slice a b c :: I, n :: sh, h => by
    have := admissible_ints I sh h.2
    simp only [List.map_cons, normE, normSl]
    split <;> exact this
  | [], _ :: _, h => by cases h
  | .ellipsis :: _, _, h => by cases h
  | .newaxis :: _, _, h => by cases h
  | .bad :: _, _, h => by cases h
  | .int _ :: _, [], h => by cases h
  | .slice _ _ _ :: _, [], h => by cases h

/-- **NumPy's left-to-right reading equals the model's axis-by-axis reading** for every admissible index of integers and
slices, on every shape. -/
theorem basic_eq_model : ∀ (I : List Ix) (sh : List Nat), Admissible I sh →
    (Spec.basic I sh).1 = modelS (I.map normE) sh ∧
    ∀ o, InRange (modelS (I.map normE) sh) o → (Spec.basic I sh).2 o = modelF (I.map normE) sh o
  | [], [], _ => by
    refine ⟨rfl, ?_⟩
    intro o ho
    simp only [List.map_nil, modelS] at ho
    match o, ho with
    | [], _ => rfl
  | .int i :: I, n :: sh, h => by
    obtain ⟨ih1, ih2⟩ := basic_eq_model I sh h.2
    simp only [Spec.basic, List.map_cons, normE, modelS, modelF]
    refine ⟨ih1, fun o ho => ?_⟩
    rw [ih2 o ho]
    simp [normIdx]
  | .slice a b c :: I, n :: sh, h => by
    obtain ⟨ih1, ih2⟩ := basic_eq_model I sh h.2
    obtain ⟨⟨hb, hn⟩, _⟩ := h
    have hagree := slice_axis_agree n hn a b c hb (normSl (a, b, c)) (normaliseEntry_slice (a, b, c))
    obtain ⟨hc, hp⟩ := positions_eq_iff _ _ hagree
    have hns : ∀ (E : List NIx) (o : List Nat),
        modelS (normSl (a, b, c) :: E) (n :: sh) = (modelAxis n (normSl (a, b, c))).2.1 :: modelS E sh ∧
        modelF (normSl (a, b, c) :: E) (n :: sh) o
          = ((modelAxis n (normSl (a, b, c))).1 + Int.ofNat (o.headD 0) * (modelAxis n (normSl (a, b, c))).2.2).toNat :: modelF E sh o.tail := by
      intro E o
      simp only [normSl]
      split <;> exact ⟨rfl, rfl⟩
    simp only [Spec.basic, List.map_cons, normE]
    rw [(hns _ []).1]
    refine ⟨by rw [ih1, hc], fun o ho => ?_⟩
    rw [(hns _ o).2]
    match o, ho with
    | y :: o, ho =>
      simp only [List.headD_cons, List.tail_cons]
      rw [ih2 o ho.2, hp y ho.1]
  | [], _ :: _, h => by cases h
  | .ellipsis :: _, _, h => by cases h
  | .newaxis :: _, _, h => by cases h
  | .bad :: _, _, h => by cases h
  | .int _ :: _, [], h => by cases h
  | .slice _ _ _ :: _, [], h => by cases h


theorem admissible_entries : ∀ (I : List Ix) (sh : List Nat), Admissible I sh →
    ∀ e ∈ I, (∃ i, e = .int i) ∨ (∃ a b c, e = .slice a b c)
  | [], [], _ => by simp
  | .int i :: I, _ :: sh, h => by
    intro e he
    rcases List.mem_cons.mp he with rfl | he
    · exact Or.inl ⟨i, rfl⟩
    · exact admissible_entries I sh h.2 e he
  | .slice a b c :: I, _ :: sh, h => by
    intro e he
    rcases List.mem_cons.mp he with rfl | he
    · exact Or.inr ⟨a, b, c, rfl⟩
    · exact admissible_entries I sh h.2 e he
  | [], _ :: _, h => by cases h
  | .ellipsis :: _, _, h => by cases h
  | .newaxis :: _, _, h => by cases h
  | .bad :: _, _, h => by cases h
  | .int _ :: _, [], h => by cases h
  | .slice _ _ _ :: _, [], h => by cases h

theorem normaliseAll_ints_slices : ∀ (I : List Ix), (∀ e ∈ I, (∃ i, e = .int i) ∨ (∃ a b c, e = .slice a b c)) →
    normaliseAll I = .ok (I.map normE)
  | [], _ => rfl
  | e :: I, h => by
    have ih := normaliseAll_ints_slices I (fun e he => h e (List.mem_cons_of_mem _ he))
    rcases h e (by simp) with ⟨i, rfl⟩ | ⟨a, b, c, rfl⟩
    · simp only [normaliseAll, normaliseEntry, ih, List.map_cons, normE]
    · simp only [normaliseAll, ih, List.map_cons, normE]
      rw [show normaliseEntry (.slice a b c) = .ok (normSl (a, b, c)) from normaliseEntry_slice (a, b, c)]

theorem normE_not_newaxis (e : Ix) (h : (∃ i, e = .int i) ∨ (∃ a b c, e = .slice a b c)) : isNewaxis (normE e) = false := by
  rcases h with ⟨i, rfl⟩ | ⟨a, b, c, rfl⟩
  · rfl
  · exact normSl_not_newaxis (a, b, c)

/-- **C08 for every rank: integers and slices.**  `x[e_0, …, e_{r-1}]` with one entry per axis, each an in-range integer
(negative too) or a slice inside the standard's bounds (any step sign, bounds given or omitted): the model of what ndonnx
emits (`index_normalise`, one `Slice`, scalar `Gather`s in reverse axis order) accepts the index and returns exactly the
elements, in the order and shape, that NumPy returns — for every rank, every shape and every element type. -/
theorem getitem_ints_slices_nd (t : Tensor α) (I : List Ix) (h : Admissible I t.shape) :
    ∃ r, Ndx.getitem t I = .ok r ∧ r.Equiv (Spec.getitem t I) := by
  have hent := admissible_entries I t.shape h
  have hlen := admissible_length I t.shape h
  have hne : I.any isEllipsis = false := by
    rw [List.any_eq_false]
    intro e he
    rcases hent e he with ⟨i, rfl⟩ | ⟨a, b, c, rfl⟩ <;> simp [isEllipsis]
  have hnn : ∀ e ∈ I.map normE, isNewaxis e = false := by
    intro e he
    obtain ⟨e', he', rfl⟩ := List.mem_map.mp he
    exact normE_not_newaxis e' (hent e' he')
  have hnorm : normaliseIndex t.rank I = .ok (I.map normE) := by
    simp only [normaliseIndex, constructIndex, hne, Bool.false_eq_true, if_false, normaliseAll_ints_slices I hent, bind, Except.bind]
    have hf : ((I.map normE).filter (fun x => !isNewaxis x)).length = t.rank := by
      rw [List.filter_eq_self.mpr]
      · simpa [Tensor.rank] using hlen
      · intro e he; simp [hnn e he]
    simp [hf]
  simp only [Ndx.getitem, hnorm, bind, Except.bind]
  refine ⟨_, rfl, ?_⟩
  obtain ⟨m1, m2⟩ := getitemCore_noNew t (I.map normE) hnn (by simpa using hlen) (admissible_ints I t.shape h)
  obtain ⟨s1, s2⟩ := basic_eq_model I t.shape h
  have hexp : Spec.expand t.rank I = I := by
    unfold Spec.expand
    generalize (List.filter (fun x => !isNoneOrEllipsis x) I).length = c
    clear hne hnorm hnn hlen h m1 m2 s1 s2
    induction I with
    | nil => rfl
    | cons e I ih =>
      have := ih (fun e he => hent e (List.mem_cons_of_mem _ he))
      rcases hent e (by simp) with ⟨i, rfl⟩ | ⟨a, b, c', rfl⟩ <;> simp [List.flatMap_cons, this]
  constructor
  · simp only [Spec.getitem, hexp]
    rw [m1, s1]
  · intro o ho
    rw [m1] at ho
    simp only [Spec.getitem, hexp]
    rw [m2 o ho, s2 o ho]

/-- **C08 / C06 at graph level, every rank, integers and slices.**  The graph exported for such an index, evaluated on any
integer tensor of any admissible shape, is NumPy's `x[index]`. -/
theorem exported_getitem_graph_correct (t : Tensor Int) (I : List Ix) (h : Admissible I t.shape) :
    ((getitemGraph (.inp 0) (I.map normE)).eval [t]).Equiv (Spec.getitem t I) := by
  obtain ⟨r, hr, he⟩ := getitem_ints_slices_nd t I h
  have hnorm : normaliseIndex t.rank I = .ok (I.map normE) := by
    simp only [Ndx.getitem] at hr
    cases hq : normaliseIndex t.rank I with
    | error e => simp [hq, bind, Except.bind] at hr
    | ok n =>
      have hent := admissible_entries I t.shape h
      have hne : I.any isEllipsis = false := by
        rw [List.any_eq_false]
        intro e he'
        rcases hent e he' with ⟨i, rfl⟩ | ⟨a, b, c, rfl⟩ <;> simp [isEllipsis]
      simp only [normaliseIndex, constructIndex, hne, Bool.false_eq_true, if_false, normaliseAll_ints_slices I hent, bind, Except.bind] at hq
      split at hq
      · cases hq
      · injection hq with hq; rw [hq]
  rw [getitem_via_graph t _ _ hnorm] at hr
  injection hr with hr
  rw [hr]; exact he

/-- Non-vacuity: a rank-3 index mixing a negative integer, a negative-step slice and an open slice is admissible. -/
example : Admissible [.int (-1), .slice (some 2) none (some (-1)), .slice none none none] [2, 3, 0] := by
  refine ⟨by decide, ⟨⟨?_, by decide⟩, ⟨⟨?_, by decide⟩, trivial⟩⟩⟩
  · refine ⟨by decide, ?_, ?_⟩ <;> intro v hv <;> simp at hv <;> subst_vars <;> decide
  · refine ⟨by decide, ?_, ?_⟩ <;> intro v hv <;> simp at hv

example : ((getitemGraph (.inp 0) ([Ix.int (-1), .slice (some 2) none (some (-1))].map normE)).eval
    [⟨[2, 3], fun ix => Int.ofNat (ravel [2, 3] ix)⟩]).toFlat = [5, 4, 3] := by decide

end Ndx.TGraph
