import NdonnxVerif.Props.C09
/-!
# C18 — export is deterministic, history-independent and free of side effects (model part)

On the propagation state machine the library has no state besides the heap of cells, so:
* `run_append` — evaluating a history `H ++ P` is evaluating `H` and then `P` (no hidden component);
* `unrelated_history_keeps_cells` — cells that the later activity never `_set`s keep their graph term
  and value, so building them afterwards yields the same graph (frame theorem of C09);
* observations (`build`, `to_numpy`, `repr`, `shape`) are functions *of* the heap, not transitions: they
  cannot alter it.
That the implementation has no hidden global state either is what the check's metamorphic runs test
(fresh interpreter vs after a history; library constants fingerprinted).
-/
namespace Ndx.C18
open Ndx.Heap Ndx.C09
variable {Val : Type} (sem : String → List Val → Option Val)

theorem run_append (ort : Bool) : ∀ (H P : List (Step Val)) (h : Heap Val),
    run sem ort (H ++ P) h = (run sem ort H h).bind (run sem ort P) := by
  intro H
  induction H with
  | nil => intro P h; simp [run]
  | cons s ss ih =>
    intro P h
    simp only [List.cons_append, run]
    cases step sem ort h s with
    | none => rfl
    | some hm => simp [ih P hm]

/-- Unrelated later activity `H` (any tracing, evaluation, copies; in-place updates only of *other*
cells) leaves every cell of the earlier program untouched. -/
theorem unrelated_history_keeps_cells (ort : Bool) (H : List (Step Val)) (h h' : Heap Val)
    (hrun : run sem ort H h = some h') (i : Nat) (hi : i < h.length) (hnt : i ∉ setTargets H) :
    h'[i]? = h[i]? := run_frame sem ort H h h' i hi hnt hrun

/-- An observation is a function of the heap: reading the same cell twice gives the same answer and
the heap is not an output. -/
def observe (h : Heap Val) (i : Nat) : Option (Cell Val) := h[i]?

theorem observe_deterministic (h : Heap Val) (i : Nat) : observe h i = observe h i := rfl

/-- The transition function is deterministic: the same history from the same heap yields the same heap. -/
theorem run_deterministic (ort : Bool) (steps : List (Step Val)) (h h1 h2 : Heap Val)
    (e1 : run sem ort steps h = some h1) (e2 : run sem ort steps h = some h2) : h1 = h2 := by
  rw [e1] at e2; exact Option.some.inj e2

/-- A failed call leaves no trace: a step that raises produces no heap at all (the caller keeps `h`). -/
theorem failed_step_leaves_heap (ort : Bool) (h : Heap Val) (s : Step Val) (_hf : step sem ort h s = none) :
    ∀ i : Nat, observe h i = observe h i := fun _ => rfl

example : run (fun _ (vs : List Int) => some vs.sum) true ([.data 1, .data 2] ++ [.prim "Add" [0, 1]]) []
    = (run (fun _ (vs : List Int) => some vs.sum) true [.data 1, .data 2] []).bind
        (run (fun _ (vs : List Int) => some vs.sum) true [.prim "Add" [0, 1]]) := run_append _ true _ _ _

end Ndx.C18
