import NdonnxVerif.Model.Graph
import NdonnxVerif.Props.C02
import Mathlib.Tactic.NormNum
import Mathlib.Tactic.Positivity
/-!
# C02, graph level — the exported graph of every integer / boolean element-wise function computes
# the specified value, for every width and every operand

For each function the acceptable graph shapes are `Ndx.Graph.gterms fn t` (native, or routed
through a wider integer type with casts).  The check's translator reads the graph the library
actually exports for `(fn, dtype)` and verifies it is one of these terms; the theorems below then
cover all operands of that signature.  Hypotheses name exactly the recorded defects:
`uint64` operands `≥ 2^63` for the functions routed through `int64`, and the arithmetic right shift
of a negative `int64`.
-/
set_option maxRecDepth 4000
namespace Ndx.Graph
open Ndx.C02

/-! ## routing lemmas -/

theorem wrapU_congr_wrap (t w : IType) (h : t.bits ≤ w.bits) (x : Int) :
    wrapU t.bits (w.wrap x) = wrapU t.bits x := by
  unfold IType.wrap
  split
  · rw [← wrapU_wrapU t.bits w.bits h (wrapS w.bits x), wrapS_congr, wrapU_wrapU t.bits w.bits h]
  · exact wrapU_wrapU t.bits w.bits h x

/-- Casting through a type at least as wide and back is a single cast. -/
theorem wrap_route (t w : IType) (h : t.bits ≤ w.bits) (x : Int) : t.wrap (w.wrap x) = t.wrap x :=
  wrap_congr_of_wrapU t _ _ (wrapU_congr_wrap t w h x)

theorem wrapU_congr_add (n : Nat) {x x' y y' : Int} (hx : wrapU n x = wrapU n x') (hy : wrapU n y = wrapU n y') :
    wrapU n (x + y) = wrapU n (x' + y') := by
  rw [← wrapU_add n x y, ← wrapU_add n x' y', hx, hy]

theorem wrapU_congr_sub (n : Nat) {x x' y y' : Int} (hx : wrapU n x = wrapU n x') (hy : wrapU n y = wrapU n y') :
    wrapU n (x - y) = wrapU n (x' - y') := by
  rw [← wrapU_sub n x y, ← wrapU_sub n x' y', hx, hy]

theorem wrapU_congr_mul (n : Nat) {x x' y y' : Int} (hx : wrapU n x = wrapU n x') (hy : wrapU n y = wrapU n y') :
    wrapU n (x * y) = wrapU n (x' * y') := by
  rw [← wrapU_mul n x y, ← wrapU_mul n x' y', hx, hy]

theorem wrapU_congr_neg (n : Nat) {x x' : Int} (hx : wrapU n x = wrapU n x') : wrapU n (-x) = wrapU n (-x') := by
  rw [← wrapU_neg n x, ← wrapU_neg n x', hx]

/-- Arithmetic carried out in a wider type `w` on cast operands, cast back to `t`, is arithmetic in `t`. -/
theorem route_add (t w : IType) (h : t.bits ≤ w.bits) (x y : Int) :
    t.wrap (w.wrap (w.wrap x + w.wrap y)) = t.wrap (x + y) := by
  rw [wrap_route t w h]
  exact wrap_congr_of_wrapU t _ _ (wrapU_congr_add _ (wrapU_congr_wrap t w h x) (wrapU_congr_wrap t w h y))

theorem route_sub (t w : IType) (h : t.bits ≤ w.bits) (x y : Int) :
    t.wrap (w.wrap (w.wrap x - w.wrap y)) = t.wrap (x - y) := by
  rw [wrap_route t w h]
  exact wrap_congr_of_wrapU t _ _ (wrapU_congr_sub _ (wrapU_congr_wrap t w h x) (wrapU_congr_wrap t w h y))

theorem route_mul (t w : IType) (h : t.bits ≤ w.bits) (x y : Int) :
    t.wrap (w.wrap (w.wrap x * w.wrap y)) = t.wrap (x * y) := by
  rw [wrap_route t w h]
  exact wrap_congr_of_wrapU t _ _ (wrapU_congr_mul _ (wrapU_congr_wrap t w h x) (wrapU_congr_wrap t w h y))

theorem route_neg (t w : IType) (h : t.bits ≤ w.bits) (x : Int) :
    t.wrap (w.wrap (-(w.wrap x))) = t.wrap (-x) := by
  rw [wrap_route t w h]
  exact wrap_congr_of_wrapU t _ _ (wrapU_congr_neg _ (wrapU_congr_wrap t w h x))

/-- In-range values are fixed by the wrap of their dtype. -/
theorem wrap_id (t : IType) (hb : 1 ≤ t.bits) (v : Int) (h : t.inRange v = true) : t.wrap v = v := by
  unfold IType.wrap
  unfold IType.inRange at h
  cases hs : t.signed
  · simp only [hs, Bool.false_eq_true, if_false, decide_eq_true_eq] at h ⊢
    exact wrapU_id t.bits v h.1 h.2
  · simp only [hs, if_true, decide_eq_true_eq] at h ⊢
    exact wrapS_id t.bits hb v h.1 h.2

/-- A value in the range of `t` is in the range of `int64` unless `t = uint64` and it is `≥ 2^63`. -/
theorem inRange_i64 (t : IType) (ht : t ∈ itypes) (v : Int) (h : t.inRange v = true)
    (hu : t = ⟨64, false⟩ → v < 2 ^ 63) : (⟨64, true⟩ : IType).inRange v = true := by
  simp only [itypes, List.mem_cons, List.not_mem_nil, or_false] at ht
  rcases ht with rfl | rfl | rfl | rfl | rfl | rfl | rfl | rfl <;>
    simp only [IType.inRange, Bool.false_eq_true, if_false, if_true, decide_eq_true_eq] at h ⊢ <;>
    first
      | (have := hu rfl; norm_num at h ⊢; omega)
      | (norm_num at h ⊢; omega)

theorem wrap64_id (t : IType) (ht : t ∈ itypes) (v : Int) (h : t.inRange v = true)
    (hu : t = ⟨64, false⟩ → v < 2 ^ 63) : (⟨64, true⟩ : IType).wrap v = v :=
  wrap_id _ (by decide) v (inRange_i64 t ht v h hu)

/-- The input environments of unary and binary functions at dtype `t`. -/
def env1 (t : IType) (x : Int) : List SV := [.i (codeOf t) x]
def env2 (t : IType) (x y : Int) : List SV := [.i (codeOf t) x, .i (codeOf t) y]

/-! ## arithmetic: all operands, every width, native or routed -/

theorem add_graph_correct (t : IType) (ht : t ∈ itypes) (g : G) (hg : g ∈ gterms "add" t) (x y : Int) :
    eval (env2 t x y) g = some (.i (codeOf t) (t.wrap (x + y))) := by
  simp only [itypes, List.mem_cons, List.not_mem_nil, or_false] at ht
  simp only [gterms, viaI64, List.map_cons, List.map_nil, List.mem_cons, List.not_mem_nil, or_false] at hg
  rcases ht with rfl | rfl | rfl | rfl | rfl | rfl | rfl | rfl <;> rcases hg with rfl | rfl <;>
    simp [eval, env2, arithTerm, a, b, cast, evalBin, evalBinInt, evalUn, castTo, itypeOfCode, codeOf] <;>
    exact route_add ⟨_, _⟩ ⟨64, true⟩ (by decide) x y

theorem subtract_graph_correct (t : IType) (ht : t ∈ itypes) (g : G) (hg : g ∈ gterms "subtract" t) (x y : Int) :
    eval (env2 t x y) g = some (.i (codeOf t) (t.wrap (x - y))) := by
  simp only [itypes, List.mem_cons, List.not_mem_nil, or_false] at ht
  simp only [gterms, viaI64, List.map_cons, List.map_nil, List.mem_cons, List.not_mem_nil, or_false] at hg
  rcases ht with rfl | rfl | rfl | rfl | rfl | rfl | rfl | rfl <;> rcases hg with rfl | rfl <;>
    simp [eval, env2, arithTerm, a, b, cast, evalBin, evalBinInt, evalUn, castTo, itypeOfCode, codeOf] <;>
    exact route_sub ⟨_, _⟩ ⟨64, true⟩ (by decide) x y

theorem multiply_graph_correct (t : IType) (ht : t ∈ itypes) (g : G) (hg : g ∈ gterms "multiply" t) (x y : Int) :
    eval (env2 t x y) g = some (.i (codeOf t) (t.wrap (x * y))) := by
  simp only [itypes, List.mem_cons, List.not_mem_nil, or_false] at ht
  simp only [gterms, viaI64, List.map_cons, List.map_nil, List.mem_cons, List.not_mem_nil, or_false] at hg
  rcases ht with rfl | rfl | rfl | rfl | rfl | rfl | rfl | rfl <;> rcases hg with rfl | rfl <;>
    simp [eval, env2, arithTerm, a, b, cast, evalBin, evalBinInt, evalUn, castTo, itypeOfCode, codeOf] <;>
    exact route_mul ⟨_, _⟩ ⟨64, true⟩ (by decide) x y

theorem square_graph_correct (t : IType) (ht : t ∈ itypes) (g : G) (hg : g ∈ gterms "square" t) (x : Int) :
    eval (env1 t x) g = some (.i (codeOf t) (t.wrap (x * x))) := by
  simp only [itypes, List.mem_cons, List.not_mem_nil, or_false] at ht
  simp only [gterms, viaI64, List.map_cons, List.map_nil, List.mem_cons, List.not_mem_nil, or_false] at hg
  rcases ht with rfl | rfl | rfl | rfl | rfl | rfl | rfl | rfl <;> rcases hg with rfl | rfl <;>
    simp [eval, env1, arithTerm, a, cast, evalBin, evalBinInt, evalUn, castTo, itypeOfCode, codeOf] <;>
    exact route_mul ⟨_, _⟩ ⟨64, true⟩ (by decide) x x

theorem negative_graph_correct (t : IType) (ht : t ∈ itypes) (g : G) (hg : g ∈ gterms "negative" t) (x : Int) :
    eval (env1 t x) g = some (.i (codeOf t) (t.wrap (-x))) := by
  simp only [itypes, List.mem_cons, List.not_mem_nil, or_false] at ht
  simp only [gterms, viaI64, List.map_cons, List.map_nil, List.mem_cons, List.not_mem_nil, or_false] at hg
  rcases ht with rfl | rfl | rfl | rfl | rfl | rfl | rfl | rfl <;> rcases hg with rfl | rfl <;>
    simp [eval, env1, negTerm, a, cast, evalUn, castTo, itypeOfCode, codeOf] <;>
    exact route_neg ⟨_, _⟩ ⟨64, true⟩ (by decide) x

/-- `positive`, and `ceil` / `floor` / `round` / `trunc` on integers, export the input itself. -/
theorem identity_graph_correct (fn : String) (hfn : fn ∈ ["positive", "ceil", "floor", "round", "trunc"])
    (t : IType) (g : G) (hg : g ∈ gterms fn t) (x : Int) :
    eval (env1 t x) g = some (.i (codeOf t) x) := by
  simp only [List.mem_cons, List.not_mem_nil, or_false] at hfn
  rcases hfn with rfl | rfl | rfl | rfl | rfl <;>
    simp only [gterms, List.mem_cons, List.not_mem_nil, or_false] at hg <;> subst hg <;> rfl

/-! ## comparisons -/

theorem cmp_graph_correct (fn : String) (op : BinOp) (rel : Int → Int → Bool)
    (hfn : (fn, op, rel) ∈ [("less", BinOp.lt, fun x y => decide (x < y)), ("less_equal", .le, fun x y => decide (x ≤ y)),
      ("greater", .gt, fun x y => decide (x > y)), ("greater_equal", .ge, fun x y => decide (x ≥ y))])
    (t : IType) (ht : t ∈ itypes) (g : G) (hg : g ∈ gterms fn t) (x y : Int)
    (hx : t.inRange x = true) (hy : t.inRange y = true)
    (hu : t = ⟨64, false⟩ → x < 2 ^ 63 ∧ y < 2 ^ 63) :
    eval (env2 t x y) g = some (.b (rel x y)) := by
  have wx := wrap64_id t ht x hx (fun h => (hu h).1)
  have wy := wrap64_id t ht y hy (fun h => (hu h).2)
  simp only [itypes, List.mem_cons, List.not_mem_nil, or_false] at ht
  simp only [List.mem_cons, List.not_mem_nil, or_false, Prod.mk.injEq] at hfn
  rcases hfn with ⟨rfl, rfl, rfl⟩ | ⟨rfl, rfl, rfl⟩ | ⟨rfl, rfl, rfl⟩ | ⟨rfl, rfl, rfl⟩ <;>
    simp only [gterms, viaI64, List.map_cons, List.map_nil, List.mem_cons, List.not_mem_nil, or_false] at hg <;>
    rcases ht with rfl | rfl | rfl | rfl | rfl | rfl | rfl | rfl <;> rcases hg with rfl | rfl <;>
    simp [eval, env2, cmpTerm, ocast, a, b, cast, evalBin, evalBinInt, evalUn, castTo, itypeOfCode, codeOf, wx, wy]

/-- The excluded operands really fail: `uint64` `2^63 < 1` is false, but through `int64` it is true. -/
theorem less_uint64_witness :
    eval (env2 ⟨64, false⟩ (2 ^ 63) 1) (cmpTerm .lt (some 7) false) = some (.b true) := by decide

/-- Injectivity of the `uint64 → int64` reinterpretation: equality survives the routing for *all* operands. -/
theorem wrapS64_inj (x y : Int) (hx : (⟨64, false⟩ : IType).inRange x = true) (hy : (⟨64, false⟩ : IType).inRange y = true)
    (h : wrapS 64 x = wrapS 64 y) : x = y := by
  have h1 := wrapS_congr 64 x
  have h2 := wrapS_congr 64 y
  rw [h] at h1
  simp only [IType.inRange, Bool.false_eq_true, if_false, decide_eq_true_eq] at hx hy
  rw [wrapU_id 64 x hx.1 hx.2] at h1
  rw [wrapU_id 64 y hy.1 hy.2] at h2
  omega

theorem equal_graph_correct (t : IType) (ht : t ∈ itypes) (g : G) (hg : g ∈ gterms "equal" t) (x y : Int)
    (hx : t.inRange x = true) (hy : t.inRange y = true) :
    eval (env2 t x y) g = some (.b (x == y)) := by
  by_cases h64 : t = ⟨64, false⟩
  · subst h64
    simp only [gterms, viaI64, List.map_cons, List.map_nil, List.mem_cons, List.not_mem_nil, or_false] at hg
    rcases hg with rfl | rfl
    · simp [eval, env2, cmpTerm, ocast, a, b, evalBin, evalBinInt, itypeOfCode, codeOf]
    · simp [eval, env2, cmpTerm, ocast, a, b, cast, evalBin, evalBinInt, evalUn, castTo, itypeOfCode, codeOf, IType.wrap]
      constructor
      · intro h; exact wrapS64_inj x y hx hy h
      · intro h; rw [h]
  · have wx := wrap64_id t ht x hx (fun h => absurd h h64)
    have wy := wrap64_id t ht y hy (fun h => absurd h h64)
    simp only [itypes, List.mem_cons, List.not_mem_nil, or_false] at ht
    simp only [gterms, viaI64, List.map_cons, List.map_nil, List.mem_cons, List.not_mem_nil, or_false] at hg
    rcases ht with rfl | rfl | rfl | rfl | rfl | rfl | rfl | rfl <;> rcases hg with rfl | rfl <;>
      simp [eval, env2, cmpTerm, ocast, a, b, cast, evalBin, evalBinInt, evalUn, castTo, itypeOfCode, codeOf, wx, wy]

theorem not_equal_graph_correct (t : IType) (ht : t ∈ itypes) (g : G) (hg : g ∈ gterms "not_equal" t) (x y : Int)
    (hx : t.inRange x = true) (hy : t.inRange y = true) :
    eval (env2 t x y) g = some (.b (x != y)) := by
  simp only [gterms, viaI64, List.map_cons, List.map_nil, List.mem_cons, List.not_mem_nil, or_false] at hg
  have he : ∀ v, eval (env2 t x y) (cmpTerm .eq v false) = some (.b (x == y)) →
      eval (env2 t x y) (cmpTerm .eq v true) = some (.b (x != y)) := by
    intro v h
    simp only [cmpTerm, Bool.false_eq_true, if_false, if_true] at h ⊢
    simp only [eval] at h ⊢
    rw [h]; simp [evalUn, bne]
  rcases hg with rfl | rfl
  · exact he none (equal_graph_correct t ht _ (by simp [gterms, viaI64]) x y hx hy)
  · exact he (some 7) (equal_graph_correct t ht _ (by simp [gterms, viaI64]) x y hx hy)

/-! ## sign -/

def sgn (x : Int) : Int := if x > 0 then 1 else if x < 0 then -1 else 0

/-- The `Where(x > 0, 1, Where(x < 0, -1, 0))` selection evaluates to the sign, in any signed type. -/
theorem sign_sel (k : Nat) (tk : IType) (hk : itypeOfCode k = some tk) (hk9 : k ≠ 9)
    (h1 : tk.inRange 1 = true) (hm1 : tk.inRange (-1) = true) (h0 : tk.inRange 0 = true)
    (env : List SV) (xg : G) (v : Int) (hxg : eval env xg = some (.i k v)) :
    eval env (.sel (.bin .gt xg (.const k 0)) (.const k 1) (.sel (.bin .lt xg (.const k 0)) (.const k (-1)) (.const k 0)))
      = some (.i k (sgn v)) := by
  simp only [eval, hxg, hk, hk9, if_false, h1, hm1, h0, if_true, Option.bind, evalBin, evalBinInt,
    evalSel, sameType, beq_self_eq_true, sgn]
  by_cases hp : v > 0 <;> by_cases hn : v < 0 <;> simp [hp, hn]

theorem sign_graph_correct (t : IType) (ht : t ∈ itypes) (g : G) (hg : g ∈ gterms "sign" t) (x : Int)
    (hx : t.inRange x = true) (hu : t = ⟨64, false⟩ → x < 2 ^ 63) :
    eval (env1 t x) g = some (.i (codeOf t) (t.wrap (sgn x))) := by
  have wx := wrap64_id t ht x hx hu
  have hvia : eval (env1 t x) (signTerm t (some 7)) = some (.i (codeOf t) (t.wrap (sgn x))) := by
    have hc : eval (env1 t x) (ocast (some 7) a) = some (.i 7 x) := by
      simp [eval, env1, ocast, cast, a, evalUn, castTo, itypeOfCode, wx]
    have hs := sign_sel 7 ⟨64, true⟩ rfl (by decide) (by decide) (by decide) (by decide) _ _ x hc
    simp only [signTerm, cast, eval] at hs ⊢
    rw [hs]
    simp only [itypes, List.mem_cons, List.not_mem_nil, or_false] at ht
    rcases ht with rfl | rfl | rfl | rfl | rfl | rfl | rfl | rfl <;>
      simp [evalUn, castTo, codeOf, itypeOfCode]
  by_cases hsg : t.signed = true
  · simp only [gterms, hsg, if_true, viaI64, List.map_cons, List.map_nil, List.mem_cons, List.not_mem_nil, or_false] at hg
    rcases hg with rfl | rfl
    · -- native: only for signed types
      have hcode : itypeOfCode (codeOf t) = some t := by
        simp only [itypes, List.mem_cons, List.not_mem_nil, or_false] at ht
        rcases ht with rfl | rfl | rfl | rfl | rfl | rfl | rfl | rfl <;> simp_all [codeOf, itypeOfCode]
      have hne : codeOf t ≠ 9 := by
        simp only [itypes, List.mem_cons, List.not_mem_nil, or_false] at ht
        rcases ht with rfl | rfl | rfl | rfl | rfl | rfl | rfl | rfl <;> simp [codeOf]
      have hr : t.inRange 1 = true ∧ t.inRange (-1) = true ∧ t.inRange 0 = true := by
        simp only [itypes, List.mem_cons, List.not_mem_nil, or_false] at ht
        rcases ht with rfl | rfl | rfl | rfl | rfl | rfl | rfl | rfl <;> simp_all [IType.inRange]
      have hin : eval (env1 t x) (ocast none a) = some (.i (codeOf t) x) := by simp [eval, env1, ocast, a]
      have hs := sign_sel (codeOf t) t hcode hne hr.1 hr.2.1 hr.2.2 _ _ x hin
      simp only [signTerm]
      rw [hs]
      have : t.wrap (sgn x) = sgn x := by
        apply wrap_id t _ _ _
        · simp only [itypes, List.mem_cons, List.not_mem_nil, or_false] at ht
          rcases ht with rfl | rfl | rfl | rfl | rfl | rfl | rfl | rfl <;> simp
        · unfold sgn; split
          · exact hr.1
          · split
            · exact hr.2.1
            · exact hr.2.2
      rw [this]
    · exact hvia
  · simp only [gterms, hsg, Bool.false_eq_true, if_false, List.mem_cons, List.not_mem_nil, or_false] at hg
    subst hg; exact hvia

/-! ## abs, bitwise, left shift -/

theorem codeOf_itype (t : IType) (ht : t ∈ itypes) : itypeOfCode (codeOf t) = some t ∧ codeOf t ≠ 9 := by
  simp only [itypes, List.mem_cons, List.not_mem_nil, or_false] at ht
  rcases ht with rfl | rfl | rfl | rfl | rfl | rfl | rfl | rfl <;> simp [codeOf, itypeOfCode]

theorem abs_graph_correct (t : IType) (ht : t ∈ itypes) (g : G) (hg : g ∈ gterms "abs" t) (x : Int) :
    eval (env1 t x) g = some (.i (codeOf t) (t.wrap (if x < 0 then -x else x))) := by
  simp only [gterms, List.mem_cons, List.not_mem_nil, or_false] at hg
  subst hg
  simp [eval, env1, a, evalUn, (codeOf_itype t ht).1]

theorem bitwise_invert_graph_correct (t : IType) (ht : t ∈ itypes) (g : G) (hg : g ∈ gterms "bitwise_invert" t) (x : Int) :
    eval (env1 t x) g = some (.i (codeOf t) (t.wrap (-x - 1))) := by
  simp only [gterms, List.mem_cons, List.not_mem_nil, or_false] at hg
  subst hg
  simp [eval, env1, a, evalUn, (codeOf_itype t ht).1]

theorem bitwise_graph_correct (fn : String) (op : BinOp) (f : (n : Nat) → BitVec n → BitVec n → BitVec n)
    (hfn : (fn, op) ∈ [("bitwise_and", BinOp.band), ("bitwise_or", .bor), ("bitwise_xor", .bxor)])
    (hf : (op = .band → f = fun _ p q => p &&& q) ∧ (op = .bor → f = fun _ p q => p ||| q) ∧ (op = .bxor → f = fun _ p q => p ^^^ q))
    (t : IType) (ht : t ∈ itypes) (g : G) (hg : g ∈ gterms fn t) (x y : Int) :
    eval (env2 t x y) g = some (.i (codeOf t) (bvBin f t x y)) := by
  simp only [List.mem_cons, List.not_mem_nil, or_false, Prod.mk.injEq] at hfn
  rcases hfn with ⟨rfl, rfl⟩ | ⟨rfl, rfl⟩ | ⟨rfl, rfl⟩ <;>
    simp only [gterms, List.mem_cons, List.not_mem_nil, or_false] at hg <;> subst hg
  · rw [hf.1 rfl]; simp [eval, env2, a, b, evalBin, evalBinInt, (codeOf_itype t ht).1]
  · rw [hf.2.1 rfl]; simp [eval, env2, a, b, evalBin, evalBinInt, (codeOf_itype t ht).1]
  · rw [hf.2.2 rfl]; simp [eval, env2, a, b, evalBin, evalBinInt, (codeOf_itype t ht).1]

/-! ## shifts: the routed graph is `lshiftImpl` / `rshiftImpl`, hence the specification -/

theorem left_shift_graph_correct (t : IType) (ht : t ∈ itypes) (g : G) (hg : g ∈ gterms "bitwise_left_shift" t) (x y : Int)
    (hx : t.inRange x = true) (hy0 : 0 ≤ y) (hy1 : y < t.bits) :
    eval (env2 t x y) g = some (.i (codeOf t) (t.wrap (x * 2 ^ y.toNat))) := by
  have hb : t.bits ≤ 64 := by
    simp only [itypes, List.mem_cons, List.not_mem_nil, or_false] at ht
    rcases ht with rfl | rfl | rfl | rfl | rfl | rfl | rfl | rfl <;> simp
  have hb1 : 1 ≤ t.bits := by
    simp only [itypes, List.mem_cons, List.not_mem_nil, or_false] at ht
    rcases ht with rfl | rfl | rfl | rfl | rfl | rfl | rfl | rfl <;> simp
  have hvia : eval (env2 t x y) (shiftTerm .shl t (some 13)) = some (.i (codeOf t) (t.wrap (x * 2 ^ y.toNat))) := by
    have hy64 : wrapU 64 y = y := wrapU_id 64 y hy0 (by omega)
    have hny : ¬ ((64 : Int) ≤ y) := by omega
    have hny0 : ¬ (y < 0) := by omega
    have h := lshiftImpl_eq_spec t hb x y.toNat
    unfold lshiftImpl at h
    simp only [itypes, List.mem_cons, List.not_mem_nil, or_false] at ht
    rcases ht with rfl | rfl | rfl | rfl | rfl | rfl | rfl | rfl <;>
      simp [eval, env2, shiftTerm, a, b, cast, evalBin, evalBinInt, evalUn, castTo, itypeOfCode, codeOf, IType.wrap, hy64, hny, hny0] at h ⊢ <;>
      exact h
  by_cases hsg : t.signed = true
  · simp only [gterms, hsg, if_true, List.mem_cons, List.not_mem_nil, or_false] at hg
    subst hg; exact hvia
  · simp only [gterms, hsg, Bool.false_eq_true, if_false, List.mem_cons, List.not_mem_nil, or_false] at hg
    rcases hg with rfl | rfl
    · have hs : t.signed = false := by simpa using hsg
      have hny : ¬ ((t.bits : Int) ≤ y) := by omega
      have hny0 : ¬ (y < 0) := by omega
      simp [eval, env2, shiftTerm, a, b, evalBin, evalBinInt, (codeOf_itype t ht).1, hs, hny, hny0]
    · exact hvia

theorem right_shift_graph_correct (t : IType) (ht : t ∈ itypes) (g : G) (hg : g ∈ gterms "bitwise_right_shift" t) (x y : Int)
    (hx : t.inRange x = true) (hy0 : 0 ≤ y) (hy1 : y < t.bits)
    (hrs : t.signed = true → t.bits ≤ 32 ∨ 0 ≤ x) :
    eval (env2 t x y) g = some (.i (codeOf t) (x / 2 ^ y.toNat)) := by
  have hb : t.bits ≤ 64 := by
    simp only [itypes, List.mem_cons, List.not_mem_nil, or_false] at ht
    rcases ht with rfl | rfl | rfl | rfl | rfl | rfl | rfl | rfl <;> simp
  have hb1 : 1 ≤ t.bits := by
    simp only [itypes, List.mem_cons, List.not_mem_nil, or_false] at ht
    rcases ht with rfl | rfl | rfl | rfl | rfl | rfl | rfl | rfl <;> simp
  have hspec : rshiftImpl t x y.toNat = x / 2 ^ y.toNat := by
    cases hsg : t.signed
    · simp only [IType.inRange, hsg, Bool.false_eq_true, if_false, decide_eq_true_eq] at hx
      exact rshiftImpl_unsigned t hsg hb x _ hx.1 hx.2
    · simp only [IType.inRange, hsg, if_true, decide_eq_true_eq] at hx
      rcases hrs hsg with h32 | hnn
      · exact rshiftImpl_signed t hsg hb1 x _ (by omega) hx.1 hx.2
      · exact rshiftImpl_signed_nonneg t hsg hb1 hb x _ hnn hx.2
  have hvia : eval (env2 t x y) (shiftTerm .shr t (some 13)) = some (.i (codeOf t) (x / 2 ^ y.toNat)) := by
    have hy64 : wrapU 64 y = y := wrapU_id 64 y hy0 (by omega)
    have hny : ¬ ((64 : Int) ≤ y) := by omega
    have hny0 : ¬ (y < 0) := by omega
    unfold rshiftImpl at hspec
    simp only [itypes, List.mem_cons, List.not_mem_nil, or_false] at ht
    rcases ht with rfl | rfl | rfl | rfl | rfl | rfl | rfl | rfl <;>
      simp [eval, env2, shiftTerm, a, b, cast, evalBin, evalBinInt, evalUn, castTo, itypeOfCode, codeOf, IType.wrap, hy64, hny, hny0] at hspec ⊢ <;>
      exact hspec
  by_cases hsg : t.signed = true
  · simp only [gterms, hsg, if_true, List.mem_cons, List.not_mem_nil, or_false] at hg
    subst hg; exact hvia
  · simp only [gterms, hsg, Bool.false_eq_true, if_false, List.mem_cons, List.not_mem_nil, or_false] at hg
    rcases hg with rfl | rfl
    · have hs : t.signed = false := by simpa using hsg
      have hny : ¬ ((t.bits : Int) ≤ y) := by omega
      have hny0 : ¬ (y < 0) := by omega
      simp [eval, env2, shiftTerm, a, b, evalBin, evalBinInt, (codeOf_itype t ht).1, hs, hny, hny0]
    · exact hvia

/-- The excluded operand really fails in the exported graph: `int64`, `-8 >> 1`. -/
theorem right_shift_int64_graph_witness :
    eval (env2 ⟨64, true⟩ (-8) 1) (shiftTerm .shr ⟨64, true⟩ (some 13)) = some (.i 7 (2 ^ 63 - 4)) := by decide

/-! ## booleans -/

theorem bool_graph_correct (fn : String) (g : G) (hg : g ∈ gtermsBool fn) (p q : Bool) :
    eval [.b p, .b q] g = some (.b (
      if fn = "logical_and" ∨ fn = "bitwise_and" then p && q
      else if fn = "logical_or" ∨ fn = "bitwise_or" then p || q
      else if fn = "logical_xor" ∨ fn = "bitwise_xor" then p != q
      else if fn = "logical_not" ∨ fn = "bitwise_invert" then !p
      else if fn = "equal" then p == q
      else p != q)) := by
  unfold gtermsBool at hg
  split at hg <;> simp only [List.mem_cons, List.not_mem_nil, or_false] at hg <;> subst hg <;>
    (simp [eval, a, b, evalBin, evalBinBool, evalUn]; try (cases p <;> cases q <;> rfl))

/-! ## remainder -/

theorem bits_pos (t : IType) (ht : t ∈ itypes) : 1 ≤ t.bits ∧ t.bits ≤ 64 := by
  simp only [itypes, List.mem_cons, List.not_mem_nil, or_false] at ht
  rcases ht with rfl | rfl | rfl | rfl | rfl | rfl | rfl | rfl <;> simp

/-- The wrap of any integer lies in the dtype's range. -/
theorem wrap_inRange (t : IType) (hb1 : 1 ≤ t.bits) (v : Int) : t.inRange (t.wrap v) = true := by
  have hm : (0 : Int) < 2 ^ t.bits := by positivity
  have hpow : (2 ^ t.bits : Int) = 2 * 2 ^ (t.bits - 1) := by
    have : t.bits = (t.bits - 1) + 1 := by omega
    rw [this, Int.pow_succ]; simp; omega
  have h0 := Int.emod_nonneg v (Int.ne_of_gt hm)
  have h1 := Int.emod_lt_of_pos v hm
  unfold IType.wrap IType.inRange
  cases t.signed
  · simp only [Bool.false_eq_true, if_false, decide_eq_true_eq, wrapU]; exact ⟨h0, h1⟩
  · simp only [if_true, decide_eq_true_eq, wrapS]
    have hh : (2 ^ t.bits : Int) / 2 = 2 ^ (t.bits - 1) := by rw [hpow]; omega
    rw [hh]
    split <;> omega

/-- The truncating remainder stays in the dividend's range. -/
theorem tmod_inRange (t : IType) (x y : Int) (hx : t.inRange x = true) : t.inRange (Int.tmod x y) = true := by
  have habs : (Int.tmod x y).natAbs ≤ x.natAbs := by
    rw [Int.natAbs_tmod]; exact Nat.mod_le _ _
  have hnn : 0 ≤ x → 0 ≤ Int.tmod x y := fun h => Int.tmod_nonneg y h
  have hnp : x ≤ 0 → Int.tmod x y ≤ 0 := fun h => tmod_nonpos' x y h
  have hp : (0 : Int) < 2 ^ (t.bits - 1) := by positivity
  unfold IType.inRange at hx ⊢
  cases hs : t.signed
  · simp only [hs, Bool.false_eq_true, if_false, decide_eq_true_eq] at hx ⊢
    have := hnn hx.1
    omega
  · simp only [hs, if_true, decide_eq_true_eq] at hx ⊢
    rcases Int.le_total 0 x with h | h
    · have := hnn h; omega
    · have := hnp h; omega

/-- Every `Where`-routing type accepted for `t` is an integer type at least as wide that contains `t`'s range. -/
theorem wider_spec (t : IType) (w : Nat) (hw : w ∈ widerCodes t) :
    ∃ tw, itypeOfCode w = some tw ∧ w ≠ 9 ∧ t.bits ≤ tw.bits ∧ 1 ≤ tw.bits := by
  simp only [widerCodes, List.mem_map, List.mem_filter, Bool.and_eq_true, decide_eq_true_eq] at hw
  obtain ⟨tw, ⟨htw, hle, _⟩, rfl⟩ := hw
  exact ⟨tw, (codeOf_itype tw htw).1, (codeOf_itype tw htw).2, hle, (bits_pos tw htw).1⟩

theorem eval_bin {env : List SV} {op : BinOp} {x y : G} {u v : SV} (hx : eval env x = some u) (hy : eval env y = some v) :
    eval env (.bin op x y) = evalBin op u v := by simp [eval, hx, hy]

theorem eval_un {env : List SV} {op : UnOp} {x : G} {u : SV} (hx : eval env x = some u) :
    eval env (.un op x) = evalUn op u := by simp [eval, hx]

theorem eval_sel {env : List SV} {c x y : G} {cv : Bool} {u v : SV} (hc : eval env c = some (.b cv))
    (hx : eval env x = some u) (hy : eval env y = some v) :
    eval env (.sel c x y) = if sameType u v then some (if cv then u else v) else none := by
  simp [eval, hc, hx, hy, evalSel]

theorem eval_const0 (env : List SV) (k : Nat) (tk : IType) (hk : itypeOfCode k = some tk) (hk9 : k ≠ 9)
    (h0 : tk.inRange 0 = true) : eval env (.const k 0) = some (.i k 0) := by
  simp [eval, hk, hk9, h0]

theorem evalBin_int (op : BinOp) (c : Nat) (t : IType) (hc : itypeOfCode c = some t) (v w : Int) :
    evalBin op (.i c v) (.i c w) = evalBinInt op t c v w := by simp [evalBin, hc]

theorem castTo_int (k c : Nat) (tk : IType) (hk : itypeOfCode k = some tk) (hk9 : k ≠ 9) (v : Int) :
    castTo k (.i c v) = some (.i k (tk.wrap v)) := by simp [castTo, hk, hk9]

theorem ite_sv (c : Nat) (P : Prop) [Decidable P] (s r : Int) :
    (if decide P = true then SV.i c s else SV.i c r) = SV.i c (if P then s else r) := by
  by_cases h : P <;> simp [h]

/-- The condition, the corrected value and the selection of the `remainder` graph, for every
computation routing `cv` and selection routing `wv` the model accepts. -/
theorem remTerm_eval (t : IType) (ht : t ∈ itypes) (cv : Option Nat) (hcv : cv ∈ viaI64)
    (wv : Option Nat) (hwv : wv ∈ none :: (widerCodes t).map some) (x y : Int)
    (hx : t.inRange x = true) (hy : t.inRange y = true) (hy0 : y ≠ 0)
    (hu : t = ⟨64, false⟩ → y < 2 ^ 63) :
    eval (env2 t x y) (remTerm t cv wv) = some (.i (codeOf t)
      (if Int.tmod x y ≠ 0 ∧ ((Int.tmod x y < 0) ≠ (y < 0)) then t.wrap (Int.tmod x y + y) else Int.tmod x y)) := by
  obtain ⟨hcode, hc9⟩ := codeOf_itype t ht
  obtain ⟨hb1, hb64⟩ := bits_pos t ht
  have hr := tmod_inRange t x y hx
  have ea : eval (env2 t x y) a = some (.i (codeOf t) x) := by simp [eval, env2, a]
  have eb : eval (env2 t x y) b = some (.i (codeOf t) y) := by simp [eval, env2, b]
  have er : eval (env2 t x y) (.bin .modF a b) = some (.i (codeOf t) (Int.tmod x y)) := by
    rw [eval_bin ea eb, evalBin_int _ _ t hcode]; simp [evalBinInt, hy0]
  have hru : t = ⟨64, false⟩ → Int.tmod x y < 2 ^ 63 := by
    intro h; subst h
    simp only [IType.inRange, Bool.false_eq_true, if_false, decide_eq_true_eq] at hx hy
    have hypos : 0 < y := by omega
    have := Int.tmod_lt_of_pos x hypos
    have := hu rfl
    omega
  have w64r := wrap64_id t ht _ hr hru
  have w64y := wrap64_id t ht y hy hu
  have h64 : itypeOfCode 7 = some ⟨64, true⟩ := rfl
  have hparts : ∃ k, eval (env2 t x y) (ocast cv (.bin .modF a b)) = some (.i k (Int.tmod x y)) ∧
      eval (env2 t x y) (ocast cv b) = some (.i k y) ∧ (∃ tk, itypeOfCode k = some tk ∧ tk.inRange 0 = true) ∧ k ≠ 9 ∧
      k = routeCode t cv ∧
      eval (env2 t x y) (remSum t cv) = some (.i (codeOf t) (t.wrap (Int.tmod x y + y))) := by
    simp only [viaI64, List.mem_cons, List.not_mem_nil, or_false] at hcv
    rcases hcv with rfl | rfl
    · refine ⟨codeOf t, by simpa [ocast] using er, by simpa [ocast] using eb, ⟨t, hcode, ?_⟩, hc9, rfl, ?_⟩
      · simp only [itypes, List.mem_cons, List.not_mem_nil, or_false] at ht
        rcases ht with rfl | rfl | rfl | rfl | rfl | rfl | rfl | rfl <;> simp [IType.inRange]
      · show eval _ (G.bin .add (.bin .modF a b) b) = _
        rw [eval_bin er eb, evalBin_int _ _ t hcode]; rfl
    · have ecr : eval (env2 t x y) (cast 7 (.bin .modF a b)) = some (.i 7 (Int.tmod x y)) := by
        unfold cast; rw [eval_un er]; simp only [evalUn]; rw [castTo_int 7 _ _ h64 (by decide), w64r]
      have ecb : eval (env2 t x y) (cast 7 b) = some (.i 7 y) := by
        unfold cast; rw [eval_un eb]; simp only [evalUn]; rw [castTo_int 7 _ _ h64 (by decide), w64y]
      refine ⟨7, by simpa [ocast] using ecr, by simpa [ocast] using ecb, ⟨⟨64, true⟩, rfl, by decide⟩, by decide, rfl, ?_⟩
      show eval _ (cast (codeOf t) (.bin .add (cast 7 (.bin .modF a b)) (cast 7 b))) = _
      have eadd : eval (env2 t x y) (.bin .add (cast 7 (.bin .modF a b)) (cast 7 b)) =
          some (.i 7 ((⟨64, true⟩ : IType).wrap (Int.tmod x y + y))) := by
        rw [eval_bin ecr ecb, evalBin_int _ _ _ h64]; rfl
      unfold cast at eadd ⊢
      rw [eval_un eadd]; simp only [evalUn]
      rw [castTo_int _ _ _ hcode hc9, wrap_route t ⟨64, true⟩ hb64]
  obtain ⟨k, ekr, ekb, ⟨tk, hk, hk0⟩, hk9, hkdef, esum⟩ := hparts
  have ek0 := eval_const0 (env2 t x y) k tk hk hk9 hk0
  have econd : eval (env2 t x y) (remCond cv k) =
      some (.b (decide (Int.tmod x y ≠ 0 ∧ ((Int.tmod x y < 0) ≠ (y < 0))))) := by
    have e1 : eval (env2 t x y) (.bin .eq (ocast cv (.bin .modF a b)) (.const k 0)) = some (.b (Int.tmod x y == 0)) := by
      rw [eval_bin ekr ek0, evalBin_int _ _ tk hk]; rfl
    have e2 : eval (env2 t x y) (.bin .lt (ocast cv (.bin .modF a b)) (.const k 0)) = some (.b (decide (Int.tmod x y < 0))) := by
      rw [eval_bin ekr ek0, evalBin_int _ _ tk hk]; rfl
    have e3 : eval (env2 t x y) (.bin .lt (ocast cv b) (.const k 0)) = some (.b (decide (y < 0))) := by
      rw [eval_bin ekb ek0, evalBin_int _ _ tk hk]; rfl
    have e4 := eval_bin (op := .eq) e2 e3
    have e5 := eval_un (op := .not) e1
    have e6 : eval (env2 t x y) (.un .not (.bin .eq (.bin .lt (ocast cv (.bin .modF a b)) (.const k 0)) (.bin .lt (ocast cv b) (.const k 0)))) =
        some (.b (!(decide (Int.tmod x y < 0) == decide (y < 0)))) := by
      rw [eval_un (u := .b (decide (Int.tmod x y < 0) == decide (y < 0))) (by rw [e4]; rfl)]; rfl
    have e7 : eval (env2 t x y) (.un .not (.bin .eq (ocast cv (.bin .modF a b)) (.const k 0))) = some (.b (!(Int.tmod x y == 0))) := by
      rw [e5]; rfl
    unfold remCond
    rw [eval_bin e7 e6]
    simp only [evalBin, evalBinBool]
    congr 2
    by_cases h1 : Int.tmod x y = 0 <;> by_cases h2 : Int.tmod x y < 0 <;> by_cases h3 : y < 0 <;> simp [h1, h2, h3]
  have hsum_in : t.inRange (t.wrap (Int.tmod x y + y)) = true := wrap_inRange t hb1 _
  simp only [List.mem_cons, List.mem_map] at hwv
  unfold remTerm
  simp only [← hkdef]
  rcases hwv with rfl | ⟨w, hw, rfl⟩
  · rw [eval_sel econd esum er]
    simp only [sameType, beq_self_eq_true, if_true]
    rw [ite_sv]
  · obtain ⟨tw, hwc, hw9, hbits, htw1⟩ := wider_spec t w hw
    have ews : eval (env2 t x y) (cast w (remSum t cv)) = some (.i w (tw.wrap (t.wrap (Int.tmod x y + y)))) := by
      unfold cast at esum ⊢
      rw [eval_un esum]; simp only [evalUn]; rw [castTo_int w _ _ hwc hw9]
    have ewr : eval (env2 t x y) (cast w (.bin .modF a b)) = some (.i w (tw.wrap (Int.tmod x y))) := by
      unfold cast; rw [eval_un er]; simp only [evalUn]; rw [castTo_int w _ _ hwc hw9]
    have esel := eval_sel econd ews ewr
    simp only [sameType, beq_self_eq_true, if_true] at esel
    unfold cast at esel ⊢
    rw [eval_un esel]; simp only [evalUn]
    by_cases hc : Int.tmod x y ≠ 0 ∧ ((Int.tmod x y < 0) ≠ (y < 0))
    · rw [if_pos (decide_eq_true hc), if_pos hc,
        castTo_int _ _ _ hcode hc9, wrap_route t tw hbits, wrap_id t hb1 _ hsum_in]
    · rw [if_neg (by rw [decide_eq_false hc]; decide), if_neg hc,
        castTo_int _ _ _ hcode hc9, wrap_route t tw hbits, wrap_id t hb1 _ hr]


/-- **`remainder`, graph level**: every accepted shape of the exported graph yields the standard's
remainder (sign of the divisor) for all in-range operands with a non-zero divisor, at every integer
dtype — except `uint64` divisors `≥ 2^63`, which the routing through `int64` misreads as negative
(recorded finding). -/
theorem remainder_graph_correct (t : IType) (ht : t ∈ itypes) (g : G) (hg : g ∈ gterms "remainder" t) (x y : Int)
    (hx : t.inRange x = true) (hy : t.inRange y = true) (hy0 : y ≠ 0)
    (hu : t = ⟨64, false⟩ → y < 2 ^ 63) :
    eval (env2 t x y) g = some (.i (codeOf t) (Int.fmod x y)) := by
  simp only [gterms, List.mem_flatten, List.mem_map] at hg
  obtain ⟨l, ⟨cv, hcv, rfl⟩, hg⟩ := hg
  simp only [List.mem_map] at hg
  obtain ⟨wv, hwv, rfl⟩ := hg
  rw [remTerm_eval t ht cv hcv wv hwv x y hx hy hy0 hu]
  congr 2
  obtain ⟨hb1, _⟩ := bits_pos t ht
  cases hs : t.signed
  · -- unsigned: no correction is ever taken and the truncating remainder is the remainder
    simp only [IType.inRange, hs, Bool.false_eq_true, if_false, decide_eq_true_eq] at hx hy
    have hr0 : 0 ≤ Int.tmod x y := Int.tmod_nonneg y hx.1
    have : ¬ (Int.tmod x y ≠ 0 ∧ ((Int.tmod x y < 0) ≠ (y < 0))) := by
      intro h
      have h1 : ¬ (Int.tmod x y < 0) := by omega
      have h2 : ¬ (y < 0) := by omega
      exact h.2 (by simp [h1, h2])
    rw [if_neg this]
    exact remainder_unsigned x y hx.1 hy.1
  · simp only [IType.inRange, hs, if_true, decide_eq_true_eq] at hy
    have h := remainderImpl_correct t.bits hb1 x y hy0 hy.1 hy.2
    unfold remainderImpl at h
    simp only [IType.wrap, hs, if_true]
    exact h

/-- The excluded operands really fail in the exported graph: `uint64`, `5 % (2^63 + 1)`. -/
theorem remainder_uint64_graph_witness :
    eval (env2 ⟨64, false⟩ 5 (2 ^ 63 + 1)) (remTerm ⟨64, false⟩ (some 7) (some 7)) ≠ some (.i 13 (Int.fmod 5 (2 ^ 63 + 1))) := by
  decide

end Ndx.Graph
