import NdonnxVerif.Props.C09Scatter
import NdonnxVerif.Props.C08Full
import NdonnxVerif.Props.C09MaskScatter
/-!
# C09 / C08 — laws relating the exported read and write terms

Read after write (basic indices and boolean masks) and last-write-wins, stated on the terms the check compares with the
exported graphs: the exported `getitem` / mask-selection term applied to the exported assignment term.
-/
namespace Ndx.TGraph
open Ndx Ndx.Spec Ndx.C08

/-- **C09 / C08, read after write, exported graphs.**  Reading `x[I]` from the result of `x[I] = v` returns the broadcast
update: the exported `getitem` term applied to the exported `setitem` term evaluates, for every admissible basic index,
every data and every update that broadcasts into the selection, to `v` broadcast to the selection's shape. -/
theorem read_after_write (env : List (Tensor Int)) (x upd : TG) (I : List Ix) (T U : Tensor Int)
    (hT : x.eval env = T) (hU : upd.eval env = U)
    (h : AdmissibleN I T.shape) (hr : T.rank ≠ 0)
    (hb : bshape U.shape (Spec.getitem (coords T.shape) I).shape = some (Spec.getitem (coords T.shape) I).shape) :
    ((getitemGraph (setitemGraph x upd T.rank (I.map normE)) (I.map normE)).eval env).Equiv
      (expandTo U (Spec.getitem (coords T.shape) I).shape) := by
  obtain ⟨hs, hhit, _⟩ := exported_setitem_graph_correct env x upd I T U hT hU h hr hb
  generalize hY : (setitemGraph x upd T.rank (I.map normE)).eval env = Y at hs hhit
  rw [getitemGraph_eval, hY]
  have hY' : AdmissibleN I Y.shape := hs ▸ h
  obtain ⟨r, hr1, hr2⟩ := getitem_basic_noEllipsis Y I hY'
  have hnorm := normaliseIndex_admN Y.rank I Y.shape rfl hY'
  simp only [Ndx.getitem, hnorm, bind, Except.bind] at hr1
  injection hr1 with hr1
  subst hr1
  refine equiv_trans hr2 ?_
  -- NumPy's x[I] on Y reads Y at the positions x[I] selects on the coordinate grid
  have hrk : Y.rank = T.rank := by simp [Tensor.rank, hs]
  have hsel_shape : (Spec.getitem Y I).shape = (Spec.getitem (coords T.shape) I).shape := by
    simp only [Spec.getitem, hs, hrk]; rfl
  have hsel_get : ∀ o, (Spec.getitem Y I).get o = Y.get ((Spec.getitem (coords T.shape) I).get o) := by
    intro o; simp only [Spec.getitem, hs, hrk, coords]; rfl
  refine ⟨by rw [hsel_shape]; rfl, ?_⟩
  intro o ho
  rw [hsel_get, hhit o (hsel_shape ▸ ho)]

/-- **Read after write through a boolean mask.**  `y = x; y[mask] = v; y[mask]` yields `v` at every selected position:
the exported mask-selection term applied to the exported mask-assignment term evaluates to a tensor of the selection's
shape filled with the (rank-0) update. -/
theorem mask_read_after_write (env : List (Tensor Int)) (x m upd : TG) (rank k : Nat)
    (hr : (x.eval env).rank = rank) (hpos : 0 < rank)
    (hk : (m.eval env).rank = k) (hle : k ≤ rank)
    (hs : (m.eval env).shape = (x.eval env).shape.take k)
    (hz : 2 ≤ k → sizeOf' ((x.eval env).shape.drop k) ≠ 0)
    (hu : (upd.eval env).shape = []) :
    ((maskGraph (setitemMaskGraph x m upd rank k) m k).eval env).Equiv
      ⟨((allIdx (m.eval env).shape).filter (fun ix => decide ((m.eval env).get ix ≠ 0))).length :: (x.eval env).shape.drop k,
       fun _ => (upd.eval env).get []⟩ := by
  obtain ⟨hys, hyg⟩ := setitemMaskGraph_scalar env x m upd rank k hr hpos hk hle hs hz hu
  have hsel := exported_mask_graph_correct env (setitemMaskGraph x m upd rank k) m k hk
    (by
      have : ((setitemMaskGraph x m upd rank k).eval env).rank = rank := by simp only [Tensor.rank, hys]; exact hr
      omega) (by rw [hys]; exact hs) (by rw [hys]; exact hz)
  refine equiv_trans hsel ?_
  generalize hY : (setitemMaskGraph x m upd rank k).eval env = Y at hys hyg ⊢
  generalize hM : m.eval env = M at *
  simp only [Spec.maskSelect, maskOf]
  have hkr : (⟨M.shape, fun ix => decide (M.get ix ≠ 0)⟩ : Tensor Bool).rank = k := hk
  refine ⟨by rw [hkr, hys], ?_⟩
  intro ix hix
  simp only
  -- the selected leading coordinates satisfy the mask
  generalize hsel' : (allIdx M.shape).filter (fun ix => decide (M.get ix ≠ 0)) = sel at hix ⊢
  match ix, hix with
  | a :: t, hix =>
    simp only [List.headD_cons, List.tail_cons]
    have ha : a < sel.length := hix.1
    have hmem : sel.getD a [] ∈ sel := by
      rw [List.getD_eq_getElem?_getD, List.getElem?_eq_getElem ha]; simp
    have hall : ∀ u ∈ sel, InRange M.shape u ∧ M.get u ≠ 0 := by
      intro u hu'
      rw [← hsel', List.mem_filter] at hu'
      exact ⟨mem_allIdx_inRange _ _ hu'.1, by simpa using hu'.2⟩
    have hAin := (hall _ hmem).1
    have hmask : M.get (sel.getD a []) ≠ 0 := (hall _ hmem).2
    have hlenA : (sel.getD a []).length = k := by rw [C11.inRange_length _ _ hAin]; exact hk
    have hin : InRange (x.eval env).shape (sel.getD a [] ++ t) := by
      have ht : InRange ((x.eval env).shape.drop k) t := by
        have := hix.2
        have hkr' : (⟨M.shape, fun ix => decide (M.get ix ≠ 0)⟩ : Tensor Bool).rank = k := hkr
        simp only [hys] at this
        rw [show (⟨M.shape, fun ix => decide (M.get ix ≠ 0)⟩ : Tensor Bool).rank = M.shape.length from rfl] at this
        rw [show M.shape.length = k from hk] at this
        exact this
      have hsplit : (x.eval env).shape = M.shape ++ (x.eval env).shape.drop k := by
        rw [hs]; simp
      rw [hsplit]
      exact inRange_append _ _ _ _ hAin ht
    rw [hyg _ hin]
    have htk : (sel.getD a [] ++ t).take k = sel.getD a [] := by rw [← hlenA]; simp
    rw [htk, if_pos hmask]


/-- **Last write wins, exported graphs.**  `x[I] = v1; x[I] = v2` is `x[I] = v2`: the exported assignment term applied to
the exported assignment term evaluates to the single assignment of the second update. -/
theorem write_write (env : List (Tensor Int)) (x u1 u2 : TG) (I : List Ix) (T U1 U2 : Tensor Int)
    (hT : x.eval env = T) (hU1 : u1.eval env = U1) (hU2 : u2.eval env = U2)
    (h : AdmissibleN I T.shape) (hr : T.rank ≠ 0)
    (hb1 : bshape U1.shape (Spec.getitem (coords T.shape) I).shape = some (Spec.getitem (coords T.shape) I).shape)
    (hb2 : bshape U2.shape (Spec.getitem (coords T.shape) I).shape = some (Spec.getitem (coords T.shape) I).shape) :
    ((setitemGraph (setitemGraph x u1 T.rank (I.map normE)) u2 T.rank (I.map normE)).eval env).Equiv
      ((setitemGraph x u2 T.rank (I.map normE)).eval env) := by
  obtain ⟨s1, _, f1⟩ := exported_setitem_graph_correct env x u1 I T U1 hT hU1 h hr hb1
  obtain ⟨s2, h2, f2⟩ := exported_setitem_graph_correct env x u2 I T U2 hT hU2 h hr hb2
  generalize hY : (setitemGraph x u1 T.rank (I.map normE)).eval env = Y at s1 f1
  have hYr : Y.rank = T.rank := by simp [Tensor.rank, s1]
  have hA : AdmissibleN I Y.shape := s1 ▸ h
  have hrY : Y.rank ≠ 0 := hYr ▸ hr
  obtain ⟨s3, h3, f3⟩ := exported_setitem_graph_correct env (setitemGraph x u1 T.rank (I.map normE)) u2 I Y U2 hY hU2 hA hrY
    (by rw [s1]; exact hb2)
  rw [hYr, s1] at s3 h3 f3
  refine ⟨s3.trans s2.symm, ?_⟩
  intro p hp
  rw [s3] at hp
  by_cases hsel : ∃ o, InRange (Spec.getitem (coords T.shape) I).shape o ∧ (Spec.getitem (coords T.shape) I).get o = p
  · obtain ⟨o, ho, rfl⟩ := hsel
    rw [h3 o ho, h2 o ho]
  · have hfree : ∀ o, InRange (Spec.getitem (coords T.shape) I).shape o → (Spec.getitem (coords T.shape) I).get o ≠ p :=
      fun o ho he => hsel ⟨o, ho, he⟩
    rw [f3 p hp hfree, f1 p hp hfree, f2 p hp hfree]


end Ndx.TGraph
