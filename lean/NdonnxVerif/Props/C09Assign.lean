import NdonnxVerif.Lemmas.Positions
/-!
# C09 — `x[index] = v` on every rank writes exactly the positions NumPy's `x[index]` selects
-/
namespace Ndx.TGraph
open Ndx Ndx.Spec Ndx.C08

theorem normaliseIndex_admN (rank : Nat) (I : List Ix) (sh : List Nat) (hr : sh.length = rank) (h : AdmissibleN I sh) :
    normaliseIndex rank I = .ok (I.map normE) := by
  obtain ⟨hent, hlen, _⟩ := admN_facts I sh h
  have hne : I.any isEllipsis = false := by
    rw [List.any_eq_false]
    intro e he
    rcases hent e he with ⟨i, rfl⟩ | ⟨a, b, c, rfl⟩ | rfl <;> simp [isEllipsis]
  simp only [normaliseIndex, constructIndex, hne, Bool.false_eq_true, if_false, normaliseAll_basicN I hent, bind, Except.bind]
  have hf : ((I.map normE).filter (fun x => !isNewaxis x)).length = rank := by
    simpa [dropNew, hr] using hlen
  simp [hf]

/-- **C09, assignment semantics on every rank.**  `x[index] = v` for a basic index (in-range integers, in-bounds slices,
`None`) on an array of rank ≥ 1: the model of what ndonnx emits (index applied to the coordinate grid, `Expand` of the
updates, `ScatterND`) keeps the shape, writes the broadcast update at exactly the positions **NumPy's `x[index]` selects**
(`Spec.getitem` applied to the coordinate grid) and leaves every other element untouched. -/
theorem setitem_basic_correct (t : Tensor α) (I : List Ix) (upd : Tensor α) (h : AdmissibleN I t.shape) (hr : t.rank ≠ 0) :
    ∃ r, setitem t I upd = .ok r ∧ r.shape = t.shape ∧
      (∀ o, InRange (Spec.getitem (coords t.shape) I).shape o →
        r.get ((Spec.getitem (coords t.shape) I).get o) = (expandTo upd (Spec.getitem (coords t.shape) I).shape).get o) ∧
      (∀ p, (∀ o, InRange (Spec.getitem (coords t.shape) I).shape o → (Spec.getitem (coords t.shape) I).get o ≠ p) →
        r.get p = t.get p) := by
  have hnorm := normaliseIndex_admN t.rank I t.shape rfl h
  -- the selected positions: model = NumPy on the coordinate grid
  have hC : AdmissibleN I (coords t.shape).shape := h
  obtain ⟨r0, hr0, he0⟩ := getitem_basic_noEllipsis (coords t.shape) I hC
  have hnormC : normaliseIndex (coords t.shape).rank I = .ok (I.map normE) := hnorm
  simp only [Ndx.getitem, hnormC, bind, Except.bind] at hr0
  injection hr0 with hr0
  subst hr0
  obtain ⟨hs, hg⟩ := he0
  -- NumPy's reading in axis-by-axis form (for injectivity)
  obtain ⟨s1, s2⟩ := basic_eq_modelN I t.shape h
  obtain ⟨hent, _, _⟩ := admN_facts I t.shape h
  have hnoE : ∀ e ∈ I, e ≠ .ellipsis := by
    intro e he
    rcases hent e he with ⟨i, rfl⟩ | ⟨a, b, c, rfl⟩ | rfl <;> simp
  have hSshape : (Spec.getitem (coords t.shape) I).shape = modelS' (I.map normE) t.shape := by
    simp only [Spec.getitem, expand_noEllipsis _ I hnoE]; exact s1
  have hSget : ∀ o, InRange (modelS' (I.map normE) t.shape) o →
      (Spec.getitem (coords t.shape) I).get o = modelF' (I.map normE) t.shape o := by
    intro o ho
    simp only [Spec.getitem, expand_noEllipsis _ I hnoE, coords]
    exact s2 o ho
  have hinj : ((allIdx (getitemCore (coords t.shape) (I.map normE)).shape).map (getitemCore (coords t.shape) (I.map normE)).get).Nodup := by
    apply nodup_map_on _ _ (allIdx_nodup _)
    intro a ha b hb hab
    have ha' := mem_allIdx_inRange _ _ ha
    have hb' := mem_allIdx_inRange _ _ hb
    rw [hg a ha', hg b hb'] at hab
    rw [hs, hSshape] at ha' hb'
    rw [hSget a ha', hSget b hb'] at hab
    exact modelF'_injective I t.shape h a b ha' hb' hab
  have hok : setitem t I upd = .ok (scatterND t (setitemWrites t (I.map normE) upd)) := by
    simp only [setitem, hr, if_false, hnorm, bind, Except.bind]
  refine ⟨_, hok, rfl, ?_, ?_⟩
  · intro o ho
    have ho' : InRange (getitemCore (coords t.shape) (I.map normE)).shape o := hs ▸ ho
    have := C09.setitem_hit t I upd _ hr hok (I.map normE) hnorm hinj o (inRange_mem_allIdx _ _ ho')
    rw [hg o ho', hs] at this
    exact this
  · intro p hp
    apply C09.setitem_frame t I upd _ hr hok (I.map normE) hnorm p
    intro o ho
    have ho' := mem_allIdx_inRange _ _ ho
    rw [hg o ho']
    exact hp o (hs ▸ ho')

/-- Non-vacuity: `x[1:, ::-1] = v` on a 2×3 array is an admissible assignment. -/
example : AdmissibleN [.slice (some 1) none none, .slice none none (some (-1))] [2, 3] := by
  refine ⟨⟨?_, by decide⟩, ⟨?_, by decide⟩, trivial⟩
  · refine ⟨by decide, ?_, ?_⟩ <;> intro v hv <;> simp at hv <;> subst_vars <;> decide
  · refine ⟨by decide, ?_, ?_⟩ <;> intro v hv <;> simp at hv

example : ((setitem (tokens [2, 3]) [.slice (some 1) none none, .slice none none (some (-1))] ⟨[3], fun ix => 10 + ix.headD 0⟩).toOption.map Tensor.toFlat)
    = some [0, 1, 2, 12, 11, 10] := by decide

end Ndx.TGraph
