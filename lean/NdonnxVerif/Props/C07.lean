import NdonnxVerif.Lemmas.HeapSim
/-!
# C07 — constant folding is complete and every reported value is sound

Statements over *every* history of the propagation state machine (`Ndx.Heap.run`), for arbitrary
value types and arbitrary operator semantics (`sem`), with and without onnxruntime.
-/
namespace Ndx.C07
open Ndx.Heap
variable {Val : Type} (sem : String → List Val → Option Val)

/-- **Soundness.** In every reachable heap, a reported value is what the cell's graph variable
denotes under *every* assignment of the placeholders. -/
theorem sound (ort : Bool) (steps : List (Step Val)) (h : Heap Val)
    (hrun : run sem ort steps [] = some h) :
    ∀ c ∈ h, ∀ v, c.eager = some v → ∀ env, eval sem env c.var = some v :=
  closed_sound sem h (run_closed sem ort steps [] h closed_nil hrun)

/-- **No value for anything that depends on a placeholder.** A cell that reports a value is a
`Constant`: its term mentions no placeholder at all. -/
theorem taint (ort : Bool) (steps : List (Step Val)) (h : Heap Val)
    (hrun : run sem ort steps [] = some h) :
    ∀ c ∈ h, c.eager ≠ none → c.var.inputs = [] ∧ c.var.isConst = true := by
  intro c hc hne
  cases he : c.eager with
  | none => exact absurd he hne
  | some v =>
    have := run_closed sem ort steps [] h closed_nil hrun c hc v he
    rw [this]; exact ⟨rfl, rfl⟩

/-- **Completeness, one step.** With onnxruntime present, a primitive whose argument cells all
hold data returns a cell that holds data and is a `Constant` (or the kernel itself fails). -/
theorem complete_step (h h' : Heap Val) (op : String) (args : List Nat) (vs : List Val)
    (hall : allEager h args = some vs) (hstep : step sem true h (.prim op args) = some h') :
    ∃ v, sem op vs = some v ∧ h' = h ++ [⟨.const v, some v⟩] := by
  simp only [step, resolve, stepBase, if_true, hall] at hstep
  cases hv : varsOf h args with
  | none => simp [hv] at hstep
  | some vars =>
    simp only [hv, Option.bind_some] at hstep
    cases hs : sem op vs with
    | none => simp [hs] at hstep
    | some v => simp only [hs, Option.bind_some, Option.some.injEq] at hstep; exact ⟨v, rfl, hstep.symm⟩

/-- Histories without placeholders. -/
def NoPlaceholder : List (Step Val) → Prop
  | [] => True
  | .placeholder _ :: _ => False
  | _ :: ss => NoPlaceholder ss

def AllEager (h : Heap Val) : Prop := ∀ c ∈ h, c.eager ≠ none

theorem allEager_of_AllEager (h : Heap Val) (ha : AllEager h) :
    ∀ (args : List Nat) (vars : List (Expr Val)), varsOf h args = some vars →
      ∃ vs, allEager h args = some vs := by
  intro args
  induction args with
  | nil => intro _ _; exact ⟨[], rfl⟩
  | cons r rs ih =>
    intro vars hv
    simp only [varsOf] at hv
    cases hc : h[r]? with
    | none => simp [hc] at hv
    | some c =>
      simp only [hc, Option.bind_some] at hv
      cases hrs : varsOf h rs with
      | none => simp [hrs] at hv
      | some es =>
        obtain ⟨ws, hws⟩ := ih es hrs
        cases he : c.eager with
        | none => exact absurd he (ha c (List.mem_of_getElem? hc))
        | some v => exact ⟨v :: ws, by simp [allEager, hc, he, hws]⟩

theorem stepBase_allEager (h h' : Heap Val) (s : Step Val) (hnp : ∀ n, s ≠ .placeholder n)
    (ha : AllEager h) (hstep : stepBase sem true h s = some h') : AllEager h' := by
  cases s with
  | guarded op args g choice => simp [stepBase] at hstep
  | guarded2 op a b chA chB => simp [stepBase] at hstep
  | data v =>
    simp only [stepBase, Option.some.injEq] at hstep; subst hstep
    intro c hc; rcases mem_append_single hc with hc | hc
    · exact ha c hc
    · subst hc; simp
  | placeholder n => exact absurd rfl (hnp n)
  | prim op args =>
    simp only [stepBase, if_true] at hstep
    cases hv : varsOf h args with
    | none => simp [hv] at hstep
    | some vars =>
      simp only [hv, Option.bind_some] at hstep
      obtain ⟨vs, hvs⟩ := allEager_of_AllEager h ha args vars hv
      simp only [hvs] at hstep
      cases hs : sem op vs with
      | none => simp [hs] at hstep
      | some v =>
        simp only [hs, Option.bind_some, Option.some.injEq] at hstep; subst hstep
        intro c hc; rcases mem_append_single hc with hc | hc
        · exact ha c hc
        · subst hc; simp
  | copy r =>
    simp only [stepBase] at hstep
    cases hr : h[r]? with
    | none => simp [hr] at hstep
    | some c0 =>
      simp only [hr, Option.bind_some, Option.some.injEq] at hstep; subst hstep
      intro c hc; rcases mem_append_single hc with hc | hc
      · exact ha c hc
      · subst hc
        cases he : c0.eager with
        | none => exact absurd he (ha c0 (List.mem_of_getElem? hr))
        | some v => simp
  | set dst src =>
    simp only [stepBase] at hstep
    cases hr : h[src]? with
    | none => simp [hr] at hstep
    | some c0 =>
      simp only [hr, Option.bind_some] at hstep
      split at hstep
      · simp only [Option.some.injEq] at hstep; subst hstep
        intro c hc
        rcases List.mem_or_eq_of_mem_set hc with hc | hc
        · exact ha c hc
        · subst hc; exact ha c0 (List.mem_of_getElem? hr)
      · simp at hstep

theorem resolve_not_placeholder (h : Heap Val) (s : Step Val) (hnp : ∀ n, s ≠ .placeholder n) :
    ∀ n, resolve h s ≠ .placeholder n := by
  intro n
  cases s with
  | guarded op args g choice =>
    simp only [resolve]
    intro hh
    split at hh
    · split at hh
      · split at hh <;> cases hh
      · cases hh
    · cases hh
  | guarded2 op a b chA chB =>
    simp only [resolve]
    intro hh
    split at hh
    · split at hh
      · cases hh
      · split at hh <;> cases hh
    · cases hh
  | data v => simp [resolve]
  | placeholder m => exact absurd rfl (hnp m)
  | prim op args => simp [resolve]
  | copy r => simp [resolve]
  | set d s' => simp [resolve]

theorem step_allEager (h h' : Heap Val) (s : Step Val) (hnp : ∀ n, s ≠ .placeholder n)
    (ha : AllEager h) (hstep : step sem true h s = some h') : AllEager h' :=
  stepBase_allEager sem h h' (resolve h s) (resolve_not_placeholder h s hnp) ha hstep

/-- **Completeness over histories.** With onnxruntime present, a history that creates no
placeholder leaves *every* cell holding data, and every cell is a `Constant` — so exporting any of
them yields a graph of constants only. -/
theorem complete : ∀ (steps : List (Step Val)) (h h' : Heap Val), NoPlaceholder steps →
    AllEager h → Closed h → run sem true steps h = some h' →
    ∀ c ∈ h', c.eager ≠ none ∧ c.var.isConst = true := by
  intro steps
  induction steps with
  | nil =>
    intro h h' _ ha hc hr; simp [run] at hr; subst hr
    intro c hm
    refine ⟨ha c hm, ?_⟩
    cases he : c.eager with
    | none => exact absurd he (ha c hm)
    | some v => rw [hc c hm v he]; rfl
  | cons s ss ih =>
    intro h h' hnp ha hc hr
    simp only [run] at hr
    cases h1 : step sem true h s with
    | none => simp [h1] at hr
    | some hm =>
      simp only [h1, Option.bind_some] at hr
      have hs : ∀ n, s ≠ .placeholder n := by
        intro n hn; subst hn; exact hnp
      have hnp' : NoPlaceholder ss := by
        cases s <;> first | exact hnp | exact absurd rfl (hs _)
      exact ih hm h' hnp' (step_allEager sem h hm s hs ha h1) (step_closed sem true h hm s hc h1) hr

/-- Non-vacuity: a concrete history with data, a primitive, a copy and an in-place update runs,
and mixing in a placeholder leaves the derived cell without a value. -/
example : (run (fun _ (vs : List Int) => some vs.sum) true
    [.data 1, .data 2, .prim "Add" [0, 1], .copy 2, .set 0 3] []).map (·.map (·.eager))
    = some [some 3, some 2, some 3, some 3] := by decide
example : (run (fun _ (vs : List Int) => some vs.sum) true
    [.data 1, .placeholder "x", .prim "Add" [0, 1], .set 0 2] []).map (·.map (·.eager))
    = some [none, none, none] := by decide

end Ndx.C07
