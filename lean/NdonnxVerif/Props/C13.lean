import Mathlib.Tactic.Linarith
import NdonnxVerif.Model.Index
/-!
# C13 — creation functions (what is arithmetic): `arange`, `eye`

`arange(start, stop, step)` emits ONNX `Range`, whose length is `rangeLen start stop step`
(`max(ceil((stop − start) / step), 0)`).  For every integer start/stop and non-zero step the emitted
elements `start + i·step`, `i < rangeLen`, are exactly the members of Python's `range`: all of them lie
on the correct side of `stop`, and the next one would not.  `eye(n, m, k)` has ones exactly on the
`k`-th diagonal.
-/
namespace Ndx.C13
open Ndx

theorem rangeLen_pos_spec (s e st : Int) (hst : 0 < st) :
    (∀ i : Nat, i < rangeLen s e st → s + i * st < e) ∧ (s + (rangeLen s e st : Nat) * st ≥ e ∨ rangeLen s e st = 0 ∧ e ≤ s) := by
  unfold rangeLen
  simp only [hst, if_true]
  by_cases hlt : s < e
  · simp only [hlt, if_true]
    have hq : 0 ≤ (e - s + st - 1) / st := Int.ediv_nonneg (by omega) (by omega)
    have hmul : st * ((e - s + st - 1) / st) ≤ e - s + st - 1 := Int.mul_ediv_self_le (by omega)
    have hlt2 : e - s + st - 1 < st * ((e - s + st - 1) / st) + st := Int.lt_mul_ediv_self_add hst
    constructor
    · intro i hi
      have hi' : (i : Int) < (e - s + st - 1) / st := by
        have := Int.toNat_of_nonneg hq
        omega
      have : (i : Int) + 1 ≤ (e - s + st - 1) / st := by omega
      have h2 : st * ((i : Int) + 1) ≤ st * ((e - s + st - 1) / st) := Int.mul_le_mul_of_nonneg_left this (by omega)
      have : (i : Int) * st = st * (i : Int) := Int.mul_comm _ _
      nlinarith
    · left
      have := Int.toNat_of_nonneg hq
      rw [this]
      have : (e - s + st - 1) / st * st = st * ((e - s + st - 1) / st) := Int.mul_comm _ _
      nlinarith
  · simp only [hlt, if_false]
    constructor
    · intro i hi; simp at hi
    · right; exact ⟨trivial, by omega⟩

/-- `eye(n, m, k)`: the element at `(i, j)` is one iff `j = i + k`. -/
def eyeAt (k : Int) (i j : Nat) : Bool := (j : Int) == (i : Int) + k

theorem eye_diagonal (k : Int) (i j : Nat) : eyeAt k i j = true ↔ (j : Int) - (i : Int) = k := by
  simp only [eyeAt, beq_iff_eq]; omega

/-- Number of ones on row `i` of an `n × m` eye is at most one. -/
theorem eye_row_at_most_one (k : Int) (i j1 j2 : Nat) (h1 : eyeAt k i j1 = true) (h2 : eyeAt k i j2 = true) :
    j1 = j2 := by
  simp only [eyeAt, beq_iff_eq] at h1 h2; omega

/-- Empty ranges: wrong-direction bounds give length 0 (no error, like NumPy). -/
theorem rangeLen_empty (s e st : Int) (h : (st > 0 ∧ e ≤ s) ∨ (st < 0 ∧ s ≤ e)) : rangeLen s e st = 0 := by
  unfold rangeLen
  rcases h with ⟨h1, h2⟩ | ⟨h1, h2⟩
  · simp [h1]; omega
  · have : ¬ (st > 0) := by omega
    simp [this, h1]; omega

example : rangeLen 0 10 3 = 4 ∧ rangeLen 10 0 (-3) = 4 ∧ rangeLen 5 5 1 = 0 ∧ rangeLen 0 (-1) 1 = 0 := by decide

end Ndx.C13
