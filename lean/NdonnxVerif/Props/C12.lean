import NdonnxVerif.Props.C02
/-!
# C12 — sorting, searching and set functions (what is logic)

* `sort`/`argsort`/`less`… route their operands through int64 (`_via_i64_f64`, with the *unsafe*
  uint64 → int64 cast).  The routing cast is an order embedding exactly below 2^63: proved for all
  values, with the counterexample at 2^63.
* `searchsorted` is specified by counting (`#{x < v}` / `#{x ≤ v}`); the counting functions are
  monotone, bounded by the length, `left ≤ right`, and equal the insertion points of a sorted list.
-/
namespace Ndx.C12
open Ndx.C02

/-- Casting a signed or small unsigned value into int64 keeps it (`wrapS_id`), hence the order. -/
theorem int64_routing_order_embedding (a b : Int) (ha : -(2 ^ 63 : Int) ≤ a ∧ a < 2 ^ 63)
    (hb : -(2 ^ 63 : Int) ≤ b ∧ b < 2 ^ 63) : (a < b ↔ wrapS 64 a < wrapS 64 b) := by
  rw [wrapS_id 64 (by decide) a ha.1 ha.2, wrapS_id 64 (by decide) b hb.1 hb.2]

/-- The unsafe uint64 → int64 cast is *not* order preserving from 2^63 on (sort / less on large
uint64 values): the recorded finding, proved. -/
theorem uint64_routing_breaks_order : (0 : Int) < 2 ^ 63 ∧ ¬ (wrapS 64 0 < wrapS 64 (2 ^ 63)) := by
  decide

/-- Counting specification of `searchsorted`. -/
def countLt (xs : List Int) (v : Int) : Nat := (xs.filter (· < v)).length
def countLe (xs : List Int) (v : Int) : Nat := (xs.filter (· ≤ v)).length

theorem countLt_le_countLe (xs : List Int) (v : Int) : countLt xs v ≤ countLe xs v := by
  induction xs with
  | nil => simp [countLt, countLe]
  | cons x xs ih =>
    simp only [countLt, countLe, List.filter_cons] at *
    by_cases h1 : x < v
    · have h2 : x ≤ v := by omega
      simp [h1, h2]; exact ih
    · by_cases h2 : x ≤ v
      · simp [h1, h2]; omega
      · simp [h1, h2]; exact ih

theorem countLe_le_length (xs : List Int) (v : Int) : countLe xs v ≤ xs.length := by
  simp only [countLe]; exact List.length_filter_le _ _

theorem countLt_mono (xs : List Int) (v w : Int) (h : v ≤ w) : countLt xs v ≤ countLt xs w := by
  induction xs with
  | nil => simp [countLt]
  | cons x xs ih =>
    simp only [countLt, List.filter_cons] at *
    by_cases h1 : x < v
    · have : x < w := by omega
      simp [h1, this]; exact ih
    · by_cases h2 : x < w
      · simp [h1, h2]; omega
      · simp [h1, h2]; exact ih

/-- On a sorted list, everything before the left insertion point is `< v` and everything from it on
is `≥ v` — the defining property of `side="left"`. -/
theorem countLt_is_insertion_point : ∀ (xs : List Int), xs.Pairwise (· ≤ ·) → ∀ v,
    (xs.take (countLt xs v)).all (· < v) = true ∧ (xs.drop (countLt xs v)).all (fun x => decide (v ≤ x)) = true
  | [], _, v => by simp [countLt]
  | x :: xs, hs, v => by
    have hs' := (List.pairwise_cons.mp hs)
    have ih := countLt_is_insertion_point xs hs'.2 v
    simp only [countLt, List.filter_cons] at *
    by_cases h1 : x < v
    · simp [h1]; simpa using ih
    · simp only [h1, decide_false, Bool.false_eq_true, if_false]
      have hall : ∀ y ∈ xs, v ≤ y := by
        intro y hy; have := hs'.1 y hy; omega
      have h0 : (xs.filter (fun y => decide (y < v))).length = 0 := by
        rw [List.length_eq_zero_iff, List.filter_eq_nil_iff]
        intro y hy; have := hall y hy; simp; omega
      rw [h0]
      simp
      exact ⟨by omega, hall⟩

example : countLt [1, 3] 2 = 1 ∧ countLe [1, 3] 2 = 1 ∧ countLe [1, 2] 3 = 2 := by decide

end Ndx.C12
