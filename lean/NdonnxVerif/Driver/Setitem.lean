import NdonnxVerif.Model.Setitem
import NdonnxVerif.Driver.Index
/-! Driver command: `x[index] = v` on token data (C09). -/
namespace Ndx.Drv

/-- `setitem <shape> <update shape> <entry>*`: `x` = tokens of `shape`, `v` = `1000 + k` (row-major `k`)
of the update shape → `ok <flat result>` | `err <class>`. -/
def cmdSetitem (args : List String) : String :=
  match args with
  | sh :: ush :: es =>
    match parseNatList sh, parseNatList ush, es.mapM parseIx with
    | some shape, some ushape, some idx =>
      let upd : Tensor Nat := ⟨ushape, fun ix => 1000 + ravel ushape ix⟩
      match setitem (tokens shape) idx upd with
      | .ok t => s!"ok {showList t.toFlat}"
      | .error e => showErr e
    | _, _, _ => "bad-op"
  | _ => "bad-op"

end Ndx.Drv
