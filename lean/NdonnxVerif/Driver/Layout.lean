import NdonnxVerif.Model.Layout
import NdonnxVerif.Driver.Util
/-! Driver commands of the layout engine (C11 / C06). -/
namespace Ndx.Drv

/-- `roll <shape> <axis> <shift>` → source positions (model), then the NumPy spec's. -/
def cmdRoll (args : List String) : String :=
  match args with
  | [sh, ax, s] =>
    match parseNatList sh, ax.toNat?, parseInt? s with
    | some shape, some axis, some shift =>
      let m := rollAxisModel (tokens shape) shift axis
      let sp := Spec.rollAxis (tokens shape) shift axis
      s!"model {showList m.shape} {showList m.toFlat} spec {showList sp.shape} {showList sp.toFlat}"
    | _, _, _ => "bad-op"
  | _ => "bad-op"

/-- `flip <shape> <axis>`. -/
def cmdFlip (args : List String) : String :=
  match args with
  | [sh, ax] =>
    match parseNatList sh, ax.toNat? with
    | some shape, some axis =>
      let m := flipAxisModel (tokens shape) axis
      let sp := Spec.flipAxis (tokens shape) axis
      s!"model {showList m.shape} {showList m.toFlat} spec {showList sp.shape} {showList sp.toFlat}"
    | _, _ => "bad-op"
  | _ => "bad-op"

end Ndx.Drv
