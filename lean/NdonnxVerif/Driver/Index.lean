import NdonnxVerif.Model.Index
import NdonnxVerif.Driver.Util
/-! Driver commands of the index engine (C08 / C09 / C20-iter). -/
namespace Ndx.Drv

def parseIx (s : String) : Option Ix :=
  if s == "e" then some .ellipsis
  else if s == "n" then some .newaxis
  else if s == "b" then some .bad
  else if s.startsWith "i" then (parseInt? (s.drop 1).toString).map .int
  else if s.startsWith "s:" then
    match (s.drop 2).toString.splitOn ":" with
    | [a, b, c] => do
        let a ← parseOptInt a; let b ← parseOptInt b; let c ← parseOptInt c
        some (.slice a b c)
    | _ => none
  else none

/-- `getitem <shape> <entry>*` → `ok <shape> <source positions>` | `err <class>` (model). -/
def cmdGetitem (args : List String) : String :=
  match args with
  | sh :: es =>
    match parseNatList sh, es.mapM parseIx with
    | some shape, some idx =>
      match getitem (tokens shape) idx with
      | .ok t => s!"ok {showList t.shape} {showList t.toFlat}"
      | .error e => showErr e
    | _, _ => "bad-op"
  | _ => "bad-op"

/-- `getitem_spec <shape> <entry>*` → NumPy reference semantics (admissible indices only). -/
def cmdGetitemSpec (args : List String) : String :=
  match args with
  | sh :: es =>
    match parseNatList sh, es.mapM parseIx with
    | some shape, some idx =>
      let t := Spec.getitem (tokens shape) idx
      s!"ok {showList t.shape} {showList t.toFlat}"
    | _, _ => "bad-op"
  | _ => "bad-op"

def parseBits (s : String) : List Bool :=
  if s == "-" then [] else s.toList.map (· == '1')

/-- `getitem_mask <shape> <mask shape> <bits>` → model / `getitem_mask_spec` → NumPy semantics. -/
def cmdGetitemMask (spec : Bool) (args : List String) : String :=
  match args with
  | [sh, msh, bits] =>
    match parseNatList sh, parseNatList msh with
    | some shape, some mshape =>
      let mask : Tensor Bool := ofFlat mshape (parseBits bits).toArray
      if spec then
        let t := Spec.maskSelect (tokens shape) mask
        s!"ok {showList t.shape} {showList t.toFlat}"
      else
        match getitemMask (tokens shape) mask with
        | .ok t => s!"ok {showList t.shape} {showList t.toFlat}"
        | .error e => showErr e
    | _, _ => "bad-op"
  | _ => "bad-op"

/-- `getitem_int <shape> <index shape> <values>`. -/
def cmdGetitemInt (spec : Bool) (args : List String) : String :=
  match args with
  | [sh, ish, vals] =>
    match parseNatList sh, parseNatList ish, parseIntList vals with
    | some shape, some ishape, some vs =>
      let index : Tensor Int := ofFlat ishape vs.toArray
      let t := if spec then Spec.intSelect (tokens shape) index else getitemInt (tokens shape) index
      s!"ok {showList t.shape} {showList t.toFlat}"
    | _, _, _ => "bad-op"
  | _ => "bad-op"

end Ndx.Drv
