import NdonnxVerif.Model.Graph
import NdonnxVerif.Model.GraphCast
import NdonnxVerif.Driver.Util
/-! Driver commands: acceptable graph terms of a function at a dtype, and their evaluation (C02, tie B). -/
namespace Ndx.Drv
open Ndx.C02 Ndx.Graph

def itypeOfName : String → Option IType
  | "int8" => some ⟨8, true⟩ | "int16" => some ⟨16, true⟩ | "int32" => some ⟨32, true⟩ | "int64" => some ⟨64, true⟩
  | "uint8" => some ⟨8, false⟩ | "uint16" => some ⟨16, false⟩ | "uint32" => some ⟨32, false⟩ | "uint64" => some ⟨64, false⟩
  | _ => none

def termsOf (fn dt : String) : Option (List G) :=
  if dt == "bool" then some (gtermsBool fn) else (itypeOfName dt).map (gterms fn)

/-- `gterm <fn> <dtype>` → the accepted renderings joined by ` || `, or `~` when the pair is not modelled. -/
def cmdGterm (args : List String) : String :=
  match args with
  | [fn, dt] =>
    match termsOf fn dt with
    | some [] => "~"
    | some gs => " || ".intercalate (gs.map G.render)
    | none => "bad-op"
  | _ => "bad-op"

def showSV : Option SV → String
  | some (.i _ v) => toString v
  | some (.b v) => if v then "True" else "False"
  | none => "~"

/-- `geval <fn> <dtype> <k> <x> [<y>]` → value of the `k`-th accepted term on the operands
(`True`/`False` operands at `bool`). -/
def cmdGeval (args : List String) : String :=
  match args with
  | fn :: dt :: k :: ops =>
    match termsOf fn dt, parseNat? k with
    | some gs, some k =>
      match gs[k]? with
      | none => "~"
      | some g =>
        if dt == "bool" then
          let env := ops.map (fun s => SV.b (s == "True"))
          showSV (eval env g)
        else
          match itypeOfName dt, ops.mapM parseInt? with
          | some t, some vs =>
            if vs.all t.inRange then showSV (eval (vs.map (SV.i (codeOf t))) g) else "bad-op"
          | _, _ => "bad-op"
    | _, _ => "bad-op"
  | _ => "bad-op"

/-- `gnull <an:0|1> <bn:0|1>` (binary) / `gnull 1` (unary) → accepted renderings of the null-mask graph. -/
def cmdGnull (args : List String) : String :=
  let gs := match args with
    | [an, bn] => nullTerms2 (an == "1") (bn == "1")
    | ["1"] => nullTerms1
    | _ => []
  if gs.isEmpty then "~" else " || ".intercalate (gs.map G.render)

/-- `gcast <src> <dst>` → accepted renderings of `astype(x : src, dst)` joined by ` || `, `~` outside the fragment. -/
def cmdGcast (args : List String) : String :=
  match args with
  | [s, d] =>
    match castTerms s d with
    | [] => "~"
    | gs => " || ".intercalate (gs.map G.render)
  | _ => "bad-op"

end Ndx.Drv
