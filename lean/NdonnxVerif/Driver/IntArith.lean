import NdonnxVerif.Model.IntArith
import NdonnxVerif.Driver.Util
/-! Driver command: integer functions as implemented and as specified (C02). -/
namespace Ndx.Drv
open Ndx.C02

def showOptInt : Option Int → String
  | some v => toString v
  | none => "~"

/-- `intop <op> <bits> <s|u> <a> <b>` → `<impl> <spec>` (`~` = outside the modelled domain). -/
def cmdIntOp (args : List String) : String :=
  match args with
  | [op, bits, sg, a, b] =>
    match parseNat? bits, parseInt? a, parseInt? b with
    | some n, some x, some y =>
      if sg ≠ "s" ∧ sg ≠ "u" then "bad-op" else
      let t : IType := ⟨n, sg == "s"⟩
      if !(t.inRange x && t.inRange y) then "bad-op" else
      s!"{showOptInt (intOpImpl op t x y)} {showOptInt (intOpSpec op t x y)}"
    | _, _, _ => "bad-op"
  | _ => "bad-op"

end Ndx.Drv
