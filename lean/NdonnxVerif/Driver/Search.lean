import NdonnxVerif.Model.Search
import NdonnxVerif.Driver.Util
/-! Driver command: `searchsorted <x1> <x2> <left|right>` → the algorithm model's insertion points. -/
namespace Ndx.Drv
open Ndx.Search

def cmdSearchsorted (args : List String) : String :=
  match args with
  | [x1, x2, side] =>
    match parseIntList x1, parseIntList x2 with
    | some xs, some vs =>
      if side ≠ "left" ∧ side ≠ "right" then "bad-op" else
      let u := distinct (xs ++ vs)
      showList (vs.map (fun v => searchsortedImpl u xs v (side == "right")))
    | _, _ => "bad-op"
  | _ => "bad-op"

end Ndx.Drv
