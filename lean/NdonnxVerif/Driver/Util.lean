import NdonnxVerif.Model.Basic
/-! Parsing / printing helpers of the line-protocol driver (core Lean only). -/
namespace Ndx.Drv

def parseInt? (s : String) : Option Int := s.toInt?
def parseNat? (s : String) : Option Nat := s.toNat?

/-- `-` is the empty list; otherwise comma separated. -/
def parseNatList (s : String) : Option (List Nat) :=
  if s == "-" then some [] else (s.splitOn ",").mapM parseNat?

def parseIntList (s : String) : Option (List Int) :=
  if s == "-" then some [] else (s.splitOn ",").mapM parseInt?

def parseOptInt (s : String) : Option (Option Int) :=
  if s == "~" then some none else (parseInt? s).map some

def showList [ToString α] (xs : List α) : String :=
  if xs.isEmpty then "-" else ",".intercalate (xs.map toString)

def showErr (e : PyErr) : String := "err " ++ e.name

end Ndx.Drv
