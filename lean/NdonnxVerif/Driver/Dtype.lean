import NdonnxVerif.Model.Dtype
import NdonnxVerif.Model.FnLaw
import NdonnxVerif.Driver.Util
/-! Driver commands of the dtype engine (C03 / C14 / C17). -/
namespace Ndx.Drv

def parseDt (s : String) : Option Dt := Dt.all.find? (fun d => d.name == s)

def parseFnClass (s : String) : Option FnClass :=
  FnClass.all.find? (fun c => (reprStr c).replace "Ndx.FnClass." "" == s)

def parsePy (s : String) : Option PyScalar :=
  match s with
  | "pbool" => some .pbool | "pint" => some .pint | "pfloat" => some .pfloat | "pstr" => some .pstr
  | _ => none

def parseOperand (s : String) : Option Operand :=
  match parseDt s with
  | some d => some (.arr d)
  | none => (parsePy s).map .py

def showOptDt : Option Dt → String
  | some d => d.name
  | none => "TypeError"

/-- `rt <dtype>+` : n-ary result_type as a fold of the closed-form binary promotion. -/
def cmdRt (args : List String) : String :=
  match args.mapM parseDt with
  | some ds => showOptDt (resultTypeN ds)
  | none => "bad-op"

/-- `scalar <dtype> <pbool|pint|pfloat|pstr>` : common dtype of `promote(array, python scalar)`. -/
def cmdScalar (args : List String) : String :=
  match args with
  | [d, k] => match parseDt d, parsePy k with
    | some d, some k => showOptDt (scalarResult d k)
    | _, _ => "bad-op"
  | _ => "bad-op"

/-- `fnlaw <class> <operand>+` : what the properties demand of the call. -/
def cmdFnLaw (args : List String) : String :=
  match args with
  | c :: ops => match parseFnClass c, ops.mapM parseOperand with
    | some c, some ops =>
      match fnLaw c ops with
      | .must d => s!"must {d.name}"
      | .raises => "raises"
      | .free => "free"
    | _, _ => "bad-op"
  | _ => "bad-op"

/-- `cast <src> <dst>` : outcome class of `astype`. -/
def cmdCast (args : List String) : String :=
  match args.mapM parseDt with
  | some [a, b] => match castOutcome a b with
    | .ok d => s!"ok {d.name}"
    | .castError => "CastError"
  | _ => "bad-op"

/-- `cancast <src> <dst>` : NumPy's safe-cast table on core dtypes. -/
def cmdCanCast (args : List String) : String :=
  match args.mapM parseDt with
  | some [a, b] => if a.nullable || b.nullable then "na" else toString (canCastCore a.core b.core)
  | _ => "bad-op"

end Ndx.Drv
