import NdonnxVerif.Model.Build
import NdonnxVerif.Driver.Dtype
/-! Driver command: flattened interface of `ndx.build` (C05). -/
namespace Ndx.Drv

/-- `iface <name>:<dtype|pair>*` → `name:core …` as the model's `collectAll` flattens the requests
(`pair` = the harness's user struct dtype: lo:int32, hi:nuint8). -/
def cmdIface (args : List String) : String :=
  let reqs := args.filterMap (fun a =>
    match a.splitOn ":" with
    | [n, "pair"] => some (n, DTree.struct [("lo", .core .int32),
        ("hi", .struct [("values", .core .uint8), ("null", .core .bool)])])
    | [n, d] => (parseDt d).map (fun d => (n, DTree.ofDt d))
    | _ => none)
  if reqs.length != args.length then "bad-op"
  else
    let out := collectAll reqs
    "ok " ++ " ".intercalate (out.map (fun e => e.1 ++ ":" ++ e.2.name))

end Ndx.Drv
