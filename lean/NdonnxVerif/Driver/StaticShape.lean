import NdonnxVerif.Model.StaticShape
import NdonnxVerif.Driver.Index
/-! Driver command: `static_getitem <dims> <entry>*` → the dims the model says are reported for `x[index]`. -/
namespace Ndx.Drv
open Ndx

def parseDims (s : String) : Option Dims :=
  if s == "-" then some [] else
  (s.splitOn ",").mapM (fun d => if d == "?" then some none else (parseNat? d).map some)

def showDims (d : Dims) : String :=
  if d.isEmpty then "-" else ",".intercalate (d.map (fun e => match e with | some v => toString v | none => "?"))

def cmdStaticGetitem (args : List String) : String :=
  match args with
  | ds :: es =>
    match parseDims ds, es.mapM parseIx with
    | some d, some idx =>
      match normaliseIndex d.length idx with
      | .ok n => if idx.isEmpty then showDims d else showDims (staticGetitem d n)
      | .error e => showErr e
    | _, _ => "bad-op"
  | _ => "bad-op"

end Ndx.Drv
