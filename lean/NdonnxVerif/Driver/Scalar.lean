import NdonnxVerif.Model.Scalar
import NdonnxVerif.Driver.Util
/-! Driver command of the scalar-protocol engine (C20). -/
namespace Ndx.Drv

def parseKind (s : String) : Option Kind :=
  match s with
  | "signed" => some .signed | "unsigned" => some .unsigned | "floating" => some .floating
  | "boolean" => some .boolean | "string" => some .string | _ => none

def parseLead (s : String) : Option (Option (Option Nat)) :=
  if s == "none" then some none
  else if s == "?" then some (some none)
  else s.toNat?.map (fun n => some (some n))

def showPOut : POut → String | .value => "value" | .refuse => "refuse"

/-- `proto <hasValue:0|1> <size> <ndim> <kind> <lead: none|?|n> <nullable:0|1>` → model answers for
bool int float index len iter, then NumPy's (`-` = not fixed). -/
def cmdProto (args : List String) : String :=
  match args with
  | [hv, sz, nd, k, ld, nu] =>
    match sz.toNat?, nd.toNat?, parseKind k, parseLead ld with
    | some sz, some nd, some k, some ld =>
      let a : ArrInfo := ⟨hv == "1", sz, nd, k, ld, nu == "1"⟩
      let ps := [Proto.pbool, .pint, .pfloat, .pindex, .plen, .piter]
      let m := ps.map (fun p => showPOut (protoModel p a))
      let n := ps.map (fun p => match protoNumpy p a with | some o => showPOut o | none => "-")
      "model " ++ " ".intercalate m ++ " numpy " ++ " ".intercalate n
    | _, _, _, _ => "bad-op"
  | _ => "bad-op"

end Ndx.Drv
