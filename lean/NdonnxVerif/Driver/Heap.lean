import NdonnxVerif.Model.Heap
import NdonnxVerif.Driver.Util
/-! Driver command of the propagation state machine (C01 / C07 / C16 / C18). -/
namespace Ndx.Drv
open Ndx.Heap

def parseStep (s : String) : Option (Step Nat) :=
  match s.splitOn ":" with
  | ["d"] => some (.data 0)
  | ["b", v] => v.toNat?.map Step.data                      -- a data-holding boolean scalar with a known value
  | ["p", n] => some (.placeholder n)
  | ["q", n] => some (.placeholder n)                       -- a boolean scalar placeholder
  | ["gw", args] =>                                         -- `ndx.where(c, x, y)`: both constant-condition shortcuts
      (parseNatList args).map (fun a => Step.guarded "Where" a 0 (fun v => if v ≠ 0 then some 1 else some 2))
  | ["ga", args] =>                                         -- `ndx.logical_and(x, y)` on boolean scalars: both shortcuts
      (parseNatList args).bind (fun l => match l with
        | [a, b] => some (Step.guarded2 "And" a b (fun v => v != 0) (fun v => v != 0))
        | _ => none)
  | ["go", args] =>                                         -- `ndx.logical_or(x, y)`
      (parseNatList args).bind (fun l => match l with
        | [a, b] => some (Step.guarded2 "Or" a b (fun v => v == 0) (fun v => v == 0))
        | _ => none)
  | ["f", op, args] => (parseNatList args).map (Step.prim op)
  | ["c", r] => r.toNat?.map Step.copy
  | ["s", d, src] => do let d ← d.toNat?; let s ← src.toNat?; some (.set d s)
  | _ => none

/-- Operator semantics of the driver: only the truth value of `And` / `Or` results is ever inspected (as the guard of a
later shortcut); every other operator's value is irrelevant for the reported flags. -/
def drvSem : String → List Nat → Option Nat
  | "And", vs => some (if vs.all (· != 0) then 1 else 0)
  | "Or", vs => some (if vs.any (· != 0) then 1 else 0)
  | _, _ => some 0

/-- `heap <ort:0|1> <step>*` → per cell `v`/`-` (reports a value?) and `c`/`n` (is a Constant?),
or `err` when the history raises (a reference to a cell that does not exist). -/
def cmdHeap (args : List String) : String :=
  match args with
  | o :: ss =>
    match ss.mapM parseStep with
    | some steps =>
      match run drvSem (o == "1") steps [] with
      | some h => "ok " ++ showList (h.map (fun c =>
          (if c.eager.isSome then "v" else "-") ++ (if c.var.isConst then "c" else "n")))
      | none => "err"
    | none => "bad-op"
  | _ => "bad-op"

end Ndx.Drv
