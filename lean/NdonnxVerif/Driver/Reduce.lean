import NdonnxVerif.Model.Reduce
import NdonnxVerif.Driver.Util
/-! Driver command: shape of a reduction (C10). -/
namespace Ndx.Drv

def parseAxisArg (s : String) : Option AxisArg :=
  if s == "~" then some .none
  else if s == "()" then some (.many [])
  else if s.startsWith "(" then (parseIntList ((s.drop 1).dropEnd 1).toString).map .many
  else (parseInt? s).map .one

/-- `reduce_shape <shape> <axis: ~ | n | (a,b,..) | ()> <keepdims:0|1>` → model shape, then NumPy spec shape. -/
def cmdReduceShape (args : List String) : String :=
  match args with
  | [sh, ax, kd] =>
    match parseNatList sh, parseAxisArg ax with
    | some shape, some axis =>
      s!"model {showList (reduceShapeModel shape axis (kd == "1"))} spec {showList (Spec.reducedShape shape axis (kd == "1"))}"
    | _, _ => "bad-op"
  | _ => "bad-op"

end Ndx.Drv
