import NdonnxVerif.Model.Broadcast
import NdonnxVerif.Driver.Util
/-! Driver commands: broadcasting and the shortcut guards (C01 / C12). -/
namespace Ndx.Drv

/-- `bshape <s> <t>` → broadcast shape or `err`; then the two guards. -/
def cmdBshape (args : List String) : String :=
  match args with
  | [a, b] =>
    match parseNatList a, parseNatList b with
    | some s, some t =>
      let r := match bshape s t with | some x => showList x | none => "err"
      s!"{r} into={knownToBroadcastInto s t} single={singleElementOfRankLe s t}"
    | _, _ => "bad-op"
  | _ => "bad-op"

end Ndx.Drv
