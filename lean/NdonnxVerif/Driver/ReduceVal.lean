import NdonnxVerif.Model.ReduceVal
import NdonnxVerif.Driver.Reduce
/-! Driver command: which elements a reduction combines, on token data (C10). -/
namespace Ndx.Drv

/-- `reduce_val <shape> <axis> <keepdims>` → `ok <result shape> <sums of the tokens> <element counts>`. -/
def cmdReduceVal (args : List String) : String :=
  match args with
  | [sh, ax, kd] =>
    match parseNatList sh, parseAxisArg ax with
    | some shape, some axis =>
      let red := redFlags shape.length axis
      let t := reduceT (· + ·) 0 (tokens shape) red (kd == "1")
      let c := reduceT (fun n (_ : Nat) => n + 1) 0 (tokens shape) red (kd == "1")
      s!"ok {showList t.shape} {showList t.toFlat} {showList c.toFlat}"
    | _, _ => "bad-op"
  | _ => "bad-op"

end Ndx.Drv
