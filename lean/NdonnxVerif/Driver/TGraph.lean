import NdonnxVerif.Model.TGraphScatter
import NdonnxVerif.Driver.Index
import NdonnxVerif.Driver.Reduce
/-! Driver commands of the tensor-graph tie: `tg_render` (the term the model says ndonnx emits, as text),
`tg_eval` (parse the text of an exported graph and evaluate it on token data), `tg_parse` (round trip). -/
namespace Ndx.Drv
open Ndx Ndx.TGraph

def tokenize (s : String) : List String :=
  (((s.replace "(" " ( ").replace ")" " ) ").splitOn " ").filter (· ≠ "")

def parseBOp : String → Option BOp
  | "Add" => some .add | "Sub" => some .sub | "Mul" => some .mul | "Mod0" => some .mod0
  | "Equal" => some .equal | "Less" => some .less | "And" => some .and | "Or" => some .or | "Xor" => some .xor
  | "Greater" => some .greater | "LessOrEqual" => some .lessEq | "GreaterOrEqual" => some .greaterEq
  | _ => none

mutual
partial def parseTG : List String → Option (TG × List String)
  | "(" :: "C" :: sh :: vals :: ")" :: r => do
      let sh ← parseNatList sh; let vals ← parseIntList vals
      some (.const sh vals, r)
  | "(" :: "Gather" :: ax :: r => do
      let ax ← parseInt? ax
      let ([x, i], r) ← parseArgs 2 r | none
      some (.gather ax x i, r)
  | "(" :: "Concat" :: ax :: r => do
      let ax ← parseInt? ax
      let ([x, y], r) ← parseArgs 2 r | none
      some (.concat ax x y, r)
  | "(" :: "Transpose" :: perm :: r => do
      let perm ← parseNatList perm
      let ([x], r) ← parseArgs 1 r | none
      some (.transpose perm x, r)
  | "(" :: "Cast" :: to :: r => do
      let to ← parseNat? to
      let ([x], r) ← parseArgs 1 r | none
      some (.cast to x, r)
  | "(" :: "Slice" :: r => do
      let ([x, s, e, a, st], r) ← parseArgs 5 r | none
      some (.slice x s e a st, r)
  | "(" :: "Unsqueeze" :: r => do
      let ([x, a], r) ← parseArgs 2 r | none
      some (.unsqueeze x a, r)
  | "(" :: "Squeeze" :: r => do
      let ([x, a], r) ← parseArgs 2 r | none
      some (.squeeze x a, r)
  | "(" :: "Reshape" :: r => do
      let ([x, a], r) ← parseArgs 2 r | none
      some (.reshape x a, r)
  | "(" :: "Expand" :: r => do
      let ([x, a], r) ← parseArgs 2 r | none
      some (.expand x a, r)
  | "(" :: "Shape" :: r => do
      let ([x], r) ← parseArgs 1 r | none
      some (.shape x, r)
  | "(" :: "ShapeFrom" :: k :: r => do
      let k ← parseNat? k
      let ([x], r) ← parseArgs 1 r | none
      some (.shapeFrom k x, r)
  | "(" :: "Slice3" :: r => do
      let ([x, s, e], r) ← parseArgs 3 r | none
      some (.slice3 x s e, r)
  | "(" :: "Compress0" :: r => do
      let ([x, c], r) ← parseArgs 2 r | none
      some (.compress x c, r)
  | "(" :: "GatherElements0" :: r => do
      let ([x, i], r) ← parseArgs 2 r | none
      some (.gatherElements x i, r)
  | "(" :: "ArgMax" :: ax :: kd :: r => do
      let ax ← parseNat? ax
      let ([x], r) ← parseArgs 1 r | none
      some (.argext true ax (kd == "1") x, r)
  | "(" :: "ArgMin" :: ax :: kd :: r => do
      let ax ← parseNat? ax
      let ([x], r) ← parseArgs 1 r | none
      some (.argext false ax (kd == "1") x, r)
  | "(" :: "Trilu" :: up :: r => do
      let ([x, k], r) ← parseArgs 2 r | none
      some (.trilu (up == "1") x k, r)
  | "(" :: "CumSum" :: r => do
      let ([x, a], r) ← parseArgs 2 r | none
      some (.cumsum x a, r)
  | "(" :: "ScatterND" :: r => do
      let ([x, i, u], r) ← parseArgs 3 r | none
      some (.scatterND x i u, r)
  | "(" :: "Not" :: r => do
      let ([x], r) ← parseArgs 1 r | none
      some (.not x, r)
  | "(" :: "Range" :: r => do
      let ([a, b, c], r) ← parseArgs 3 r | none
      some (.range a b c, r)
  | "(" :: "Where" :: r => do
      let ([a, b, c], r) ← parseArgs 3 r | none
      some (.sel a b c, r)
  | "(" :: "ReduceSum" :: kd :: noop :: r => do
      let ([x, a], r) ← parseArgs 2 r | none
      some (.reduce .sum (kd == "1") (noop == "1") x a, r)
  | "(" :: "ReduceProd" :: kd :: noop :: r => do
      let ([x, a], r) ← parseArgs 2 r | none
      some (.reduce .prod (kd == "1") (noop == "1") x a, r)
  | "(" :: "ReduceMin" :: kd :: noop :: r => do
      let ([x, a], r) ← parseArgs 2 r | none
      some (.reduce .min (kd == "1") (noop == "1") x a, r)
  | "(" :: "ReduceMax" :: kd :: noop :: r => do
      let ([x, a], r) ← parseArgs 2 r | none
      some (.reduce .max (kd == "1") (noop == "1") x a, r)
  | "(" :: op :: r => do
      let op ← parseBOp op
      let ([x, y], r) ← parseArgs 2 r | none
      some (.bin op x y, r)
  | atom :: r =>
      if atom.startsWith "in" then (parseNat? (atom.drop 2).toString).map (fun i => (.inp i, r)) else none
  | [] => none

/-- `n` sub-terms followed by the closing parenthesis. -/
partial def parseArgs : Nat → List String → Option (List TG × List String)
  | 0, ")" :: r => some ([], r)
  | 0, _ => none
  | n + 1, toks => do
      let (x, r) ← parseTG toks
      let (xs, r) ← parseArgs n r
      some (x :: xs, r)
end

def parseWhole (toks : List String) : Option TG :=
  match parseTG toks with
  | some (g, []) => some g
  | _ => none

def showT (t : Tensor Int) : String := s!"{showList t.shape} {showList t.toFlat}"

/-- Token input `i` of shape `sh`: element = `1000 * i + flat position`. -/
def tokenInput (i : Nat) (sh : List Nat) : Tensor Int := ⟨sh, fun ix => Int.ofNat (1000 * i + ravel sh ix)⟩

/-- `tg_eval <shape>[;<shape>…] <term…>` → `ok <shape> <flat>` (inputs are token tensors). -/
def cmdTgEval (args : List String) : String :=
  match args with
  | shapes :: rest =>
    match (shapes.splitOn ";").mapM parseNatList, parseWhole (tokenize (" ".intercalate rest)) with
    | some shs, some g => "ok " ++ showT (g.eval (shs.mapIdx tokenInput))
    | _, none => "unparsed"
    | none, _ => "bad-op"
  | _ => "bad-op"

/-- `tg_evald <shape>:<values>[;<shape>:<values>…] <term…>`: inputs given as row-major integer data. -/
def cmdTgEvalData (args : List String) : String :=
  match args with
  | inputs :: rest =>
    let parsed := (inputs.splitOn ";").mapM (fun s => match s.splitOn ":" with
      | [sh, vals] => do
          let sh ← parseNatList sh; let vals ← parseIntList vals
          some (constT sh vals)
      | _ => none)
    match parsed, parseWhole (tokenize (" ".intercalate rest)) with
    | some ts, some g => "ok " ++ showT (g.eval ts)
    | _, none => "unparsed"
    | none, _ => "bad-op"
  | _ => "bad-op"

/-- `tg_parse <term…>` → the re-rendered term (`unparsed` when it uses an operator outside the model). -/
def cmdTgParse (args : List String) : String :=
  match parseWhole (tokenize (" ".intercalate args)) with
  | some g => g.render
  | none => "unparsed"

def parseOptCode (s : String) : Option (Option Nat) :=
  if s == "~" then some none else (parseNat? s).map some

def showOptTG : Option TG → String
  | some g => g.render
  | none => "err TypeError"

def parsePairs (s : String) : Option (List (Int × Int)) :=
  if s == "-" then some [] else
  (s.splitOn ",").mapM (fun p => match p.splitOn "/" with
    | [a, b] => do some (← parseInt? a, ← parseInt? b)
    | _ => none)

/-- `tg_render <fn> <args…>`: the term of the model for a call on input `in0` (and `in1`). -/
def cmdTgRender (args0 : List String) : String :=
  let x := TG.inp 0
  -- `@null`: the term of the null field (`in0`) of a nullable array whose values field is `in1`
  let (src, args) := match args0 with
    | "@null" :: r => (TG.inp 1, r)
    | r => (TG.inp 0, r)
  match args with
  | "getitem" :: rank :: es =>
    match parseNat? rank, es.mapM parseIx with
    | some r, some idx =>
      match normaliseIndex r idx with
      | .ok n => if idx.isEmpty then x.render else (getitemGraph x n).render
      | .error e => showErr e
    | _, _ => "bad-op"
  | ["roll", steps] => match parsePairs steps with
    | some st => (rollGraph x src st).render | none => "bad-op"
  | ["roll_flat", rank, sh] => match parseNat? rank, parseInt? sh with
    | some r, some s => (rollFlatGraph x src r s).render | _, _ => "bad-op"
  | ["flip", rank, axes] => match parseNat? rank, parseNatList axes with
    | some r, some ax => (flipGraph x r ax).render | _, _ => "bad-op"
  | ["expand_dims", axis] => match parseInt? axis with
    | some a => (expandDimsGraph x a).render | none => "bad-op"
  | ["squeeze", axes] => match parseIntList axes with
    | some a => (squeezeGraph x a).render | none => "bad-op"
  | ["permute_dims", perm] => match parseNatList perm with
    | some p => (permuteGraph x p).render | none => "bad-op"
  | ["matrix_transpose", rank] => match parseNat? rank with
    | some r => (matrixTransposeGraph x r).render | none => "bad-op"
  | ["broadcast_to", shape] => match parseNatList shape with
    | some s => (broadcastToGraph x s).render | none => "bad-op"
  | ["take", idx, axis] => match parseIntList idx, parseInt? axis with
    | some i, some a => (takeGraph x i a).render | _, _ => "bad-op"
  | ["reshape", rank, shape] => match parseNat? rank, parseIntList shape with
    | some r, some s => (reshapeGraph x r s).render | _, _ => "bad-op"
  | "setitem" :: rank :: es =>                                  -- x = in0, updates = in1
    match parseNat? rank, es.mapM parseIx with
    | some r, some idx =>
      match normaliseIndex r idx with
      | .ok n => (setitemGraph x (.inp 1) r n).render
      | .error e => showErr e
    | _, _ => "bad-op"
  | ["setitem_mask", rank, rankM] => match parseNat? rank, parseNat? rankM with   -- x = in0, mask = in1, updates = in2
    | some r, some k => (setitemMaskGraph x (.inp 1) (.inp 2) r k).render | _, _ => "bad-op"
  | ["setitem_int", rank, code] => match parseNat? rank, parseNat? code with     -- x = in0, index = in1, updates = in2
    | some r, some c => (setitemIntGraph x (.inp 1) (.inp 2) r c).render | _, _ => "bad-op"
  | ["mask", rankM] => match parseNat? rankM with                              -- x = in0, mask = in1
    | some k => (maskGraph x (.inp 1) k).render | none => "bad-op"
  | ["nonzero", code, rank, i] => match parseNat? code, parseNat? rank, parseNat? i with
    | some c, some r, some i => (nonzeroGraph x c r i).render | _, _, _ => "bad-op"
  | ["where", code] => match parseNat? code with                               -- condition = in0, x = in1, y = in2
    | some c => (whereGraph x (.inp 1) (.inp 2) c).render | none => "bad-op"
  | ["intindex", code] => match parseNat? code with                            -- x = in0, index = in1
    | some c => (intIndexGraph x (.inp 1) c).render | none => "bad-op"
  | ["ndindex", rank] => match parseNat? rank with
    | some r => (ndindexGraph x r).render | none => "bad-op"
  | ["creation", "full_arg"] => (fullGraph (.inp 1) x).render                        -- shape = in0, fill = in1
  | ["creation", "full_static", shape] => match parseNatList shape with
    | some sh => (fullGraph x (ivec (sh.map Int.ofNat))).render | none => "bad-op"    -- fill = in0
  | ["creation", "full_like"] => (fullGraph (.inp 1) (.shape x)).render              -- x = in0, fill = in1
  | ["creation", "const_arg", v, dt] => match parseInt? v, parseNat? dt with
    | some v, some dt => (constFillGraph v x dt).render | _, _ => "bad-op"            -- shape = in0
  | ["creation", "const_like", v, dt] => match parseInt? v, parseNat? dt with
    | some v, some dt => (constFillGraph v (.shape x) dt).render | _, _ => "bad-op"   -- x = in0
  | ["creation", "arange", start, step, dt] => match parseInt? start, parseInt? step, parseNat? dt with
    | some a, some st, some dt => (arangeGraph a x st dt).render | _, _, _ => "bad-op"   -- stop = in0
  | ["argext", mx, t, rank, axis, kd] =>
    match parseNat? t, parseNat? rank, parseOptInt axis with
    | some t, some r, some ax => (argextGraph x (mx == "1") t r ax (kd == "1")).render
    | _, _, _ => "bad-op"
  | ["trilu", t, upper, k] => match parseNat? t, parseInt? k with
    | some t, some k => (triluGraph x t (upper == "1") k).render | _, _ => "bad-op"
  | ["broadcast_arrays", t, n, i] => match parseNat? t, parseNat? n, parseNat? i with
    | some t, some n, some i => (broadcastArraysGraph ((List.range n).map TG.inp) t i).render | _, _, _ => "bad-op"
  | ["cumsum_incl", t, axis, dt] =>
    match parseNat? t, parseInt? axis, parseOptCode dt with
    | some t, some ax, some dt => showOptTG (cumsumInclGraph x t dt ax)
    | _, _, _ => "bad-op"
  | ["cumsum", t, axis, dt] =>
    match parseNat? t, parseInt? axis, parseOptCode dt with
    | some t, some ax, some dt => showOptTG (cumsumGraph x t dt ax)
    | _, _, _ => "bad-op"
  | [fn, t, rank, axis, kd, dt] =>
    match parseNat? t, parseNat? rank, parseAxisArg axis, parseOptCode dt with
    | some t, some r, some ax, some dt =>
      let kd := kd == "1"
      match fn with
      | "nsum" => showOptTG (sumNullableGraph x (.inp 1) t r ax kd)
      | "nprod" => showOptTG (prodNullableGraph x (.inp 1) t r ax kd)
      | "sum" => showOptTG (sumGraph x t dt r ax kd)
      | "prod" => showOptTG (prodGraph x t dt r ax kd)
      | "min" => (minGraph x t r ax kd).render
      | "max" => (maxGraph x t r ax kd).render
      | "all" => (allGraph x t r ax kd).render
      | "any" => (anyGraph x t r ax kd).render
      | _ => "bad-op"
    | _, _, _, _ => "bad-op"
  | ["concat", axis] => match parseInt? axis with
    | some a => (concatGraph x (.inp 1) a).render | none => "bad-op"
  | ["stack", axis] => match parseInt? axis with
    | some a => (stackGraph x (.inp 1) a).render | none => "bad-op"
  | _ => "bad-op"

end Ndx.Drv
