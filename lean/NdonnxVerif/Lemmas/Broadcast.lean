import NdonnxVerif.Model.Broadcast
/-! Broadcasting lemmas behind the shortcut guards. -/
namespace Ndx

theorem bdim_comm (a b : Nat) : bdim a b = bdim b a := by
  unfold bdim
  by_cases h : a = b
  · subst h; rfl
  · have h' : ¬ b = a := fun e => h e.symm
    simp only [h, h', if_false]
    by_cases ha : a = 1 <;> by_cases hb : b = 1 <;> simp_all

theorem bshapeRev_nil_right : ∀ (s : List Nat), bshapeRev s [] = some s
  | [] => rfl
  | _ :: _ => rfl

theorem bshapeRev_comm : ∀ (s t : List Nat), bshapeRev s t = bshapeRev t s
  | [], t => by rw [bshapeRev_nil_right]; rfl
  | a :: s, [] => rfl
  | a :: s, b :: t => by
    simp only [bshapeRev, bdim_comm a b, bshapeRev_comm s t]

/-- Broadcasting is commutative. -/
theorem bshape_comm (s t : List Nat) : bshape s t = bshape t s := by
  simp [bshape, bshapeRev_comm]

/-- **Guard soundness.** If `intoRev s t` holds, broadcasting `s` against `t` is `t`. -/
theorem bshapeRev_of_into : ∀ (s t : List Nat), intoRev s t = true → bshapeRev s t = some t
  | [], t, _ => rfl
  | _ :: _, [], h => by simp [intoRev] at h
  | a :: s, b :: t, h => by
    simp only [intoRev, Bool.and_eq_true, Bool.or_eq_true, beq_iff_eq] at h
    have ih := bshapeRev_of_into s t h.2
    have hd : bdim a b = some b := by
      unfold bdim
      rcases h.1 with h1 | h1
      · subst h1
        by_cases hb : 1 = b
        · simp [hb]
        · simp [hb]
      · subst h1; simp
    simp [bshapeRev, hd, ih]

theorem bshape_of_known (s t : List Nat) (h : knownToBroadcastInto s t = true) : bshape s t = some t := by
  simp [bshape, bshapeRev_of_into _ _ h]

/-- A single-element operand of rank ≤ the other's rank satisfies the guard (the condition used by
`logical_and/or` and for `where`'s condition). -/
theorem intoRev_of_all_one : ∀ (s t : List Nat), (∀ d ∈ s, d = 1) → s.length ≤ t.length → intoRev s t = true
  | [], _, _, _ => rfl
  | a :: s, [], _, hl => by simp at hl
  | a :: s, b :: t, h1, hl => by
    have ha : a = 1 := h1 a (by simp)
    have := intoRev_of_all_one s t (fun d hd => h1 d (by simp [hd])) (by simpa using hl)
    simp [intoRev, ha, this]

theorem bshape_of_single_element (s t : List Nat) (h : singleElementOfRankLe s t = true) : bshape s t = some t := by
  simp only [singleElementOfRankLe, Bool.and_eq_true, List.all_eq_true, beq_iff_eq, decide_eq_true_eq] at h
  apply bshape_of_known
  unfold knownToBroadcastInto
  apply intoRev_of_all_one
  · intro d hd; exact h.1 d (by simpa using hd)
  · simpa using h.2

/-- Three-way broadcasting (`where`): if the condition and the unselected branch both broadcast into the
selected branch's shape, the result shape is the selected branch's shape. -/
theorem where_shortcut_shape (c x y : List Nat) (hc : knownToBroadcastInto c x = true)
    (hy : knownToBroadcastInto y x = true) :
    (bshape c x).bind (fun cx => bshape cx y) = some x := by
  rw [bshape_of_known c x hc]
  simp only [Option.bind_some]
  rw [bshape_comm, bshape_of_known y x hy]

/-- Without the guard on the other branch the shortcut is wrong: the pre-repair code returned
`x.copy()` of shape `[1]` for `where(True, [1], [1, 2, 3])`, whose broadcast shape is `[3]`. -/
theorem where_shortcut_needs_guard :
    (bshape [] [1]).bind (fun cx => bshape cx [3]) = some [3] ∧ knownToBroadcastInto [3] [1] = false := by
  decide

/-! ### absorption: broadcasting an operand against the common shape -/

theorem bdim_self (a : Nat) : bdim a a = some a := by simp [bdim]

theorem bdim_absorb (a b d : Nat) (h : bdim a b = some d) : bdim a d = some d := by
  unfold bdim at h ⊢
  by_cases h1 : a = b
  · subst h1; simp at h; subst h; simp
  · simp only [h1, if_false] at h
    by_cases h2 : a = 1
    · simp only [h2, if_true] at h
      injection h with h; subst h
      subst h2
      by_cases h3 : 1 = b <;> simp [h3]
    · simp only [h2, if_false] at h
      by_cases h3 : b = 1
      · simp only [h3, if_true] at h
        injection h with h; subst h; simp
      · simp [h3] at h

theorem bshapeRev_self : ∀ (s : List Nat), bshapeRev s s = some s
  | [] => rfl
  | a :: s => by simp [bshapeRev, bdim_self, bshapeRev_self s]

theorem bshapeRev_absorb : ∀ (s t r : List Nat), bshapeRev s t = some r → bshapeRev s r = some r
  | [], t, r, h => by simp [bshapeRev] at h; subst h; simp [bshapeRev]
  | a :: s, [], r, h => by
    simp [bshapeRev] at h; subst h; exact bshapeRev_self _
  | a :: s, b :: t, r, h => by
    simp only [bshapeRev] at h
    cases hd : bdim a b with
    | none => simp [hd] at h
    | some d =>
      cases hr : bshapeRev s t with
      | none => simp [hd, hr] at h
      | some r' =>
        simp only [hd, hr] at h
        injection h with h; subst h
        simp [bshapeRev, bdim_absorb a b d hd, bshapeRev_absorb s t r' hr]

/-- Broadcasting an operand against the common shape gives the common shape. -/
theorem bshape_absorb (s t r : List Nat) (h : bshape s t = some r) : bshape s r = some r := by
  unfold bshape at h ⊢
  cases hq : bshapeRev s.reverse t.reverse with
  | none => simp [hq] at h
  | some q =>
    simp only [hq, Option.map_some] at h
    injection h with h; subst h
    simp [bshapeRev_absorb _ _ _ hq]

theorem bshape_absorb_right (s t r : List Nat) (h : bshape s t = some r) : bshape t r = some r :=
  bshape_absorb t s r (by rw [bshape_comm]; exact h)


/-! ### associativity -/

theorem bdim_assoc (a b c : Nat) :
    (bdim a b).bind (fun ab => bdim ab c) = (bdim b c).bind (fun bc => bdim a bc) := by
  unfold bdim
  by_cases h1 : a = b <;> by_cases h2 : b = c <;> by_cases h3 : a = 1 <;> by_cases h4 : b = 1 <;> by_cases h5 : c = 1 <;>
    by_cases h6 : a = c <;> simp_all <;> omega

theorem bshapeRev_nil_left (t : List Nat) : bshapeRev [] t = some t := by cases t <;> rfl

def bcons (d : Option Nat) (r : Option (List Nat)) : Option (List Nat) :=
  match d, r with
  | some d, some r => some (d :: r)
  | _, _ => none

theorem bshapeRev_cons (a b : Nat) (s t : List Nat) : bshapeRev (a :: s) (b :: t) = bcons (bdim a b) (bshapeRev s t) := by
  simp only [bshapeRev, bcons]
  cases bdim a b <;> cases bshapeRev s t <;> rfl

theorem bcons_bind_left (d : Option Nat) (r : Option (List Nat)) (c : Nat) (u : List Nat) :
    (bcons d r).bind (fun x => bshapeRev x (c :: u)) = bcons (d.bind (fun y => bdim y c)) (r.bind (fun y => bshapeRev y u)) := by
  cases d <;> cases r <;> simp [bcons, bshapeRev_cons]

theorem bcons_bind_right (d : Option Nat) (r : Option (List Nat)) (a : Nat) (s : List Nat) :
    (bcons d r).bind (fun x => bshapeRev (a :: s) x) = bcons (d.bind (fun y => bdim a y)) (r.bind (fun y => bshapeRev s y)) := by
  cases d <;> cases r <;> simp [bcons, bshapeRev_cons]

theorem bshapeRev_assoc : ∀ (s t u : List Nat),
    (bshapeRev s t).bind (fun st => bshapeRev st u) = (bshapeRev t u).bind (fun tu => bshapeRev s tu)
  | [], t, u => by
    rw [bshapeRev_nil_left]
    simp only [Option.bind_some]
    cases bshapeRev t u <;> simp [bshapeRev_nil_left]
  | a :: s, [], u => by
    simp [bshapeRev, bshapeRev_nil_left]
  | a :: s, b :: t, [] => by
    simp only [bshapeRev_nil_right, Option.bind_some]
    cases bshapeRev (a :: s) (b :: t) <;> simp [bshapeRev_nil_right]
  | a :: s, b :: t, c :: u => by
    rw [bshapeRev_cons, bshapeRev_cons, bcons_bind_left, bcons_bind_right, bdim_assoc a b c, bshapeRev_assoc s t u]

/-- Broadcasting of shapes is associative (undefined on one side iff undefined on the other). -/
theorem bshape_assoc (s t u : List Nat) :
    (bshape s t).bind (fun st => bshape st u) = (bshape t u).bind (fun tu => bshape s tu) := by
  have h := bshapeRev_assoc s.reverse t.reverse u.reverse
  have e1 : (bshape s t).bind (fun st => bshape st u)
      = ((bshapeRev s.reverse t.reverse).bind (fun r => bshapeRev r u.reverse)).map List.reverse := by
    unfold bshape
    cases bshapeRev s.reverse t.reverse <;> simp
  have e2 : (bshape t u).bind (fun tu => bshape s tu)
      = ((bshapeRev t.reverse u.reverse).bind (fun r => bshapeRev s.reverse r)).map List.reverse := by
    unfold bshape
    cases bshapeRev t.reverse u.reverse <;> simp
  rw [e1, e2, h]


/-- Broadcasting into a shape is transitive. -/
theorem bshape_into_trans (a m out : List Nat) (h1 : bshape a m = some m) (h2 : bshape m out = some out) :
    bshape a out = some out := by
  have h := bshape_assoc a m out
  rw [h1, h2] at h
  simp only [Option.bind_some] at h
  rw [← h, h2]

end Ndx
