import NdonnxVerif.Model.Broadcast
/-! Broadcasting lemmas behind the shortcut guards. -/
namespace Ndx

theorem bdim_comm (a b : Nat) : bdim a b = bdim b a := by
  unfold bdim
  by_cases h : a = b
  · subst h; rfl
  · have h' : ¬ b = a := fun e => h e.symm
    simp only [h, h', if_false]
    by_cases ha : a = 1 <;> by_cases hb : b = 1 <;> simp_all

theorem bshapeRev_nil_right : ∀ (s : List Nat), bshapeRev s [] = some s
  | [] => rfl
  | _ :: _ => rfl

theorem bshapeRev_comm : ∀ (s t : List Nat), bshapeRev s t = bshapeRev t s
  | [], t => by rw [bshapeRev_nil_right]; rfl
  | a :: s, [] => rfl
  | a :: s, b :: t => by
    simp only [bshapeRev, bdim_comm a b, bshapeRev_comm s t]

/-- Broadcasting is commutative. -/
theorem bshape_comm (s t : List Nat) : bshape s t = bshape t s := by
  simp [bshape, bshapeRev_comm]

/-- **Guard soundness.** If `intoRev s t` holds, broadcasting `s` against `t` is `t`. -/
theorem bshapeRev_of_into : ∀ (s t : List Nat), intoRev s t = true → bshapeRev s t = some t
  | [], t, _ => rfl
  | _ :: _, [], h => by simp [intoRev] at h
  | a :: s, b :: t, h => by
    simp only [intoRev, Bool.and_eq_true, Bool.or_eq_true, beq_iff_eq] at h
    have ih := bshapeRev_of_into s t h.2
    have hd : bdim a b = some b := by
      unfold bdim
      rcases h.1 with h1 | h1
      · subst h1
        by_cases hb : 1 = b
        · simp [hb]
        · simp [hb]
      · subst h1; simp
    simp [bshapeRev, hd, ih]

theorem bshape_of_known (s t : List Nat) (h : knownToBroadcastInto s t = true) : bshape s t = some t := by
  simp [bshape, bshapeRev_of_into _ _ h]

/-- A single-element operand of rank ≤ the other's rank satisfies the guard (the condition used by
`logical_and/or` and for `where`'s condition). -/
theorem intoRev_of_all_one : ∀ (s t : List Nat), (∀ d ∈ s, d = 1) → s.length ≤ t.length → intoRev s t = true
  | [], _, _, _ => rfl
  | a :: s, [], _, hl => by simp at hl
  | a :: s, b :: t, h1, hl => by
    have ha : a = 1 := h1 a (by simp)
    have := intoRev_of_all_one s t (fun d hd => h1 d (by simp [hd])) (by simpa using hl)
    simp [intoRev, ha, this]

theorem bshape_of_single_element (s t : List Nat) (h : singleElementOfRankLe s t = true) : bshape s t = some t := by
  simp only [singleElementOfRankLe, Bool.and_eq_true, List.all_eq_true, beq_iff_eq, decide_eq_true_eq] at h
  apply bshape_of_known
  unfold knownToBroadcastInto
  apply intoRev_of_all_one
  · intro d hd; exact h.1 d (by simpa using hd)
  · simpa using h.2

/-- Three-way broadcasting (`where`): if the condition and the unselected branch both broadcast into the
selected branch's shape, the result shape is the selected branch's shape. -/
theorem where_shortcut_shape (c x y : List Nat) (hc : knownToBroadcastInto c x = true)
    (hy : knownToBroadcastInto y x = true) :
    (bshape c x).bind (fun cx => bshape cx y) = some x := by
  rw [bshape_of_known c x hc]
  simp only [Option.bind_some]
  rw [bshape_comm, bshape_of_known y x hy]

/-- Without the guard on the other branch the shortcut is wrong: the pre-repair code returned
`x.copy()` of shape `[1]` for `where(True, [1], [1, 2, 3])`, whose broadcast shape is `[3]`. -/
theorem where_shortcut_needs_guard :
    (bshape [] [1]).bind (fun cx => bshape cx [3]) = some [3] ∧ knownToBroadcastInto [3] [1] = false := by
  decide

/-! ### absorption: broadcasting an operand against the common shape -/

theorem bdim_self (a : Nat) : bdim a a = some a := by simp [bdim]

theorem bdim_absorb (a b d : Nat) (h : bdim a b = some d) : bdim a d = some d := by
  unfold bdim at h ⊢
  by_cases h1 : a = b
  · subst h1; simp at h; subst h; simp
  · simp only [h1, if_false] at h
    by_cases h2 : a = 1
    · simp only [h2, if_true] at h
      injection h with h; subst h
      subst h2
      by_cases h3 : 1 = b <;> simp [h3]
    · simp only [h2, if_false] at h
      by_cases h3 : b = 1
      · simp only [h3, if_true] at h
        injection h with h; subst h; simp
      · simp [h3] at h

theorem bshapeRev_self : ∀ (s : List Nat), bshapeRev s s = some s
  | [] => rfl
  | a :: s => by simp [bshapeRev, bdim_self, bshapeRev_self s]

theorem bshapeRev_absorb : ∀ (s t r : List Nat), bshapeRev s t = some r → bshapeRev s r = some r
  | [], t, r, h => by simp [bshapeRev] at h; subst h; simp [bshapeRev]
  | a :: s, [], r, h => by
    simp [bshapeRev] at h; subst h; exact bshapeRev_self _
  | a :: s, b :: t, r, h => by
    simp only [bshapeRev] at h
    cases hd : bdim a b with
    | none => simp [hd] at h
    | some d =>
      cases hr : bshapeRev s t with
      | none => simp [hd, hr] at h
      | some r' =>
        simp only [hd, hr] at h
        injection h with h; subst h
        simp [bshapeRev, bdim_absorb a b d hd, bshapeRev_absorb s t r' hr]

/-- Broadcasting an operand against the common shape gives the common shape. -/
theorem bshape_absorb (s t r : List Nat) (h : bshape s t = some r) : bshape s r = some r := by
  unfold bshape at h ⊢
  cases hq : bshapeRev s.reverse t.reverse with
  | none => simp [hq] at h
  | some q =>
    simp only [hq, Option.map_some] at h
    injection h with h; subst h
    simp [bshapeRev_absorb _ _ _ hq]

theorem bshape_absorb_right (s t r : List Nat) (h : bshape s t = some r) : bshape t r = some r :=
  bshape_absorb t s r (by rw [bshape_comm]; exact h)


/-! ### associativity -/

theorem bdim_assoc (a b c : Nat) :
    (bdim a b).bind (fun ab => bdim ab c) = (bdim b c).bind (fun bc => bdim a bc) := by
  unfold bdim
  by_cases h1 : a = b <;> by_cases h2 : b = c <;> by_cases h3 : a = 1 <;> by_cases h4 : b = 1 <;> by_cases h5 : c = 1 <;>
    by_cases h6 : a = c <;> simp_all <;> omega

theorem bshapeRev_nil_left (t : List Nat) : bshapeRev [] t = some t := by cases t <;> rfl

def bcons (d : Option Nat) (r : Option (List Nat)) : Option (List Nat) :=
  match d, r with
  | some d, some r => some (d :: r)
  | _, _ => none

theorem bshapeRev_cons (a b : Nat) (s t : List Nat) : bshapeRev (a :: s) (b :: t) = bcons (bdim a b) (bshapeRev s t) := by
  simp only [bshapeRev, bcons]
  cases bdim a b <;> cases bshapeRev s t <;> rfl

theorem bcons_bind_left (d : Option Nat) (r : Option (List Nat)) (c : Nat) (u : List Nat) :
    (bcons d r).bind (fun x => bshapeRev x (c :: u)) = bcons (d.bind (fun y => bdim y c)) (r.bind (fun y => bshapeRev y u)) := by
  cases d <;> cases r <;> simp [bcons, bshapeRev_cons]

theorem bcons_bind_right (d : Option Nat) (r : Option (List Nat)) (a : Nat) (s : List Nat) :
    (bcons d r).bind (fun x => bshapeRev (a :: s) x) = bcons (d.bind (fun y => bdim a y)) (r.bind (fun y => bshapeRev s y)) := by
  cases d <;> cases r <;> simp [bcons, bshapeRev_cons]

theorem bshapeRev_assoc : ∀ (s t u : List Nat),
    (bshapeRev s t).bind (fun st => bshapeRev st u) = (bshapeRev t u).bind (fun tu => bshapeRev s tu)
  | [], t, u => by
    rw [bshapeRev_nil_left]
    simp only [Option.bind_some]
    cases bshapeRev t u <;> simp [bshapeRev_nil_left]
  | a :: s, [], u => by
    simp [bshapeRev, bshapeRev_nil_left]
  | a :: s, b :: t, [] => by
    simp only [bshapeRev_nil_right, Option.bind_some]
    cases bshapeRev (a :: s) (b :: t) <;> simp [bshapeRev_nil_right]
  | a :: s, b :: t, c :: u => by
    rw [bshapeRev_cons, bshapeRev_cons, bcons_bind_left, bcons_bind_right, bdim_assoc a b c, bshapeRev_assoc s t u]

/-- Broadcasting of shapes is associative (undefined on one side iff undefined on the other). -/
theorem bshape_assoc (s t u : List Nat) :
    (bshape s t).bind (fun st => bshape st u) = (bshape t u).bind (fun tu => bshape s tu) := by
  have h := bshapeRev_assoc s.reverse t.reverse u.reverse
  have e1 : (bshape s t).bind (fun st => bshape st u)
      = ((bshapeRev s.reverse t.reverse).bind (fun r => bshapeRev r u.reverse)).map List.reverse := by
    unfold bshape
    cases bshapeRev s.reverse t.reverse <;> simp
  have e2 : (bshape t u).bind (fun tu => bshape s tu)
      = ((bshapeRev t.reverse u.reverse).bind (fun r => bshapeRev s.reverse r)).map List.reverse := by
    unfold bshape
    cases bshapeRev t.reverse u.reverse <;> simp
  rw [e1, e2, h]


/-- Broadcasting into a shape is transitive. -/
theorem bshape_into_trans (a m out : List Nat) (h1 : bshape a m = some m) (h2 : bshape m out = some out) :
    bshape a out = some out := by
  have h := bshape_assoc a m out
  rw [h1, h2] at h
  simp only [Option.bind_some] at h
  rw [← h, h2]

/-! ### least upper bound, antisymmetry -/

theorem intoRev_of_bshapeRev : ∀ (s m : List Nat), bshapeRev s m = some m → intoRev s m = true
  | [], _, _ => rfl
  | a :: s, [], h => by simp [bshapeRev] at h
  | a :: s, b :: m, h => by
    simp only [bshapeRev] at h
    cases hd : bdim a b with
    | none => simp [hd] at h
    | some d =>
      cases hr : bshapeRev s m with
      | none => simp [hd, hr] at h
      | some r =>
        simp only [hd, hr, Option.some.injEq, List.cons.injEq] at h
        obtain ⟨h1, h2⟩ := h
        subst h1 h2
        simp only [intoRev, Bool.and_eq_true, Bool.or_eq_true, beq_iff_eq]
        refine ⟨?_, intoRev_of_bshapeRev s r hr⟩
        unfold bdim at hd
        by_cases e : a = d
        · exact Or.inr e
        · simp only [e, if_false] at hd
          by_cases e1 : a = 1
          · exact Or.inl e1
          · simp only [e1, if_false] at hd
            by_cases e2 : d = 1
            · simp only [e2, if_true, Option.some.injEq] at hd; omega
            · simp [e2] at hd

/-- Two shapes that broadcast into `o` broadcast together, into a shape that broadcasts into `o` (reversed lists). -/
theorem bshapeRev_lub : ∀ (c a o : List Nat), intoRev c o = true → intoRev a o = true →
    ∃ s, bshapeRev c a = some s ∧ intoRev s o = true
  | [], a, o, _, h2 => ⟨a, by cases a <;> rfl, h2⟩
  | c0 :: c, [], o, h1, _ => ⟨c0 :: c, rfl, h1⟩
  | c0 :: c, a0 :: a, [], h1, _ => by simp [intoRev] at h1
  | c0 :: c, a0 :: a, o0 :: o, h1, h2 => by
    simp only [intoRev, Bool.and_eq_true, Bool.or_eq_true, beq_iff_eq] at h1 h2
    obtain ⟨s, hs, hso⟩ := bshapeRev_lub c a o h1.2 h2.2
    have hd : ∃ d, bdim c0 a0 = some d ∧ (d = 1 ∨ d = o0) := by
      unfold bdim
      rcases h1.1 with e1 | e1 <;> rcases h2.1 with e2 | e2
      · subst e1 e2; exact ⟨1, by simp, Or.inl rfl⟩
      · subst e1 e2
        by_cases e : 1 = a0
        · exact ⟨1, by simp [e], Or.inl rfl⟩
        · exact ⟨a0, by simp [e], Or.inr rfl⟩
      · subst e1 e2
        by_cases e : c0 = 1
        · exact ⟨c0, by simp [e], Or.inl e⟩
        · exact ⟨c0, by simp [e], Or.inr rfl⟩
      · rw [e1, e2]; exact ⟨o0, by simp, Or.inr rfl⟩
    obtain ⟨d, hd1, hd2⟩ := hd
    refine ⟨d :: s, by simp [bshapeRev, hd1, hs], ?_⟩
    simp only [intoRev, Bool.and_eq_true, Bool.or_eq_true, beq_iff_eq]
    exact ⟨hd2, hso⟩

theorem bshape_some_rev (s t r : List Nat) : bshape s t = some r ↔ bshapeRev s.reverse t.reverse = some r.reverse := by
  unfold bshape
  cases bshapeRev s.reverse t.reverse with
  | none => simp
  | some q =>
    simp only [Option.map_some, Option.some.injEq]
    constructor
    · intro h; rw [← h]; simp
    · intro h; rw [h]; simp

/-- **Least upper bound.** Two shapes that broadcast into `o` broadcast together, into a shape that broadcasts into `o`. -/
theorem bshape_lub (c a o : List Nat) (h1 : bshape c o = some o) (h2 : bshape a o = some o) :
    ∃ s, bshape c a = some s ∧ bshape s o = some o := by
  have r1 := intoRev_of_bshapeRev _ _ ((bshape_some_rev c o o).mp h1)
  have r2 := intoRev_of_bshapeRev _ _ ((bshape_some_rev a o o).mp h2)
  obtain ⟨s, hs, hso⟩ := bshapeRev_lub _ _ _ r1 r2
  refine ⟨s.reverse, (bshape_some_rev c a s.reverse).mpr (by simpa using hs), ?_⟩
  exact (bshape_some_rev s.reverse o o).mpr (by simpa using bshapeRev_of_into _ _ hso)

/-- Broadcasting into each other means equality. -/
theorem bshape_antisymm (x y : List Nat) (h1 : bshape x y = some y) (h2 : bshape y x = some x) : x = y := by
  rw [bshape_comm] at h2
  rw [h1] at h2
  exact (Option.some.inj h2).symm


theorem intoRev_length : ∀ (s t : List Nat), intoRev s t = true → s.length ≤ t.length
  | [], _, _ => Nat.zero_le _
  | _ :: _, [], h => by simp [intoRev] at h
  | a :: s, b :: t, h => by
    simp only [intoRev, Bool.and_eq_true] at h
    have := intoRev_length s t h.2
    simp only [List.length_cons]; omega

theorem bshape_into_length (x y : List Nat) (h : bshape x y = some y) : x.length ≤ y.length := by
  have := intoRev_length _ _ (intoRev_of_bshapeRev _ _ ((bshape_some_rev x y y).mp h))
  simpa using this

end Ndx
