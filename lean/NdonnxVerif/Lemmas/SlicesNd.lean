import NdonnxVerif.Lemmas.TGraph
import NdonnxVerif.Props.C08Tensor
import NdonnxVerif.Props.C11
/-! N-d composition lemmas for slice-only indices: the `Slice` stage read per axis, NumPy's left-to-right reading per axis. -/
namespace Ndx.TGraph
open Ndx

def slF : NIx × Nat → Option (Nat × Int × Int × Int) :=
  fun p => match p.1 with | .sl a b c => some (p.2, a, b, c) | _ => none

theorem slices_find_aux : ∀ (l : List NIx) (k ax : Nat),
    ((l.zipIdx k).filterMap slF).find? (fun s => s.1 == ax)
      = if ax < k then none else
          match l[ax - k]? with
          | some (.sl a b c) => some (ax, a, b, c)
          | _ => none := by
  intro l
  induction l with
  | nil => intro k ax; simp; 
  | cons e l ih =>
    intro k ax
    simp only [List.zipIdx_cons, List.filterMap_cons]
    by_cases hlt : ax < k
    · -- every stored axis is ≥ k
      have := ih (k + 1) ax
      simp only [show ax < k + 1 by omega, if_true] at this
      simp only [hlt, if_true]
      cases e <;> simp only [slF] <;> try exact this
      rw [List.find?_cons]
      have : ((k == ax) = false) := by simp; omega
      simp only [this]
      assumption
    · simp only [hlt, if_false]
      by_cases heq : ax = k
      · subst heq
        have := ih (ax + 1) ax
        simp only [show ax < ax + 1 by omega, if_true] at this
        cases e <;> simp [slF, this]
      · have := ih (k + 1) ax
        simp only [show ¬ ax < k + 1 by omega, if_false] at this
        have hidx : (e :: l)[ax - k]? = l[ax - (k + 1)]? := by
          have : ax - k = (ax - (k + 1)) + 1 := by omega
          rw [this]; simp
        rw [hidx]
        cases e <;> simp only [slF] <;> try exact this
        rw [List.find?_cons]
        have : ((k == ax) = false) := by simp; omega
        simp only [this]
        assumption

/-- For an index without `None` entries, the `Slice` stage addresses axis `ax` exactly when entry `ax` is an
explicit-step slice. -/
theorem axisSlices_find (index : List NIx) (hnn : ∀ e ∈ index, isNewaxis e = false) (ax : Nat) :
    (axisSlices index).find? (fun s => s.1 == ax)
      = match index[ax]? with
        | some (.sl a b c) => some (ax, a, b, c)
        | _ => none := by
  unfold axisSlices
  have hf : index.filter (fun x => !isNewaxis x) = index := by
    apply List.filter_eq_self.mpr
    intro e he; simp [hnn e he]
  rw [hf]
  have := slices_find_aux index 0 ax
  simp only [Nat.not_lt_zero, if_false, Nat.sub_zero] at this
  exact this

end Ndx.TGraph
namespace Ndx.TGraph
open Ndx Ndx.Spec Ndx.C08

/-- A tensor read through one (first, count, step) triple per axis. -/
def axesT (t : Tensor α) (tr : List (Int × Nat × Int)) : Tensor α :=
  ⟨tr.map (·.2.1), fun ix => t.get (List.zipWith (fun (p : Int × Nat × Int) (i : Nat) => (p.1 + Int.ofNat i * p.2.2).toNat) tr ix)⟩

theorem mapIdx_eq_zipWith_getD {β γ : Type} (l : List β) (f : Nat → β → γ) :
    l.mapIdx f = List.zipWith (fun k b => f k b) (List.range l.length) l := by
  apply List.ext_getElem
  · simp
  · intro k h1 h2; simp

/-- `modelAxis` of the entry at position `k`, with `.full` beyond the list. -/
def modelTriples (nix : List NIx) (sh : List Nat) : List (Int × Nat × Int) :=
  List.zipWith (fun e n => modelAxis n e) nix sh

theorem onnxSlice_eq_axesT (t : Tensor α) (nix : List NIx) (hnn : ∀ e ∈ nix, isNewaxis e = false)
    (hlen : nix.length = t.shape.length) :
    (onnxSlice t (axisSlices nix)).Equiv (axesT t (modelTriples nix t.shape)) := by
  constructor
  · simp only [onnxSlice, axesT, modelTriples]
    apply List.ext_getElem
    · simp [hlen]
    · intro k h1 h2
      simp only [List.length_mapIdx] at h1
      have hk : k < nix.length := by omega
      simp only [List.getElem_mapIdx, List.getElem_map, List.getElem_zipWith]
      rw [axisSlices_find nix hnn k, List.getElem?_eq_getElem hk]
      have hg : t.shape.getD k 0 = t.shape[k] := by simp [List.getD_eq_getElem?_getD, List.getElem?_eq_getElem h1]
      cases hq : nix[k] <;> simp [modelAxis, hg, List.getElem?_eq_getElem ‹k < t.shape.length›]
  · intro ix hix
    simp only [onnxSlice, axesT, modelTriples] at hix ⊢
    congr 1
    have hixlen : ix.length = t.shape.length := by
      have := C11.inRange_length _ _ hix
      simpa using this
    apply List.ext_getElem
    · simp [hlen, hixlen]
    · intro k h1 h2
      simp only [List.length_mapIdx] at h1
      have hk : k < nix.length := by omega
      have hks : k < t.shape.length := by omega
      simp only [List.getElem_mapIdx, List.getElem_zipWith]
      rw [axisSlices_find nix hnn k, List.getElem?_eq_getElem hk]
      have hg : t.shape.getD k 0 = t.shape[k] := by simp [List.getD_eq_getElem?_getD, List.getElem?_eq_getElem hks]
      cases hq : nix[k] <;> simp [modelAxis, hg, List.getElem?_eq_getElem ‹k < t.shape.length›]

end Ndx.TGraph
namespace Ndx.TGraph
open Ndx Ndx.Spec Ndx.C08

abbrev SliceArg := Option Int × Option Int × Option Int

def slicesIx (sl : List SliceArg) : List Ix := sl.map (fun s => Ix.slice s.1 s.2.1 s.2.2)

def pyTriples (sl : List SliceArg) (sh : List Nat) : List (Int × Nat × Int) :=
  List.zipWith (fun (s : SliceArg) n => pySlice n s.1 s.2.1 s.2.2) sl sh

theorem axesT_congr (t : Tensor α) (A B : List (Int × Nat × Int)) (hlen : A.length = B.length)
    (h : ∀ k (hk : k < A.length), A[k].2.1 = (B[k]'(hlen ▸ hk)).2.1 ∧
      ∀ i, i < A[k].2.1 → A[k].1 + Int.ofNat i * A[k].2.2 = (B[k]'(hlen ▸ hk)).1 + Int.ofNat i * (B[k]'(hlen ▸ hk)).2.2) :
    (axesT t A).Equiv (axesT t B) := by
  constructor
  · simp only [axesT]
    apply List.ext_getElem
    · simp [hlen]
    · intro k h1 h2
      simp only [List.length_map] at h1
      simp [(h k h1).1]
  · intro ix hix
    simp only [axesT] at hix ⊢
    congr 1
    have hixlen := C11.inRange_length _ _ hix
    simp only [List.length_map] at hixlen
    apply List.ext_getElem
    · simp [hlen]
    · intro k h1 h2
      simp only [List.length_zipWith] at h1
      have hk : k < A.length := by omega
      have hik : k < ix.length := by omega
      have hi := C11.inRange_get _ _ hix k hik
      simp only [List.getElem_zipWith]
      have hcnt : ix[k] < A[k].2.1 := by
        simpa [List.getD_eq_getElem?_getD, List.getElem?_eq_getElem (show k < (A.map (·.2.1)).length by simpa using hk)] using hi
      rw [(h k hk).2 ix[k] hcnt]

theorem expand_slices (rank : Nat) (sl : List SliceArg) : Spec.expand rank (slicesIx sl) = slicesIx sl := by
  unfold Spec.expand slicesIx
  generalize (List.filter (fun x => !isNoneOrEllipsis x) (List.map (fun s => Ix.slice s.1 s.2.1 s.2.2) sl)).length = c
  induction sl with
  | nil => rfl
  | cons s sl ih => simp [List.flatMap_cons, ih]

theorem basic_slices : ∀ (sl : List SliceArg) (sh : List Nat), sl.length = sh.length →
    (Spec.basic (slicesIx sl) sh).1 = (pyTriples sl sh).map (·.2.1) ∧
    ∀ o : List Nat, o.length = sl.length → (Spec.basic (slicesIx sl) sh).2 o
      = List.zipWith (fun (p : Int × Nat × Int) (i : Nat) => (p.1 + Int.ofNat i * p.2.2).toNat) (pyTriples sl sh) o
  | [], [], _ => by
    refine ⟨rfl, ?_⟩
    intro o ho
    have : o = [] := List.eq_nil_of_length_eq_zero (by simpa using ho)
    subst this; rfl
  | s :: sl, n :: sh, hl => by
    obtain ⟨ih1, ih2⟩ := basic_slices sl sh (by simpa using hl)
    simp only [slicesIx, List.map_cons, Spec.basic, pyTriples, List.zipWith_cons_cons] at ih1 ih2 ⊢
    refine ⟨by simp [ih1], ?_⟩
    intro o ho
    match o, ho with
    | i :: o, ho =>
      simp only [List.headD_cons, List.tail_cons, List.zipWith_cons_cons]
      rw [ih2 o (by simpa using ho)]
  | [], _ :: _, hl => by simp at hl
  | _ :: _, [], hl => by simp at hl

theorem spec_getitem_slices (t : Tensor α) (sl : List SliceArg) (hlen : sl.length = t.rank) :
    (Spec.getitem t (slicesIx sl)).Equiv (axesT t (pyTriples sl t.shape)) := by
  obtain ⟨h1, h2⟩ := basic_slices sl t.shape hlen
  unfold Spec.getitem
  rw [expand_slices]
  constructor
  · simp only [axesT]; exact h1
  · intro ix hix
    simp only [axesT] at hix ⊢
    rw [h1] at hix
    have hixlen := C11.inRange_length _ _ hix
    simp only [List.length_map, pyTriples, List.length_zipWith] at hixlen
    rw [h2 ix (by simp only [Tensor.rank] at hlen; omega)]

end Ndx.TGraph
namespace Ndx.TGraph
open Ndx Ndx.Spec Ndx.C08

/-- `index_normalise` on one slice. -/
def normSl (s : SliceArg) : NIx :=
  let start := defaultStart (stepPositive s.2.2) s.1
  let stop := defaultStop (stepPositive s.2.2) s.2.1
  let step := s.2.2.getD 1
  if start = 0 ∧ stop = int64Max ∧ step = 1 then .full else .sl start stop step

theorem normaliseEntry_slice (s : SliceArg) : normaliseEntry (.slice s.1 s.2.1 s.2.2) = .ok (normSl s) := by
  simp only [normaliseEntry, normSl]; split <;> rfl

theorem normaliseAll_slices : ∀ (sl : List SliceArg), normaliseAll (slicesIx sl) = .ok (sl.map normSl)
  | [] => rfl
  | s :: sl => by
    simp only [slicesIx, List.map_cons, normaliseAll, normaliseEntry_slice]
    have := normaliseAll_slices sl
    simp only [slicesIx] at this
    rw [this]

theorem normSl_not_newaxis (s : SliceArg) : isNewaxis (normSl s) = false := by
  simp only [normSl]; split <;> rfl

theorem normSl_not_int (s : SliceArg) : isIntEntry (normSl s) = false := by
  simp only [normSl]; split <;> rfl

theorem normaliseIndex_slices (rank : Nat) (sl : List SliceArg) (hlen : sl.length = rank) :
    normaliseIndex rank (slicesIx sl) = .ok (sl.map normSl) := by
  have hne : (slicesIx sl).any isEllipsis = false := by
    simp [slicesIx, List.any_eq_false, isEllipsis]
  simp only [normaliseIndex, constructIndex, hne, Bool.false_eq_true, if_false, normaliseAll_slices, bind, Except.bind]
  have hf : ((sl.map normSl).filter (fun x => !isNewaxis x)).length = rank := by
    rw [List.filter_eq_self.mpr]
    · simpa using hlen
    · intro e he
      obtain ⟨s, _, rfl⟩ := List.mem_map.mp he
      simp [normSl_not_newaxis]
  simp [hf]

theorem filterMap_none_of_all {β γ : Type} (l : List β) (f : β → Option γ) (h : ∀ b ∈ l, f b = none) : l.filterMap f = [] := by
  induction l with
  | nil => rfl
  | cons a l ih => simp [List.filterMap_cons, h a (by simp), ih (fun b hb => h b (List.mem_cons_of_mem _ hb))]

theorem axisIndices_slices (sl : List SliceArg) : axisIndices (sl.map normSl) = [] := by
  unfold axisIndices
  apply filterMap_none_of_all
  intro p hp
  have hm : p.1 ∈ (sl.map normSl).filter (fun x => !isNewaxis x) := by
    have := List.mem_zipIdx hp
    simp only [Nat.zero_add] at this
    rw [this.2.2]; exact List.getElem_mem _
  obtain ⟨s, _, hs⟩ := List.mem_map.mp (List.mem_filter.mp hm).1
  have := normSl_not_int s
  rw [hs] at this
  cases hq : p.1 <;> simp_all [isIntEntry]

theorem axisNewAxes_slices (sl : List SliceArg) : axisNewAxes (sl.map normSl) = [] := by
  unfold axisNewAxes
  apply filterMap_none_of_all
  intro p hp
  have hm : p.1 ∈ (sl.map normSl).filter (fun x => !isIntEntry x) := by
    have := List.mem_zipIdx hp
    simp only [Nat.zero_add] at this
    rw [this.2.2]; exact List.getElem_mem _
  obtain ⟨s, _, hs⟩ := List.mem_map.mp (List.mem_filter.mp hm).1
  have := normSl_not_newaxis s
  rw [hs] at this
  cases hq : p.1 <;> simp_all [isNewaxis]

theorem onnxSlice_nil (t : Tensor α) : (onnxSlice t []).Equiv t := by
  constructor
  · simp [onnxSlice, mapIdx_snd]
  · intro ix _
    simp [onnxSlice, mapIdx_snd]

end Ndx.TGraph
