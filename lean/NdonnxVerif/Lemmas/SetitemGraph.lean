import NdonnxVerif.Lemmas.NdIndex
import NdonnxVerif.Lemmas.Positions
import NdonnxVerif.Props.C08Graph
import NdonnxVerif.Props.C09Assign
/-! Lemmas for the graph-level `__setitem__` theorem: the index applied to the coordinate grid (a trailing coordinate
axis is carried along), positions of an admissible index lie inside the array, `Slice(shape, [0], [-1])`, `Expand`
against the model's `expandTo`, `ScatterND` paths read off the grid. -/
namespace Ndx.TGraph
open Ndx Ndx.Spec Ndx.C08

/-! ### a trailing untouched axis -/

theorem axisSlices_append_full (E : List NIx) : axisSlices (E ++ [.full]) = axisSlices E := by
  unfold axisSlices
  simp only [List.filter_append, List.filter_cons, isNew_full, Bool.not_false, if_true, List.filter_nil]
  rw [List.zipIdx_append, List.filterMap_append]
  simp

theorem axisIndices_append_full (E : List NIx) : axisIndices (E ++ [.full]) = axisIndices E := by
  unfold axisIndices
  simp only [List.filter_append, List.filter_cons, isNew_full, Bool.not_false, if_true, List.filter_nil]
  rw [List.zipIdx_append, List.filterMap_append]
  simp

theorem axisNewAxes_append_full (E : List NIx) : axisNewAxes (E ++ [.full]) = axisNewAxes E := by
  unfold axisNewAxes
  simp only [List.filter_append, List.filter_cons, isInt_full, Bool.not_false, if_true, List.filter_nil]
  rw [List.zipIdx_append, List.filterMap_append]
  simp

theorem getitemCore_append_full (t : Tensor α) (E : List NIx) : getitemCore t (E ++ [.full]) = getitemCore t E := by
  simp only [getitemCore, axisSlices_append_full, axisIndices_append_full, axisNewAxes_append_full]

theorem dropNew_append_full (E : List NIx) : dropNew (E ++ [.full]) = dropNew E ++ [.full] := by
  simp [dropNew, List.filter_append, isNew_full]

theorem intsInRange_append_full : ∀ (E : List NIx) (sh : List Nat) (r : Nat), E.length = sh.length → IntsInRange E sh →
    IntsInRange (E ++ [.full]) (sh ++ [r])
  | [], [], r, _, _ => by simp [IntsInRange]
  | [], _ :: _, r, h, _ => by simp at h
  | _ :: _, [], r, h, _ => by simp at h
  | .int i :: E, n :: sh, r, h, hi => by
    simp only [List.cons_append, IntsInRange] at hi ⊢
    exact ⟨hi.1, intsInRange_append_full E sh r (by simpa using h) hi.2⟩
  | .sl a b c :: E, n :: sh, r, h, hi => by
    simp only [List.cons_append, IntsInRange] at hi ⊢
    exact intsInRange_append_full E sh r (by simpa using h) hi
  | .full :: E, n :: sh, r, h, hi => by
    simp only [List.cons_append, IntsInRange] at hi ⊢
    exact intsInRange_append_full E sh r (by simpa using h) hi
  | .newaxis :: E, n :: sh, r, h, hi => by
    simp only [List.cons_append, IntsInRange] at hi ⊢
    exact intsInRange_append_full E sh r (by simpa using h) hi

theorem modelS'_append_full : ∀ (E : List NIx) (sh : List Nat) (r : Nat), (dropNew E).length = sh.length →
    modelS' (E ++ [.full]) (sh ++ [r]) = modelS' E sh ++ [r]
  | [], [], r, _ => by simp [modelS', modelAxis]
  | [], _ :: _, r, h => by simp [dropNew] at h
  | .newaxis :: E, sh, r, h => by
    have ih := modelS'_append_full E sh r (by simpa [dropNew, isNew_new] using h)
    simp only [List.cons_append, modelS', ih]
  | .int i :: E, [], r, h => by simp [dropNew, isNew_int] at h
  | .sl a b c :: E, [], r, h => by simp [dropNew, isNew_sl] at h
  | .full :: E, [], r, h => by simp [dropNew, isNew_full] at h
  | .int i :: E, n :: sh, r, h => by
    have ih := modelS'_append_full E sh r (by simpa [dropNew, isNew_int] using h)
    simp only [List.cons_append, modelS', ih]
  | .sl a b c :: E, n :: sh, r, h => by
    have ih := modelS'_append_full E sh r (by simpa [dropNew, isNew_sl] using h)
    simp only [List.cons_append, modelS', ih]
  | .full :: E, n :: sh, r, h => by
    have ih := modelS'_append_full E sh r (by simpa [dropNew, isNew_full] using h)
    simp only [List.cons_append, modelS', ih]

theorem modelF'_append_full : ∀ (E : List NIx) (sh : List Nat) (r : Nat) (o : List Nat) (j : Nat),
    (dropNew E).length = sh.length → o.length = (modelS' E sh).length →
    modelF' (E ++ [.full]) (sh ++ [r]) (o ++ [j]) = modelF' E sh o ++ [j]
  | [], [], r, o, j, _, ho => by
    have : o = [] := by simpa [modelS'] using ho
    subst this
    simp [modelF', modelAxis]
  | [], _ :: _, r, o, j, h, _ => by simp [dropNew] at h
  | .newaxis :: E, sh, r, o, j, h, ho => by
    match o, ho with
    | [], ho => simp [modelS'] at ho
    | a :: o, ho =>
      have ih := modelF'_append_full E sh r o j (by simpa [dropNew, isNew_new] using h) (by simpa [modelS'] using ho)
      simp only [List.cons_append, modelF', List.tail_cons, ih]
  | .int i :: E, [], r, o, j, h, _ => by simp [dropNew, isNew_int] at h
  | .sl a b c :: E, [], r, o, j, h, _ => by simp [dropNew, isNew_sl] at h
  | .full :: E, [], r, o, j, h, _ => by simp [dropNew, isNew_full] at h
  | .int i :: E, n :: sh, r, o, j, h, ho => by
    have ih := modelF'_append_full E sh r o j (by simpa [dropNew, isNew_int] using h) (by simpa [modelS'] using ho)
    simp only [List.cons_append, modelF', ih]
  | .sl a b c :: E, n :: sh, r, o, j, h, ho => by
    match o, ho with
    | [], ho => simp [modelS'] at ho
    | q :: o, ho =>
      have ih := modelF'_append_full E sh r o j (by simpa [dropNew, isNew_sl] using h) (by simpa [modelS'] using ho)
      simp only [List.cons_append, modelF', List.tail_cons, List.headD_cons, ih]
  | .full :: E, n :: sh, r, o, j, h, ho => by
    match o, ho with
    | [], ho => simp [modelS'] at ho
    | q :: o, ho =>
      have ih := modelF'_append_full E sh r o j (by simpa [dropNew, isNew_full] using h) (by simpa [modelS'] using ho)
      simp only [List.cons_append, modelF', List.tail_cons, List.headD_cons, ih]


theorem inRange_snoc : ∀ (sh o : List Nat) (r j : Nat), InRange sh o → j < r → InRange (sh ++ [r]) (o ++ [j])
  | [], [], r, j, _, hj => by simp [InRange, hj]
  | n :: sh, i :: o, r, j, h, hj => ⟨h.1, inRange_snoc sh o r j h.2 hj⟩
  | [], _ :: _, _, _, h, _ => absurd h (by simp [InRange])
  | _ :: _, [], _, _, h, _ => absurd h (by simp [InRange])

/-- **The index applied to a grid with a trailing coordinate axis**: the trailing axis is carried along, the leading
axes are selected as on a tensor of shape `S`. -/
theorem getitemCore_trailing (G : Tensor α) (E : List NIx) (S : List Nat) (r : Nat) (hG : G.shape = S ++ [r])
    (hlen : (dropNew E).length = S.length) (hi : IntsInRange (dropNew E) S) :
    (getitemCore G E).shape = modelS' E S ++ [r] ∧
    ∀ o j, InRange (modelS' E S) o → j < r → (getitemCore G E).get (o ++ [j]) = G.get (modelF' E S o ++ [j]) := by
  rw [← getitemCore_append_full G E]
  obtain ⟨h1, h2⟩ := getitemCore_withNew G (E ++ [.full])
    (by rw [dropNew_append_full, hG]; simp [hlen])
    (by rw [dropNew_append_full, hG]; exact intsInRange_append_full _ _ r hlen hi)
  rw [hG, modelS'_append_full E S r hlen] at h1 h2
  refine ⟨h1, ?_⟩
  intro o j ho hj
  rw [h2 (o ++ [j]) (inRange_snoc _ _ r j ho hj), modelF'_append_full E S r o j hlen (C11.inRange_length _ _ ho)]

/-- Source positions of an admissible index lie inside the array. -/
theorem modelF'_inRange : ∀ (I : List Ix) (sh : List Nat), AdmissibleN I sh → ∀ (o : List Nat),
    InRange (modelS' (I.map normE) sh) o → InRange sh (modelF' (I.map normE) sh o)
  | [], [], _, o, ho => by
    simp only [List.map_nil, modelS'] at ho
    match o, ho with
    | [], _ => simp [modelF', InRange]
  | .newaxis :: I, sh, h, o, ho => by
    simp only [List.map_cons, normE, modelS'] at ho
    match o, ho with
    | y :: o, ho =>
      simp only [List.map_cons, normE, modelF', List.tail_cons]
      exact modelF'_inRange I sh h o ho.2
  | .int i :: I, n :: sh, h, o, ho => by
    simp only [List.map_cons, normE, modelS'] at ho
    simp only [List.map_cons, normE, modelF']
    refine ⟨?_, modelF'_inRange I sh h.2 o ho⟩
    have := h.1
    simp only [normIdx]
    split <;> omega
  | .slice a b c :: I, n :: sh, h, o, ho => by
    obtain ⟨⟨hb, hn⟩, hrest⟩ := h
    have hns : ∀ (E : List NIx) (o : List Nat),
        modelS' (normSl (a, b, c) :: E) (n :: sh) = (modelAxis n (normSl (a, b, c))).2.1 :: modelS' E sh ∧
        modelF' (normSl (a, b, c) :: E) (n :: sh) o
          = ((modelAxis n (normSl (a, b, c))).1 + Int.ofNat (o.headD 0) * (modelAxis n (normSl (a, b, c))).2.2).toNat :: modelF' E sh o.tail := by
      intro E o
      simp only [normSl]
      split <;> exact ⟨rfl, rfl⟩
    simp only [List.map_cons, normE] at ho ⊢
    rw [(hns _ []).1] at ho
    rw [(hns _ o).2]
    match o, ho with
    | y :: o, ho =>
      simp only [List.headD_cons, List.tail_cons]
      obtain ⟨p1, p2, _⟩ := model_slice_positions n a b c hb hn y ho.1
      refine ⟨?_, modelF'_inRange I sh hrest o ho.2⟩
      have e : Int.ofNat y = (y : Int) := rfl
      rw [e]
      omega
  | [], _ :: _, h, _, _ => by cases h
  | .ellipsis :: _, _, h, _, _ => by cases h
  | .bad :: _, _, h, _, _ => by cases h
  | .int _ :: _, [], h, _, _ => by cases h
  | .slice _ _ _ :: _, [], h, _, _ => by cases h


theorem oxSliceAxis_dropLast (m : Nat) : oxSliceAxis (m + 1) 0 (-1) 1 = (0, m, 1) := by
  simp only [oxSliceAxis, oxStart, oxStop, clampI, rangeLen]
  simp only [show ¬ ((0 : Int) < 0) by decide, if_false, show ((-1 : Int) < 0) by decide, if_true, show ((1 : Int) > 0) by decide]
  have h1 : ¬ ((0 : Int) > ((m + 1 : Nat) : Int)) := by omega
  have h2 : ¬ ((-1 : Int) + ((m + 1 : Nat) : Int) < 0) := by omega
  have h3 : ¬ ((-1 : Int) + ((m + 1 : Nat) : Int) > ((m + 1 : Nat) : Int)) := by omega
  simp only [h1, h2, h3, if_false]
  congr 2
  split
  · omega
  · omega

/-- `Slice(v, [0], [-1])` on a non-empty vector drops the last entry. -/
theorem slice3_dropLast (l : List Int) (hl : l ≠ []) :
    (sliceOp (vec l) [0] [-1] [0] [1]).toFlat = l.dropLast := by
  obtain ⟨m, hm⟩ : ∃ m, l.length = m + 1 := ⟨l.length - 1, by have := List.length_pos_iff.mpr hl; omega⟩
  have hspec : (List.range ([0] : List Int).length).map (fun k =>
      (normAxis (vec l).rank (([0] : List Int).getD k 0), ([0] : List Int).getD k 0, ([-1] : List Int).getD k 0, ([1] : List Int).getD k 1))
      = [(0, 0, -1, 1)] := by
    simp [normAxis]
  unfold sliceOp
  rw [hspec]
  have hshape : (onnxSlice (vec l) [(0, 0, -1, 1)]).shape = [m] := by
    simp only [onnxSlice, vec, hm, List.mapIdx_cons, List.mapIdx_nil, List.find?_cons, beq_self_eq_true, List.getD_cons_zero, oxSliceAxis_dropLast]
  rw [toFlat_vec_shape _ m hshape]
  apply List.ext_getElem
  · simp [hm]
  · intro k h1 h2
    simp only [List.length_map, List.length_range] at h1
    simp only [List.getElem_map, List.getElem_range, List.getElem_dropLast]
    simp only [onnxSlice, vec, hm, List.mapIdx_cons, List.mapIdx_nil, List.find?_cons, beq_self_eq_true, List.getD_cons_zero, oxSliceAxis_dropLast,
      List.headD_cons]
    have : ((0 : Int) + Int.ofNat k * 1).toNat = k := by simp
    rw [this, List.getD_eq_getElem?_getD, List.getElem?_eq_getElem (by omega)]
    simp


theorem bcastIndex_eq_expandTo (ush Q o : List Nat) (ho : o.length = Q.length) :
    bcastIndex ush Q o = List.zipWith (fun n i => if n == 1 then 0 else i) ush (o.drop (o.length - ush.length)) := by
  unfold bcastIndex
  rw [ho, List.zipWith_comm]
  congr 1
  funext n i
  simp

theorem scatterPath_of_grid (S : List Nat) (P : Tensor Int) (o pos : List Nat) (r : Nat)
    (hP : P.shape.getLastD 0 = r) (hl : pos.length = r)
    (hg : ∀ j, j < r → P.get (o ++ [j]) = Int.ofNat (pos.getD j 0)) :
    scatterPath S P o = pos := by
  unfold scatterPath
  rw [hP]
  apply List.ext_getElem
  · simp [hl]
  · intro j h1 h2
    simp only [List.length_map, List.length_range] at h1
    simp only [List.getElem_map, List.getElem_range]
    rw [hg j h1]
    have : ¬ (Int.ofNat (pos.getD j 0) < 0) := by simp
    simp only [this, if_false]
    simp [List.getD_eq_getElem?_getD, List.getElem?_eq_getElem h2]


end Ndx.TGraph
