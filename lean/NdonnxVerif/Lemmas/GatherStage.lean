import NdonnxVerif.Lemmas.SlicesNd
/-! The scalar-`Gather` stage of `getitem` (integers in reverse axis order) as a plan over the input axes. -/
namespace Ndx.TGraph
open Ndx

/-- Per input axis: gather the scalar index `i` (`some i`) or keep the axis (`none`). -/
abbrev GPlan := List (Option Int)

def normIdx (i : Int) (n : Nat) : Nat := (if i < 0 then i + (n : Int) else i).toNat

/-- The `(axis, index)` pairs of a plan whose first entry sits on axis `k`. -/
def intAxesFrom (k : Nat) (P : GPlan) : List (Nat × Int) :=
  (P.zipIdx k).filterMap (fun p => p.1.map (fun i => (p.2, i)))

/-- Input index from an output index: gathered axes get their fixed position, kept axes consume one coordinate;
axes beyond the plan pass through. -/
def mergeP : List Nat → GPlan → List Nat → List Nat
  | _, [], o => o
  | n :: sh, some i :: P, o => normIdx i n :: mergeP sh P o
  | _ :: sh, none :: P, o => o.headD 0 :: mergeP sh P o.tail
  | [], _ :: _, o => o

def keptShape : GPlan → List Nat → List Nat
  | [], sh => sh
  | some _ :: P, _ :: sh => keptShape P sh
  | none :: P, n :: sh => n :: keptShape P sh
  | _ :: _, [] => []

/-- The scalar `Gather`s of `getitem`, applied highest axis first. -/
def gathers (u : Tensor α) (l : List (Nat × Int)) : Tensor α :=
  l.foldr (fun p acc => onnxGatherScalar acc p.2 p.1) u

theorem gathers_eq_foldl (u : Tensor α) (l : List (Nat × Int)) :
    l.reverse.foldl (fun acc p => onnxGatherScalar acc p.2 p.1) u = gathers u l := by
  simp [gathers, List.foldl_reverse]

theorem intAxesFrom_some (k : Nat) (i : Int) (P : GPlan) :
    intAxesFrom k (some i :: P) = (k, i) :: intAxesFrom (k + 1) P := by
  simp [intAxesFrom, List.zipIdx_cons]

theorem intAxesFrom_none (k : Nat) (P : GPlan) : intAxesFrom k (none :: P) = intAxesFrom (k + 1) P := by
  simp [intAxesFrom, List.zipIdx_cons]

theorem take_succ_getElem {β : Type} (l : List β) (k : Nat) (hk : k < l.length) : l.take (k + 1) = l.take k ++ [l[k]] := by
  rw [List.take_succ, List.getElem?_eq_getElem hk]; rfl

theorem take_len_succ_append_cons {β : Type} (A B : List β) (j : β) : (A ++ j :: B).take (A.length + 1) = A ++ [j] := by
  induction A with
  | nil => simp
  | cons a A ih => simp [ih]

theorem drop_len_succ_append_cons {β : Type} (A B : List β) (j : β) : (A ++ j :: B).drop (A.length + 1) = B := by
  induction A with
  | nil => simp
  | cons a A ih => simpa using ih

/-- **The `Gather` stage.**  Gathering the planned axes `k, k+1, …` (highest first) of `u` yields: shape = the first `k`
extents, then the kept extents; element `o` = `u` at `o`'s first `k` coordinates followed by the merged rest. -/
theorem gathers_spec : ∀ (P : GPlan) (k : Nat) (u : Tensor α), k + P.length ≤ u.shape.length →
    (gathers u (intAxesFrom k P)).shape = u.shape.take k ++ keptShape P (u.shape.drop k) ∧
    ∀ o : List Nat, o.length = k + (keptShape P (u.shape.drop k)).length →
      (gathers u (intAxesFrom k P)).get o = u.get (o.take k ++ mergeP (u.shape.drop k) P (o.drop k))
  | [], k, u, _ => by
    simp [intAxesFrom, gathers, keptShape, mergeP]
  | none :: P, k, u, h => by
    have hlen : k + 1 + P.length ≤ u.shape.length := by simp at h; omega
    obtain ⟨ih1, ih2⟩ := gathers_spec P (k + 1) u hlen
    rw [intAxesFrom_none]
    have hk : k < u.shape.length := by omega
    have hdrop : u.shape.drop k = u.shape[k] :: u.shape.drop (k + 1) := by
      rw [List.drop_eq_getElem_cons hk]
    constructor
    · have e := take_succ_getElem u.shape k hk
      rw [ih1, hdrop, e, List.append_assoc]
      rfl
    · intro o ho
      rw [hdrop] at ho
      simp only [keptShape, List.length_cons] at ho
      have hko : k < o.length := by omega
      rw [ih2 o (by omega), hdrop, mergeP]
      congr 1
      rw [take_succ_getElem _ _ hko]
      simp only [List.append_assoc, List.singleton_append]
      congr 2
      · rw [List.drop_eq_getElem_cons hko]; rfl
      · rw [List.tail_drop]
  | some i :: P, k, u, h => by
    have hlen : k + 1 + P.length ≤ u.shape.length := by simp at h; omega
    obtain ⟨ih1, ih2⟩ := gathers_spec P (k + 1) u hlen
    rw [intAxesFrom_some]
    have hk : k < u.shape.length := by omega
    have hdrop : u.shape.drop k = u.shape[k] :: u.shape.drop (k + 1) := by
      rw [List.drop_eq_getElem_cons hk]
    simp only [gathers, List.foldr_cons] at ih1 ih2 ⊢
    generalize hR : List.foldr (fun p acc => onnxGatherScalar acc p.2 p.1) u (intAxesFrom (k + 1) P) = R at ih1 ih2 ⊢
    constructor
    · simp only [onnxGatherScalar]
      have e := take_succ_getElem u.shape k hk
      rw [ih1, hdrop, e]
      simp only [keptShape]
      rw [List.eraseIdx_append_of_lt_length (by simp; omega)]
      congr 1
      have : (u.shape.take k ++ [u.shape[k]]).eraseIdx k = u.shape.take k := by
        rw [List.eraseIdx_append_of_length_le (by simp; omega)]
        simp [List.length_take, Nat.min_eq_left (Nat.le_of_lt hk)]
      exact this
    · intro o ho
      rw [hdrop] at ho
      simp only [keptShape] at ho
      have hko : k ≤ o.length := by omega
      simp only [onnxGatherScalar]
      have hRk : R.shape.getD k 0 = u.shape[k] := by
        rw [ih1, List.getD_eq_getElem?_getD, List.getElem?_append_left (by simp; omega), List.getElem?_take]
        simp [List.getElem?_eq_getElem hk]
      rw [hRk]
      have hlen' : (o.take k ++ normIdx i u.shape[k] :: o.drop k).length = k + 1 + (keptShape P (u.shape.drop (k + 1))).length := by
        simp [List.length_take, Nat.min_eq_left hko]; omega
      have := ih2 (o.take k ++ (if i < 0 then i + Int.ofNat u.shape[k] else i).toNat :: o.drop k) (by simpa [normIdx] using hlen')
      simp only [Int.ofNat_eq_natCast] at this
      rw [this, hdrop, mergeP]
      congr 1
      have htk : (o.take k).length = k := by simp [Nat.min_eq_left hko]
      have e1 := take_len_succ_append_cons (o.take k) (o.drop k) ((if i < 0 then i + (u.shape[k] : Int) else i).toNat)
      have e2 := drop_len_succ_append_cons (o.take k) (o.drop k) ((if i < 0 then i + (u.shape[k] : Int) else i).toNat)
      rw [htk] at e1 e2
      rw [e1, e2]
      simp [normIdx]

end Ndx.TGraph
