import NdonnxVerif.Props.C08Full
import NdonnxVerif.Props.C08Mask
import NdonnxVerif.Props.C09Setitem
/-! Selected positions are valid indices and pairwise distinct; `allIdx` enumerates every in-range index once. -/
namespace Ndx.TGraph
open Ndx Ndx.Spec Ndx.C08

theorem range_pos_bound (st en step : Int) (k : Nat) (hs : step > 0) (hk : k < rangeLen st en step) :
    st + (k : Int) * step < en ∧ st ≤ st + (k : Int) * step := by
  unfold rangeLen at hk
  simp only [hs, if_true] at hk
  split at hk
  · rename_i hlt
    have hD : 0 < en - st := by omega
    have hq : (k : Int) < (en - st + step - 1) / step := by
      have h0 : 0 ≤ (en - st + step - 1) / step := Int.ediv_nonneg (by omega) (by omega)
      omega
    have h1 : ((en - st + step - 1) / step) * step ≤ en - st + step - 1 := Int.ediv_mul_le _ (by omega)
    have h2 : ((k : Int) + 1) * step ≤ ((en - st + step - 1) / step) * step :=
      Int.mul_le_mul_of_nonneg_right (by omega) (by omega)
    have h3 : ((k : Int) + 1) * step = (k : Int) * step + step := by rw [Int.add_mul]; simp
    have hk0 : 0 ≤ (k : Int) * step := Int.mul_nonneg (by omega) (by omega)
    constructor <;> omega
  · simp at hk

theorem range_neg_bound (st en step : Int) (k : Nat) (hs : step < 0) (hk : k < rangeLen st en step) :
    en < st + (k : Int) * step ∧ st + (k : Int) * step ≤ st := by
  unfold rangeLen at hk
  have hns : ¬ step > 0 := by omega
  simp only [hns, if_false, hs, if_true] at hk
  split at hk
  · rename_i hlt
    have hq : (k : Int) < (st - en + (-step) - 1) / (-step) := by
      have h0 : 0 ≤ (st - en + (-step) - 1) / (-step) := Int.ediv_nonneg (by omega) (by omega)
      omega
    have h1 : ((st - en + (-step) - 1) / (-step)) * (-step) ≤ st - en + (-step) - 1 := Int.ediv_mul_le _ (by omega)
    have h2 : ((k : Int) + 1) * (-step) ≤ ((st - en + (-step) - 1) / (-step)) * (-step) :=
      Int.mul_le_mul_of_nonneg_right (by omega) (by omega)
    have h3 : ((k : Int) + 1) * (-step) = -((k : Int) * step) + (-step) := by
      rw [Int.add_mul, Int.mul_neg]; simp
    have hk0 : (k : Int) * step ≤ 0 := Int.mul_nonpos_of_nonneg_of_nonpos (by omega) (by omega)
    constructor <;> omega
  · simp at hk

/-- **The positions CPython's `slice.indices(n)` enumerates are valid indices of the axis.** -/
theorem pySlice_positions_valid (n : Nat) (a b c : Option Int) (hstep : c.getD 1 ≠ 0) (k : Nat)
    (hk : k < (pySlice n a b c).2.1) :
    0 ≤ (pySlice n a b c).1 + (k : Int) * (pySlice n a b c).2.2 ∧
    (pySlice n a b c).1 + (k : Int) * (pySlice n a b c).2.2 < n := by
  simp only [pySlice] at hk ⊢
  generalize hst : c.getD 1 = step at hstep hk ⊢
  rcases Int.lt_or_gt_of_ne hstep with hneg | hpos
  · obtain ⟨h1, h2⟩ := range_neg_bound _ _ step k hneg hk
    have hns : ¬ step > 0 := by omega
    have hstart : pyStart n step a ≤ (n : Int) - 1 := by
      cases a with
      | none => simp [pyStart, hns]
      | some v => simp only [pyStart, pyAdj, hns, if_false]; repeat' split <;> omega
    have hstop : -1 ≤ pyStop n step b := by
      cases b with
      | none => simp [pyStop, hns]
      | some v => simp only [pyStop, pyAdj, hns, if_false]; repeat' split <;> omega
    constructor <;> omega
  · obtain ⟨h1, h2⟩ := range_pos_bound _ _ step k hpos hk
    have hstart : 0 ≤ pyStart n step a := by
      cases a with
      | none => simp [pyStart, hpos]
      | some v => simp only [pyStart, pyAdj, hpos, if_true]; repeat' split <;> omega
    have hstop : pyStop n step b ≤ (n : Int) := by
      cases b with
      | none => simp [pyStop, hpos]
      | some v => simp only [pyStop, pyAdj, hpos, if_true]; repeat' split <;> omega
    constructor <;> omega


/-- For an in-bounds slice the positions the *model* selects are valid indices and pairwise distinct. -/
theorem model_slice_positions (n : Nat) (a b c : Option Int) (hb : sliceInBounds (Int.ofNat n) a b c) (hn : Int.ofNat n ≤ int64Max)
    (k : Nat) (hk : k < (modelAxis n (normSl (a, b, c))).2.1) :
    0 ≤ (modelAxis n (normSl (a, b, c))).1 + (k : Int) * (modelAxis n (normSl (a, b, c))).2.2 ∧
    (modelAxis n (normSl (a, b, c))).1 + (k : Int) * (modelAxis n (normSl (a, b, c))).2.2 < n ∧
    (modelAxis n (normSl (a, b, c))).2.2 ≠ 0 := by
  have hagree := slice_axis_agree n hn a b c hb (normSl (a, b, c)) (normaliseEntry_slice (a, b, c))
  obtain ⟨hc, hp⟩ := positions_eq_iff _ _ hagree
  have hk' : k < (pySlice n a b c).2.1 := hc ▸ hk
  obtain ⟨v1, v2⟩ := pySlice_positions_valid n a b c hb.1 k hk'
  have := hp k hk
  simp only [Int.ofNat_eq_natCast] at this
  refine ⟨by omega, by omega, ?_⟩
  -- the step of the normalised entry is the slice's step (1 for the full slice)
  simp only [normSl]
  split
  · show (modelAxis n NIx.full).2.2 ≠ 0
    simp [modelAxis]
  · show (oxSliceAxis n _ _ _).2.2 ≠ 0
    simp only [oxSliceAxis]
    exact hb.1

theorem toNat_inj_of_nonneg (x y : Int) (hx : 0 ≤ x) (hy : 0 ≤ y) (h : x.toNat = y.toNat) : x = y := by omega

/-- **Distinct result positions read distinct source positions** (admissible index, in-range result positions). -/
theorem modelF'_injective : ∀ (I : List Ix) (sh : List Nat), AdmissibleN I sh → ∀ (o o' : List Nat),
    InRange (modelS' (I.map normE) sh) o → InRange (modelS' (I.map normE) sh) o' →
    modelF' (I.map normE) sh o = modelF' (I.map normE) sh o' → o = o'
  | [], [], _, o, o', ho, ho', _ => by
    simp only [List.map_nil, modelS'] at ho ho'
    match o, o', ho, ho' with
    | [], [], _, _ => rfl
  | .newaxis :: I, sh, h, o, o', ho, ho', he => by
    simp only [List.map_cons, normE, modelS'] at ho ho'
    match o, o', ho, ho' with
    | y :: o, y' :: o', ho, ho' =>
      simp only [List.map_cons, normE, modelF', List.tail_cons] at he
      have := modelF'_injective I sh h o o' ho.2 ho'.2 he
      have hy : y = y' := by have := ho.1; have := ho'.1; omega
      rw [this, hy]
  | .int i :: I, n :: sh, h, o, o', ho, ho', he => by
    simp only [List.map_cons, normE, modelS'] at ho ho'
    simp only [List.map_cons, normE, modelF', List.cons.injEq, true_and] at he
    exact modelF'_injective I sh h.2 o o' ho ho' he
  | .slice a b c :: I, n :: sh, h, o, o', ho, ho', he => by
    obtain ⟨⟨hb, hn⟩, hrest⟩ := h
    have hns : ∀ (E : List NIx) (o : List Nat),
        modelS' (normSl (a, b, c) :: E) (n :: sh) = (modelAxis n (normSl (a, b, c))).2.1 :: modelS' E sh ∧
        modelF' (normSl (a, b, c) :: E) (n :: sh) o
          = ((modelAxis n (normSl (a, b, c))).1 + Int.ofNat (o.headD 0) * (modelAxis n (normSl (a, b, c))).2.2).toNat :: modelF' E sh o.tail := by
      intro E o
      simp only [normSl]
      split <;> exact ⟨rfl, rfl⟩
    simp only [List.map_cons, normE] at ho ho' he
    rw [(hns _ []).1] at ho ho'
    rw [(hns _ o).2, (hns _ o').2] at he
    match o, o', ho, ho' with
    | y :: o, y' :: o', ho, ho' =>
      simp only [List.headD_cons, List.tail_cons, List.cons.injEq] at he
      obtain ⟨p1, _, hstep⟩ := model_slice_positions n a b c hb hn y ho.1
      obtain ⟨p2, _, _⟩ := model_slice_positions n a b c hb hn y' ho'.1
      have hpos := toNat_inj_of_nonneg _ _ p1 p2 (by simpa using he.1)
      have hyy : ((y : Int) - (y' : Int)) * (modelAxis n (normSl (a, b, c))).2.2 = 0 := by
        rw [Int.sub_mul]; omega
      have hy : y = y' := by
        rcases Int.mul_eq_zero.mp hyy with h0 | h0
        · omega
        · exact absurd h0 hstep
      rw [modelF'_injective I sh hrest o o' ho.2 ho'.2 he.2, hy]
  | [], _ :: _, h, _, _, _, _, _ => by cases h
  | .ellipsis :: _, _, h, _, _, _, _, _ => by cases h
  | .bad :: _, _, h, _, _, _, _, _ => by cases h
  | .int _ :: _, [], h, _, _, _, _, _ => by cases h
  | .slice _ _ _ :: _, [], h, _, _, _, _, _ => by cases h


theorem inRange_mem_allIdx : ∀ (sh o : List Nat), InRange sh o → o ∈ allIdx sh
  | [], [], _ => by simp [allIdx]
  | n :: sh, i :: o, h => by
    simp only [allIdx, List.mem_flatMap, List.mem_range, List.mem_map]
    exact ⟨i, h.1, o, inRange_mem_allIdx sh o h.2, rfl⟩
  | [], _ :: _, h => by cases h
  | _ :: _, [], h => by cases h

theorem allIdx_nodup (sh : List Nat) : (allIdx sh).Nodup := by
  have h := allIdx_zipIdx sh 0
  have hm : (allIdx sh).map (ravel sh) = List.range' 0 (allIdx sh).length := by
    have := congrArg (List.map Prod.snd) h
    rw [List.zipIdx_map_snd] at this
    simpa [List.map_map, Function.comp_def] using this.symm
  have hn : ((allIdx sh).map (ravel sh)).Nodup := by rw [hm]; exact List.nodup_range'
  exact List.Pairwise.of_map (ravel sh) (fun a b hab heq => hab (by rw [heq])) hn

theorem nodup_map_on {β γ : Type} (f : β → γ) (l : List β) (hl : l.Nodup)
    (hinj : ∀ a ∈ l, ∀ b ∈ l, f a = f b → a = b) : (l.map f).Nodup := by
  rw [List.Nodup, List.pairwise_map]
  exact hl.imp_of_mem (fun ha hb hne heq => hne (hinj _ ha _ hb heq))

end Ndx.TGraph
