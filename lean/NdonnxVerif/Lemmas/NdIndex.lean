import NdonnxVerif.Lemmas.TGraphScatter
import NdonnxVerif.Lemmas.GetitemNew
import NdonnxVerif.Lemmas.Broadcast
import NdonnxVerif.Props.C11
/-! The coordinate grid `opx.ndindex(shape(x))` at graph level: Range / Unsqueeze / Expand / Unsqueeze / Concat. -/
namespace Ndx.TGraph
open Ndx

/-- Axes `0 … rank-1` without `i`. -/
def othersOf (rank i : Nat) : List Nat := (List.range rank).filter (· ≠ i)

theorem othersOf_contains (rank i k : Nat) (hk : k < rank) : (othersOf rank i).contains k = !(k == i) := by
  simp only [othersOf]
  by_cases h : k = i <;> simp [h, hk]

/-- Removing every position but `i` leaves the `i`-th entry. -/
theorem removeAtFrom_others {β : Type} [Inhabited β] (rank i : Nat) : ∀ (xs : List β) (k : Nat), k + xs.length = rank → 
    removeAtFrom k xs (othersOf rank i) = if k ≤ i ∧ i < rank then [xs.getD (i - k) default] else []
  | [], k, h => by
    simp only [removeAtFrom, List.zipIdx_nil, List.filter_nil, List.map_nil]
    simp at h
    split
    · omega
    · rfl
  | y :: xs, k, h => by
    rw [removeAtFrom_cons]
    have hk : k < rank := by simp at h; omega
    rw [othersOf_contains rank i k hk]
    have ih := removeAtFrom_others rank i xs (k + 1) (by simp at h ⊢; omega)
    rw [ih]
    by_cases hki : k = i
    · subst hki
      simp [hk]
    · have : (k == i) = false := by simpa using hki
      simp only [this, Bool.not_false, if_true]
      by_cases h2 : k ≤ i ∧ i < rank
      · have h3 : k + 1 ≤ i ∧ i < rank := by omega
        simp only [h2, h3, and_self, if_true]
        have : i - k = (i - (k + 1)) + 1 := by omega
        rw [this]; simp
      · have h3 : ¬ (k + 1 ≤ i ∧ i < rank) := by omega
        simp [h2, h3]

theorem removeAt_others (ix : List Nat) (i : Nat) (hi : i < ix.length) :
    removeAt ix (othersOf ix.length i) = [ix.getD i 0] := by
  rw [removeAt_eq_from, removeAtFrom_others ix.length i ix 0 (by simp)]
  simp [hi]

theorem removeAt_last {β : Type} (ix : List β) (v : β) : removeAt (ix ++ [v]) [ix.length] = ix := by
  unfold removeAt
  rw [List.zipIdx_append]
  simp only [List.filter_append, List.map_append, List.zipIdx_cons, List.zipIdx_nil, Nat.zero_add]
  have h1 : (ix.zipIdx.filter (fun p => !([ix.length] : List Nat).contains p.2)) = ix.zipIdx := by
    apply List.filter_eq_self.mpr
    intro p hp
    have := (List.mem_zipIdx hp).2.1
    simp; omega
  rw [h1]
  simp

/-! ### shapes of the unsqueezed ranges -/

theorem insertAt_append {β : Type} (xs : List β) (v : β) (A B : List Nat) :
    insertAt xs v (A ++ B) = insertAt (insertAt xs v A) v B := by
  simp [insertAt, List.foldl_append]

theorem insertAt_range' {β : Type} (v : β) : ∀ (c : Nat) (P Q : List β),
    insertAt (P ++ Q) v (List.range' P.length c) = P ++ List.replicate c v ++ Q
  | 0, P, Q => by simp [insertAt]
  | c + 1, P, Q => by
    have hstep : insertAt (P ++ Q) v (List.range' P.length (c + 1)) = insertAt ((P ++ [v]) ++ Q) v (List.range' (P ++ [v]).length c) := by
      simp [insertAt, List.range'_succ]
    rw [hstep, insertAt_range' v c (P ++ [v]) Q]
    simp [List.replicate_succ]

theorem othersOf_split (rank i : Nat) (hi : i < rank) :
    othersOf rank i = List.range' 0 i ++ List.range' (i + 1) (rank - i - 1) := by
  unfold othersOf
  have h : List.range rank = List.range' 0 i ++ (i :: List.range' (i + 1) (rank - i - 1)) := by
    rw [List.range_eq_range']
    have : rank = i + (1 + (rank - i - 1)) := by omega
    conv => lhs; rw [this]
    rw [← List.range'_append_1, ← List.range'_append_1]
    simp
  rw [h, List.filter_append, List.filter_cons]
  have h1 : (List.range' 0 i).filter (· ≠ i) = List.range' 0 i := by
    apply List.filter_eq_self.mpr
    intro a ha
    have := List.mem_range'_1.mp ha
    simp; omega
  have h2 : (List.range' (i + 1) (rank - i - 1)).filter (· ≠ i) = List.range' (i + 1) (rank - i - 1) := by
    apply List.filter_eq_self.mpr
    intro a ha
    have := List.mem_range'_1.mp ha
    simp; omega
  rw [h1, h2]; simp

/-- Shape of `Unsqueeze(v, all axes but i)` for a vector of extent `n`. -/
theorem insertAt_others (n rank i : Nat) (hi : i < rank) :
    insertAt [n] 1 (othersOf rank i) = List.replicate i 1 ++ n :: List.replicate (rank - i - 1) 1 := by
  rw [othersOf_split rank i hi, insertAt_append]
  have h1 := insertAt_range' (1 : Nat) i [] [n]
  simp only [List.length_nil, List.nil_append] at h1
  rw [h1]
  have h2 := insertAt_range' (1 : Nat) (rank - i - 1) (List.replicate i 1 ++ [n]) []
  simp only [List.length_append, List.length_replicate, List.length_cons, List.length_nil, List.append_nil] at h2
  rw [h2]; simp

theorem intoRev_oneHot (n : Nat) (P : List Nat) : ∀ (Q : List Nat),
    intoRev (List.replicate Q.length 1 ++ n :: List.replicate P.length 1) (Q ++ n :: P) = true
  | [] => by
    simp only [List.length_nil, List.replicate_zero, List.nil_append, intoRev, beq_self_eq_true, Bool.or_true, Bool.true_and]
    exact intoRev_of_all_one _ _ (by intro d hd; exact (List.mem_replicate.mp hd).2) (by simp)
  | q :: Q => by
    simp only [List.length_cons, List.replicate_succ, List.cons_append, intoRev, beq_self_eq_true, Bool.true_or, Bool.true_and]
    exact intoRev_oneHot n P Q

/-- The unsqueezed range broadcasts into the full shape. -/
theorem bshape_oneHot (sh : List Nat) (i : Nat) (hi : i < sh.length) :
    bshape (List.replicate i 1 ++ sh.getD i 0 :: List.replicate (sh.length - i - 1) 1) sh = some sh := by
  apply bshape_of_known
  unfold knownToBroadcastInto
  have hsplit : sh = sh.take i ++ sh.getD i 0 :: sh.drop (i + 1) := by
    have : sh.getD i 0 = sh[i] := by simp [List.getD_eq_getElem?_getD, List.getElem?_eq_getElem hi]
    rw [this]
    conv => lhs; rw [← List.take_append_drop i sh, List.drop_eq_getElem_cons hi]
  have h := intoRev_oneHot (sh.getD i 0) (sh.take i).reverse (sh.drop (i + 1)).reverse
  simp only [List.length_reverse, List.length_take, List.length_drop, Nat.min_eq_left (Nat.le_of_lt hi)] at h
  have e1 : (List.replicate i 1 ++ sh.getD i 0 :: List.replicate (sh.length - i - 1) 1).reverse
      = List.replicate (sh.length - (i + 1)) 1 ++ sh.getD i 0 :: List.replicate i 1 := by
    simp [List.reverse_append, Nat.sub_sub]
  have e2 : sh.reverse = (sh.drop (i + 1)).reverse ++ sh.getD i 0 :: (sh.take i).reverse := by
    conv => lhs; rw [hsplit]
    simp [List.reverse_append]
  rw [e1, e2]; exact h

theorem othersOf_sorted (rank i : Nat) : (othersOf rank i).Pairwise (· ≤ ·) := by
  unfold othersOf
  apply List.Pairwise.filter
  exact (List.pairwise_lt_range (n := rank)).imp (fun h => Nat.le_of_lt h)

theorem map_toNat_ofNat (l : List Nat) : (l.map Int.ofNat).map Int.toNat = l := by
  simp [List.map_map, Function.comp_def]

theorem unsqueeze_others (R : Tensor α) (rank i : Nat) :
    unsqueezeOp R ((othersOf rank i).map Int.ofNat) = onnxUnsqueeze R (othersOf rank i) := by
  unfold unsqueezeOp
  rw [List.map_map]
  have : (normAxis (R.rank + ((othersOf rank i).map Int.ofNat).length)) ∘ Int.ofNat = id := by
    funext a; simp
  rw [this, List.map_id, sortNat_of_sorted _ (othersOf_sorted rank i)]

theorem unsqueeze_last (E : Tensor α) : unsqueezeOp E [-1] = onnxUnsqueeze E [E.rank] := by
  unfold unsqueezeOp
  congr 1
  simp only [List.map_cons, List.map_nil, List.length_cons, List.length_nil, sortNat, List.foldr_cons, List.foldr_nil, insertSorted]
  congr 1
  simp only [normAxis]
  omega

/-- **One column of the coordinate grid**: shape `shape(x) ++ [1]`, and the entry at `ix` is `ix[i]`. -/
theorem ndindexCol_eval (env : List (Tensor Int)) (x : TG) (rank i : Nat) (hr : (x.eval env).rank = rank) (hi : i < rank) :
    ((ndindexCol x rank i).eval env).shape = (x.eval env).shape ++ [1] ∧
    ∀ ix, InRange (x.eval env).shape ix → ∀ j, ((ndindexCol x rank i).eval env).get (ix ++ [j]) = Int.ofNat (ix.getD i 0) := by
  have hlen := isScalar_len env x (i : Int) (by rw [normAxis_natCast]; omega)
  rw [normAxis_natCast] at hlen
  generalize hT : x.eval env = T at *
  have hrk : T.shape.length = rank := hr
  generalize hn : T.shape.getD i 0 = n at hlen
  have hoth : (List.range rank).filter (· ≠ i) = othersOf rank i := rfl
  simp only [ndindexCol, TG.eval, hT, hoth] at hlen ⊢
  generalize hL : gatherOp (shapeOp T) 0 ((iscalar (i : Int)).eval env) = L at hlen ⊢
  simp only [eval_ivec_toFlat, eval_iscalar, constT_scalar_get, hlen.2, shapeOp_toFlat]
  have hR : rangeOp 0 (Int.ofNat n) 1 = ⟨[n], fun ix => Int.ofNat (ix.headD 0)⟩ := by
    simp [rangeOp, rangeLen_zero_n_one]
  rw [hR, unsqueeze_others, unsqueeze_last]
  have hb : bshape (List.replicate i 1 ++ n :: List.replicate (rank - i - 1) 1) T.shape = some T.shape := by
    have := bshape_oneHot T.shape i (by omega)
    rwa [hn, hrk] at this
  have hUs : (onnxUnsqueeze (⟨[n], fun ix => Int.ofNat (ix.headD 0)⟩ : Tensor Int) (othersOf rank i)).shape
      = List.replicate i 1 ++ n :: List.replicate (rank - i - 1) 1 := by
    simp only [onnxUnsqueeze, insertAt_others n rank i hi]
  have hUg : ∀ ix, (onnxUnsqueeze (⟨[n], fun ix => Int.ofNat (ix.headD 0)⟩ : Tensor Int) (othersOf rank i)).get ix
      = Int.ofNat ((removeAt ix (othersOf rank i)).headD 0) := fun ix => rfl
  generalize onnxUnsqueeze (⟨[n], fun ix => Int.ofNat (ix.headD 0)⟩ : Tensor Int) (othersOf rank i) = U at hUs hUg ⊢
  have hEs : (expandOp U (T.shape.map Int.ofNat)).shape = T.shape := by
    simp only [expandOp, map_toNat_ofNat, hUs, hb, Option.getD_some, bcastTo]
  have hEg : ∀ ix, (expandOp U (T.shape.map Int.ofNat)).get ix = U.get (bcastIndex U.shape T.shape ix) := by
    intro ix
    simp only [expandOp, map_toNat_ofNat, hUs, hb, Option.getD_some, bcastTo]
  generalize expandOp U (T.shape.map Int.ofNat) = E at hEs hEg ⊢
  constructor
  · simp only [onnxUnsqueeze, Tensor.rank, hEs, insertAt, List.foldl_cons, List.foldl_nil]
    simp
  · intro ix hix j
    have hixl : ix.length = rank := by rw [C11.inRange_length _ _ hix, hrk]
    simp only [onnxUnsqueeze, Tensor.rank, hEs]
    rw [hrk, ← hixl, removeAt_last, hEg, hUg, hUs]
    have hbl : (bcastIndex (List.replicate i 1 ++ n :: List.replicate (rank - i - 1) 1) T.shape ix).length = rank := by
      simp [bcastIndex, hrk, hixl]; omega
    have := removeAt_others (bcastIndex (List.replicate i 1 ++ n :: List.replicate (rank - i - 1) 1) T.shape ix) i (by rw [hbl]; omega)
    rw [hbl] at this
    rw [this]
    simp only [List.headD_cons]
    congr 1
    have hii : i < ix.length := by omega
    have hlt : ix[i] < n := by
      have := C11.inRange_get _ _ hix i hii
      rwa [hn] at this
    have hsrc : (List.replicate i 1 ++ n :: List.replicate (rank - i - 1) 1)[i]? = some n := by
      rw [List.getElem?_append_right (by simp)]; simp
    simp only [bcastIndex, List.length_append, List.length_replicate, List.length_cons, hrk]
    have hd : rank - (i + (rank - i - 1 + 1)) = 0 := by omega
    rw [hd, List.drop_zero, List.getD_eq_getElem?_getD, List.getElem?_zipWith, List.getElem?_eq_getElem hii, hsrc]
    simp only [Option.getD_some, List.getD_eq_getElem?_getD, List.getElem?_eq_getElem hii]

    split
    · omega
    · rfl

/-! ### Concat of the columns on the last axis -/

theorem concat_last (a b : Tensor Int) (S : List Nat) (k : Nat) (ha : a.shape = S ++ [k]) (hb : b.shape = S ++ [1]) :
    (concatOp a b (-1)).shape = S ++ [k + 1] ∧
    ∀ ix, ix.length = S.length → ∀ j, (concatOp a b (-1)).get (ix ++ [j])
      = if j < k then a.get (ix ++ [j]) else b.get (ix ++ [j - k]) := by
  have hax : normAxis a.rank (-1) = S.length := by
    simp only [normAxis, Tensor.rank, ha, List.length_append, List.length_cons, List.length_nil]
    omega
  constructor
  · simp only [concatOp, hax, ha, hb]
    simp
  · intro ix hl j
    simp only [concatOp, hax, ha]
    have h1 : (ix ++ [j]).getD S.length 0 = j := by
      rw [← hl]; simp
    have h2 : (S ++ [k]).getD S.length 0 = k := by simp
    rw [h1, h2]
    have h3 : (ix ++ [j]).set S.length (j - k) = ix ++ [j - k] := by
      rw [← hl]; simp
    rw [h3]

theorem concatCols_eval (env : List (Tensor Int)) (S : List Nat) (f : Nat → List Nat → Int) :
    ∀ (cs : List TG) (acc : TG) (k : Nat),
    ((acc.eval env).shape = S ++ [k] ∧ ∀ ix, InRange S ix → ∀ j, j < k → (acc.eval env).get (ix ++ [j]) = f j ix) →
    (∀ t (ht : t < cs.length), (cs[t].eval env).shape = S ++ [1] ∧
        ∀ ix, InRange S ix → ∀ j, (cs[t].eval env).get (ix ++ [j]) = f (k + t) ix) →
    ((cs.foldl (fun acc y => TG.concat (-1) acc y) acc).eval env).shape = S ++ [k + cs.length] ∧
      ∀ ix, InRange S ix → ∀ j, j < k + cs.length →
        ((cs.foldl (fun acc y => TG.concat (-1) acc y) acc).eval env).get (ix ++ [j]) = f j ix
  | [], acc, k, hacc, _ => by simpa using hacc
  | c :: cs, acc, k, hacc, hcs => by
    simp only [List.foldl_cons, List.length_cons]
    have hc := hcs 0 (by simp)
    simp only [List.getElem_cons_zero, Nat.add_zero] at hc
    have hcat := concat_last (acc.eval env) (c.eval env) S k hacc.1 hc.1
    have := concatCols_eval env S f cs (.concat (-1) acc c) (k + 1) (by
      simp only [TG.eval]
      refine ⟨hcat.1, ?_⟩
      intro ix hix j hj
      rw [hcat.2 ix (C11.inRange_length _ _ hix) j]
      by_cases hjk : j < k
      · simp only [hjk, if_true]; exact hacc.2 ix hix j hjk
      · have : j = k := by omega
        subst this
        simp only [Nat.lt_irrefl, if_false]
        exact hc.2 ix hix _) (by
      intro t ht
      have := hcs (t + 1) (by simp; omega)
      simp only [List.getElem_cons_succ] at this
      have e : k + 1 + t = k + (t + 1) := by omega
      rw [e]; exact this)
    have e : k + 1 + cs.length = k + (cs.length + 1) := by omega
    rw [e] at this
    exact this

/-- **The coordinate grid.**  `ndindex(shape(x))` has shape `shape(x) ++ [rank]`, and the vector stored at `ix` is `ix`. -/
theorem ndindexGraph_eval (env : List (Tensor Int)) (x : TG) (rank : Nat) (hr : (x.eval env).rank = rank) (hpos : 0 < rank) :
    ((ndindexGraph x rank).eval env).shape = (x.eval env).shape ++ [rank] ∧
    ∀ ix, InRange (x.eval env).shape ix → ∀ j, j < rank →
      ((ndindexGraph x rank).eval env).get (ix ++ [j]) = Int.ofNat (ix.getD j 0) := by
  obtain ⟨r, rfl⟩ : ∃ r, rank = r + 1 := ⟨rank - 1, by omega⟩
  unfold ndindexGraph
  rw [List.range_succ_eq_map]
  simp only [List.map_cons, List.map_map]
  have h0 := ndindexCol_eval env x (r + 1) 0 hr (by omega)
  have := concatCols_eval env (x.eval env).shape (fun j ix => Int.ofNat (ix.getD j 0))
    ((List.range r).map (ndindexCol x (r + 1) ∘ Nat.succ)) (ndindexCol x (r + 1) 0) 1
    ⟨h0.1, by
      intro ix hix j hj
      have : j = 0 := by omega
      subst this
      exact h0.2 ix hix 0⟩
    (by
      intro t ht
      simp only [List.length_map, List.length_range] at ht
      simp only [List.getElem_map, List.getElem_range, Function.comp]
      have hc := ndindexCol_eval env x (r + 1) (t + 1) hr (by omega)
      have e : 1 + t = t + 1 := by omega
      rw [e]
      exact hc)
  simp only [List.length_map, List.length_range] at this
  have e : 1 + r = r + 1 := by omega
  rw [e] at this
  exact this

end Ndx.TGraph
