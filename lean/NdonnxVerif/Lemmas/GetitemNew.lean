import NdonnxVerif.Props.C08Nd
/-! `None` entries: `Unsqueeze` at their output positions, on shapes and on source positions. -/
namespace Ndx.TGraph
open Ndx Ndx.Spec Ndx.C08

theorem isInt_int (i : Int) : isIntEntry (.int i) = true := rfl
theorem isInt_new : isIntEntry .newaxis = false := rfl
theorem isInt_sl (a b c : Int) : isIntEntry (.sl a b c) = false := rfl
theorem isInt_full : isIntEntry .full = false := rfl
theorem isNew_int (i : Int) : isNewaxis (.int i) = false := rfl
theorem isNew_new : isNewaxis .newaxis = true := rfl
theorem isNew_sl (a b c : Int) : isNewaxis (.sl a b c) = false := rfl
theorem isNew_full : isNewaxis .full = false := rfl

/-- Output positions of the `None` entries, counted among the non-integer entries from `k`. -/
def newPosFrom : Nat → List NIx → List Nat
  | _, [] => []
  | k, .int _ :: E => newPosFrom k E
  | k, .newaxis :: E => k :: newPosFrom (k + 1) E
  | k, _ :: E => newPosFrom (k + 1) E

theorem axisNewAxes_aux : ∀ (E : List NIx) (k : Nat),
    ((E.filter (fun x => !isIntEntry x)).zipIdx k).filterMap (fun p => match p.1 with | .newaxis => some p.2 | _ => none)
      = newPosFrom k E
  | [], _ => rfl
  | e :: E, k => by
    have ih := axisNewAxes_aux E
    cases e with
    | int i => simp only [List.filter_cons, isInt_int, Bool.not_true, Bool.false_eq_true, if_false, newPosFrom]; exact ih k
    | newaxis =>
      simp only [List.filter_cons, isInt_new, Bool.not_false, if_true, List.zipIdx_cons, List.filterMap_cons, newPosFrom]
      rw [ih (k + 1)]
    | sl a b c =>
      simp only [List.filter_cons, isInt_sl, Bool.not_false, if_true, List.zipIdx_cons, List.filterMap_cons, newPosFrom]
      exact ih (k + 1)
    | full =>
      simp only [List.filter_cons, isInt_full, Bool.not_false, if_true, List.zipIdx_cons, List.filterMap_cons, newPosFrom]
      exact ih (k + 1)

theorem axisNewAxes_eq (E : List NIx) : axisNewAxes E = newPosFrom 0 E := axisNewAxes_aux E 0

theorem newPosFrom_ge : ∀ (E : List NIx) (k : Nat), ∀ a ∈ newPosFrom k E, k ≤ a
  | [], _, a, h => by simp [newPosFrom] at h
  | e :: E, k, a, h => by
    cases e with
    | int i => exact newPosFrom_ge E k a (by simpa [newPosFrom] using h)
    | newaxis =>
      simp only [newPosFrom, List.mem_cons] at h
      rcases h with rfl | h
      · exact Nat.le_refl _
      · have := newPosFrom_ge E (k + 1) a h; omega
    | sl a' b c => have := newPosFrom_ge E (k + 1) a (by simpa [newPosFrom] using h); omega
    | full => have := newPosFrom_ge E (k + 1) a (by simpa [newPosFrom] using h); omega

/-- Shape and source position of `x[index]` with `None` entries (an extent-1 output axis that consumes no input axis). -/
def modelS' : List NIx → List Nat → List Nat
  | [], _ => []
  | .newaxis :: E, sh => 1 :: modelS' E sh
  | _, [] => []
  | .int _ :: E, _ :: sh => modelS' E sh
  | e :: E, n :: sh => (modelAxis n e).2.1 :: modelS' E sh

def modelF' : List NIx → List Nat → List Nat → List Nat
  | [], _, _ => []
  | .newaxis :: E, sh, o => modelF' E sh o.tail
  | _, [], _ => []
  | .int i :: E, n :: sh, o => normIdx i n :: modelF' E sh o
  | e :: E, n :: sh, o => ((modelAxis n e).1 + Int.ofNat (o.headD 0) * (modelAxis n e).2.2).toNat :: modelF' E sh o.tail

def dropNew (E : List NIx) : List NIx := E.filter (fun x => !isNewaxis x)

/-- `Unsqueeze` at the `None` positions turns the shape without `None`s into the shape with them. -/
theorem insertAt_newPos : ∀ (E : List NIx) (sh pre : List Nat), (dropNew E).length = sh.length →
    insertAt (pre ++ modelS (dropNew E) sh) 1 (newPosFrom pre.length E) = pre ++ modelS' E sh
  | [], sh, pre, _ => by simp [dropNew, modelS, modelS', newPosFrom, insertAt]
  | .newaxis :: E, sh, pre, hl => by
    have ih := insertAt_newPos E sh (pre ++ [1]) (by simpa [dropNew, List.filter_cons, isNew_int, isNew_new, isNew_sl, isNew_full] using hl)
    simp only [List.length_append, List.length_cons, List.length_nil, Nat.zero_add] at ih
    simp only [dropNew, List.filter_cons, isNew_new, Bool.not_true, Bool.false_eq_true, if_false, newPosFrom, insertAt,
      List.foldl_cons, modelS'] at ih ⊢
    have e1 : (pre ++ modelS (List.filter (fun x => !isNewaxis x) E) sh).take pre.length = pre := by simp
    have e2 : (pre ++ modelS (List.filter (fun x => !isNewaxis x) E) sh).drop pre.length = modelS (List.filter (fun x => !isNewaxis x) E) sh := by simp
    rw [e1, e2]
    have : pre ++ 1 :: modelS (List.filter (fun x => !isNewaxis x) E) sh = (pre ++ [1]) ++ modelS (List.filter (fun x => !isNewaxis x) E) sh := by simp
    rw [this, ih]; simp
  | .int i :: E, [], pre, hl => by simp [dropNew, List.filter_cons, isNew_int, isNew_new, isNew_sl, isNew_full] at hl
  | .int i :: E, n :: sh, pre, hl => by
    have ih := insertAt_newPos E sh pre (by simpa [dropNew, List.filter_cons, isNew_int, isNew_new, isNew_sl, isNew_full] using hl)
    simp only [dropNew, List.filter_cons, isNew_int, isNew_sl, isNew_full, Bool.not_false, if_true, modelS, modelS', newPosFrom] at ih ⊢
    exact ih
  | .sl a b c :: E, [], pre, hl => by simp [dropNew, List.filter_cons, isNew_int, isNew_new, isNew_sl, isNew_full] at hl
  | .sl a b c :: E, n :: sh, pre, hl => by
    have ih := insertAt_newPos E sh (pre ++ [(modelAxis n (.sl a b c)).2.1]) (by simpa [dropNew, List.filter_cons, isNew_int, isNew_new, isNew_sl, isNew_full] using hl)
    simp only [List.length_append, List.length_cons, List.length_nil, Nat.zero_add] at ih
    simp only [dropNew, List.filter_cons, isNew_int, isNew_sl, isNew_full, Bool.not_false, if_true, modelS, modelS', newPosFrom] at ih ⊢
    have : pre ++ (modelAxis n (.sl a b c)).2.1 :: modelS (List.filter (fun x => !isNewaxis x) E) sh
        = (pre ++ [(modelAxis n (.sl a b c)).2.1]) ++ modelS (List.filter (fun x => !isNewaxis x) E) sh := by simp
    rw [this, ih]; simp
  | .full :: E, [], pre, hl => by simp [dropNew, List.filter_cons, isNew_int, isNew_new, isNew_sl, isNew_full] at hl
  | .full :: E, n :: sh, pre, hl => by
    have ih := insertAt_newPos E sh (pre ++ [(modelAxis n .full).2.1]) (by simpa [dropNew, List.filter_cons, isNew_int, isNew_new, isNew_sl, isNew_full] using hl)
    simp only [List.length_append, List.length_cons, List.length_nil, Nat.zero_add] at ih
    simp only [dropNew, List.filter_cons, isNew_int, isNew_sl, isNew_full, Bool.not_false, if_true, modelS, modelS', newPosFrom] at ih ⊢
    have : pre ++ (modelAxis n .full).2.1 :: modelS (List.filter (fun x => !isNewaxis x) E) sh
        = (pre ++ [(modelAxis n .full).2.1]) ++ modelS (List.filter (fun x => !isNewaxis x) E) sh := by simp
    rw [this, ih]; simp

def removeAtFrom {β : Type} (k : Nat) (xs : List β) (axes : List Nat) : List β :=
  ((xs.zipIdx k).filter (fun p => !axes.contains p.2)).map (·.1)

theorem removeAt_eq_from {β : Type} (xs : List β) (axes : List Nat) : removeAt xs axes = removeAtFrom 0 xs axes := rfl

theorem removeAtFrom_cons {β : Type} (k : Nat) (y : β) (xs : List β) (axes : List Nat) :
    removeAtFrom k (y :: xs) axes = if axes.contains k then removeAtFrom (k + 1) xs axes else y :: removeAtFrom (k + 1) xs axes := by
  simp only [removeAtFrom, List.zipIdx_cons, List.filter_cons]
  split <;> simp_all

theorem removeAtFrom_skip {β : Type} (k j : Nat) (xs : List β) (axes : List Nat) (hj : j < k) :
    removeAtFrom k xs (j :: axes) = removeAtFrom k xs axes := by
  simp only [removeAtFrom]
  congr 1
  apply List.filter_congr
  intro p hp
  have := (List.mem_zipIdx hp).1
  have hne : p.2 ≠ j := by omega
  simp [List.contains_cons, hne]

/-- Reading the source position through `Unsqueeze`: dropping the `None` coordinates of an output index and reading the
index without `None`s is reading the index with them. -/
theorem modelF_removeAt : ∀ (E : List NIx) (sh : List Nat) (k : Nat) (o : List Nat),
    (dropNew E).length = sh.length → o.length = (modelS' E sh).length →
    modelF (dropNew E) sh (removeAtFrom k o (newPosFrom k E)) = modelF' E sh o
  | [], sh, k, o, _, _ => by simp [dropNew, modelF, modelF']
  | .newaxis :: E, sh, k, o, hl, ho => by
    simp only [modelS', List.length_cons] at ho
    match o, ho with
    | y :: o, ho =>
      have ih := modelF_removeAt E sh (k + 1) o (by simpa [dropNew, List.filter_cons, isNew_new] using hl) (by simpa using ho)
      simp only [dropNew, List.filter_cons, isNew_new, Bool.not_true, Bool.false_eq_true, if_false, newPosFrom, modelF', List.tail_cons] at ih ⊢
      rw [removeAtFrom_cons]
      simp only [List.contains_cons, BEq.rfl, Bool.true_or, if_true]
      rw [removeAtFrom_skip (k + 1) k o _ (by omega)]
      exact ih
  | .int i :: E, [], k, o, hl, _ => by simp [dropNew, List.filter_cons, isNew_int] at hl
  | .int i :: E, n :: sh, k, o, hl, ho => by
    have ih := modelF_removeAt E sh k o (by simpa [dropNew, List.filter_cons, isNew_int] using hl) (by simpa [modelS'] using ho)
    simp only [dropNew, List.filter_cons, isNew_int, Bool.not_false, if_true, newPosFrom, modelF, modelF'] at ih ⊢
    rw [ih]
  | .sl a b c :: E, [], k, o, hl, _ => by simp [dropNew, List.filter_cons, isNew_sl] at hl
  | .sl a b c :: E, n :: sh, k, o, hl, ho => by
    simp only [modelS', List.length_cons] at ho
    match o, ho with
    | y :: o, ho =>
      have ih := modelF_removeAt E sh (k + 1) o (by simpa [dropNew, List.filter_cons, isNew_sl] using hl) (by simpa using ho)
      simp only [dropNew, List.filter_cons, isNew_sl, Bool.not_false, if_true, newPosFrom, modelF, modelF', List.headD_cons, List.tail_cons] at ih ⊢
      rw [removeAtFrom_cons]
      have hk : (newPosFrom (k + 1) E).contains k = false := by
        cases hc : (newPosFrom (k + 1) E).contains k
        · rfl
        · have := newPosFrom_ge E (k + 1) k (by simpa using hc)
          omega
      simp only [hk, Bool.false_eq_true, if_false, List.headD_cons, List.tail_cons]
      rw [ih]
  | .full :: E, [], k, o, hl, _ => by simp [dropNew, List.filter_cons, isNew_full] at hl
  | .full :: E, n :: sh, k, o, hl, ho => by
    simp only [modelS', List.length_cons] at ho
    match o, ho with
    | y :: o, ho =>
      have ih := modelF_removeAt E sh (k + 1) o (by simpa [dropNew, List.filter_cons, isNew_full] using hl) (by simpa using ho)
      simp only [dropNew, List.filter_cons, isNew_full, Bool.not_false, if_true, newPosFrom, modelF, modelF', List.headD_cons, List.tail_cons] at ih ⊢
      rw [removeAtFrom_cons]
      have hk : (newPosFrom (k + 1) E).contains k = false := by
        cases hc : (newPosFrom (k + 1) E).contains k
        · rfl
        · have := newPosFrom_ge E (k + 1) k (by simpa using hc)
          omega
      simp only [hk, Bool.false_eq_true, if_false, List.headD_cons, List.tail_cons]
      rw [ih]

theorem removeAtFrom_nil {β : Type} (k : Nat) (xs : List β) : removeAtFrom k xs [] = xs := by
  induction xs generalizing k with
  | nil => rfl
  | cons x xs ih => rw [removeAtFrom_cons]; simp [ih]

theorem removeAt_inRange : ∀ (E : List NIx) (sh : List Nat) (k : Nat) (o : List Nat),
    (dropNew E).length = sh.length → InRange (modelS' E sh) o →
    InRange (modelS (dropNew E) sh) (removeAtFrom k o (newPosFrom k E))
  | [], sh, k, o, _, ho => by
    simp only [modelS'] at ho
    match o, ho with
    | [], _ => simp [dropNew, modelS, newPosFrom, removeAtFrom, InRange]
  | .newaxis :: E, sh, k, o, hl, ho => by
    simp only [modelS'] at ho
    match o, ho with
    | y :: o, ho =>
      have ih := removeAt_inRange E sh (k + 1) o (by simpa [dropNew, List.filter_cons, isNew_new] using hl) ho.2
      simp only [dropNew, List.filter_cons, isNew_new, Bool.not_true, Bool.false_eq_true, if_false, newPosFrom] at ih ⊢
      rw [removeAtFrom_cons]
      simp only [List.contains_cons, BEq.rfl, Bool.true_or, if_true]
      rw [removeAtFrom_skip (k + 1) k o _ (by omega)]
      exact ih
  | .int i :: E, [], k, o, hl, _ => by simp [dropNew, List.filter_cons, isNew_int] at hl
  | .int i :: E, n :: sh, k, o, hl, ho => by
    have ih := removeAt_inRange E sh k o (by simpa [dropNew, List.filter_cons, isNew_int] using hl) (by simpa [modelS'] using ho)
    simp only [dropNew, List.filter_cons, isNew_int, Bool.not_false, if_true, newPosFrom, modelS] at ih ⊢
    exact ih
  | .sl a b c :: E, [], k, o, hl, _ => by simp [dropNew, List.filter_cons, isNew_sl] at hl
  | .sl a b c :: E, n :: sh, k, o, hl, ho => by
    simp only [modelS'] at ho
    match o, ho with
    | y :: o, ho =>
      have ih := removeAt_inRange E sh (k + 1) o (by simpa [dropNew, List.filter_cons, isNew_sl] using hl) ho.2
      simp only [dropNew, List.filter_cons, isNew_sl, Bool.not_false, if_true, newPosFrom, modelS] at ih ⊢
      rw [removeAtFrom_cons]
      have hk : (newPosFrom (k + 1) E).contains k = false := by
        cases hc : (newPosFrom (k + 1) E).contains k
        · rfl
        · have := newPosFrom_ge E (k + 1) k (by simpa using hc)
          omega
      simp only [hk, Bool.false_eq_true, if_false]
      exact ⟨ho.1, ih⟩
  | .full :: E, [], k, o, hl, _ => by simp [dropNew, List.filter_cons, isNew_full] at hl
  | .full :: E, n :: sh, k, o, hl, ho => by
    simp only [modelS'] at ho
    match o, ho with
    | y :: o, ho =>
      have ih := removeAt_inRange E sh (k + 1) o (by simpa [dropNew, List.filter_cons, isNew_full] using hl) ho.2
      simp only [dropNew, List.filter_cons, isNew_full, Bool.not_false, if_true, newPosFrom, modelS] at ih ⊢
      rw [removeAtFrom_cons]
      have hk : (newPosFrom (k + 1) E).contains k = false := by
        cases hc : (newPosFrom (k + 1) E).contains k
        · rfl
        · have := newPosFrom_ge E (k + 1) k (by simpa using hc)
          omega
      simp only [hk, Bool.false_eq_true, if_false]
      exact ⟨ho.1, ih⟩

theorem filter_filter_self {β : Type} (p : β → Bool) (l : List β) : (l.filter p).filter p = l.filter p := by
  rw [List.filter_filter]; simp

theorem axisSlices_dropNew (E : List NIx) : axisSlices (dropNew E) = axisSlices E := by
  simp only [axisSlices, dropNew, filter_filter_self]

theorem axisIndices_dropNew (E : List NIx) : axisIndices (dropNew E) = axisIndices E := by
  simp only [axisIndices, dropNew, filter_filter_self]

theorem dropNew_no_new (E : List NIx) : ∀ e ∈ dropNew E, isNewaxis e = false := by
  intro e he
  have := (List.mem_filter.mp he).2
  simpa using this

/-- **`x[index]` on every rank, `None` entries included** (model side): shape and source positions axis by axis. -/
theorem getitemCore_withNew (t : Tensor α) (E : List NIx) (hlen : (dropNew E).length = t.shape.length)
    (hi : IntsInRange (dropNew E) t.shape) :
    (getitemCore t E).shape = modelS' E t.shape ∧
    ∀ o, InRange (modelS' E t.shape) o → (getitemCore t E).get o = t.get (modelF' E t.shape o) := by
  obtain ⟨b1, b2⟩ := getitemCore_noNew t (dropNew E) (dropNew_no_new E) hlen hi
  have hbody : getitemCore t E = (if (axisNewAxes E).isEmpty then getitemCore t (dropNew E)
      else onnxUnsqueeze (getitemCore t (dropNew E)) (axisNewAxes E)) := by
    simp only [getitemCore, axisSlices_dropNew, axisIndices_dropNew, axisNewAxes_none (dropNew E) (dropNew_no_new E),
      List.isEmpty_nil, if_true]
  have hsh := insertAt_newPos E t.shape [] hlen
  simp only [List.nil_append, List.length_nil] at hsh
  rw [hbody, axisNewAxes_eq]
  split
  · rename_i hemp
    have hnil : newPosFrom 0 E = [] := List.isEmpty_iff.mp hemp
    rw [hnil] at hsh
    simp only [insertAt, List.foldl_nil] at hsh
    refine ⟨b1.trans hsh, fun o ho => ?_⟩
    have hol : o.length = (modelS' E t.shape).length := C11.inRange_length _ _ ho
    have hf := modelF_removeAt E t.shape 0 o hlen hol
    rw [hnil, removeAtFrom_nil] at hf
    rw [b2 o (hsh ▸ ho), hf]
  · refine ⟨by simp only [onnxUnsqueeze]; rw [b1, hsh], fun o ho => ?_⟩
    have hol : o.length = (modelS' E t.shape).length := C11.inRange_length _ _ ho
    have hf := modelF_removeAt E t.shape 0 o hlen hol
    simp only [onnxUnsqueeze, removeAt_eq_from]
    have hin : InRange (modelS (dropNew E) t.shape) (removeAtFrom 0 o (newPosFrom 0 E)) :=
      removeAt_inRange E t.shape 0 o hlen ho
    rw [b2 _ hin, hf]

end Ndx.TGraph
