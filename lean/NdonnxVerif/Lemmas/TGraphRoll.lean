import NdonnxVerif.Lemmas.TGraph
import NdonnxVerif.Props.C11
/-! Evaluation of the shape arithmetic in `roll`'s graph: scalar sub-terms, the index vector. -/
namespace Ndx.TGraph
open Ndx

theorem bshape_nil_nil : bshape [] [] = some [] := by decide
theorem bshape_one_nil (n : Nat) : bshape [n] [] = some [n] := by simp [bshape, bshapeRev]
theorem bshape_nil_one (n : Nat) : bshape [] [n] = some [n] := by simp [bshape, bshapeRev]

/-- A tensor is the scalar `v`: rank 0 and `v` at every index. -/
def IsScalar (t : Tensor Int) (v : Int) : Prop := t.shape = [] ∧ ∀ ix, t.get ix = v

theorem isScalar_iscalar (env) (v : Int) : IsScalar ((iscalar v).eval env) v := by
  simp [IsScalar, iscalar, TG.eval, constT, ravel]

/-- `Gather(Shape(s), ax)` with a scalar `ax`: the extent of axis `ax` (negative axes count from the end). -/
theorem isScalar_len (env) (s : TG) (ax : Int) (h : normAxis (s.eval env).rank ax < (s.eval env).rank) :
    IsScalar ((TG.gather 0 (.shape s) (iscalar ax)).eval env)
      (Int.ofNat ((s.eval env).shape.getD (normAxis (s.eval env).rank ax) 0)) := by
  generalize hS : s.eval env = S at h ⊢
  simp only [TG.eval, hS, eval_iscalar, gatherOp, constT, shapeOp, vec, Tensor.rank]
  simp only [normAxis, ravel, List.getD_cons_zero, List.length_map]
  constructor
  · simp [onnxGatherScalar]
  · intro ix
    simp only [onnxGatherScalar, List.take_zero, List.nil_append, List.headD_cons, List.getD_cons_zero, List.length_map]
    simp only [normAxis, Tensor.rank] at h
    rw [List.getD_eq_getElem?_getD, List.getElem?_map]
    simp only [Int.lt_irrefl, if_false, Int.toNat_zero, Int.ofNat_eq_natCast]
    rw [List.getD_eq_getElem?_getD]
    cases hq : S.shape[(if ax < 0 then ax + ↑S.shape.length else ax).toNat]? <;> simp [hq]

theorem isScalar_bin (op : BOp) (a b : Tensor Int) (u v : Int) (ha : IsScalar a u) (hb : IsScalar b v) :
    IsScalar (bcast2 (evalBOp op) a b) (evalBOp op u v) := by
  obtain ⟨ha1, ha2⟩ := ha; obtain ⟨hb1, hb2⟩ := hb
  simp [IsScalar, bcast2, ha1, hb1, bshape_nil_nil, ha2, hb2]

theorem isScalar_sel (c a b : Tensor Int) (w u v : Int) (hc : IsScalar c w) (ha : IsScalar a u) (hb : IsScalar b v) :
    IsScalar (bcast3 c a b) (if w ≠ 0 then u else v) := by
  obtain ⟨ha1, ha2⟩ := ha; obtain ⟨hb1, hb2⟩ := hb; obtain ⟨hc1, hc2⟩ := hc
  simp [IsScalar, bcast3, ha1, hb1, hc1, bshape_nil_nil, ha2, hb2, hc2]

theorem wrap64_small (i : Nat) (n : Nat) (hi : i < n) (hn : (n : Int) ≤ int64Max) :
    castElem 7 (i : Int) = i := by
  simp only [castElem, C02.IType.wrap, C02.wrapS, C02.wrapU]
  simp only [int64Max] at hn
  simp
  omega


@[simp] theorem constT_scalar_get (v : Int) (ix : List Nat) : (constT [] [v]).get ix = v := by
  simp [constT, ravel]

theorem bcastIndex_vec (n i : Nat) (hi : i < n) : bcastIndex [n] [n] [i] = [i] := by
  simp [bcastIndex]
  intro h; omega

/-- Vector ∘ scalar broadcasting: shape `[n]`, element-wise with the scalar. -/
theorem bcast2_vec_scalar (f : Int → Int → Int) (a b : Tensor Int) (n : Nat) (v : Int)
    (ha : a.shape = [n]) (hb : IsScalar b v) :
    (bcast2 f a b).shape = [n] ∧ ∀ i, i < n → (bcast2 f a b).get [i] = f (a.get [i]) v := by
  obtain ⟨hb1, hb2⟩ := hb
  refine ⟨by simp [bcast2, ha, hb1, bshape_one_nil], ?_⟩
  intro i hi
  simp [bcast2, ha, hb1, bshape_one_nil, hb2, bcastIndex_vec n i hi]

theorem toFlat_vec_shape (t : Tensor Int) (n : Nat) (h : t.shape = [n]) :
    t.toFlat = (List.range n).map (fun i => t.get [i]) := by
  simp [Tensor.toFlat, h, allIdx_singleton]

theorem rangeLen_zero_n_one (n : Nat) : rangeLen 0 (n : Int) 1 = n := by
  unfold rangeLen
  simp only [show (1 : Int) > 0 by decide, if_true]
  split
  · simp
  · omega

/-- **The index vector `roll` computes in the graph** (`Shape → Gather → Range → Cast → Add → Mod(fmod=0)` with the
divisor `where(len == 0, 1, len)`) is the model's `rollIndices`, for every extent (0 included) and every shift. -/
theorem rollIdx_toFlat (env) (s : TG) (sh ax : Int)
    (h : normAxis (s.eval env).rank ax < (s.eval env).rank)
    (hn : Int.ofNat ((s.eval env).shape.getD (normAxis (s.eval env).rank ax) 0) ≤ int64Max) :
    ((rollIdx s sh ax).eval env).toFlat
      = rollIndices ((s.eval env).shape.getD (normAxis (s.eval env).rank ax) 0) sh := by
  generalize hnn : (s.eval env).shape.getD (normAxis (s.eval env).rank ax) 0 = n at hn
  have hlen := isScalar_len env s ax h
  rw [hnn] at hlen
  simp only [rollIdx, TG.eval] at hlen ⊢
  generalize hL : gatherOp (shapeOp (TG.eval env s)) 0 ((iscalar ax).eval env) = L at hlen ⊢
  have hshift := isScalar_bin .add _ _ _ _ (isScalar_iscalar env (-sh)) hlen
  have hdiv := isScalar_sel _ _ _ _ _ _ (isScalar_bin .equal _ _ _ _ hlen (isScalar_iscalar env 0)) (isScalar_iscalar env 1) hlen
  have hrng_shape : (Tensor.map (castElem 7) (rangeOp (((iscalar 0).eval env).get []) (L.get []) (((iscalar 1).eval env).get []))).shape = [n] := by
    simp [Tensor.map, rangeOp, hlen.2, rangeLen_zero_n_one]
  obtain ⟨hadd_shape, hadd_get⟩ := bcast2_vec_scalar (evalBOp .add) _ _ n _ hrng_shape hshift
  obtain ⟨hmod_shape, hmod_get⟩ := bcast2_vec_scalar (evalBOp .mod0) _ _ n _ hadd_shape hdiv
  rw [toFlat_vec_shape _ n hmod_shape]
  unfold rollIndices
  apply List.map_congr_left
  intro i hi
  have hi' : i < n := by simpa using hi
  rw [hmod_get i hi', hadd_get i hi']
  have hrng_get : (Tensor.map (castElem 7) (rangeOp (((iscalar 0).eval env).get []) (L.get []) (((iscalar 1).eval env).get []))).get [i] = (i : Int) := by
    simp only [Tensor.map, rangeOp, eval_iscalar, constT_scalar_get, List.headD_cons, Int.zero_add, Int.mul_one, Int.ofNat_eq_natCast]
    exact wrap64_small i n hi' hn
  rw [hrng_get]
  have hpos : (0 : Int) < (n : Int) := by omega
  have hne : (Int.ofNat n == 0) = false := by simp; omega
  simp only [evalBOp, pyMod, hne, b2i]
  simp only [Bool.false_eq_true, if_false, ne_eq, not_true_eq_false]
  exact Int.fmod_eq_emod_of_nonneg _ (by simp)

end Ndx.TGraph

namespace Ndx.TGraph
open Ndx

/-- Shape and content of the index vector together. -/
theorem rollIdx_eval (env) (s : TG) (sh ax : Int)
    (h : normAxis (s.eval env).rank ax < (s.eval env).rank)
    (hn : Int.ofNat ((s.eval env).shape.getD (normAxis (s.eval env).rank ax) 0) ≤ int64Max) :
    ((rollIdx s sh ax).eval env).shape = [(s.eval env).shape.getD (normAxis (s.eval env).rank ax) 0] := by
  generalize hnn : (s.eval env).shape.getD (normAxis (s.eval env).rank ax) 0 = n at hn
  have hlen := isScalar_len env s ax h
  rw [hnn] at hlen
  simp only [rollIdx, TG.eval] at hlen ⊢
  generalize hL : gatherOp (shapeOp (TG.eval env s)) 0 ((iscalar ax).eval env) = L at hlen ⊢
  have hshift := isScalar_bin .add _ _ _ _ (isScalar_iscalar env (-sh)) hlen
  have hdiv := isScalar_sel _ _ _ _ _ _ (isScalar_bin .equal _ _ _ _ hlen (isScalar_iscalar env 0)) (isScalar_iscalar env 1) hlen
  have hrng_shape : (Tensor.map (castElem 7) (rangeOp (((iscalar 0).eval env).get []) (L.get []) (((iscalar 1).eval env).get []))).shape = [n] := by
    simp [Tensor.map, rangeOp, hlen.2, rangeLen_zero_n_one]
  obtain ⟨hadd_shape, _⟩ := bcast2_vec_scalar (evalBOp .add) _ _ n _ hrng_shape hshift
  exact (bcast2_vec_scalar (evalBOp .mod0) _ _ n _ hadd_shape hdiv).1

/-- One `take(field, idx, axis)` of `roll` evaluates to the operator-level model `rollAxisModel` on the field. -/
theorem rollGather_eval (env) (f s : TG) (sh ax : Int)
    (hfs : (f.eval env).shape = (s.eval env).shape)
    (h : normAxis (s.eval env).rank ax < (s.eval env).rank)
    (hn : Int.ofNat ((s.eval env).shape.getD (normAxis (s.eval env).rank ax) 0) ≤ int64Max) :
    (TG.gather ax f (rollIdx s sh ax)).eval env
      = rollAxisModel (f.eval env) sh (normAxis (f.eval env).rank ax) := by
  have hsh := rollIdx_eval env s sh ax h hn
  have hfl := rollIdx_toFlat env s sh ax h hn
  have hr : (f.eval env).rank = (s.eval env).rank := by simp [Tensor.rank, hfs]
  simp only [TG.eval] at hsh hfl ⊢
  simp only [gatherOp, hsh, hfl, rollAxisModel, hr, hfs]

end Ndx.TGraph
namespace Ndx.TGraph
open Ndx

theorem ravel_lt : ∀ (sh ix : List Nat), InRange sh ix → ravel sh ix < sizeOf' sh
  | [], [], _ => by simp [ravel, sizeOf']
  | n :: sh, i :: ix, h => by
    obtain ⟨h1, h2⟩ := h
    have ih := ravel_lt sh ix h2
    simp only [ravel, sizeOf', List.foldr_cons] at ih ⊢
    calc i * List.foldr (· * ·) 1 sh + ravel sh ix < i * List.foldr (· * ·) 1 sh + List.foldr (· * ·) 1 sh := by omega
      _ = (i + 1) * List.foldr (· * ·) 1 sh := by rw [Nat.add_mul]; simp
      _ ≤ n * List.foldr (· * ·) 1 sh := Nat.mul_le_mul_right _ h1
  | [], _ :: _, h => by cases h
  | _ :: _, [], h => by cases h

theorem unravel_ravel : ∀ (sh ix : List Nat), InRange sh ix → unravel sh (ravel sh ix) = ix
  | [], [], _ => by simp [unravel]
  | n :: sh, i :: ix, h => by
    obtain ⟨h1, h2⟩ := h
    have hlt := ravel_lt sh ix h2
    have ih := unravel_ravel sh ix h2
    have hpos : 0 < sizeOf' sh := by omega
    simp only [unravel, ravel]
    have hdiv : (i * sizeOf' sh + ravel sh ix) / sizeOf' sh = i := by
      rw [Nat.mul_comm, Nat.mul_add_div hpos, Nat.div_eq_of_lt hlt]; simp
    have hmod : (i * sizeOf' sh + ravel sh ix) % sizeOf' sh = ravel sh ix := by
      rw [Nat.mul_comm, Nat.mul_add_mod, Nat.mod_eq_of_lt hlt]
    rw [hdiv, hmod, ih]
  | [], _ :: _, h => by cases h
  | _ :: _, [], h => by cases h

/-- `Reshape` to the tensor's own shape is the identity. -/
theorem onnxReshape_self (t : Tensor α) : (onnxReshape t t.shape).Equiv t := by
  refine ⟨rfl, ?_⟩
  intro ix hix
  simp only [onnxReshape] at hix ⊢
  rw [unravel_ravel _ _ hix]

theorem reshapeTarget_of_nat (size : Nat) (sh : List Nat) : reshapeTarget size (sh.map Int.ofNat) = sh := by
  unfold reshapeTarget
  simp only [List.map_map]
  conv => rhs; rw [← List.map_id sh]
  apply List.map_congr_left
  intro d _
  simp only [Function.comp]
  have : ¬ ((d : Int) = -1) := by omega
  simp [this]

theorem shapeOp_toFlat (t : Tensor α) : (shapeOp t).toFlat = t.shape.map Int.ofNat := by
  unfold shapeOp vec
  simp only [Tensor.toFlat, allIdx_singleton, List.map_map]
  apply List.ext_getElem
  · simp
  · intro i h1 h2
    simp at h2
    simp [List.getElem?_eq_getElem h2]

/-- `Reshape(r, Shape(s))` is the identity when `r` already has `s`'s shape. -/
theorem reshape_to_same_shape (r s : Tensor Int) (h : r.shape = s.shape) :
    (reshapeOp r (shapeOp s).toFlat).Equiv r := by
  rw [shapeOp_toFlat, ← h]
  unfold reshapeOp
  rw [reshapeTarget_of_nat]
  exact onnxReshape_self r

end Ndx.TGraph
namespace Ndx.TGraph
open Ndx Ndx.C11

theorem inRange_of_get : ∀ (sh ix : List Nat), ix.length = sh.length →
    (∀ k (hk : k < ix.length), ix[k] < sh.getD k 0) → InRange sh ix
  | [], [], _, _ => trivial
  | n :: sh, i :: ix, hl, h => by
    refine ⟨by have := h 0 (by simp); simpa using this, inRange_of_get sh ix (by simpa using hl) ?_⟩
    intro k hk
    have := h (k + 1) (by simpa using hk)
    simpa using this
  | [], _ :: _, hl, _ => by simp at hl
  | _ :: _, [], hl, _ => by simp at hl

theorem inRange_updAxis (sh ix : List Nat) (axis : Nat) (g : Nat → Nat) (h : InRange sh ix)
    (hg : ∀ (hk : axis < ix.length), g ix[axis] < sh.getD axis 0) : InRange sh (updAxis ix axis g) := by
  apply inRange_of_get
  · simp [updAxis, inRange_length sh ix h]
  · intro k hk
    have hk' : k < ix.length := by simpa [updAxis] using hk
    simp only [updAxis, List.getElem_mapIdx]
    by_cases hka : k = axis
    · subst hka; simp; exact hg hk'
    · simp [hka]; exact inRange_get sh ix h k hk'

theorem rollAxis_congr {A B : Tensor α} (hAB : A.Equiv B) (sh : Int) (a : Nat) :
    (Spec.rollAxis A sh a).Equiv (Spec.rollAxis B sh a) := by
  refine ⟨hAB.1, ?_⟩
  intro ix hix
  simp only [Spec.rollAxis] at hix ⊢
  rw [← hAB.1]
  apply hAB.2
  apply inRange_updAxis _ _ _ _ hix
  intro hk
  have hi := inRange_get A.shape ix hix a hk
  generalize A.shape.getD a 0 = n at hi ⊢
  have hpos : (0 : Int) < (n : Int) := by omega
  have h0 := Int.emod_nonneg ((ix[a] : Int) - sh) (by omega : (n : Int) ≠ 0)
  have h1 := Int.emod_lt_of_pos ((ix[a] : Int) - sh) hpos
  omega

namespace Spec
/-- NumPy `roll(x, shifts, axes)`: one rotation per `(shift, axis)` pair, in order (negative axes count from the
end). -/
def rollSteps (t : Tensor α) (steps : List (Int × Int)) : Tensor α :=
  steps.foldl (fun acc p => Ndx.Spec.rollAxis acc p.1 (normAxis acc.rank p.2)) t
end Spec

theorem spec_rollSteps_shape (steps : List (Int × Int)) : ∀ (t : Tensor α), (Spec.rollSteps t steps).shape = t.shape := by
  induction steps with
  | nil => intro t; rfl
  | cons p steps ih => intro t; simp only [Spec.rollSteps, List.foldl_cons]; exact (ih _).trans rfl

theorem spec_rollSteps_congr (steps : List (Int × Int)) : ∀ {A B : Tensor α}, A.Equiv B →
    (Spec.rollSteps A steps).Equiv (Spec.rollSteps B steps) := by
  induction steps with
  | nil => intro A B h; exact h
  | cons p steps ih =>
    intro A B h
    simp only [Spec.rollSteps, List.foldl_cons]
    have hr : A.rank = B.rank := by simp [Tensor.rank, h.1]
    rw [hr]
    exact ih (rollAxis_congr h p.1 _)

/-- **`roll` over any list of `(shift, axis)` steps.**  The two fields rolled alongside each other (`field` and the
shape source `src`, equal shapes) evaluate to NumPy's successive rotations of the field, and shapes are preserved. -/
theorem rollSteps_eval (env) (steps : List (Int × Int)) : ∀ (f s : TG),
    (f.eval env).shape = (s.eval env).shape →
    (∀ p ∈ steps, normAxis (s.eval env).rank p.2 < (s.eval env).rank) →
    (∀ k, Int.ofNat ((s.eval env).shape.getD k 0) ≤ int64Max) →
    ((rollSteps f s steps).1.eval env).Equiv (Spec.rollSteps (f.eval env) steps)
      ∧ ((rollSteps f s steps).1.eval env).shape = (s.eval env).shape := by
  induction steps with
  | nil =>
    intro f s hfs _ _
    exact ⟨equiv_refl _, hfs⟩
  | cons p steps ih =>
    intro f s hfs hax hn
    have hp := hax p (by simp)
    have hF := rollGather_eval env f s p.1 p.2 hfs hp (hn _)
    have hS := rollGather_eval env s s p.1 p.2 rfl hp (hn _)
    have hr : (f.eval env).rank = (s.eval env).rank := by simp [Tensor.rank, hfs]
    have eF := C11.roll_axis (f.eval env) p.1 (normAxis (f.eval env).rank p.2)
    have eS := C11.roll_axis (s.eval env) p.1 (normAxis (s.eval env).rank p.2)
    have shF : ((TG.gather p.2 f (rollIdx s p.1 p.2)).eval env).shape = (s.eval env).shape := by
      rw [hF, eF.1]; exact hfs
    have shS : ((TG.gather p.2 s (rollIdx s p.1 p.2)).eval env).shape = (s.eval env).shape := by
      rw [hS, eS.1]; rfl
    have hrS : ((TG.gather p.2 s (rollIdx s p.1 p.2)).eval env).rank = (s.eval env).rank := by
      simp [Tensor.rank, shS]
    obtain ⟨ih1, ih2⟩ := ih (TG.gather p.2 f (rollIdx s p.1 p.2)) (TG.gather p.2 s (rollIdx s p.1 p.2))
      (shF.trans shS.symm)
      (fun q hq => by rw [hrS]; exact hax q (List.mem_cons_of_mem _ hq))
      (fun k => by rw [shS]; exact hn k)
    refine ⟨?_, ih2.trans shS⟩
    simp only [rollSteps, List.foldl_cons, rollStep] at ih1 ⊢
    refine equiv_trans ih1 ?_
    simp only [Spec.rollSteps, List.foldl_cons]
    rw [hF]
    exact spec_rollSteps_congr steps eF

end Ndx.TGraph
