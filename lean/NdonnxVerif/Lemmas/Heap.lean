import NdonnxVerif.Model.Heap
/-! Invariants of the propagation state machine, by induction over histories. -/
namespace Ndx.Heap
variable {Val : Type} (sem : String → List Val → Option Val)

/-- A reported value is what the variable denotes under every placeholder assignment. -/
def Sound (h : Heap Val) : Prop :=
  ∀ c ∈ h, ∀ v, c.eager = some v → ∀ env, eval sem env c.var = some v

/-- A cell that reports a value is a `Constant` of exactly that value. -/
def Closed (h : Heap Val) : Prop :=
  ∀ c ∈ h, ∀ v, c.eager = some v → c.var = .const v

theorem closed_sound (h : Heap Val) (hc : Closed h) : Sound sem h := by
  intro c hm v hv env
  rw [hc c hm v hv]; simp [eval]

theorem mem_append_single {h : Heap Val} {c n : Cell Val} (hm : c ∈ h ++ [n]) : c ∈ h ∨ c = n := by
  rcases List.mem_append.mp hm with hm | hm
  · exact Or.inl hm
  · simp at hm; exact Or.inr hm

theorem closed_append (h : Heap Val) (n : Cell Val) (hc : Closed h)
    (hn : ∀ v, n.eager = some v → n.var = .const v) : Closed (h ++ [n]) := by
  intro c hm v hv
  rcases mem_append_single hm with hm | hm
  · exact hc c hm v hv
  · subst hm; exact hn v hv

theorem stepBase_closed (ort : Bool) (h h' : Heap Val) (s : Step Val) (hc : Closed h)
    (hstep : stepBase sem ort h s = some h') : Closed h' := by
  cases s with
  | guarded op args g choice => simp [stepBase] at hstep
  | guarded2 op a b chA chB => simp [stepBase] at hstep
  | data v =>
    simp only [stepBase, Option.some.injEq] at hstep; subst hstep
    exact closed_append h _ hc (by intro w hw; simp at hw; subst hw; rfl)
  | placeholder n =>
    simp only [stepBase, Option.some.injEq] at hstep; subst hstep
    exact closed_append h _ hc (by intro w hw; simp at hw)
  | prim op args =>
    simp only [stepBase] at hstep
    cases hv : varsOf h args with
    | none => simp [hv] at hstep
    | some vars =>
      simp only [hv, Option.bind_some] at hstep
      split at hstep
      · rename_i vs _
        cases hsem : sem op vs with
        | none => simp [hsem] at hstep
        | some v =>
          simp only [hsem, Option.bind_some, Option.some.injEq] at hstep; subst hstep
          exact closed_append h _ hc (by intro w hw; simp at hw; subst hw; rfl)
      · simp only [Option.some.injEq] at hstep; subst hstep
        exact closed_append h _ hc (by intro w hw; simp at hw)
  | copy r =>
    simp only [stepBase] at hstep
    cases hr : h[r]? with
    | none => simp [hr] at hstep
    | some c0 =>
      simp only [hr, Option.bind_some, Option.some.injEq] at hstep; subst hstep
      apply closed_append h _ hc
      intro w hw
      cases he : c0.eager with
      | none => simp [he] at hw
      | some v => simp [he] at hw; subst hw; simp
  | set dst src =>
    simp only [stepBase] at hstep
    cases hr : h[src]? with
    | none => simp [hr] at hstep
    | some c0 =>
      simp only [hr, Option.bind_some] at hstep
      split at hstep
      · simp only [Option.some.injEq] at hstep; subst hstep
        intro c hm v hv
        rcases List.mem_or_eq_of_mem_set hm with hm | hm
        · exact hc c hm v hv
        · subst hm; exact hc c0 (List.mem_of_getElem? hr) v hv
      · simp at hstep

/-- Lengths: every transition appends exactly one cell, except `set`, which keeps the length. -/
theorem stepBase_length (ort : Bool) (h h' : Heap Val) (s : Step Val) (hstep : stepBase sem ort h s = some h') :
    h'.length = (match s with | .set _ _ => h.length | _ => h.length + 1) := by
  cases s with
  | guarded op args g choice => simp [stepBase] at hstep
  | guarded2 op a b chA chB => simp [stepBase] at hstep
  | data v => simp only [stepBase, Option.some.injEq] at hstep; subst hstep; simp
  | placeholder n => simp only [stepBase, Option.some.injEq] at hstep; subst hstep; simp
  | prim op args =>
    simp only [stepBase] at hstep
    cases hv : varsOf h args with
    | none => simp [hv] at hstep
    | some vars =>
      simp only [hv, Option.bind_some] at hstep
      split at hstep
      · rename_i vs _
        cases hsem : sem op vs with
        | none => simp [hsem] at hstep
        | some v => simp only [hsem, Option.bind_some, Option.some.injEq] at hstep; subst hstep; simp
      · simp only [Option.some.injEq] at hstep; subst hstep; simp
  | copy r =>
    simp only [stepBase] at hstep
    cases hr : h[r]? with
    | none => simp [hr] at hstep
    | some c0 => simp only [hr, Option.bind_some, Option.some.injEq] at hstep; subst hstep; simp
  | set dst src =>
    simp only [stepBase] at hstep
    cases hr : h[src]? with
    | none => simp [hr] at hstep
    | some c0 =>
      simp only [hr, Option.bind_some] at hstep
      split at hstep
      · simp only [Option.some.injEq] at hstep; subst hstep; simp
      · simp at hstep

/-- Frame: a transition leaves every existing cell untouched, except the explicit target of `set`. -/
theorem stepBase_frame (ort : Bool) (h h' : Heap Val) (s : Step Val) (hstep : stepBase sem ort h s = some h')
    (i : Nat) (hi : i < h.length) (hne : ∀ d src, s = .set d src → i ≠ d) : h'[i]? = h[i]? := by
  cases s with
  | guarded op args g choice => simp [stepBase] at hstep
  | guarded2 op a b chA chB => simp [stepBase] at hstep
  | data v => simp only [stepBase, Option.some.injEq] at hstep; subst hstep; simp [List.getElem?_append_left hi]
  | placeholder n => simp only [stepBase, Option.some.injEq] at hstep; subst hstep; simp [List.getElem?_append_left hi]
  | prim op args =>
    simp only [stepBase] at hstep
    cases hv : varsOf h args with
    | none => simp [hv] at hstep
    | some vars =>
      simp only [hv, Option.bind_some] at hstep
      split at hstep
      · rename_i vs _
        cases hsem : sem op vs with
        | none => simp [hsem] at hstep
        | some v =>
          simp only [hsem, Option.bind_some, Option.some.injEq] at hstep; subst hstep
          simp [List.getElem?_append_left hi]
      · simp only [Option.some.injEq] at hstep; subst hstep; simp [List.getElem?_append_left hi]
  | copy r =>
    simp only [stepBase] at hstep
    cases hr : h[r]? with
    | none => simp [hr] at hstep
    | some c0 =>
      simp only [hr, Option.bind_some, Option.some.injEq] at hstep; subst hstep
      simp [List.getElem?_append_left hi]
  | set dst src =>
    simp only [stepBase] at hstep
    cases hr : h[src]? with
    | none => simp [hr] at hstep
    | some c0 =>
      simp only [hr, Option.bind_some] at hstep
      split at hstep
      · simp only [Option.some.injEq] at hstep; subst hstep
        have := hne dst src rfl
        simp [Ne.symm this]
      · simp at hstep

/-- Resolving a shortcut never yields a `set`, and leaves every other step alone. -/
theorem resolve_set (h : Heap Val) (s : Step Val) (d src : Nat) : resolve h s = .set d src ↔ s = .set d src := by
  cases s with
  | guarded op args g choice =>
    simp only [resolve]
    constructor
    · intro hh
      split at hh
      · split at hh
        · split at hh <;> cases hh
        · cases hh
      · cases hh
    · intro hh; cases hh
  | guarded2 op a b chA chB =>
    simp only [resolve]
    constructor
    · intro hh
      split at hh
      · split at hh
        · cases hh
        · split at hh <;> cases hh
      · cases hh
    · intro hh; cases hh
  | data v => simp [resolve]
  | placeholder n => simp [resolve]
  | prim op args => simp [resolve]
  | copy r => simp [resolve]
  | set d' s' => simp [resolve]

theorem step_closed (ort : Bool) (h h' : Heap Val) (s : Step Val) (hc : Closed h)
    (hstep : step sem ort h s = some h') : Closed h' :=
  stepBase_closed sem ort h h' (resolve h s) hc hstep

theorem step_length (ort : Bool) (h h' : Heap Val) (s : Step Val) (hstep : step sem ort h s = some h') :
    h'.length = (match s with | .set _ _ => h.length | _ => h.length + 1) := by
  have := stepBase_length sem ort h h' (resolve h s) hstep
  cases s with
  | set d src => simpa [resolve] using this
  | guarded op args g choice =>
    have key : ∀ r : Step Val, stepBase sem ort h r = some h' → (∀ d src, r ≠ .set d src) → h'.length = h.length + 1 := by
      intro r hr hns
      have h1 := stepBase_length sem ort h h' r hr
      cases r with
      | set d src => exact absurd rfl (hns d src)
      | data v => simpa using h1
      | placeholder n => simpa using h1
      | prim op' args' => simpa using h1
      | copy r' => simpa using h1
      | guarded _ _ _ _ => simpa using h1
      | guarded2 _ _ _ _ _ => simpa using h1
    exact key _ hstep (fun d src hh => by have := (resolve_set h _ d src).mp hh; cases this)
  | guarded2 op a b chA chB =>
    have key : ∀ r : Step Val, stepBase sem ort h r = some h' → (∀ d src, r ≠ .set d src) → h'.length = h.length + 1 := by
      intro r hr hns
      have h1 := stepBase_length sem ort h h' r hr
      cases r with
      | set d src => exact absurd rfl (hns d src)
      | data v => simpa using h1
      | placeholder n => simpa using h1
      | prim op' args' => simpa using h1
      | copy r' => simpa using h1
      | guarded _ _ _ _ => simpa using h1
      | guarded2 _ _ _ _ _ => simpa using h1
    exact key _ hstep (fun d src hh => by have := (resolve_set h _ d src).mp hh; cases this)
  | data v => simpa [resolve] using this
  | placeholder n => simpa [resolve] using this
  | prim op args => simpa [resolve] using this
  | copy r => simpa [resolve] using this

theorem step_frame (ort : Bool) (h h' : Heap Val) (s : Step Val) (hstep : step sem ort h s = some h')
    (i : Nat) (hi : i < h.length) (hne : ∀ d src, s = .set d src → i ≠ d) : h'[i]? = h[i]? :=
  stepBase_frame sem ort h h' (resolve h s) hstep i hi (fun d src hh => hne d src ((resolve_set h s d src).mp hh))

theorem run_closed (ort : Bool) : ∀ (steps : List (Step Val)) (h h' : Heap Val), Closed h →
    run sem ort steps h = some h' → Closed h' := by
  intro steps
  induction steps with
  | nil => intro h h' hc hr; simp [run] at hr; subst hr; exact hc
  | cons s ss ih =>
    intro h h' hc hr
    simp only [run] at hr
    cases h1 : step sem ort h s with
    | none => simp [h1] at hr
    | some hm => simp only [h1, Option.bind_some] at hr; exact ih hm h' (step_closed sem ort h hm s hc h1) hr

theorem closed_nil : Closed ([] : Heap Val) := by intro c hc; simp at hc


end Ndx.Heap
