import NdonnxVerif.Lemmas.TGraphRoll
import NdonnxVerif.Lemmas.Broadcast
import NdonnxVerif.Props.C10
import NdonnxVerif.Props.C10Values
/-! Lemmas for the reduction graphs: shapes of `reduceT`, index ranges of the folded elements, the folds of
`all/any`, evaluation of `x != 0`. -/
namespace Ndx.TGraph
open Ndx Ndx.Spec




theorem keepdimsShape_flags (p : Nat → Bool) : ∀ (sh : List Nat) (k : Nat),
    keepdimsShape sh ((List.range' k sh.length).map p) = sh.mapIdx (fun i n => if p (k + i) then 1 else n)
  | [], _ => by simp [keepdimsShape]
  | n :: sh, k => by
    simp only [List.length_cons, List.range'_succ, List.map_cons, keepdimsShape, List.mapIdx_cons, Nat.add_zero]
    rw [keepdimsShape_flags p sh (k + 1)]
    congr 1
    apply List.ext_getElem
    · simp
    · intro i h1 h2
      simp only [List.getElem_mapIdx]
      rw [show k + 1 + i = k + (i + 1) by omega]

theorem keptExtents_flags (p : Nat → Bool) : ∀ (sh : List Nat) (k : Nat),
    keptExtents sh ((List.range' k sh.length).map p) = ((sh.zipIdx k).filter (fun q => !p q.2)).map (·.1)
  | [], _ => by simp [keptExtents]
  | n :: sh, k => by
    simp only [List.length_cons, List.range'_succ, List.map_cons, List.zipIdx_cons, List.filter_cons]
    cases hp : p k
    · simp only [keptExtents, Bool.not_false, if_true, List.map_cons]
      rw [keptExtents_flags p sh (k + 1)]
    · simp only [keptExtents, Bool.not_true, Bool.false_eq_true, if_false]
      rw [keptExtents_flags p sh (k + 1)]

theorem reduceT_shape (f : β → Int → β) (init : β) (t : Tensor Int) (axes : List Int) (noop keepdims : Bool) :
    (reduceT f init t ((List.range t.rank).map (onnxReduced axes noop)) keepdims).shape
      = onnxReduceShape t.shape axes keepdims noop := by
  unfold reduceT onnxReduceShape
  have hr : List.range t.rank = List.range' 0 t.shape.length := by simp [Tensor.rank, List.range_eq_range']
  cases keepdims
  · simp only [Bool.false_eq_true, if_false]
    rw [hr, keptExtents_flags]
  · simp only [if_true]
    rw [hr, keepdimsShape_flags]
    simp

theorem normAxes_id (rank : Nat) (axis : AxisArg) (hv : axisValid rank axis) :
    (normalizeAxes rank axis).map (fun a => Int.ofNat (normAxis rank a)) = normalizeAxes rank axis := by
  have key : ∀ a : Int, -(rank : Int) ≤ a ∧ a < rank →
      Int.ofNat (normAxis rank (if a < 0 then a + rank else a)) = (if a < 0 then a + rank else a) := by
    intro a ha
    simp only [normAxis]
    by_cases h : a < 0
    · have h2 : ¬ (a + (rank : Int) < 0) := by omega
      simp only [h, if_true, h2, if_false, Int.ofNat_eq_natCast]
      omega
    · simp only [h, if_false, Int.ofNat_eq_natCast]
      omega
  cases axis with
  | none => rfl
  | one a => simp only [normalizeAxes, List.map_cons, List.map_nil]; rw [key a hv]
  | many as =>
    simp only [normalizeAxes, List.map_map]
    apply List.map_congr_left
    intro a ha
    exact key a (hv a ha)


theorem mem_allIdx_inRange : ∀ (sh r : List Nat), r ∈ allIdx sh → InRange sh r
  | [], r, h => by
    simp [allIdx] at h; subst h; trivial
  | n :: sh, r, h => by
    simp only [allIdx, List.mem_flatMap, List.mem_range, List.mem_map] at h
    obtain ⟨i, hi, r', hr', rfl⟩ := h
    exact ⟨hi, mem_allIdx_inRange sh r' hr'⟩

/-- The input index assembled from an in-range kept index and an in-range reduced index is in range. -/
theorem mergeIdx_inRange : ∀ (sh : List Nat) (red : List Bool) (o r : List Nat), red.length = sh.length →
    InRange (keptExtents sh red) o → InRange (reducedExtents sh red) r → InRange sh (mergeIdx red o r)
  | [], [], o, r, _, _, _ => by simp [mergeIdx, InRange]
  | n :: sh, true :: red, o, x :: r, hl, ho, hr => by
    simp only [reducedExtents, keptExtents] at ho hr
    simp only [mergeIdx]
    exact ⟨hr.1, mergeIdx_inRange sh red o r (by simpa using hl) ho hr.2⟩
  | n :: sh, false :: red, y :: o, r, hl, ho, hr => by
    simp only [reducedExtents, keptExtents] at ho hr
    simp only [mergeIdx]
    exact ⟨ho.1, mergeIdx_inRange sh red o r (by simpa using hl) ho.2 hr⟩
  | n :: sh, true :: red, o, [], _, _, hr => by simp [reducedExtents, InRange] at hr
  | n :: sh, false :: red, [], r, _, ho, _ => by simp [keptExtents, InRange] at ho
  | [], _ :: _, _, _, hl, _, _ => by simp at hl
  | _ :: _, [], _, _, hl, _, _ => by simp at hl

theorem dropReduced_inRange : ∀ (sh : List Nat) (red : List Bool) (o : List Nat), red.length = sh.length →
    InRange (keepdimsShape sh red) o → InRange (keptExtents sh red) (dropReduced red o)
  | [], [], o, _, ho => by
    simp only [keepdimsShape] at ho
    match o, ho with
    | [], _ => simp [dropReduced, keptExtents, InRange]
  | n :: sh, true :: red, y :: o, hl, ho => by
    simp only [keepdimsShape, if_true] at ho
    simp only [dropReduced, keptExtents]
    exact dropReduced_inRange sh red o (by simpa using hl) ho.2
  | n :: sh, false :: red, y :: o, hl, ho => by
    simp only [keepdimsShape, Bool.false_eq_true, if_false] at ho
    simp only [dropReduced, keptExtents]
    exact ⟨ho.1, dropReduced_inRange sh red o (by simpa using hl) ho.2⟩
  | n :: sh, _ :: red, [], _, ho => by simp [keepdimsShape, InRange] at ho
  | [], _ :: _, _, hl, _ => by simp at hl
  | _ :: _, [], _, hl, _ => by simp at hl

/-- The kept index a result position stands for. -/
def keptIndex (red : List Bool) (keepdims : Bool) (o : List Nat) : List Nat := if keepdims then dropReduced red o else o

theorem keptIndex_inRange (sh : List Nat) (red : List Bool) (keepdims : Bool) (o : List Nat) (hl : red.length = sh.length)
    (ho : InRange (if keepdims then keepdimsShape sh red else keptExtents sh red) o) :
    InRange (keptExtents sh red) (keptIndex red keepdims o) := by
  cases keepdims
  · simpa [keptIndex] using ho
  · simp only [keptIndex, if_true] at ho ⊢
    exact dropReduced_inRange sh red o hl ho

/-- If `e` is `g ∘ x` on in-range indices (same shape), a reduction of `e` folds `g` of the elements of `x`. -/
theorem reduceT_of_pointwise (f : β → Int → β) (init : β) (e x : Tensor Int) (g : Int → Int) (red : List Bool)
    (keepdims : Bool) (hl : red.length = x.shape.length) (hs : e.shape = x.shape)
    (hg : ∀ ix, InRange x.shape ix → e.get ix = g (x.get ix)) :
    (reduceT f init e red keepdims).shape = (reduceT f init x red keepdims).shape ∧
    ∀ o, InRange (reduceT f init x red keepdims).shape o →
      (reduceT f init e red keepdims).get o = ((reduceVals x red (keptIndex red keepdims o)).map g).foldl f init := by
  constructor
  · unfold reduceT; cases keepdims <;> simp [hs]
  · intro o ho
    have hk : InRange (keptExtents x.shape red) (keptIndex red keepdims o) := by
      apply keptIndex_inRange _ _ _ _ hl
      unfold reduceT at ho
      cases keepdims <;> simpa using ho
    have hvals : reduceVals e red (keptIndex red keepdims o) = (reduceVals x red (keptIndex red keepdims o)).map g := by
      unfold reduceVals
      rw [hs, List.map_map]
      apply List.map_congr_left
      intro r hr
      exact hg _ (mergeIdx_inRange _ _ _ _ hl hk (mem_allIdx_inRange _ _ hr))
    unfold reduceT
    cases keepdims
    · simp only [Bool.false_eq_true, if_false, keptIndex] at hvals ⊢
      rw [hvals]
    · simp only [if_true, keptIndex] at hvals ⊢
      rw [hvals]


def maxf (acc v : Int) : Int := if v > acc then v else acc
def minf (acc v : Int) : Int := if v < acc then v else acc

theorem cast93_min : castElem 9 (castElem 3 int64Min) = 0 := by decide
theorem cast93_max : castElem 9 (castElem 3 int64Max) = 1 := by decide
theorem cast93_zero : castElem 9 (castElem 3 0) = 0 := by decide
theorem cast93_one : castElem 9 (castElem 3 1) = 1 := by decide

theorem fold_max_bools (l : List Bool) : ∀ acc : Int, (acc = int64Min ∨ acc = 0 ∨ acc = 1) →
    castElem 9 (castElem 3 ((l.map b2i).foldl maxf acc)) = b2i (acc == 1 || l.any id) := by
  induction l with
  | nil =>
    intro acc h
    rcases h with rfl | rfl | rfl <;> simp only [List.map_nil, List.foldl_nil, List.any_nil, Bool.or_false]
    · rw [cast93_min]; decide
    · rw [cast93_zero]; decide
    · rw [cast93_one]; decide
  | cons b l ih =>
    intro acc h
    simp only [List.map_cons, List.foldl_cons, List.any_cons, id]
    have hacc : (maxf acc (b2i b) = int64Min ∨ maxf acc (b2i b) = 0 ∨ maxf acc (b2i b) = 1) ∧
        ((maxf acc (b2i b) == 1) = (acc == 1 || b)) := by
      rcases h with rfl | rfl | rfl <;> cases b <;> decide
    rw [ih _ hacc.1, hacc.2, Bool.or_assoc]

theorem fold_min_bools (l : List Bool) : ∀ acc : Int, (acc = int64Max ∨ acc = 0 ∨ acc = 1) →
    castElem 9 (castElem 3 ((l.map b2i).foldl minf acc)) = b2i (acc != 0 && l.all id) := by
  induction l with
  | nil =>
    intro acc h
    rcases h with rfl | rfl | rfl <;> simp only [List.map_nil, List.foldl_nil, List.all_nil, Bool.and_true]
    · rw [cast93_max]; decide
    · rw [cast93_zero]; decide
    · rw [cast93_one]; decide
  | cons b l ih =>
    intro acc h
    simp only [List.map_cons, List.foldl_cons, List.all_cons, id]
    have hacc : (minf acc (b2i b) = int64Max ∨ minf acc (b2i b) = 0 ∨ minf acc (b2i b) = 1) ∧
        ((minf acc (b2i b) != 0) = (acc != 0 && b)) := by
      rcases h with rfl | rfl | rfl <;> cases b <;> decide
    rw [ih _ hacc.1, hacc.2, Bool.and_assoc]

/-- Keeping the fold in int64 (no `int8` round trip) is wrong on empty reductions: `INT64_MIN` is truthy. -/
theorem any_without_int8_is_wrong : castElem 9 (([] : List Int).foldl maxf int64Min) ≠ b2i (([] : List Bool).any id) := by decide


theorem bcastIndex_self : ∀ (sh ix : List Nat), InRange sh ix → bcastIndex sh sh ix = ix := by
  intro sh ix h
  simp only [bcastIndex, Nat.sub_self, List.drop_zero]
  induction sh generalizing ix with
  | nil => cases ix <;> simp_all [InRange]
  | cons n sh ih =>
    cases ix with
    | nil => simp [InRange] at h
    | cons i ix =>
      obtain ⟨h1, h2⟩ := h
      simp only [List.zipWith_cons_cons, ih ix h2]
      congr 1
      split <;> omega

theorem bshape_nil_right (s : List Nat) : bshape s [] = some s := by
  simp [bshape, bshapeRev_nil_right]

/-- Tensor ∘ scalar broadcasting keeps the tensor's shape and applies the scalar element-wise. -/
theorem bcast2_scalar_right (f : Int → Int → Int) (a b : Tensor Int) (v : Int) (hb : IsScalar b v) :
    (bcast2 f a b).shape = a.shape ∧ ∀ ix, InRange a.shape ix → (bcast2 f a b).get ix = f (a.get ix) v := by
  obtain ⟨hb1, hb2⟩ := hb
  refine ⟨by simp [bcast2, hb1, bshape_nil_right], ?_⟩
  intro ix hix
  simp [bcast2, hb1, bshape_nil_right, hb2, bcastIndex_self _ _ hix]

/-- Truth value of an element of dtype code `t` as `x != 0` reads it. -/
def tv (t : Nat) (v : Int) : Bool := if t = 9 then v != 0 else (if t = 7 then v else castElem 7 v) != 0

theorem truthy_eval (env) (x : TG) (t : Nat)
    (hbool : t = 9 → ∀ ix, (x.eval env).get ix = 0 ∨ (x.eval env).get ix = 1) :
    ((TG.cast 7 (.cast 3 (truthy x t))).eval env).shape = (x.eval env).shape ∧
    ∀ ix, InRange (x.eval env).shape ix →
      ((TG.cast 7 (.cast 3 (truthy x t))).eval env).get ix = b2i (tv t ((x.eval env).get ix)) := by
  unfold truthy
  by_cases h9 : t = 9
  · subst h9
    simp only [if_true, TG.eval, Tensor.map, tv]
    refine ⟨trivial, fun ix _ => ?_⟩
    rcases hbool rfl ix with h | h <;> rw [h] <;> decide
  · simp only [h9, if_false, TG.eval, Tensor.map, tv]
    by_cases h7 : t = 7
    · simp only [h7, if_true]
      obtain ⟨hs, hg⟩ := bcast2_scalar_right (evalBOp .equal) (x.eval env) _ 0 (isScalar_iscalar env 0)
      refine ⟨hs, fun ix hix => ?_⟩
      rw [hg ix hix]
      simp only [evalBOp]
      by_cases hz : (x.eval env).get ix = 0 <;> simp [hz, b2i] <;> decide
    · simp only [h7, if_false]
      obtain ⟨hs, hg⟩ := bcast2_scalar_right (evalBOp .equal) ((x.eval env).map (castElem 7)) _ 0 (isScalar_iscalar env 0)
      refine ⟨hs, fun ix hix => ?_⟩
      simp only [TG.eval]
      rw [hg ix hix]
      simp only [evalBOp, Tensor.map]
      by_cases hz : castElem 7 ((x.eval env).get ix) = 0 <;> simp [hz, b2i] <;> decide

end Ndx.TGraph
