import NdonnxVerif.Model.TGraphScatter
import NdonnxVerif.Lemmas.TGraphRoll
/-! Lemmas for the coordinate grid / Compress / ScatterND terms. -/
namespace Ndx.TGraph
open Ndx

theorem vec_toFlat (l : List Int) : (vec l).toFlat = l := by
  unfold vec
  simp only [Tensor.toFlat, allIdx_singleton, List.map_map]
  apply List.ext_getElem
  · simp
  · intro i h1 h2
    simp at h1
    simp [List.getElem?_eq_getElem h2]

/-- `Concat(axis=0)` of two vectors. -/
theorem concat_vec_toFlat (a b : Tensor Int) (m n : Nat) (ha : a.shape = [m]) (hb : b.shape = [n]) :
    (concatOp a b 0).shape = [m + n] ∧ (concatOp a b 0).toFlat = a.toFlat ++ b.toFlat := by
  have hs : (concatOp a b 0).shape = [m + n] := by
    simp [concatOp, normAxis, ha, hb]
  refine ⟨hs, ?_⟩
  rw [toFlat_vec_shape _ _ hs, toFlat_vec_shape _ _ ha, toFlat_vec_shape _ _ hb]
  apply List.ext_getElem
  · simp
  · intro i h1 h2
    simp at h1
    simp only [List.getElem_map, List.getElem_range, List.getElem_append]
    simp only [concatOp, normAxis, ha, hb, Tensor.rank]
    by_cases hi : i < m
    · simp [hi]
    · simp [hi]

theorem filter_ne_map_ofNat (B : List Nat) : ((B.map Int.ofNat).filter (· ≠ (-1 : Int))) = B.map Int.ofNat := by
  apply List.filter_eq_self.mpr
  intro d hd
  obtain ⟨k, _, rfl⟩ := List.mem_map.mp hd
  simp

theorem foldl_mul_toNat (B : List Nat) (acc : Nat) :
    (B.map Int.ofNat).foldl (fun acc d => acc * d.toNat) acc = acc * sizeOf' B := by
  induction B generalizing acc with
  | nil => simp [sizeOf']
  | cons b B ih =>
    simp only [List.map_cons, List.foldl_cons, ih, sizeOf', List.foldr_cons]
    simp [Nat.mul_assoc]

/-- `Reshape` to `[-1] ++ B`: the inferred extent is the quotient (when `B` has no zero extent). -/
theorem reshapeTarget_neg1_head (size : Nat) (B : List Nat) (hB : sizeOf' B ≠ 0) :
    reshapeTarget size (-1 :: B.map Int.ofNat) = (size / sizeOf' B) :: B := by
  unfold reshapeTarget
  have hf : ((-1 : Int) :: B.map Int.ofNat).filter (· ≠ (-1 : Int)) = B.map Int.ofNat := by
    rw [List.filter_cons]; simp
  simp only [hf, foldl_mul_toNat, Nat.one_mul, hB, if_false, List.map_cons, if_true, List.map_map]
  congr 1
  conv => rhs; rw [← List.map_id B]
  apply List.map_congr_left
  intro d _
  simp only [Function.comp]
  have : ¬ ((d : Int) = -1) := by omega
  simp [this]

end Ndx.TGraph
