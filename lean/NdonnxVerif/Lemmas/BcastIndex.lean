import NdonnxVerif.Lemmas.Broadcast
import NdonnxVerif.Model.TGraph
/-! Composition of right-aligned broadcast indices (`bcastIndex`), proved on reversed lists. -/
namespace Ndx.TGraph
open Ndx

/-- Broadcast index on reversed (right-aligned) lists. -/
def bidxRev (srcR ixR : List Nat) : List Nat := List.zipWith (fun i n => if n = 1 then 0 else i) ixR srcR

/-- `s` broadcasts into `m` (reversed lists): no longer, and every extent is 1 or equal. -/
def IntoR : List Nat → List Nat → Prop
  | [], _ => True
  | _ :: _, [] => False
  | a :: s, b :: m => (a = 1 ∨ a = b) ∧ IntoR s m

theorem intoR_of_bshapeRev : ∀ (s m : List Nat), bshapeRev s m = some m → IntoR s m
  | [], _, _ => trivial
  | a :: s, [], h => by simp [bshapeRev] at h
  | a :: s, b :: m, h => by
    simp only [bshapeRev] at h
    cases hd : bdim a b with
    | none => simp [hd] at h
    | some d =>
      cases hr : bshapeRev s m with
      | none => simp [hd, hr] at h
      | some r =>
        simp only [hd, hr, Option.some.injEq, List.cons.injEq] at h
        obtain ⟨h1, h2⟩ := h
        subst h1 h2
        refine ⟨?_, intoR_of_bshapeRev s r hr⟩
        unfold bdim at hd
        by_cases e : a = d
        · exact Or.inr e
        · simp only [e, if_false] at hd
          by_cases e1 : a = 1
          · exact Or.inl e1
          · simp only [e1, if_false] at hd
            by_cases e2 : d = 1
            · simp only [e2, if_true, Option.some.injEq] at hd; omega
            · simp [e2] at hd

theorem bidxRev_comp : ∀ (s m ix : List Nat), IntoR s m → bidxRev s (bidxRev m ix) = bidxRev s ix
  | [], m, ix, _ => by simp [bidxRev]
  | a :: s, [], ix, h => by simp [IntoR] at h
  | a :: s, b :: m, [], _ => by simp [bidxRev]
  | a :: s, b :: m, i :: ix, h => by
    have ih := bidxRev_comp s m ix h.2
    simp only [bidxRev, List.zipWith_cons_cons] at ih ⊢
    rw [ih]
    congr 1
    rcases h.1 with h1 | h1
    · simp [h1]
    · subst h1
      by_cases e : a = 1 <;> simp [e]

theorem zipWith_take_left {β γ δ : Type} (f : β → γ → δ) (l : List β) (l' : List γ) :
    List.zipWith f (l.take l'.length) l' = List.zipWith f l l' := by
  induction l generalizing l' with
  | nil => simp
  | cons a l ih =>
    cases l' with
    | nil => simp
    | cons b l' => simp [ih]

/-- The right-aligned broadcast index is the reversed-list one. -/
theorem bcastIndex_rev (src out ix : List Nat) (hl : ix.length = out.length) (hs : src.length ≤ out.length) :
    bcastIndex src out ix = (bidxRev src.reverse ix.reverse).reverse := by
  unfold bcastIndex bidxRev
  have hlen : (ix.drop (out.length - src.length)).length = src.length := by simp; omega
  rw [← List.reverse_reverse (List.zipWith _ (ix.drop (out.length - src.length)) src), List.reverse_zipWith hlen,
    List.reverse_drop, hl]
  have : out.length - (out.length - src.length) = src.reverse.length := by simp; omega
  rw [this, zipWith_take_left]

theorem bidxRev_length (s ix : List Nat) (h : s.length ≤ ix.length) : (bidxRev s ix).length = s.length := by
  simp [bidxRev]; omega

/-- **Composition of broadcast indices**: reading `src` through an intermediate broadcast shape `mid` is reading it
directly, whenever `src` broadcasts into `mid` and the index is one of `out` (`mid` no longer than `out`). -/
theorem bcastIndex_comp (src mid out ix : List Nat) (hl : ix.length = out.length)
    (h1 : bshape src mid = some mid) (hm : mid.length ≤ out.length) :
    bcastIndex src mid (bcastIndex mid out ix) = bcastIndex src out ix := by
  have hinto : IntoR src.reverse mid.reverse := by
    apply intoR_of_bshapeRev
    unfold bshape at h1
    cases hq : bshapeRev src.reverse mid.reverse with
    | none => simp [hq] at h1
    | some q =>
      simp only [hq, Option.map_some, Option.some.injEq] at h1
      rw [← h1]; simp
  have hsm : src.length ≤ mid.length := by
    have : ∀ (s m : List Nat), IntoR s m → s.length ≤ m.length := by
      intro s
      induction s with
      | nil => intro m _; simp
      | cons a s ih =>
        intro m h
        cases m with
        | nil => simp [IntoR] at h
        | cons b m => simp only [List.length_cons]; have := ih m h.2; omega
    simpa using this _ _ hinto
  have hjl : (bcastIndex mid out ix).length = mid.length := by
    simp [bcastIndex]; omega
  rw [bcastIndex_rev src mid _ hjl hsm, bcastIndex_rev mid out ix hl hm, List.reverse_reverse,
    bidxRev_comp _ _ _ hinto, bcastIndex_rev src out ix hl (by omega)]

end Ndx.TGraph
