import NdonnxVerif.Lemmas.Heap
/-! The simulation between a "more eager" and a "less eager" run of the same program: the single
lemma behind C01 (placeholders vs data), C16 (onnxruntime absent vs present) and C07. -/
namespace Ndx.Heap
variable {Val : Type} (sem : String → List Val → Option Val)

/-- `hl` (less eager) simulates `he` (more eager) under `env`: same cells, same denotations, and a
value reported by `hl` is reported, identically, by `he`. -/
def Rel (env : String → Option Val) (he hl : Heap Val) : Prop :=
  he.length = hl.length ∧ ∀ (i : Nat) (c c' : Cell Val), he[i]? = some c → hl[i]? = some c' →
    eval sem env c'.var = eval sem env c.var ∧ (∀ v, c'.eager = some v → c.eager = some v)

theorem rel_get {env} {he hl : Heap Val} (hr : Rel sem env he hl) {i : Nat} {c : Cell Val}
    (hc : he[i]? = some c) : ∃ c', hl[i]? = some c' := by
  have hi : i < he.length := by
    rcases List.getElem?_eq_some_iff.mp hc with ⟨h, _⟩; exact h
  have : i < hl.length := hr.1 ▸ hi
  exact ⟨hl[i], List.getElem?_eq_getElem this⟩

theorem rel_append {env} {he hl : Heap Val} (hr : Rel sem env he hl) (c c' : Cell Val)
    (h1 : eval sem env c'.var = eval sem env c.var) (h2 : ∀ v, c'.eager = some v → c.eager = some v) :
    Rel sem env (he ++ [c]) (hl ++ [c']) := by
  refine ⟨by simp [hr.1], ?_⟩
  intro i a a' ha ha'
  by_cases hi : i < he.length
  · have hi' : i < hl.length := hr.1 ▸ hi
    rw [List.getElem?_append_left hi] at ha
    rw [List.getElem?_append_left hi'] at ha'
    exact hr.2 i a a' ha ha'
  · have hi' : ¬ i < hl.length := hr.1 ▸ hi
    rw [List.getElem?_append_right (Nat.le_of_not_lt hi)] at ha
    rw [List.getElem?_append_right (Nat.le_of_not_lt hi')] at ha'
    have e1 : i - he.length = i - hl.length := by rw [hr.1]
    rw [e1] at ha
    cases hk : i - hl.length with
    | zero => simp [hk] at ha ha'; subst ha ha'; exact ⟨h1, h2⟩
    | succ k => simp [hk] at ha

theorem rel_vars {env} {he hl : Heap Val} (hr : Rel sem env he hl) :
    ∀ (args : List Nat) (vars : List (Expr Val)), varsOf he args = some vars →
      ∃ vars', varsOf hl args = some vars' ∧ evalList sem env vars' = evalList sem env vars := by
  intro args
  induction args with
  | nil => intro vars h; simp [varsOf] at h; subst h; exact ⟨[], by simp [varsOf], rfl⟩
  | cons r rs ih =>
    intro vars h
    simp only [varsOf] at h
    cases hc : he[r]? with
    | none => simp [hc] at h
    | some c =>
      simp only [hc, Option.bind_some] at h
      cases hv : varsOf he rs with
      | none => simp [hv] at h
      | some es =>
        simp only [hv, Option.bind_some, Option.some.injEq] at h; subst h
        obtain ⟨c', hc'⟩ := rel_get sem hr hc
        obtain ⟨es', he1, he2⟩ := ih es hv
        refine ⟨c'.var :: es', by simp [varsOf, hc', he1], ?_⟩
        simp [evalList, (hr.2 r c c' hc hc').1, he2]

theorem rel_eager {env} {he hl : Heap Val} (hr : Rel sem env he hl) :
    ∀ (args : List Nat) (vs : List Val), allEager hl args = some vs → allEager he args = some vs := by
  intro args
  induction args with
  | nil => intro vs h; simpa [allEager] using h
  | cons r rs ih =>
    intro vs h
    simp only [allEager] at h
    cases hc' : hl[r]? with
    | none => simp [hc'] at h
    | some c' =>
      simp only [hc', Option.bind_some] at h
      cases hv : c'.eager with
      | none => simp [hv] at h
      | some v =>
        simp only [hv, Option.bind_some] at h
        cases hrs : allEager hl rs with
        | none => simp [hrs] at h
        | some ws =>
          simp only [hrs, Option.bind_some, Option.some.injEq] at h; subst h
          have hi : r < hl.length := by
            rcases List.getElem?_eq_some_iff.mp hc' with ⟨h, _⟩; exact h
          have hi' : r < he.length := hr.1 ▸ hi
          have hc : he[r]? = some he[r] := List.getElem?_eq_getElem hi'
          have := (hr.2 r he[r] c' hc hc').2 v hv
          simp [allEager, hc, this, ih ws hrs]

theorem evalList_of_allEager (h : Heap Val) (hs : Sound sem h) (env) :
    ∀ (args : List Nat) (vs : List Val) (vars : List (Expr Val)),
      allEager h args = some vs → varsOf h args = some vars → evalList sem env vars = some vs := by
  intro args
  induction args with
  | nil => intro vs vars h1 h2; simp [allEager, varsOf] at h1 h2; subst h1 h2; simp [evalList]
  | cons r rs ih =>
    intro vs vars h1 h2
    simp only [allEager, varsOf] at h1 h2
    cases hc : h[r]? with
    | none => simp [hc] at h1
    | some c =>
      simp only [hc, Option.bind_some] at h1 h2
      cases he : c.eager with
      | none => simp [he] at h1
      | some v =>
        simp only [he, Option.bind_some] at h1
        cases ha : allEager h rs with
        | none => simp [ha] at h1
        | some vs' =>
          cases hv : varsOf h rs with
          | none => simp [hv] at h2
          | some es =>
            simp [ha] at h1; simp [hv] at h2; subst h1 h2
            have hmem : c ∈ h := List.mem_of_getElem? hc
            simp [evalList, hs c hmem v he env, ih vs' es ha hv]

/-- Two steps that differ at most in whether an input is data or a placeholder bound to that data. -/
def Step.isGuarded : Step Val → Bool
  | .guarded _ _ _ _ => true
  | .guarded2 _ _ _ _ _ => true
  | _ => false

/-- **Semantic neutrality of a shortcut** (value level): on operand values whose guard operand satisfies the guard, the
operator returns its `pick` operand. -/
def Neutral (op : String) (arity g : Nat) (choice : Val → Option Nat) : Prop :=
  ∀ (vs : List Val) (v : Val) (k : Nat), vs.length = arity → vs[g]? = some v → choice v = some k → k < arity →
    sem op vs = vs[k]?

/-- **Semantic neutrality of a two-sided shortcut**: if the first operand satisfies its guard the operator returns the
second operand, and if the second satisfies its guard the operator returns the first. -/
def Neutral2 (op : String) (chA chB : Val → Bool) : Prop :=
  ∀ (va vb : Val), (chA va = true → sem op [va, vb] = some vb) ∧ (chB vb = true → sem op [va, vb] = some va)

/-- Every operator is defined on every operand tuple (ONNX operators are total functions; `none` models a Python
exception at trace time, which the shortcut operators do not raise). -/
def Total : Prop := ∀ op vs, ∃ v, sem op vs = some v

mutual
theorem eval_defined (htot : Total sem) (env : String → Option Val) (henv : ∀ n, ∃ v, env n = some v) :
    ∀ e : Expr Val, ∃ v, eval sem env e = some v
  | .input n => by simpa [eval] using henv n
  | .const v => ⟨v, by simp [eval]⟩
  | .node op args => by
    obtain ⟨vs, hvs⟩ := evalList_defined htot env henv args
    obtain ⟨v, hv⟩ := htot op vs
    exact ⟨v, by simp [eval, hvs, hv]⟩
theorem evalList_defined (htot : Total sem) (env : String → Option Val) (henv : ∀ n, ∃ v, env n = some v) :
    ∀ es : List (Expr Val), ∃ vs, evalList sem env es = some vs
  | [] => ⟨[], by simp [evalList]⟩
  | e :: es => by
    obtain ⟨v, hv⟩ := eval_defined htot env henv e
    obtain ⟨vs, hvs⟩ := evalList_defined htot env henv es
    exact ⟨v :: vs, by simp [evalList, hv, hvs]⟩
end

theorem evalList_length : ∀ (env : String → Option Val) (es : List (Expr Val)) (vs : List Val), evalList sem env es = some vs →
    vs.length = es.length
  | env, [], vs, h => by simp [evalList] at h; subst h; rfl
  | env, e0 :: es, vs, h => by
    simp only [evalList] at h
    cases h0 : eval sem env e0 with
    | none => simp [h0] at h
    | some v0 =>
      simp only [h0, Option.bind_some] at h
      cases hr : evalList sem env es with
      | none => simp [hr] at h
      | some rest =>
        simp only [hr, Option.bind_some, Option.some.injEq] at h
        subst h
        simp [evalList_length env es rest hr]

theorem varsOf_length : ∀ (h : Heap Val) (args : List Nat) (vars : List (Expr Val)), varsOf h args = some vars → vars.length = args.length
  | h, [], vars, hv => by simp [varsOf] at hv; subst hv; rfl
  | h, a :: args, vars, hv => by
    simp only [varsOf] at hv
    cases hc : h[a]? with
    | none => simp [hc] at hv
    | some c =>
      simp only [hc, Option.bind_some] at hv
      cases hrest : varsOf h args with
      | none => simp [hrest] at hv
      | some es =>
        simp only [hrest, Option.bind_some, Option.some.injEq] at hv
        subst hv
        simp [varsOf_length h args es hrest]

theorem evalList_get : ∀ (env : String → Option Val) (es : List (Expr Val)) (vs : List Val), evalList sem env es = some vs →
    ∀ (k : Nat) (e : Expr Val), es[k]? = some e → ∃ v, vs[k]? = some v ∧ eval sem env e = some v
  | env, [], vs, _, k, e, hk => by simp at hk
  | env, e0 :: es, vs, h, k, e, hk => by
    simp only [evalList] at h
    cases h0 : eval sem env e0 with
    | none => simp [h0] at h
    | some v0 =>
      simp only [h0, Option.bind_some] at h
      cases hr : evalList sem env es with
      | none => simp [hr] at h
      | some rest =>
        simp only [hr, Option.bind_some, Option.some.injEq] at h
        subst h
        cases k with
        | zero => simp at hk; subst hk; exact ⟨v0, rfl, h0⟩
        | succ k => simpa using evalList_get env es rest hr k e (by simpa using hk)

inductive StepRel (env : String → Option Val) : Step Val → Step Val → Prop
  | same (s : Step Val) (hs : s.isGuarded = false) : StepRel env s s
  | bind (n : String) (v : Val) (h : env n = some v) : StepRel env (.data v) (.placeholder n)
  | guarded (op : String) (args : List Nat) (g : Nat) (choice : Val → Option Nat) (hN : Neutral sem op args.length g choice)
      (htot : Total sem) (henv : ∀ n, ∃ v, env n = some v) :
      StepRel env (.guarded op args g choice) (.guarded op args g choice)
  | guarded2 (op : String) (a b : Nat) (chA chB : Val → Bool) (hN : Neutral2 sem op chA chB)
      (htot : Total sem) (henv : ∀ n, ∃ v, env n = some v) :
      StepRel env (.guarded2 op a b chA chB) (.guarded2 op a b chA chB)

/-- One base step of the simulation (shortcuts already resolved). -/
theorem stepBase_sim (env : String → Option Val) (o1 o2 : Bool) (ho : o2 = true → o1 = true)
    (he hl he' : Heap Val) (s1 s2 : Step Val) (hsr : StepRel sem env s1 s2)
    (hr : Rel sem env he hl) (hce : Closed he) (_hcl : Closed hl)
    (hstep : stepBase sem o1 he s1 = some he') :
    ∃ hl', stepBase sem o2 hl s2 = some hl' ∧ Rel sem env he' hl' := by
  cases hsr with
  | guarded op args g choice hN htot henv => simp [stepBase] at hstep
  | guarded2 op a b chA chB hN htot henv => simp [stepBase] at hstep
  | bind n v hn =>
    simp only [stepBase, Option.some.injEq] at hstep; subst hstep
    exact ⟨_, rfl, rel_append sem hr _ _ (by simp [eval, hn]) (by intro w hw; simp at hw)⟩
  | same _ hs =>
    cases s1 with
    | guarded op args g choice => simp [stepBase] at hstep
    | guarded2 op a b chA chB => simp [stepBase] at hstep
    | data v =>
      simp only [stepBase, Option.some.injEq] at hstep; subst hstep
      exact ⟨_, rfl, rel_append sem hr _ _ rfl (by intro w hw; exact hw)⟩
    | placeholder n =>
      simp only [stepBase, Option.some.injEq] at hstep; subst hstep
      exact ⟨_, rfl, rel_append sem hr _ _ rfl (by intro w hw; exact hw)⟩
    | prim op args =>
      simp only [stepBase] at hstep ⊢
      cases hv : varsOf he args with
      | none => simp [hv] at hstep
      | some vars =>
        simp only [hv, Option.bind_some] at hstep
        obtain ⟨vars', hv', hev⟩ := rel_vars sem hr args vars hv
        simp only [hv', Option.bind_some]
        -- does the less eager run evaluate?
        cases h2 : (if o2 = true then allEager hl args else none) with
        | some vs' =>
          have ho2 : o2 = true := by
            by_cases h : o2 = true
            · exact h
            · simp [h] at h2
          simp only [ho2, if_true] at h2
          have h1 : allEager he args = some vs' := rel_eager sem hr args vs' h2
          simp only [ho ho2, if_true, h1] at hstep
          cases hsem : sem op vs' with
          | none => simp [hsem] at hstep
          | some v =>
            simp only [hsem, Option.bind_some, Option.some.injEq] at hstep; subst hstep
            exact ⟨_, by simp [hsem], rel_append sem hr _ _ rfl (by intro w hw; exact hw)⟩
        | none =>
          simp only []
          cases h1 : (if o1 = true then allEager he args else none) with
          | some vs =>
            simp only [h1] at hstep
            have ho1 : o1 = true := by
              by_cases h : o1 = true
              · exact h
              · simp [h] at h1
            simp only [ho1, if_true] at h1
            cases hsem : sem op vs with
            | none => simp [hsem] at hstep
            | some v =>
              simp only [hsem, Option.bind_some, Option.some.injEq] at hstep; subst hstep
              refine ⟨_, rfl, rel_append sem hr _ _ ?_ (by intro w hw; simp at hw)⟩
              have := evalList_of_allEager sem he (closed_sound sem he hce) env args vs vars h1 hv
              simp [eval, hev, this, hsem]
          | none =>
            simp only [h1, Option.some.injEq] at hstep; subst hstep
            exact ⟨_, rfl, rel_append sem hr _ _ (by simp [eval, hev]) (by intro w hw; simp at hw)⟩
    | copy r =>
      simp only [stepBase] at hstep ⊢
      cases hc : he[r]? with
      | none => simp [hc] at hstep
      | some c =>
        simp only [hc, Option.bind_some, Option.some.injEq] at hstep; subst hstep
        obtain ⟨c', hc'⟩ := rel_get sem hr hc
        simp only [hc', Option.bind_some]
        refine ⟨_, rfl, ?_⟩
        have hrel := hr.2 r c c' hc hc'
        cases e' : c'.eager with
        | some v' =>
          have e : c.eager = some v' := hrel.2 v' e'
          simp only [e]
          exact rel_append sem hr _ _ rfl (by intro w hw; exact hw)
        | none =>
          cases e : c.eager with
          | some v =>
            refine rel_append sem hr _ _ ?_ (by intro w hw; simp at hw)
            have h1 := closed_sound sem he hce c (List.mem_of_getElem? hc) v e env
            simp [eval, hrel.1, h1]
          | none =>
            exact rel_append sem hr _ _ hrel.1 (by intro w hw; simp at hw)
    | set dst src =>
      simp only [stepBase] at hstep ⊢
      cases hc : he[src]? with
      | none => simp [hc] at hstep
      | some c =>
        simp only [hc, Option.bind_some] at hstep
        obtain ⟨c', hc'⟩ := rel_get sem hr hc
        simp only [hc', Option.bind_some]
        split at hstep
        · rename_i hd
          simp only [Option.some.injEq] at hstep; subst hstep
          have hd' : dst < hl.length := hr.1 ▸ hd
          simp only [hd', if_true]
          refine ⟨_, rfl, by simp [hr.1], ?_⟩
          intro i a a' ha ha'
          have hrel := hr.2 src c c' hc hc'
          by_cases hi : i = dst
          · subst hi
            simp [hd] at ha
            simp [hd'] at ha'
            subst ha ha'
            exact hrel
          · have hne : dst ≠ i := fun h => hi h.symm
            simp [hne] at ha ha'
            exact hr.2 i a a' ha ha'
        · simp at hstep

theorem varsOf_get : ∀ (h : Heap Val) (args : List Nat) (vars : List (Expr Val)), varsOf h args = some vars →
    ∀ (k r : Nat), args[k]? = some r → ∃ c, h[r]? = some c ∧ vars[k]? = some c.var
  | h, [], vars, _, k, r, hk => by simp at hk
  | h, a :: args, vars, hv, k, r, hk => by
    simp only [varsOf] at hv
    cases hc : h[a]? with
    | none => simp [hc] at hv
    | some c =>
      simp only [hc, Option.bind_some] at hv
      cases hrest : varsOf h args with
      | none => simp [hrest] at hv
      | some es =>
        simp only [hrest, Option.bind_some, Option.some.injEq] at hv
        subst hv
        cases k with
        | zero => simp at hk; subst hk; exact ⟨c, hc, rfl⟩
        | succ k =>
          simp only [List.getElem?_cons_succ] at hk ⊢
          exact varsOf_get h args es hrest k r hk

theorem resolve_not_guarded (h : Heap Val) (s : Step Val) (hs : s.isGuarded = false) : resolve h s = s := by
  cases s <;> first | rfl | simp [Step.isGuarded] at hs

/-- One step of the simulation, shortcuts included: the more eager run may take a shortcut the less eager one cannot
see; neutrality makes the two results denote the same value. -/
theorem step_sim (env : String → Option Val) (o1 o2 : Bool) (ho : o2 = true → o1 = true)
    (he hl he' : Heap Val) (s1 s2 : Step Val) (hsr : StepRel sem env s1 s2)
    (hr : Rel sem env he hl) (hce : Closed he) (hcl : Closed hl)
    (hstep : step sem o1 he s1 = some he') :
    ∃ hl', step sem o2 hl s2 = some hl' ∧ Rel sem env he' hl' := by
  cases hsr with
  | same _ hs =>
    simp only [step, resolve_not_guarded _ s1 hs] at hstep ⊢
    exact stepBase_sim sem env o1 o2 ho he hl he' s1 s1 (.same s1 hs) hr hce hcl hstep
  | bind n v hn =>
    simp only [step, resolve] at hstep ⊢
    exact stepBase_sim sem env o1 o2 ho he hl he' _ _ (.bind n v hn) hr hce hcl hstep
  | guarded op args g choice hN htot henv =>
    simp only [step] at hstep ⊢
    have hprim : ∀ (e1 : resolve he (.guarded op args g choice) = .prim op args)
        (e2 : resolve hl (.guarded op args g choice) = .prim op args),
        ∃ hl', stepBase sem o2 hl (resolve hl (.guarded op args g choice)) = some hl' ∧ Rel sem env he' hl' := by
      intro e1 e2
      rw [e1] at hstep; rw [e2]
      exact stepBase_sim sem env o1 o2 ho he hl he' _ _ (.same _ rfl) hr hce hcl hstep
    cases hve : varsOf he args with
    | none =>
      have hvl : varsOf hl args = none := by
        cases hq : varsOf hl args with
        | none => rfl
        | some vars' =>
          exfalso
          have : ∀ (args : List Nat) (vars' : List (Expr Val)), varsOf hl args = some vars' → ∃ vars, varsOf he args = some vars := by
            intro args
            induction args with
            | nil => intro _ _; exact ⟨[], rfl⟩
            | cons a args ih =>
              intro vars' hq'
              simp only [varsOf] at hq'
              cases hc : hl[a]? with
              | none => simp [hc] at hq'
              | some c' =>
                simp only [hc, Option.bind_some] at hq'
                cases hrest : varsOf hl args with
                | none => simp [hrest] at hq'
                | some es =>
                  obtain ⟨vs, hvs⟩ := ih es hrest
                  have ha : a < hl.length := (List.getElem?_eq_some_iff.mp hc).1
                  have ha' : a < he.length := hr.1 ▸ ha
                  exact ⟨he[a].var :: vs, by simp [varsOf, List.getElem?_eq_getElem ha', hvs]⟩
          obtain ⟨vars, hvs⟩ := this args vars' hq
          rw [hvs] at hve; cases hve
      exact hprim (by simp [resolve, hve]) (by simp [resolve, hvl])
    | some vars =>
      obtain ⟨vars', hvl, hev⟩ := rel_vars sem hr args vars hve
      cases hg : args[g]? with
      | none => exact hprim (by simp [resolve, hve, hg]) (by simp [resolve, hvl, hg])
      | some rg =>
        obtain ⟨cg, hcg, hvg⟩ := varsOf_get he args vars hve g rg hg
        obtain ⟨cg', hcg', hvg'⟩ := varsOf_get hl args vars' hvl g rg hg
        have hrelg := hr.2 rg cg cg' hcg hcg'
        -- what each side resolves to, as a function of the guard operand's value
        let tgt : Option Val → Step Val := fun oe =>
          match oe with
          | some v => (match (choice v).bind (fun k => args[k]?) with | some rp => Step.copy rp | none => .prim op args)
          | none => .prim op args
        have R1 : resolve he (.guarded op args g choice) = tgt cg.eager := by
          simp only [resolve, hve, hg, hcg, Option.bind_some, tgt]
          cases cg.eager <;> rfl
        have R2 : resolve hl (.guarded op args g choice) = tgt cg'.eager := by
          simp only [resolve, hvl, hg, hcg', Option.bind_some, tgt]
          cases cg'.eager <;> rfl
        rw [R1] at hstep; rw [R2]
        cases eg' : cg'.eager with
        | some v' =>
          have eg : cg.eager = some v' := hrelg.2 v' eg'
          rw [eg] at hstep
          simp only [tgt] at hstep ⊢
          cases hch : (choice v').bind (fun k => args[k]?) with
          | none =>
            simp only [hch] at hstep ⊢
            exact stepBase_sim sem env o1 o2 ho he hl he' _ _ (.same _ rfl) hr hce hcl hstep
          | some rp =>
            simp only [hch] at hstep ⊢
            exact stepBase_sim sem env o1 o2 ho he hl he' _ _ (.same _ rfl) hr hce hcl hstep
        | none =>
          cases eg : cg.eager with
          | none =>
            rw [eg] at hstep
            simp only [tgt] at hstep ⊢
            exact stepBase_sim sem env o1 o2 ho he hl he' _ _ (.same _ rfl) hr hce hcl hstep
          | some v =>
            rw [eg] at hstep
            simp only [tgt] at hstep ⊢
            cases hch : (choice v).bind (fun k => args[k]?) with
            | none =>
              simp only [hch] at hstep
              exact stepBase_sim sem env o1 o2 ho he hl he' _ _ (.same _ rfl) hr hce hcl hstep
            | some rp =>
              -- the shortcut is taken by the more eager run only
              simp only [hch] at hstep
              obtain ⟨k, hk, hkp⟩ : ∃ k, choice v = some k ∧ args[k]? = some rp := by
                cases hc : choice v with
                | none => simp [hc] at hch
                | some k => exact ⟨k, rfl, by simpa [hc] using hch⟩
              have hklt : k < args.length := (List.getElem?_eq_some_iff.mp hkp).1
              obtain ⟨cp, hcp, hvp⟩ := varsOf_get he args vars hve k rp hkp
              obtain ⟨cp', hcp', hvp'⟩ := varsOf_get hl args vars' hvl k rp hkp
              have hrelp := hr.2 rp cp cp' hcp hcp'
              simp only [stepBase, hcp, Option.bind_some, Option.some.injEq] at hstep
              subst hstep
              have hnone : (if o2 = true then allEager hl args else none) = none := by
                by_cases h2 : o2 = true
                · simp only [h2, if_true]
                  cases ha : allEager hl args with
                  | none => rfl
                  | some vs =>
                    exfalso
                    have : ∀ (args : List Nat) (vs : List Val), allEager hl args = some vs →
                        ∀ (k r : Nat) (c : Cell Val), args[k]? = some r → hl[r]? = some c → c.eager ≠ none := by
                      intro args
                      induction args with
                      | nil => intro _ _ k r c hk; simp at hk
                      | cons a args ih =>
                        intro vs hvs k r c hk hc
                        simp only [allEager] at hvs
                        cases hca : hl[a]? with
                        | none => simp [hca] at hvs
                        | some ca =>
                          simp only [hca, Option.bind_some] at hvs
                          cases hea : ca.eager with
                          | none => simp [hea] at hvs
                          | some va =>
                            simp only [hea, Option.bind_some] at hvs
                            cases hrest : allEager hl args with
                            | none => simp [hrest] at hvs
                            | some rest =>
                              cases k with
                              | zero => simp at hk; subst hk; rw [hca] at hc; cases hc; simp [hea]
                              | succ k => exact ih rest hrest k r c (by simpa using hk) hc
                    exact this args vs ha g rg cg' hg hcg' eg'
                · simp [h2]
              refine ⟨hl ++ [⟨.node op vars', none⟩], by simp [stepBase, hvl, hnone], ?_⟩
              apply rel_append sem hr
              · have hgden : eval sem env cg'.var = some v := by
                  rw [hrelg.1, hce cg (List.mem_of_getElem? hcg) v eg]; simp [eval]
                obtain ⟨vs, hvs⟩ := evalList_defined sem htot env henv vars'
                obtain ⟨vg, hvg1, hvg2⟩ := evalList_get sem env vars' vs hvs g cg'.var hvg'
                obtain ⟨vp, hvp1, hvp2⟩ := evalList_get sem env vars' vs hvs k cp'.var hvp'
                have hvgv : vg = v := by rw [hgden] at hvg2; exact (Option.some.inj hvg2).symm
                have hlen : vs.length = args.length := (evalList_length sem env vars' vs hvs).trans (varsOf_length hl args vars' hvl)
                have hN' := hN vs v k hlen (hvgv ▸ hvg1) hk hklt
                have hnode : eval sem env (.node op vars') = eval sem env cp'.var := by
                  simp only [eval, hvs, Option.bind_some]
                  rw [hN', hvp1, hvp2]
                simp only []
                rw [hnode, hrelp.1]
                cases ep : cp.eager with
                | none => rfl
                | some vp' =>
                  simp only []
                  rw [closed_sound sem he hce cp (List.mem_of_getElem? hcp) vp' ep env]
                  simp [eval]
              · intro w hw; simp at hw

  | guarded2 op a b chA chB hN htot henv =>
    simp only [step] at hstep ⊢
    -- both heaps have the same cells
    have hnone : ∀ i : Nat, he[i]? = none → hl[i]? = none := by
      intro i hi
      rw [List.getElem?_eq_none_iff] at hi ⊢
      rw [← hr.1]; exact hi
    have hprim : resolve he (.guarded2 op a b chA chB) = .prim op [a, b] →
        resolve hl (.guarded2 op a b chA chB) = .prim op [a, b] →
        ∃ hl', stepBase sem o2 hl (resolve hl (.guarded2 op a b chA chB)) = some hl' ∧ Rel sem env he' hl' := by
      intro e1 e2
      rw [e1] at hstep; rw [e2]
      exact stepBase_sim sem env o1 o2 ho he hl he' _ _ (.same _ rfl) hr hce hcl hstep
    cases hca : he[a]? with
    | none => exact hprim (by simp [resolve, hca]) (by simp [resolve, hnone a hca])
    | some ca =>
      cases hcb : he[b]? with
      | none =>
        exact hprim (by simp [resolve, hca, hcb]) (by
          simp only [resolve, hnone b hcb]
          cases hl[a]? <;> rfl)
      | some cb =>
        obtain ⟨ca', hca'⟩ := rel_get sem hr hca
        obtain ⟨cb', hcb'⟩ := rel_get sem hr hcb
        have hra := hr.2 a ca ca' hca hca'
        have hrb := hr.2 b cb cb' hcb hcb'
        have R1 : resolve he (.guarded2 op a b chA chB) =
            (if (ca.eager.map chA).getD false then Step.copy b
             else if (cb.eager.map chB).getD false then .copy a else .prim op [a, b]) := by
          simp [resolve, hca, hcb]
        have R2 : resolve hl (.guarded2 op a b chA chB) =
            (if (ca'.eager.map chA).getD false then Step.copy b
             else if (cb'.eager.map chB).getD false then .copy a else .prim op [a, b]) := by
          simp [resolve, hca', hcb']
        rw [R1] at hstep; rw [R2]
        -- values of the operands (defined: total semantics, bound environment)
        obtain ⟨va, hva⟩ := eval_defined sem htot env henv ca'.var
        obtain ⟨vb, hvb⟩ := eval_defined sem htot env henv cb'.var
        have hvaE : eval sem env ca.var = some va := by rw [← hra.1]; exact hva
        have hvbE : eval sem env cb.var = some vb := by rw [← hrb.1]; exact hvb
        have hnode : eval sem env (.node op [ca'.var, cb'.var]) = sem op [va, vb] := by
          simp [eval, evalList, hva, hvb]
        -- the cell a copy produces denotes what the copied cell denotes
        have hcopy : ∀ (c : Cell Val), c ∈ he → ∀ x, eval sem env c.var = some x →
            eval sem env (match c.eager with | some v => (⟨.const v, some v⟩ : Cell Val) | none => ⟨c.var, none⟩).var = some x := by
          intro c hc x hx
          cases hce' : c.eager with
          | none => simpa using hx
          | some v =>
            have := closed_sound sem he hce c hc v hce' env
            rw [this] at hx
            simpa [eval] using hx
        -- the lazy primitive reports no value when one operand does not
        have lazyPrim : (ca'.eager = none ∨ cb'.eager = none) →
            stepBase sem o2 hl (.prim op [a, b]) = some (hl ++ [⟨.node op [ca'.var, cb'.var], none⟩]) := by
          intro hn
          have hv : varsOf hl [a, b] = some [ca'.var, cb'.var] := by simp [varsOf, hca', hcb']
          have ha : allEager hl [a, b] = none := by
            rcases hn with hn | hn <;> simp [allEager, hca', hcb', hn]
          by_cases h2 : o2 = true <;> simp [stepBase, hv, ha, h2]
        by_cases f1' : (ca'.eager.map chA).getD false = true
        · -- the lazy run takes the first shortcut: so does the eager run
          have f1 : (ca.eager.map chA).getD false = true := by
            cases hq : ca'.eager with
            | none => simp [hq] at f1'
            | some v => rw [hra.2 v hq]; simpa [hq] using f1'
          simp only [f1, f1', if_true] at hstep ⊢
          exact stepBase_sim sem env o1 o2 ho he hl he' _ _ (.same _ rfl) hr hce hcl hstep
        · simp only [f1', if_false]
          by_cases f1 : (ca.eager.map chA).getD false = true
          · -- only the eager run takes the first shortcut: it hands back a copy of b
            simp only [f1, if_true] at hstep
            obtain ⟨v, hv, hch⟩ : ∃ v, ca.eager = some v ∧ chA v = true := by
              cases hq : ca.eager with
              | none => simp [hq] at f1
              | some v => exact ⟨v, rfl, by simpa [hq] using f1⟩
            have hca'none : ca'.eager = none := by
              cases hq : ca'.eager with
              | none => rfl
              | some v' =>
                exfalso
                have := hra.2 v' hq
                rw [hv] at this; cases this
                simp [hq, hch] at f1'
            have hvav : va = v := by
              have := closed_sound sem he hce ca (List.mem_of_getElem? hca) v hv env
              rw [hvaE] at this; exact Option.some.inj this
            simp only [stepBase, hcb, Option.bind_some, Option.some.injEq] at hstep
            subst hstep
            by_cases f2' : (cb'.eager.map chB).getD false = true
            · -- the lazy run takes the second shortcut: a copy of a, which reports no value
              simp only [f2', if_true]
              obtain ⟨w, hw, hchw⟩ : ∃ w, cb'.eager = some w ∧ chB w = true := by
                cases hq : cb'.eager with
                | none => simp [hq] at f2'
                | some w => exact ⟨w, rfl, by simpa [hq] using f2'⟩
              have hbw : vb = w := by
                have := closed_sound sem he hce cb (List.mem_of_getElem? hcb) w (hrb.2 w hw) env
                rw [hvbE] at this; exact Option.some.inj this
              refine ⟨hl ++ [⟨ca'.var, none⟩], by simp [stepBase, hca', hca'none], ?_⟩
              apply rel_append sem hr
              · -- both guards hold: the operator returns either operand, so they are equal
                have n1 := (hN va vb).1 (hvav ▸ hch)
                have n2 := (hN va vb).2 (hbw ▸ hchw)
                have : vb = va := by rw [n1] at n2; exact Option.some.inj n2
                exact Eq.trans (by simp only []; rw [hva, this]) (hcopy cb (List.mem_of_getElem? hcb) vb hvbE).symm
              · intro x hx; simp at hx
            · simp only [f2', if_false]
              refine ⟨_, lazyPrim (Or.inl hca'none), ?_⟩
              apply rel_append sem hr
              · exact Eq.trans (by simp only []; rw [hnode, (hN va vb).1 (hvav ▸ hch)]) (hcopy cb (List.mem_of_getElem? hcb) vb hvbE).symm
              · intro x hx; simp at hx
          · have f1f : (ca.eager.map chA).getD false = false := by simpa using f1
            rw [f1f] at hstep
            simp only [Bool.false_eq_true, if_false] at hstep
            by_cases f2' : (cb'.eager.map chB).getD false = true
            · have f2 : (cb.eager.map chB).getD false = true := by
                cases hq : cb'.eager with
                | none => simp [hq] at f2'
                | some w => rw [hrb.2 w hq]; simpa [hq] using f2'
              simp only [f2, f2', if_true] at hstep ⊢
              exact stepBase_sim sem env o1 o2 ho he hl he' _ _ (.same _ rfl) hr hce hcl hstep
            · simp only [f2', if_false]
              by_cases f2 : (cb.eager.map chB).getD false = true
              · -- only the eager run takes the second shortcut: it hands back a copy of a
                simp only [f2, if_true] at hstep
                obtain ⟨w, hw, hchw⟩ : ∃ w, cb.eager = some w ∧ chB w = true := by
                  cases hq : cb.eager with
                  | none => simp [hq] at f2
                  | some w => exact ⟨w, rfl, by simpa [hq] using f2⟩
                have hcb'none : cb'.eager = none := by
                  cases hq : cb'.eager with
                  | none => rfl
                  | some w' =>
                    exfalso
                    have := hrb.2 w' hq
                    rw [hw] at this; cases this
                    simp [hq, hchw] at f2'
                have hbw : vb = w := by
                  have := closed_sound sem he hce cb (List.mem_of_getElem? hcb) w hw env
                  rw [hvbE] at this; exact Option.some.inj this
                simp only [stepBase, hca, Option.bind_some, Option.some.injEq] at hstep
                subst hstep
                refine ⟨_, lazyPrim (Or.inr hcb'none), ?_⟩
                apply rel_append sem hr
                · exact Eq.trans (by simp only []; rw [hnode, (hN va vb).2 (hbw ▸ hchw)]) (hcopy ca (List.mem_of_getElem? hca) va hvaE).symm
                · intro x hx; simp at hx
              · have f2f : (cb.eager.map chB).getD false = false := by simpa using f2
                rw [f2f] at hstep
                simp only [Bool.false_eq_true, if_false] at hstep
                exact stepBase_sim sem env o1 o2 ho he hl he' _ _ (.same _ rfl) hr hce hcl hstep

/-- Lists of related steps. -/
inductive StepsRel (env : String → Option Val) : List (Step Val) → List (Step Val) → Prop
  | nil : StepsRel env [] []
  | cons {s1 s2 ss1 ss2} (h : StepRel sem env s1 s2) (t : StepsRel env ss1 ss2) : StepsRel env (s1 :: ss1) (s2 :: ss2)

/-- The simulation over whole histories. -/
theorem run_sim (env : String → Option Val) (o1 o2 : Bool) (ho : o2 = true → o1 = true) :
    ∀ (ss1 ss2 : List (Step Val)), StepsRel sem env ss1 ss2 → ∀ (he hl he' : Heap Val),
      Rel sem env he hl → Closed he → Closed hl → run sem o1 ss1 he = some he' →
      ∃ hl', run sem o2 ss2 hl = some hl' ∧ Rel sem env he' hl' := by
  intro ss1 ss2 hss
  induction hss with
  | nil => intro he hl he' hr _ _ h; simp [run] at h; subst h; exact ⟨hl, by simp [run], hr⟩
  | cons hs _ ih =>
    intro he hl he' hr hce hcl h
    simp only [run] at h ⊢
    rename_i s1 s2 ss1 ss2 _
    cases h1 : step sem o1 he s1 with
    | none => simp [h1] at h
    | some hm =>
      simp only [h1, Option.bind_some] at h
      obtain ⟨hlm, hl1, hrm⟩ := step_sim sem env o1 o2 ho he hl hm s1 s2 hs hr hce hcl h1
      simp only [hl1, Option.bind_some]
      exact ih hm hlm he' hrm (step_closed sem o1 he hm s1 hce h1) (step_closed sem o2 hl hlm s2 hcl hl1) h

theorem rel_nil (env : String → Option Val) : Rel sem env ([] : Heap Val) [] := by
  refine ⟨rfl, ?_⟩
  intro i c c' h; simp at h

end Ndx.Heap
