import NdonnxVerif.Lemmas.Heap
/-! The simulation between a "more eager" and a "less eager" run of the same program: the single
lemma behind C01 (placeholders vs data), C16 (onnxruntime absent vs present) and C07. -/
namespace Ndx.Heap
variable {Val : Type} (sem : String → List Val → Option Val)

/-- `hl` (less eager) simulates `he` (more eager) under `env`: same cells, same denotations, and a
value reported by `hl` is reported, identically, by `he`. -/
def Rel (env : String → Option Val) (he hl : Heap Val) : Prop :=
  he.length = hl.length ∧ ∀ (i : Nat) (c c' : Cell Val), he[i]? = some c → hl[i]? = some c' →
    eval sem env c'.var = eval sem env c.var ∧ (∀ v, c'.eager = some v → c.eager = some v)

theorem rel_get {env} {he hl : Heap Val} (hr : Rel sem env he hl) {i : Nat} {c : Cell Val}
    (hc : he[i]? = some c) : ∃ c', hl[i]? = some c' := by
  have hi : i < he.length := by
    rcases List.getElem?_eq_some_iff.mp hc with ⟨h, _⟩; exact h
  have : i < hl.length := hr.1 ▸ hi
  exact ⟨hl[i], List.getElem?_eq_getElem this⟩

theorem rel_append {env} {he hl : Heap Val} (hr : Rel sem env he hl) (c c' : Cell Val)
    (h1 : eval sem env c'.var = eval sem env c.var) (h2 : ∀ v, c'.eager = some v → c.eager = some v) :
    Rel sem env (he ++ [c]) (hl ++ [c']) := by
  refine ⟨by simp [hr.1], ?_⟩
  intro i a a' ha ha'
  by_cases hi : i < he.length
  · have hi' : i < hl.length := hr.1 ▸ hi
    rw [List.getElem?_append_left hi] at ha
    rw [List.getElem?_append_left hi'] at ha'
    exact hr.2 i a a' ha ha'
  · have hi' : ¬ i < hl.length := hr.1 ▸ hi
    rw [List.getElem?_append_right (Nat.le_of_not_lt hi)] at ha
    rw [List.getElem?_append_right (Nat.le_of_not_lt hi')] at ha'
    have e1 : i - he.length = i - hl.length := by rw [hr.1]
    rw [e1] at ha
    cases hk : i - hl.length with
    | zero => simp [hk] at ha ha'; subst ha ha'; exact ⟨h1, h2⟩
    | succ k => simp [hk] at ha

theorem rel_vars {env} {he hl : Heap Val} (hr : Rel sem env he hl) :
    ∀ (args : List Nat) (vars : List (Expr Val)), varsOf he args = some vars →
      ∃ vars', varsOf hl args = some vars' ∧ evalList sem env vars' = evalList sem env vars := by
  intro args
  induction args with
  | nil => intro vars h; simp [varsOf] at h; subst h; exact ⟨[], by simp [varsOf], rfl⟩
  | cons r rs ih =>
    intro vars h
    simp only [varsOf] at h
    cases hc : he[r]? with
    | none => simp [hc] at h
    | some c =>
      simp only [hc, Option.bind_some] at h
      cases hv : varsOf he rs with
      | none => simp [hv] at h
      | some es =>
        simp only [hv, Option.bind_some, Option.some.injEq] at h; subst h
        obtain ⟨c', hc'⟩ := rel_get sem hr hc
        obtain ⟨es', he1, he2⟩ := ih es hv
        refine ⟨c'.var :: es', by simp [varsOf, hc', he1], ?_⟩
        simp [evalList, (hr.2 r c c' hc hc').1, he2]

theorem rel_eager {env} {he hl : Heap Val} (hr : Rel sem env he hl) :
    ∀ (args : List Nat) (vs : List Val), allEager hl args = some vs → allEager he args = some vs := by
  intro args
  induction args with
  | nil => intro vs h; simpa [allEager] using h
  | cons r rs ih =>
    intro vs h
    simp only [allEager] at h
    cases hc' : hl[r]? with
    | none => simp [hc'] at h
    | some c' =>
      simp only [hc', Option.bind_some] at h
      cases hv : c'.eager with
      | none => simp [hv] at h
      | some v =>
        simp only [hv, Option.bind_some] at h
        cases hrs : allEager hl rs with
        | none => simp [hrs] at h
        | some ws =>
          simp only [hrs, Option.bind_some, Option.some.injEq] at h; subst h
          have hi : r < hl.length := by
            rcases List.getElem?_eq_some_iff.mp hc' with ⟨h, _⟩; exact h
          have hi' : r < he.length := hr.1 ▸ hi
          have hc : he[r]? = some he[r] := List.getElem?_eq_getElem hi'
          have := (hr.2 r he[r] c' hc hc').2 v hv
          simp [allEager, hc, this, ih ws hrs]

theorem evalList_of_allEager (h : Heap Val) (hs : Sound sem h) (env) :
    ∀ (args : List Nat) (vs : List Val) (vars : List (Expr Val)),
      allEager h args = some vs → varsOf h args = some vars → evalList sem env vars = some vs := by
  intro args
  induction args with
  | nil => intro vs vars h1 h2; simp [allEager, varsOf] at h1 h2; subst h1 h2; simp [evalList]
  | cons r rs ih =>
    intro vs vars h1 h2
    simp only [allEager, varsOf] at h1 h2
    cases hc : h[r]? with
    | none => simp [hc] at h1
    | some c =>
      simp only [hc, Option.bind_some] at h1 h2
      cases he : c.eager with
      | none => simp [he] at h1
      | some v =>
        simp only [he, Option.bind_some] at h1
        cases ha : allEager h rs with
        | none => simp [ha] at h1
        | some vs' =>
          cases hv : varsOf h rs with
          | none => simp [hv] at h2
          | some es =>
            simp [ha] at h1; simp [hv] at h2; subst h1 h2
            have hmem : c ∈ h := List.mem_of_getElem? hc
            simp [evalList, hs c hmem v he env, ih vs' es ha hv]

/-- Two steps that differ at most in whether an input is data or a placeholder bound to that data. -/
inductive StepRel (env : String → Option Val) : Step Val → Step Val → Prop
  | same (s : Step Val) : StepRel env s s
  | bind (n : String) (v : Val) (h : env n = some v) : StepRel env (.data v) (.placeholder n)

/-- One step of the simulation. -/
theorem step_sim (env : String → Option Val) (o1 o2 : Bool) (ho : o2 = true → o1 = true)
    (he hl he' : Heap Val) (s1 s2 : Step Val) (hsr : StepRel env s1 s2)
    (hr : Rel sem env he hl) (hce : Closed he) (_hcl : Closed hl)
    (hstep : step sem o1 he s1 = some he') :
    ∃ hl', step sem o2 hl s2 = some hl' ∧ Rel sem env he' hl' := by
  cases hsr with
  | bind n v hn =>
    simp only [step, Option.some.injEq] at hstep; subst hstep
    exact ⟨_, rfl, rel_append sem hr _ _ (by simp [eval, hn]) (by intro w hw; simp at hw)⟩
  | same =>
    cases s1 with
    | data v =>
      simp only [step, Option.some.injEq] at hstep; subst hstep
      exact ⟨_, rfl, rel_append sem hr _ _ rfl (by intro w hw; exact hw)⟩
    | placeholder n =>
      simp only [step, Option.some.injEq] at hstep; subst hstep
      exact ⟨_, rfl, rel_append sem hr _ _ rfl (by intro w hw; exact hw)⟩
    | prim op args =>
      simp only [step] at hstep ⊢
      cases hv : varsOf he args with
      | none => simp [hv] at hstep
      | some vars =>
        simp only [hv, Option.bind_some] at hstep
        obtain ⟨vars', hv', hev⟩ := rel_vars sem hr args vars hv
        simp only [hv', Option.bind_some]
        -- does the less eager run evaluate?
        cases h2 : (if o2 = true then allEager hl args else none) with
        | some vs' =>
          have ho2 : o2 = true := by
            by_cases h : o2 = true
            · exact h
            · simp [h] at h2
          simp only [ho2, if_true] at h2
          have h1 : allEager he args = some vs' := rel_eager sem hr args vs' h2
          simp only [ho ho2, if_true, h1] at hstep
          cases hsem : sem op vs' with
          | none => simp [hsem] at hstep
          | some v =>
            simp only [hsem, Option.bind_some, Option.some.injEq] at hstep; subst hstep
            exact ⟨_, by simp [hsem], rel_append sem hr _ _ rfl (by intro w hw; exact hw)⟩
        | none =>
          simp only []
          cases h1 : (if o1 = true then allEager he args else none) with
          | some vs =>
            simp only [h1] at hstep
            have ho1 : o1 = true := by
              by_cases h : o1 = true
              · exact h
              · simp [h] at h1
            simp only [ho1, if_true] at h1
            cases hsem : sem op vs with
            | none => simp [hsem] at hstep
            | some v =>
              simp only [hsem, Option.bind_some, Option.some.injEq] at hstep; subst hstep
              refine ⟨_, rfl, rel_append sem hr _ _ ?_ (by intro w hw; simp at hw)⟩
              have := evalList_of_allEager sem he (closed_sound sem he hce) env args vs vars h1 hv
              simp [eval, hev, this, hsem]
          | none =>
            simp only [h1, Option.some.injEq] at hstep; subst hstep
            exact ⟨_, rfl, rel_append sem hr _ _ (by simp [eval, hev]) (by intro w hw; simp at hw)⟩
    | copy r =>
      simp only [step] at hstep ⊢
      cases hc : he[r]? with
      | none => simp [hc] at hstep
      | some c =>
        simp only [hc, Option.bind_some, Option.some.injEq] at hstep; subst hstep
        obtain ⟨c', hc'⟩ := rel_get sem hr hc
        simp only [hc', Option.bind_some]
        refine ⟨_, rfl, ?_⟩
        have hrel := hr.2 r c c' hc hc'
        cases e' : c'.eager with
        | some v' =>
          have e : c.eager = some v' := hrel.2 v' e'
          simp only [e]
          exact rel_append sem hr _ _ rfl (by intro w hw; exact hw)
        | none =>
          cases e : c.eager with
          | some v =>
            refine rel_append sem hr _ _ ?_ (by intro w hw; simp at hw)
            have h1 := closed_sound sem he hce c (List.mem_of_getElem? hc) v e env
            simp [eval, hrel.1, h1]
          | none =>
            exact rel_append sem hr _ _ hrel.1 (by intro w hw; simp at hw)
    | set dst src =>
      simp only [step] at hstep ⊢
      cases hc : he[src]? with
      | none => simp [hc] at hstep
      | some c =>
        simp only [hc, Option.bind_some] at hstep
        obtain ⟨c', hc'⟩ := rel_get sem hr hc
        simp only [hc', Option.bind_some]
        split at hstep
        · rename_i hd
          simp only [Option.some.injEq] at hstep; subst hstep
          have hd' : dst < hl.length := hr.1 ▸ hd
          simp only [hd', if_true]
          refine ⟨_, rfl, by simp [hr.1], ?_⟩
          intro i a a' ha ha'
          have hrel := hr.2 src c c' hc hc'
          by_cases hi : i = dst
          · subst hi
            simp [hd] at ha
            simp [hd'] at ha'
            subst ha ha'
            exact hrel
          · have hne : dst ≠ i := fun h => hi h.symm
            simp [hne] at ha ha'
            exact hr.2 i a a' ha ha'
        · simp at hstep

/-- Lists of related steps. -/
inductive StepsRel (env : String → Option Val) : List (Step Val) → List (Step Val) → Prop
  | nil : StepsRel env [] []
  | cons {s1 s2 ss1 ss2} (h : StepRel env s1 s2) (t : StepsRel env ss1 ss2) : StepsRel env (s1 :: ss1) (s2 :: ss2)

/-- The simulation over whole histories. -/
theorem run_sim (env : String → Option Val) (o1 o2 : Bool) (ho : o2 = true → o1 = true) :
    ∀ (ss1 ss2 : List (Step Val)), StepsRel env ss1 ss2 → ∀ (he hl he' : Heap Val),
      Rel sem env he hl → Closed he → Closed hl → run sem o1 ss1 he = some he' →
      ∃ hl', run sem o2 ss2 hl = some hl' ∧ Rel sem env he' hl' := by
  intro ss1 ss2 hss
  induction hss with
  | nil => intro he hl he' hr _ _ h; simp [run] at h; subst h; exact ⟨hl, by simp [run], hr⟩
  | cons hs _ ih =>
    intro he hl he' hr hce hcl h
    simp only [run] at h ⊢
    rename_i s1 s2 ss1 ss2 _
    cases h1 : step sem o1 he s1 with
    | none => simp [h1] at h
    | some hm =>
      simp only [h1, Option.bind_some] at h
      obtain ⟨hlm, hl1, hrm⟩ := step_sim sem env o1 o2 ho he hl hm s1 s2 hs hr hce hcl h1
      simp only [hl1, Option.bind_some]
      exact ih hm hlm he' hrm (step_closed sem o1 he hm s1 hce h1) (step_closed sem o2 hl hlm s2 hcl hl1) h

theorem rel_nil (env : String → Option Val) : Rel sem env ([] : Heap Val) [] := by
  refine ⟨rfl, ?_⟩
  intro i c c' h; simp at h

end Ndx.Heap
