import NdonnxVerif.Model.TGraphFns
/-! Lemmas about the tensor-graph operators (constants, Slice/Gather/Unsqueeze stages of `getitem`). -/
namespace Ndx.TGraph
open Ndx

theorem flatMap_single {α β} (f : α → β) (l : List α) : l.flatMap (fun i => [f i]) = l.map f := by
  induction l with
  | nil => rfl
  | cons a l ih => simp [List.flatMap_cons, ih]

theorem allIdx_singleton (n : Nat) : allIdx [n] = (List.range n).map (fun i => [i]) := by
  simp [allIdx, flatMap_single]

theorem toFlat_vec (l : List Int) : (constT [l.length] l).toFlat = l := by
  unfold Tensor.toFlat constT
  simp only [allIdx_singleton, List.map_map]
  apply List.ext_getElem
  · simp
  · intro i h1 h2
    simp [ravel, sizeOf']
    simp [List.getElem?_eq_getElem h2]

@[simp] theorem eval_ivec_toFlat (env : List (Tensor Int)) (l : List Int) : ((ivec l).eval env).toFlat = l := by
  simp [ivec, TG.eval, toFlat_vec]

@[simp] theorem eval_iscalar (env : List (Tensor Int)) (v : Int) : (iscalar v).eval env = constT [] [v] := by
  simp [iscalar, TG.eval]

@[simp] theorem normAxis_natCast (r a : Nat) : normAxis r (a : Int) = a := by
  simp [normAxis]; omega

@[simp] theorem normAxis_ofNat (r a : Nat) : normAxis r (Int.ofNat a) = a := normAxis_natCast r a

/-- `Slice` fed with the four constant vectors `getitem` writes is `onnxSlice` on the list of triples. -/
theorem sliceOp_of_specs (t : Tensor α) (sl : List (Nat × Int × Int × Int)) :
    sliceOp t (sl.map (·.2.1)) (sl.map (·.2.2.1)) (sl.map (fun s => Int.ofNat s.1)) (sl.map (·.2.2.2))
      = onnxSlice t sl := by
  unfold sliceOp
  congr 1
  apply List.ext_getElem
  · simp
  · intro k h1 h2
    simp at h1
    simp [List.getElem?_eq_getElem h2, h1]

theorem insertSorted_of_le (a : Nat) (l : List Nat) (h : ∀ b ∈ l, a ≤ b) : insertSorted a l = a :: l := by
  cases l with
  | nil => rfl
  | cons b l => simp [insertSorted, h b (by simp)]

theorem sortNat_of_sorted (l : List Nat) (h : l.Pairwise (· ≤ ·)) : sortNat l = l := by
  induction l with
  | nil => rfl
  | cons a l ih =>
    rw [List.pairwise_cons] at h
    simp only [sortNat, List.foldr_cons]
    have := ih h.2
    simp only [sortNat] at this
    rw [this]
    exact insertSorted_of_le a l h.1

theorem axisNewAxes_sorted (index : List NIx) : (axisNewAxes index).Pairwise (· ≤ ·) := by
  unfold axisNewAxes
  generalize index.filter (fun x => !isIntEntry x) = l
  have key : ∀ (l : List NIx) (k : Nat),
      ((l.zipIdx k).filterMap (fun p => match p.1 with | .newaxis => some p.2 | _ => none)).Pairwise (· ≤ ·)
      ∧ ∀ b ∈ ((l.zipIdx k).filterMap (fun p => match p.1 with | .newaxis => some p.2 | _ => none)), k ≤ b := by
    intro l
    induction l with
    | nil => intro k; simp
    | cons a l ih =>
      intro k
      obtain ⟨h1, h2⟩ := ih (k + 1)
      simp only [List.zipIdx_cons, List.filterMap_cons]
      cases a <;> simp only
      all_goals first
        | (refine ⟨List.pairwise_cons.mpr ⟨fun b hb => by have := h2 b hb; omega, h1⟩, ?_⟩
           intro b hb
           rcases List.mem_cons.mp hb with rfl | hb
           · omega
           · have := h2 b hb; omega)
        | exact ⟨h1, fun b hb => by have := h2 b hb; omega⟩
  exact (key l 0).1

theorem unsqueezeOp_of_sorted (t : Tensor α) (na : List Nat) (h : na.Pairwise (· ≤ ·)) :
    unsqueezeOp t (na.map Int.ofNat) = onnxUnsqueeze t na := by
  unfold unsqueezeOp
  have : (na.map Int.ofNat).map (normAxis (t.rank + (na.map Int.ofNat).length)) = na := by
    rw [List.map_map]
    conv => rhs; rw [← List.map_id na]
    apply List.map_congr_left
    intro a _
    simp
  rw [this, sortNat_of_sorted na h]

theorem gather_fold (env : List (Tensor Int)) (l : List (Nat × Int)) : ∀ (g : TG),
    (l.foldl (fun acc p => TG.gather (Int.ofNat p.1) acc (iscalar p.2)) g).eval env
      = l.foldl (fun acc p => onnxGatherScalar acc p.2 p.1) (g.eval env) := by
  induction l with
  | nil => intro g; rfl
  | cons p l ih =>
    intro g
    simp only [List.foldl_cons]
    rw [ih]
    simp [TG.eval, gatherOp, constT, ravel]


theorem equiv_trans {a b c : Tensor α} (h1 : a.Equiv b) (h2 : b.Equiv c) : a.Equiv c :=
  ⟨h1.1.trans h2.1, fun ix hix => (h1.2 ix hix).trans (h2.2 ix (h1.1 ▸ hix))⟩

theorem equiv_symm {a b : Tensor α} (h : a.Equiv b) : b.Equiv a :=
  ⟨h.1.symm, fun ix hix => (h.2 ix (h.1 ▸ hix)).symm⟩

theorem equiv_refl (a : Tensor α) : a.Equiv a := ⟨rfl, fun _ _ => rfl⟩

theorem mapIdx_snd {β : Type} (l : List β) : l.mapIdx (fun _ b => b) = l := by
  apply List.ext_getElem
  · simp
  · intro k h1 h2; simp

end Ndx.TGraph
