import NdonnxVerif.Lemmas.GatherStage
/-! `x[index]` without `None` entries on every rank: Slice stage + Gather stage = axis-by-axis source positions. -/
namespace Ndx.TGraph
open Ndx Ndx.Spec Ndx.C08

def planOf (E : List NIx) : GPlan := E.map (fun e => match e with | .int i => some i | _ => none)

theorem axisIndices_aux : ∀ (E : List NIx) (k : Nat),
    (E.zipIdx k).filterMap (fun p => match p.1 with | .int i => some (p.2, i) | _ => none) = intAxesFrom k (planOf E)
  | [], _ => by simp [intAxesFrom, planOf]
  | e :: E, k => by
    simp only [List.zipIdx_cons, List.filterMap_cons, planOf, List.map_cons]
    have ih := axisIndices_aux E (k + 1)
    simp only [planOf] at ih
    cases e <;> simp only [intAxesFrom_some, intAxesFrom_none] <;> rw [ih]

theorem axisIndices_eq (E : List NIx) (hnn : ∀ e ∈ E, isNewaxis e = false) :
    axisIndices E = intAxesFrom 0 (planOf E) := by
  unfold axisIndices
  have hf : E.filter (fun x => !isNewaxis x) = E := by
    apply List.filter_eq_self.mpr; intro e he; simp [hnn e he]
  rw [hf]
  exact axisIndices_aux E 0

/-- The source position `x[index]` reads for output position `o`, axis by axis (no `None` entries): an integer
fixes its axis, any slice consumes one output coordinate. -/
def modelF : List NIx → List Nat → List Nat → List Nat
  | [], _, _ => []
  | _, [], _ => []
  | .int i :: E, n :: sh, o => normIdx i n :: modelF E sh o
  | e :: E, n :: sh, o => ((modelAxis n e).1 + Int.ofNat (o.headD 0) * (modelAxis n e).2.2).toNat :: modelF E sh o.tail

/-- The shape of `x[index]` (no `None` entries): the counts of the slice axes. -/
def modelS : List NIx → List Nat → List Nat
  | [], _ => []
  | _, [] => []
  | .int _ :: E, _ :: sh => modelS E sh
  | e :: E, n :: sh => (modelAxis n e).2.1 :: modelS E sh

theorem keptShape_counts : ∀ (E : List NIx) (sh : List Nat), E.length = sh.length →
    keptShape (planOf E) ((modelTriples E sh).map (·.2.1)) = modelS E sh
  | [], [], _ => rfl
  | e :: E, n :: sh, h => by
    have ih := keptShape_counts E sh (by simpa using h)
    simp only [planOf, modelTriples] at ih ⊢
    cases e <;> simp only [List.map_cons, List.zipWith_cons_cons, keptShape, modelS] <;> rw [ih]
  | [], _ :: _, h => by simp at h
  | _ :: _, [], h => by simp at h

theorem modelF_eq : ∀ (E : List NIx) (sh : List Nat) (o : List Nat), E.length = sh.length →
    List.zipWith (fun (p : Int × Nat × Int) (i : Nat) => (p.1 + Int.ofNat i * p.2.2).toNat) (modelTriples E sh)
      (mergeP ((modelTriples E sh).map (·.2.1)) (planOf E) o) = modelF E sh o
  | [], [], o, _ => by simp [modelTriples, modelF]
  | e :: E, n :: sh, o, h => by
    have ih := fun o' => modelF_eq E sh o' (by simpa using h)
    simp only [planOf, modelTriples] at ih ⊢
    cases e with
    | int i =>
      simp only [List.map_cons, List.zipWith_cons_cons, mergeP, modelF]
      rw [ih]
      simp [modelAxis]
    | sl a b c => simp only [List.map_cons, List.zipWith_cons_cons, mergeP, modelF]; rw [ih]
    | full => simp only [List.map_cons, List.zipWith_cons_cons, mergeP, modelF]; rw [ih]
    | newaxis => simp only [List.map_cons, List.zipWith_cons_cons, mergeP, modelF]; rw [ih]
  | [], _ :: _, _, h => by simp at h
  | _ :: _, [], _, h => by simp at h


/-- Every integer entry addresses an element of its axis (`-n ≤ i < n`). -/
def IntsInRange : List NIx → List Nat → Prop
  | .int i :: E, n :: sh => (-(n : Int) ≤ i ∧ i < (n : Int)) ∧ IntsInRange E sh
  | _ :: E, _ :: sh => IntsInRange E sh
  | _, _ => True

theorem mergeP_inRange : ∀ (E : List NIx) (sh : List Nat) (o : List Nat), E.length = sh.length →
    IntsInRange E sh → InRange (modelS E sh) o →
    InRange ((modelTriples E sh).map (·.2.1)) (mergeP ((modelTriples E sh).map (·.2.1)) (planOf E) o)
  | [], [], o, _, _, ho => by
    simp only [modelS] at ho
    match o, ho with
    | [], _ => simp [modelTriples, planOf, mergeP, InRange]
  | e :: E, n :: sh, o, h, hi, ho => by
    have ih := fun o' hi' ho' => mergeP_inRange E sh o' (by simpa using h) hi' ho'
    simp only [planOf, modelTriples] at ih ⊢
    cases e with
    | int i =>
      simp only [IntsInRange] at hi
      simp only [modelS] at ho
      simp only [List.map_cons, List.zipWith_cons_cons, mergeP, modelAxis]
      refine ⟨?_, ih o hi.2 ho⟩
      simp only [normIdx]
      split <;> omega
    | sl a b c =>
      simp only [IntsInRange] at hi
      simp only [modelS] at ho
      match o, ho with
      | y :: o, ho =>
        simp only [List.map_cons, List.zipWith_cons_cons, mergeP, List.headD_cons, List.tail_cons]
        exact ⟨ho.1, ih o hi ho.2⟩
    | full =>
      simp only [IntsInRange] at hi
      simp only [modelS] at ho
      match o, ho with
      | y :: o, ho =>
        simp only [List.map_cons, List.zipWith_cons_cons, mergeP, List.headD_cons, List.tail_cons]
        exact ⟨ho.1, ih o hi ho.2⟩
    | newaxis =>
      simp only [IntsInRange] at hi
      simp only [modelS] at ho
      match o, ho with
      | y :: o, ho =>
        simp only [List.map_cons, List.zipWith_cons_cons, mergeP, List.headD_cons, List.tail_cons]
        exact ⟨ho.1, ih o hi ho.2⟩
  | [], _ :: _, _, h, _, _ => by simp at h
  | _ :: _, [], _, h, _, _ => by simp at h

theorem axisNewAxes_none (E : List NIx) (hnn : ∀ e ∈ E, isNewaxis e = false) : axisNewAxes E = [] := by
  unfold axisNewAxes
  apply filterMap_none_of_all
  intro p hp
  have hm : p.1 ∈ E.filter (fun x => !isIntEntry x) := by
    have := List.mem_zipIdx hp
    simp only [Nat.zero_add] at this
    rw [this.2.2]; exact List.getElem_mem _
  have := hnn p.1 (List.mem_filter.mp hm).1
  cases hq : p.1 <;> simp_all [isNewaxis]

/-- **`x[index]` without `None` entries, every rank**: the model's Slice + Gathers produce the tensor whose shape is the
counts of the slice axes and whose element at `o` is the operand at the axis-by-axis source position `modelF`. -/
theorem getitemCore_noNew (t : Tensor α) (E : List NIx) (hnn : ∀ e ∈ E, isNewaxis e = false)
    (hlen : E.length = t.shape.length) (hi : IntsInRange E t.shape) :
    (getitemCore t E).shape = modelS E t.shape ∧
    ∀ o, InRange (modelS E t.shape) o → (getitemCore t E).get o = t.get (modelF E t.shape o) := by
  -- stage 1: the Slice (or nothing)
  have hst : ∀ t1 : Tensor α, t1.Equiv (axesT t (modelTriples E t.shape)) →
      (gathers t1 (intAxesFrom 0 (planOf E))).shape = modelS E t.shape ∧
      ∀ o, InRange (modelS E t.shape) o → (gathers t1 (intAxesFrom 0 (planOf E))).get o = t.get (modelF E t.shape o) := by
    intro t1 he
    have hsh : t1.shape = (modelTriples E t.shape).map (·.2.1) := he.1
    have hP : 0 + (planOf E).length ≤ t1.shape.length := by simp [planOf, hsh, modelTriples, hlen]
    obtain ⟨g1, g2⟩ := gathers_spec (planOf E) 0 t1 hP
    simp only [List.take_zero, List.nil_append, List.drop_zero, Nat.zero_add] at g1 g2
    rw [hsh, keptShape_counts E t.shape hlen] at g1
    refine ⟨g1, fun o ho => ?_⟩
    have hol : o.length = (keptShape (planOf E) t1.shape).length := by
      rw [hsh, keptShape_counts E t.shape hlen]; exact C11.inRange_length _ _ ho
    rw [g2 o hol, hsh]
    have hin := mergeP_inRange E t.shape o hlen hi ho
    have := he.2 _ (hsh ▸ hin)
    rw [hsh] at this
    rw [this]
    simp only [axesT]
    rw [modelF_eq E t.shape o hlen]
  unfold getitemCore
  simp only [axisNewAxes_none E hnn, List.isEmpty_nil, if_true, gathers_eq_foldl, axisIndices_eq E hnn]
  apply hst
  have h := onnxSlice_eq_axesT t E hnn hlen
  split
  · rename_i hemp
    rw [List.isEmpty_iff.mp hemp] at h
    exact equiv_trans (equiv_symm (onnxSlice_nil t)) h
  · exact h

end Ndx.TGraph
