import NdonnxVerif.Model.Basic
/-!
# Axis handling of the reductions (`_numericimpl.py`: `sum/prod/min/max/mean/var/std`, `all/any`)
and NumPy's rule for the reduced shape.

Model: `normalizeAxes` (`_normalize_axes`: `None` → `[]`, int → `[a]`, tuple; negative axes resolved),
then ONNX `Reduce*(axes, keepdims, noop_with_empty_axes = (axis is not None))`.
-/
namespace Ndx

/-- The `axis` argument of a reduction. -/
inductive AxisArg
  | none
  | one (a : Int)
  | many (as : List Int)
deriving DecidableEq, Repr

/-- `_normalize_axes(axis, ndim)`. -/
def normalizeAxes (rank : Nat) : AxisArg → List Int
  | .none => []
  | .one a => [if a < 0 then a + rank else a]
  | .many as => as.map (fun a => if a < 0 then a + rank else a)

/-- ONNX `Reduce*` shape semantics: `axes` non-negative; empty `axes` reduces everything unless
`noop_with_empty_axes`. -/
def onnxReduced (axes : List Int) (noop : Bool) (i : Nat) : Bool :=
  if axes.isEmpty then !noop else axes.any (fun a => a == Int.ofNat i)

def onnxReduceShape (shape : List Nat) (axes : List Int) (keepdims noop : Bool) : List Nat :=
  if keepdims then shape.mapIdx (fun i n => if onnxReduced axes noop i then 1 else n)
  else (shape.zipIdx.filter (fun p => !onnxReduced axes noop p.2)).map (·.1)

/-- The model: what ndonnx emits. -/
def reduceShapeModel (shape : List Nat) (axis : AxisArg) (keepdims : Bool) : List Nat :=
  onnxReduceShape shape (normalizeAxes shape.length axis) keepdims (axis != .none)

namespace Spec

/-- Is axis `i` of an array of rank `rank` reduced by NumPy for this `axis` argument? -/
def reduced (rank : Nat) (axis : AxisArg) (i : Nat) : Bool :=
  match axis with
  | .none => true
  | .one a => (if a < 0 then a + rank else a) == Int.ofNat i
  | .many as => as.any (fun a => (if a < 0 then a + rank else a) == Int.ofNat i)

/-- NumPy's result shape of a reduction (`keepdims` rule). -/
def reducedShape (shape : List Nat) (axis : AxisArg) (keepdims : Bool) : List Nat :=
  if keepdims then shape.mapIdx (fun i n => if reduced shape.length axis i then 1 else n)
  else (shape.zipIdx.filter (fun p => !reduced shape.length axis p.2)).map (·.1)

/-- Admissible `axis` arguments: every axis in `[-rank, rank)`. -/
def axisValid (rank : Nat) : AxisArg → Prop
  | .none => True
  | .one a => -(rank : Int) ≤ a ∧ a < rank
  | .many as => ∀ a ∈ as, -(rank : Int) ≤ a ∧ a < rank

end Spec
end Ndx
