import NdonnxVerif.Model.Layout
import NdonnxVerif.Model.Broadcast
import NdonnxVerif.Model.IntArith
import NdonnxVerif.Model.ReduceVal
/-!
# Tensor-level ONNX graph terms (core Lean only)

`TG` is the expression tree the translator (`harness/tgraph.py`) reads off the **exported ONNX graph** of an
indexing / layout / shape-arithmetic computation traced on placeholders (`Identity` stripped, node outputs
inlined).  `eval` is the meaning of those ONNX operators on integer-valued N-d index-function tensors
(`Tensor Int`; booleans are 0/1): `Slice`, `Gather`, `Unsqueeze`, `Squeeze`, `Transpose`, `Reshape(allowzero=1)`,
`Expand`, `Concat`, `Shape`, `Range`, `Cast`, `Add/Sub/Mul`, `Mod(fmod=0)`, `Equal`, `Where`, `Reduce*`, `Compress(axis=0)`,
`GatherElements(axis=0)`, `ScatterND`, `CumSum`, `Trilu`, `ArgMax` / `ArgMin`.  The data-movement
operators do not inspect the elements, so what is proved about them on integer tokens is what ONNX specifies for
every element type (`T: tensor(...)` of any type); the check repeats the structural comparison for every dtype.

Two uses, both on every run:
* **tie B** — `Model/TGraphFns.lean` rebuilds, from the same Python-level arguments, the term ndonnx is modelled
  to emit (`getitemGraph`, `rollGraph`, `flipGraph`, …); the check compares its rendering with the rendering of
  the graph the library really exported.  The theorems of `Props/C08Graph.lean`, `C11Graph.lean`, `C06Graph.lean`
  are about these terms, for every shape and every element value.
* **tie D** — the driver parses the rendering of *any* exported graph back into a `TG` (`Driver/TGraph.lean`) and
  evaluates it on token data; the check compares with what onnxruntime computes from the same model file.
-/
namespace Ndx.TGraph
open Ndx

inductive BOp | add | sub | mul | mod0 | equal | less | and | or | xor | greater | lessEq | greaterEq
deriving DecidableEq, Repr

inductive RKind | sum | prod | min | max
deriving DecidableEq, Repr

inductive TG where
  | inp (i : Nat)
  | const (shape : List Nat) (vals : List Int)       -- an integer (int64 / bool) constant tensor
  | slice (x starts ends axes steps : TG)
  | gather (axis : Int) (x idx : TG)
  | unsqueeze (x axes : TG)
  | squeeze (x axes : TG)
  | transpose (perm : List Nat) (x : TG)
  | reshape (x shape : TG)                           -- allowzero = 1
  | expand (x shape : TG)
  | concat (axis : Int) (x y : TG)                   -- n-ary Concat is folded to the left by the translator
  | shape (x : TG)
  | range (start limit delta : TG)
  | cast (to : Nat) (x : TG)
  | bin (op : BOp) (x y : TG)
  | sel (c x y : TG)
  | not (x : TG)
  | reduce (k : RKind) (keepdims noop : Bool) (x axes : TG)   -- ReduceSum/Prod/Min/Max on int64
  | shapeFrom (start : Nat) (x : TG)                 -- Shape(start = k), no end
  | slice3 (x starts ends : TG)                      -- Slice without axes / steps: axes 0.., unit steps
  | compress (x cond : TG)                           -- Compress(axis = 0)
  | gatherElements (x idx : TG)                      -- GatherElements(axis = 0)
  | scatterND (x idx upd : TG)                       -- ScatterND(reduction = none)
  | cumsum (x axis : TG)                             -- CumSum(exclusive = 0, reverse = 0) on int64
  | trilu (upper : Bool) (x k : TG)                  -- Trilu on the last two axes
  | argext (isMax : Bool) (axis : Nat) (keepdims : Bool) (x : TG)   -- ArgMax / ArgMin(select_last_index = 0), axis ≥ 0
deriving DecidableEq, Repr, Inhabited

/-! ## operator semantics -/

def normAxis (rank : Nat) (a : Int) : Nat := (if a < 0 then a + rank else a).toNat

/-- 1-D tensor from a list. -/
def vec (l : List Int) : Tensor Int := ⟨[l.length], fun ix => l.getD (ix.headD 0) 0⟩

def scalar (v : Int) : Tensor Int := ⟨[], fun _ => v⟩

def constT (shape : List Nat) (vals : List Int) : Tensor Int :=
  ⟨shape, fun ix => vals.getD (ravel shape ix) 0⟩

/-- `Slice(x, starts, ends, axes, steps)` with the four 1-D operands given as lists. -/
def sliceOp (t : Tensor α) (starts ends axes steps : List Int) : Tensor α :=
  onnxSlice t ((List.range axes.length).map (fun k =>
    (normAxis t.rank (axes.getD k 0), starts.getD k 0, ends.getD k 0, steps.getD k 1)))

/-- General `Gather(axis)`: `out[pre ++ j ++ post] = x[pre ++ [idx[j]] ++ post]`. -/
def gatherGen (t : Tensor α) (axis : Nat) (idx : Tensor Int) : Tensor α :=
  let n : Int := t.shape.getD axis 0
  let r := idx.rank
  { shape := t.shape.take axis ++ idx.shape ++ t.shape.drop (axis + 1)
    get := fun ix =>
      let i := idx.get ((ix.drop axis).take r)
      t.get (ix.take axis ++ (if i < 0 then i + n else i).toNat :: ix.drop (axis + r)) }

def gatherOp (t : Tensor α) (axis : Int) (idx : Tensor Int) : Tensor α :=
  let ax := normAxis t.rank axis
  match idx.shape with
  | [] => onnxGatherScalar t (idx.get []) ax
  | [_] => onnxGatherAxis t ax idx.toFlat
  | _ => gatherGen t ax idx

/-- Insertion sort (ascending) — `Unsqueeze`/`Squeeze` accept their axes in any order. -/
def insertSorted (a : Nat) : List Nat → List Nat
  | [] => [a]
  | b :: l => if a ≤ b then a :: b :: l else b :: insertSorted a l

def sortNat (l : List Nat) : List Nat := l.foldr insertSorted []

def unsqueezeOp (t : Tensor α) (axes : List Int) : Tensor α :=
  onnxUnsqueeze t (sortNat (axes.map (normAxis (t.rank + axes.length))))

/-- `Squeeze(x, axes)`: the listed axes (extent 1) disappear. -/
def squeezeOp (t : Tensor α) (axes : List Int) : Tensor α :=
  let ax := sortNat (axes.map (normAxis t.rank))
  { shape := removeAt t.shape ax
    get := fun ix => t.get (insertAt ix 0 ax) }

/-- Target shape of `Reshape(allowzero=1)`: one `-1` entry is inferred from the element count. -/
def reshapeTarget (size : Nat) (target : List Int) : List Nat :=
  let known := (target.filter (· ≠ -1)).foldl (fun acc d => acc * d.toNat) 1
  target.map (fun d => if d = -1 then (if known = 0 then 0 else size / known) else d.toNat)

def reshapeOp (t : Tensor α) (target : List Int) : Tensor α :=
  onnxReshape t (reshapeTarget (sizeOf' t.shape) target)

/-- Index of the source element when a tensor of shape `src` is broadcast to `out` (right-aligned). -/
def bcastIndex (src out ix : List Nat) : List Nat :=
  let d := out.length - src.length
  (ix.drop d).zipWith (fun i n => if n = 1 then 0 else i) src

def bcastTo (t : Tensor α) (out : List Nat) : Tensor α :=
  ⟨out, fun ix => t.get (bcastIndex t.shape out ix)⟩

def expandOp (t : Tensor α) (target : List Int) : Tensor α :=
  bcastTo t ((bshape t.shape (target.map Int.toNat)).getD (target.map Int.toNat))

def concatOp (a b : Tensor α) (axis : Int) : Tensor α :=
  let ax := normAxis a.rank axis
  let n := a.shape.getD ax 0
  { shape := a.shape.set ax (n + b.shape.getD ax 0)
    get := fun ix =>
      let i := ix.getD ax 0
      if i < n then a.get ix else b.get (ix.set ax (i - n)) }

def shapeOp (t : Tensor α) : Tensor Int := vec (t.shape.map Int.ofNat)

def rangeOp (start limit delta : Int) : Tensor Int :=
  let n := rangeLen start limit delta
  ⟨[n], fun ix => start + Int.ofNat (ix.headD 0) * delta⟩

def b2i (b : Bool) : Int := if b then 1 else 0

/-- ONNX `Mod(fmod=0)` on integers: the result has the sign of the divisor (`Int.emod` for a positive divisor,
Python's `%` in general). -/
def pyMod (a b : Int) : Int := Int.fmod a b

def evalBOp : BOp → Int → Int → Int
  | .add, a, b => a + b
  | .sub, a, b => a - b
  | .mul, a, b => a * b
  | .mod0, a, b => pyMod a b
  | .equal, a, b => b2i (a == b)
  | .less, a, b => b2i (decide (a < b))
  | .and, a, b => b2i (a != 0 && b != 0)
  | .or, a, b => b2i (a != 0 || b != 0)
  | .xor, a, b => b2i ((a != 0) != (b != 0))
  | .greater, a, b => b2i (decide (a > b))
  | .lessEq, a, b => b2i (decide (a ≤ b))
  | .greaterEq, a, b => b2i (decide (a ≥ b))

def bcast2 (f : Int → Int → Int) (a b : Tensor Int) : Tensor Int :=
  let out := (bshape a.shape b.shape).getD a.shape
  ⟨out, fun ix => f (a.get (bcastIndex a.shape out ix)) (b.get (bcastIndex b.shape out ix))⟩

def bcast3 (c a b : Tensor Int) : Tensor Int :=
  let out := ((bshape a.shape b.shape).bind (bshape c.shape)).getD a.shape
  ⟨out, fun ix => if c.get (bcastIndex c.shape out ix) ≠ 0 then a.get (bcastIndex a.shape out ix)
                  else b.get (bcastIndex b.shape out ix)⟩

/-- Element cast between integer / boolean types (ONNX codes; two's-complement wrap, 9 = bool). -/
def castElem (to : Nat) (v : Int) : Int :=
  match to with
  | 9 => b2i (v != 0)
  | 2 => (C02.IType.mk 8 false).wrap v | 3 => (C02.IType.mk 8 true).wrap v
  | 4 => (C02.IType.mk 16 false).wrap v | 5 => (C02.IType.mk 16 true).wrap v
  | 6 => (C02.IType.mk 32 true).wrap v | 7 => (C02.IType.mk 64 true).wrap v
  | 12 => (C02.IType.mk 32 false).wrap v | 13 => (C02.IType.mk 64 false).wrap v
  | _ => v

/-- ONNX `Reduce*` on int64 data as onnxruntime computes it: the fold of the elements of each reduced slice, starting
from the operator's neutral element (`0`, `1`, `INT64_MAX`, `INT64_MIN`); sums and products wrap in int64. -/
def reduceOp (k : RKind) (keepdims noop : Bool) (t : Tensor Int) (axes : List Int) : Tensor Int :=
  let red := (List.range t.rank).map (onnxReduced (axes.map (fun a => Int.ofNat (normAxis t.rank a))) noop)
  match k with
  | .sum => reduceT (fun acc v => C02.wrapS 64 (acc + v)) 0 t red keepdims
  | .prod => reduceT (fun acc v => C02.wrapS 64 (acc * v)) 1 t red keepdims
  | .min => reduceT (fun acc v => if v < acc then v else acc) int64Max t red keepdims
  | .max => reduceT (fun acc v => if v > acc then v else acc) int64Min t red keepdims

/-- `Compress(axis=0)`: the condition is read as booleans (non-zero = selected). -/
def compressOp (t : Tensor α) (cond : Tensor Int) : Tensor α :=
  onnxCompress0 t (cond.toFlat.map (fun v => decide (v ≠ 0)))

/-- `GatherElements(axis=0)`: `out[i, rest] = x[idx[i, rest], rest]` (negative entries count from the end). -/
def gatherElementsOp (t : Tensor α) (idx : Tensor Int) : Tensor α :=
  let n : Int := t.shape.headD 0
  ⟨idx.shape, fun ix =>
    let i := idx.get ix
    t.get ((if i < 0 then i + n else i).toNat :: ix.tail)⟩

/-- The index path written by the update at `o`: the last axis of `idx` read as coordinates of the leading axes of the
data (negative entries count from the end). -/
def scatterPath (shape : List Nat) (idx : Tensor Int) (o : List Nat) : List Nat :=
  (List.range (idx.shape.getLastD 0)).map (fun j =>
    let i := idx.get (o ++ [j])
    let n : Int := shape.getD j 0
    (if i < 0 then i + n else i).toNat)

/-- `ScatterND(reduction=none)`: `out = x`; then for every index `o` of the leading axes of `idx`, in row-major order,
`out[path(o)] = upd[o]` (a slice when the path is shorter than the rank); later writes win. -/
def scatterNDOp (t : Tensor α) (idx : Tensor Int) (upd : Tensor α) : Tensor α :=
  let k := idx.shape.getLastD 0
  ⟨t.shape, fun p =>
    match (allIdx idx.shape.dropLast).reverse.find? (fun o => scatterPath t.shape idx o == p.take k) with
    | some o => upd.get (o ++ p.drop k)
    | none => t.get p⟩

/-- `CumSum(exclusive=0, reverse=0)` on int64 data: the running int64 (wrap-around) sum along `axis`. -/
def cumsumOp (t : Tensor Int) (axis : Int) : Tensor Int :=
  let ax := normAxis t.rank axis
  ⟨t.shape, fun ix =>
    ((List.range (ix.getD ax 0 + 1)).map (fun j => t.get (ix.set ax j))).foldl (fun acc v => C02.wrapS 64 (acc + v)) 0⟩

/-- `Trilu(upper)`: on the last two axes (row `i`, column `j`) keep `j ≥ i + k` (upper) / `j ≤ i + k` (lower), zero the rest. -/
def triluOp (upper : Bool) (t : Tensor Int) (k : Int) : Tensor Int :=
  ⟨t.shape, fun ix =>
    let r := ix.length
    let i : Int := Int.ofNat (ix.getD (r - 2) 0)
    let j : Int := Int.ofNat (ix.getD (r - 1) 0)
    if (if upper then j ≥ i + k else j ≤ i + k) then t.get ix else 0⟩

/-- Index of the first maximum (minimum) of a list; 0 for the empty list. -/
def firstArg (isMax : Bool) : List Int → Nat
  | [] => 0
  | v :: l =>
    (l.foldl (fun (acc : Nat × Int × Nat) w =>
      if (if isMax then w > acc.2.1 else w < acc.2.1) then (acc.2.2, w, acc.2.2 + 1) else (acc.1, acc.2.1, acc.2.2 + 1))
      (0, v, 1)).1

/-- `ArgMax` / `ArgMin` (`select_last_index = 0`) along `axis`: the position of the first extremum of every slice. -/
def argextOp (isMax : Bool) (t : Tensor Int) (axis : Nat) (keepdims : Bool) : Tensor Int :=
  let n := t.shape.getD axis 0
  { shape := if keepdims then t.shape.set axis 1 else t.shape.eraseIdx axis
    get := fun o =>
      let pre := o.take axis
      let post := if keepdims then o.drop (axis + 1) else o.drop axis
      Int.ofNat (firstArg isMax ((List.range n).map (fun j => t.get (pre ++ j :: post)))) }

/-! ## evaluation -/

def TG.eval (env : List (Tensor Int)) : TG → Tensor Int
  | .inp i => env.getD i (scalar 0)
  | .const sh vals => constT sh vals
  | .slice x s e a st => sliceOp (TG.eval env x) (TG.eval env s).toFlat (TG.eval env e).toFlat (TG.eval env a).toFlat (TG.eval env st).toFlat
  | .gather axis x idx => gatherOp (TG.eval env x) axis (TG.eval env idx)
  | .unsqueeze x axes => unsqueezeOp (TG.eval env x) (TG.eval env axes).toFlat
  | .squeeze x axes => squeezeOp (TG.eval env x) (TG.eval env axes).toFlat
  | .transpose perm x => onnxTranspose (TG.eval env x) perm
  | .reshape x sh => reshapeOp (TG.eval env x) (TG.eval env sh).toFlat
  | .expand x sh => expandOp (TG.eval env x) (TG.eval env sh).toFlat
  | .concat axis x y => concatOp (TG.eval env x) (TG.eval env y) axis
  | .shape x => shapeOp (TG.eval env x)
  | .range a b c => rangeOp ((TG.eval env a).get []) ((TG.eval env b).get []) ((TG.eval env c).get [])
  | .cast to x => (TG.eval env x).map (castElem to)
  | .bin op x y => bcast2 (evalBOp op) (TG.eval env x) (TG.eval env y)
  | .sel c x y => bcast3 (TG.eval env c) (TG.eval env x) (TG.eval env y)
  | .not x => (TG.eval env x).map (fun v => b2i (v == 0))
  | .reduce k kd noop x axes => reduceOp k kd noop (TG.eval env x) (TG.eval env axes).toFlat
  | .shapeFrom k x => vec (((TG.eval env x).shape.drop k).map Int.ofNat)
  | .slice3 x s e =>
      let st := (TG.eval env s).toFlat
      sliceOp (TG.eval env x) st (TG.eval env e).toFlat ((List.range st.length).map Int.ofNat) (st.map (fun _ => 1))
  | .compress x c => compressOp (TG.eval env x) (TG.eval env c)
  | .gatherElements x i => gatherElementsOp (TG.eval env x) (TG.eval env i)
  | .scatterND x i u => scatterNDOp (TG.eval env x) (TG.eval env i) (TG.eval env u)
  | .cumsum x a => cumsumOp (TG.eval env x) ((TG.eval env a).get [])
  | .trilu up x k => triluOp up (TG.eval env x) ((TG.eval env k).get [])
  | .argext isMax axis kd x => argextOp isMax (TG.eval env x) axis kd

/-! ## canonical text (identical to the translator's rendering) -/

def showInts (l : List Int) : String := if l.isEmpty then "-" else ",".intercalate (l.map toString)
def showNats (l : List Nat) : String := if l.isEmpty then "-" else ",".intercalate (l.map toString)

def BOp.render : BOp → String
  | .add => "Add" | .sub => "Sub" | .mul => "Mul" | .mod0 => "Mod0" | .equal => "Equal" | .less => "Less"
  | .and => "And" | .or => "Or" | .xor => "Xor" | .greater => "Greater" | .lessEq => "LessOrEqual" | .greaterEq => "GreaterOrEqual"

def RKind.render : RKind → String
  | .sum => "ReduceSum" | .prod => "ReduceProd" | .min => "ReduceMin" | .max => "ReduceMax"

def TG.render : TG → String
  | .inp i => s!"in{i}"
  | .const sh vals => s!"(C {showNats sh} {showInts vals})"
  | .slice x s e a st => s!"(Slice {TG.render x} {TG.render s} {TG.render e} {TG.render a} {TG.render st})"
  | .gather axis x idx => s!"(Gather {axis} {TG.render x} {TG.render idx})"
  | .unsqueeze x axes => s!"(Unsqueeze {TG.render x} {TG.render axes})"
  | .squeeze x axes => s!"(Squeeze {TG.render x} {TG.render axes})"
  | .transpose perm x => s!"(Transpose {showNats perm} {TG.render x})"
  | .reshape x sh => s!"(Reshape {TG.render x} {TG.render sh})"
  | .expand x sh => s!"(Expand {TG.render x} {TG.render sh})"
  | .concat axis x y => s!"(Concat {axis} {TG.render x} {TG.render y})"
  | .shape x => s!"(Shape {TG.render x})"
  | .range a b c => s!"(Range {TG.render a} {TG.render b} {TG.render c})"
  | .cast to x => s!"(Cast {to} {TG.render x})"
  | .bin op x y => s!"({op.render} {TG.render x} {TG.render y})"
  | .sel c x y => s!"(Where {TG.render c} {TG.render x} {TG.render y})"
  | .not x => s!"(Not {TG.render x})"
  | .reduce k kd noop x axes => s!"({k.render} {if kd then 1 else 0} {if noop then 1 else 0} {TG.render x} {TG.render axes})"
  | .shapeFrom k x => s!"(ShapeFrom {k} {TG.render x})"
  | .slice3 x s e => s!"(Slice3 {TG.render x} {TG.render s} {TG.render e})"
  | .compress x c => s!"(Compress0 {TG.render x} {TG.render c})"
  | .gatherElements x i => s!"(GatherElements0 {TG.render x} {TG.render i})"
  | .scatterND x i u => s!"(ScatterND {TG.render x} {TG.render i} {TG.render u})"
  | .cumsum x a => s!"(CumSum {TG.render x} {TG.render a})"
  | .trilu up x k => s!"(Trilu {if up then 1 else 0} {TG.render x} {TG.render k})"
  | .argext isMax axis kd x => s!"({if isMax then "ArgMax" else "ArgMin"} {axis} {if kd then 1 else 0} {TG.render x})"

end Ndx.TGraph
