/-!
# The 24 built-in dtypes, NumPy promotion in closed form, nullability, the cast protocol

Mirrors `ndonnx/_data_types/{classes,coretype,__init__}.py`, `ndonnx/_funcs.py::result_type`,
`ndonnx/_utility.py::promote` (scalar rules) and `ndonnx/_funcs.py::astype`.
Core Lean only.
-/
namespace Ndx

/-- The 12 core dtypes. -/
inductive Core
  | int8 | int16 | int32 | int64 | uint8 | uint16 | uint32 | uint64 | float32 | float64 | bool | utf8
deriving DecidableEq, Repr, Inhabited

/-- A built-in dtype: a core dtype or its nullable counterpart. -/
structure Dt where
  core : Core
  nullable : Bool
deriving DecidableEq, Repr, Inhabited

def Core.all : List Core :=
  [.int8, .int16, .int32, .int64, .uint8, .uint16, .uint32, .uint64, .float32, .float64, .bool, .utf8]

/-- All 24 dtypes; the order is the harness's `ALL_DTYPES` (core first, then nullable). -/
def Dt.all : List Dt := Core.all.map (⟨·, false⟩) ++ Core.all.map (⟨·, true⟩)

def Core.name : Core → String
  | .int8 => "int8" | .int16 => "int16" | .int32 => "int32" | .int64 => "int64"
  | .uint8 => "uint8" | .uint16 => "uint16" | .uint32 => "uint32" | .uint64 => "uint64"
  | .float32 => "float32" | .float64 => "float64" | .bool => "bool" | .utf8 => "utf8"

def Dt.name (d : Dt) : String := (if d.nullable then "n" else "") ++ d.core.name

def Dt.ofIdx (i : Nat) : Dt := Dt.all.getD i default
def Dt.idx (d : Dt) : Nat := Dt.all.findIdx (· == d)

inductive Kind | signed | unsigned | floating | boolean | string
deriving DecidableEq, Repr

def Core.kind : Core → Kind
  | .int8 | .int16 | .int32 | .int64 => .signed
  | .uint8 | .uint16 | .uint32 | .uint64 => .unsigned
  | .float32 | .float64 => .floating
  | .bool => .boolean
  | .utf8 => .string

def Core.bits : Core → Nat
  | .int8 | .uint8 => 8
  | .int16 | .uint16 => 16
  | .int32 | .uint32 | .float32 => 32
  | .int64 | .uint64 | .float64 => 64
  | .bool => 8
  | .utf8 => 0

def Core.isNumeric (c : Core) : Bool :=
  match c.kind with | .signed | .unsigned | .floating => true | _ => false
def Core.isIntegral (c : Core) : Bool :=
  match c.kind with | .signed | .unsigned => true | _ => false

def signedOfBits : Nat → Core
  | 8 => .int8 | 16 => .int16 | 32 => .int32 | _ => .int64
def unsignedOfBits : Nat → Core
  | 8 => .uint8 | 16 => .uint16 | 32 => .uint32 | _ => .uint64

/-- `numpy.result_type` on two non-string dtypes, in closed form. -/
def promoteNum (a b : Core) : Core :=
  match a.kind, b.kind with
  | .boolean, _ => b
  | _, .boolean => a
  | .signed, .signed => signedOfBits (max a.bits b.bits)
  | .unsigned, .unsigned => unsignedOfBits (max a.bits b.bits)
  | .signed, .unsigned =>
      if b.bits < a.bits then a else if b.bits = 64 then .float64 else signedOfBits (2 * b.bits)
  | .unsigned, .signed =>
      if a.bits < b.bits then b else if a.bits = 64 then .float64 else signedOfBits (2 * a.bits)
  | .floating, .floating => if a.bits ≥ b.bits then a else b
  | .floating, _ => if a.bits = 64 ∨ b.bits ≥ 32 then .float64 else .float32
  | _, .floating => if b.bits = 64 ∨ a.bits ≥ 32 then .float64 else .float32
  | _, _ => a

/-- `numpy.result_type` on two core dtypes as `ndonnx.result_type` uses it.  A string dtype promotes
only with a string dtype; any other mix is a `TypeError` (`none`). -/
def promoteCore (a b : Core) : Option Core :=
  match a.kind, b.kind with
  | .string, .string => some .utf8
  | .string, _ => none
  | _, .string => none
  | _, _ => some (promoteNum a b)

/-- `ndonnx.result_type(a, b)`: promote the value dtypes, nullable iff some operand is. -/
def resultType (a b : Dt) : Option Dt :=
  (promoteCore a.core b.core).map (fun c => ⟨c, a.nullable || b.nullable⟩)

/-- n-ary `result_type` as a left fold. -/
def resultTypeN : List Dt → Option Dt
  | [] => none
  | d :: ds => ds.foldl (fun acc x => acc.bind (fun r => resultType r x)) (some d)

/-- Kinds of Python scalars `promote` distinguishes (`bool ⊂ int` as in Python). -/
inductive PyScalar | pbool | pint | pfloat | pstr
deriving DecidableEq, Repr

/-- `promote(array_of_dtype_d, python_scalar)`: the common dtype both are cast to;
`none` = `TypeError`. Mirrors `_utility.promote`. -/
def scalarResult (d : Dt) (k : PyScalar) : Option Dt :=
  let target : Option Dt :=
    match k with
    | .pfloat => if d.core.kind = .floating then some d else resultType d ⟨.float64, false⟩
    | .pbool => if d.core = .bool then resultType d ⟨.bool, false⟩ else
                  (if d.core.isNumeric then some d else resultType d ⟨.int64, false⟩)
    | .pint => if d.core.isNumeric then some d else resultType d ⟨.int64, false⟩
    | .pstr => some d
  match target with
  | none => none
  | some t =>
    let scalarIsString := k == .pstr
    let targetIsString := t.core == .utf8
    if scalarIsString != targetIsString then none else some t

/-! ## Cast protocol (`ndx.astype`) -/

inductive CastOutcome
  | ok (d : Dt)
  | castError
deriving DecidableEq, Repr

/-- `astype(x : src, dst)`: defined between any two core dtypes, core → nullable, nullable →
nullable; nullable → core raises `CastError`. -/
def castOutcome (src dst : Dt) : CastOutcome :=
  if src.nullable ∧ ¬ dst.nullable then .castError else .ok dst

/-- NumPy's safe-casting table on core dtypes (`np.can_cast(a, b)`, casting='safe'). -/
def canCastCore (a b : Core) : Bool :=
  match a.kind, b.kind with
  | .boolean, _ => true
  | _, .string => true
  | .string, _ => false
  | _, .boolean => false
  | .signed, .signed => a.bits ≤ b.bits
  | .unsigned, .unsigned => a.bits ≤ b.bits
  | .unsigned, .signed => a.bits < b.bits
  | .signed, .unsigned => false
  | .floating, .floating => a.bits ≤ b.bits
  | .floating, _ => false
  | .signed, .floating => (a.bits ≤ 16 ∧ b.bits ≥ 32) ∨ b.bits = 64
  | .unsigned, .floating => (a.bits ≤ 16 ∧ b.bits ≥ 32) ∨ b.bits = 64

end Ndx
