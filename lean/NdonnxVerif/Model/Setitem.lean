import NdonnxVerif.Model.Index
/-!
# `x[index] = v` as ndonnx computes it (core Lean only)

`opx.setitem`: select the same index on the tensor of coordinates (`ndindex(shape(x))`), expand the
updates to the shape of the selection, `ScatterND`.  Here the coordinate tensor has the coordinate
vector as its element, so that `getitemCore` on it yields, per selected position, the coordinates
that are written.
-/
namespace Ndx

/-- `ndindex(shape)`: every element is its own multi-index. -/
def coords (shape : List Nat) : Tensor (List Nat) := ⟨shape, fun ix => ix⟩

/-- ONNX `Expand` (NumPy broadcasting of `t` to `target`, which it must broadcast into): trailing
alignment, extent-1 axes repeat. -/
def expandTo (t : Tensor α) (target : List Nat) : Tensor α :=
  ⟨target, fun ix =>
    let tail := ix.drop (ix.length - t.shape.length)
    t.get (List.zipWith (fun n i => if n == 1 then 0 else i) t.shape tail)⟩

/-- ONNX `ScatterND` with full index paths: the writes are applied in order, later ones win. -/
def scatterND (t : Tensor α) (writes : List (List Nat × α)) : Tensor α :=
  ⟨t.shape, fun ix =>
    match writes.reverse.find? (fun w => w.1 == ix) with
    | some w => w.2
    | none => t.get ix⟩

/-- The writes of `x[index] = v`: one per selected position. -/
def setitemWrites (t : Tensor α) (n : List NIx) (upd : Tensor α) : List (List Nat × α) :=
  let pos := getitemCore (coords t.shape) n
  let u := expandTo upd pos.shape
  (allIdx pos.shape).map (fun o => (pos.get o, u.get o))

/-- `x[idx] = upd` for a tuple of scalar index entries (`opx.setitem`). -/
def setitem (t : Tensor α) (idx : List Ix) (upd : Tensor α) : Except PyErr (Tensor α) := do
  if t.rank = 0 then
    -- `get_rank(x) == 0 and isinstance(index, tuple)`: the updates replace the scalar
    let _ ← normaliseIndex 0 idx
    .ok ⟨[], fun _ => upd.get []⟩
  else
    let n ← normaliseIndex t.rank idx
    .ok (scatterND t (setitemWrites t n upd))

end Ndx
