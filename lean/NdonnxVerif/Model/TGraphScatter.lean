import NdonnxVerif.Model.TGraphFns
/-!
# Graph terms of the coordinate grid, boolean-mask selection, `nonzero` and `__setitem__` (core Lean only)

Statement-by-statement mirrors of `_opset_extensions.ndindex`, `getitem_null`, `setitem` and of
`NumericOperationsImpl.nonzero`.  Rendered by `tg_render` and compared with the exported graph (tie B).
-/
namespace Ndx.TGraph
open Ndx

/-- One column of `ndindex`: `Unsqueeze(Expand(Unsqueeze(Range(0, shape[i], 1), axes ≠ i), shape), [-1])`. -/
def ndindexCol (x : TG) (rank i : Nat) : TG :=
  .unsqueeze
    (.expand
      (.unsqueeze (.range (iscalar 0) (.gather 0 (.shape x) (iscalar i)) (iscalar 1))
        (ivec (((List.range rank).filter (· ≠ i)).map Int.ofNat)))
      (.shape x))
    (ivec [-1])

/-- `opx.ndindex(shape(x))` for a rank-`rank` array `x` (no reversal, no permutation): the columns concatenated on the
last axis (a one-input `Concat` is the identity and is not rendered); rank 0 gives the empty int64 vector. -/
def ndindexGraph (x : TG) (rank : Nat) : TG :=
  match (List.range rank).map (ndindexCol x rank) with
  | [] => .const [0] []
  | c :: cs => cs.foldl (fun acc y => .concat (-1) acc y) c

/-- `opx.getitem_null(x, mask)`: `Compress(axis=0)` after merging the masked axes. -/
def maskGraph (x m : TG) (rankM : Nat) : TG :=
  if rankM = 0 then
    .compress (.reshape x (.concat 0 (ivec [1]) (.shape x))) (.reshape m (.concat 0 (ivec [1]) (.shape m)))
  else if rankM = 1 then .compress x m
  else .compress (.reshape x (.concat 0 (ivec [-1]) (.shapeFrom rankM x))) (.reshape m (ivec [-1]))

/-- `x != 0` on an integer array of ONNX element type `code`: the operand is promoted with the int64 scalar first. -/
def neZero (x : TG) (code : Nat) : TG := .not (.bin .equal (if code = 7 then x else .cast 7 x) (iscalar 0))

/-- The flattened coordinate list of `nonzero(x)` (rank ≥ 1): `reshape(ndindex(shape(x))[x != 0], [-1])`. -/
def nonzeroFlat (x : TG) (code rank : Nat) : TG :=
  .reshape (maskGraph (ndindexGraph x rank) (neZero x code) rank) (ivec [-1])

/-- Output `i` of `nonzero(x)`: every `rank`-th entry of the flattened coordinates, starting at `i`. -/
def nonzeroGraph (x0 : TG) (code rank i : Nat) : TG :=
  let x := if code = 9 then TG.cast 3 x0 else x0          -- a boolean operand is first cast to int8
  let flat := nonzeroFlat x code rank
  .gatherElements flat (.range (iscalar i) (.gather 0 (.shape flat) (iscalar 0)) (iscalar rank))

/-- `opx.setitem(x, index, updates)` for a normalised tuple index on an array of rank ≥ 1: the index applied to the
coordinate grid, the updates expanded to the shape of the index paths, `ScatterND`. -/
def scatterWith (x indices upd : TG) : TG :=
  .scatterND x indices (.expand upd (.slice3 (.shape indices) (ivec [0]) (ivec [-1])))

def setitemGraph (x upd : TG) (rank : Nat) (index : List NIx) : TG :=
  if rank = 0 then upd else scatterWith x (getitemGraph (ndindexGraph x rank) index) upd

/-- `x[mask] = updates` (rank ≥ 1). -/
def setitemMaskGraph (x m upd : TG) (rank rankM : Nat) : TG :=
  scatterWith x (maskGraph (ndindexGraph x rank) m rankM) upd

/-- `x[idx]` / `take(x, idx)` along axis 0 with an integer index array of ONNX element type `code`: `Gather(axis=0)`; an
index that is neither int32 nor int64 is cast to int64 first (ONNX `Gather` accepts only those two). -/
def intIndexGraph (x idx : TG) (code : Nat) : TG :=
  .gather 0 x (if code = 6 ∨ code = 7 then idx else .cast 7 idx)

/-- `cumulative_sum(x, axis=, dtype=)` (`include_initial=False`) on an integer array of ONNX element type `t`: the
elements are cast to the requested dtype first (unless it is uint64), the running sum is taken in int64, the result is
cast to the result dtype (uint64 for unsigned operands without `dtype=`).  `none`: the call raises (uint64 operands;
`dtype=uint64` on a signed operand). -/
def cumsumGraph (x : TG) (t : Nat) (dtype : Option Nat) (axis : Int) : Option TG :=
  let t1 := match dtype with | some d => if d = 13 then t else d | none => t
  let x1 := astypeG t t1 x
  if isUnsignedCode t1 && bitsOfCode t1 == 64 then none
  else if !isUnsignedCode t1 && dtype == some 13 then none
  else
    let cs := TG.cumsum (astypeG t1 7 x1) (iscalar axis)
    some (match dtype with
      | none => if isUnsignedCode t1 then .cast 13 cs else cs
      | some d => astypeG 7 d cs)

/-- `where(c, x, y)` for a boolean condition and two integer / boolean operands of one ONNX element type `code`
(`UniformShapeOperations.where.where_dtype_agnostic`): booleans as `xor(and(c, x), and(not c, y))`; int8 / int16 through
int32 and uint16 / uint32 / uint64 through int64 (onnxruntime has no `Where` kernel for them); otherwise one `Where`. -/
def whereGraph (c x y : TG) (code : Nat) : TG :=
  if code = 9 then .bin .xor (.bin .and c x) (.bin .and (.not c) y)
  else if code = 3 ∨ code = 5 then .cast code (.sel c (.cast 6 x) (.cast 6 y))
  else if code = 4 ∨ code = 12 ∨ code = 13 then .cast code (.sel c (.cast 7 x) (.cast 7 y))
  else .sel c x y

/-- `x[idx] = updates` for an integer index array (rank ≥ 1 operand): the index applied to the coordinate grid (`Gather`
on its leading axis, after the int64 cast), `Expand` of the update, `ScatterND`. -/
def setitemIntGraph (x idx upd : TG) (rank code : Nat) : TG :=
  scatterWith x (intIndexGraph (ndindexGraph x rank) idx code) upd

/-- `tril(x, k)` / `triu(x, k)` on an integer array of ONNX element type `t`: through int64. -/
def triluGraph (x : TG) (t : Nat) (upper : Bool) (k : Int) : TG :=
  viaI64 t (fun y => .trilu upper y (iscalar k)) x

/-- `a + b` as ndonnx emits it for integer operands of type `t` (through int64 unless `t` is int64). -/
def addG (t : Nat) (x y : TG) : TG :=
  if t = 7 then .bin .add x y else .cast t (.bin .add (.cast 7 x) (.cast 7 y))

/-- The operand `broadcast_arrays` adds up to read the common shape off: the array itself when numeric, `zeros_like(x,
int64)` (`Expand(0, Shape(x))`) for a boolean array. -/
def numericLike (t : Nat) (x : TG) : TG := if t = 9 then .expand (iscalar 0) (.shape x) else x

/-- The term whose run-time shape is the common shape: the left-to-right sum of the operands. -/
def carrierG (t : Nat) (xs : List TG) : TG :=
  match xs.map (numericLike t) with
  | [] => iscalar 0
  | c :: cs => cs.foldl (addG (if t = 9 then 7 else t)) c

/-- Result `i` of `broadcast_arrays(*xs)`: `broadcast_to(xs[i], shape(sum))`. -/
def broadcastArraysGraph (xs : List TG) (t i : Nat) : TG :=
  .expand (xs.getD i (iscalar 0)) (.shape (carrierG t xs))

/-! ### creation functions with run-time shapes / fill values -/

/-- `full(shape, fill)` / `full_like(x, fill)` without `dtype=`: `Expand(fill, shape)`. -/
def fullGraph (fill shape : TG) : TG := .expand fill shape

/-- `zeros / ones / empty(shape, dtype=dt)` and the `*_like` forms: an int64 constant expanded to the shape, then cast. -/
def constFillGraph (v : Int) (shape : TG) (dt : Nat) : TG := astypeG 7 dt (.expand (iscalar v) shape)

/-- `arange(start, stop, step, dtype=dt)` with a run-time `stop`: `Range` in int64, then cast. -/
def arangeGraph (start : Int) (stop : TG) (step : Int) (dt : Nat) : TG :=
  astypeG 7 dt (.range (iscalar start) stop (iscalar step))

/-- The leading zero block of `cumulative_sum(…, include_initial=True)`: `out_shape = shape(cs); out_shape[axis] = 1;
zeros(out_shape, dtype)` — an assignment into the shape *vector*, exported as a `ScatterND` on it. -/
def initialBlockGraph (cs : TG) (axis : Int) (rdt : Nat) : TG :=
  constFillGraph 0 (setitemGraph (.shape cs) (iscalar 1) 1 [.int axis]) rdt

/-- `concat([zeros(out_shape), cs], axis)`. -/
def includeInitialGraph (cs : TG) (axis : Int) (rdt : Nat) : TG := .concat axis (initialBlockGraph cs axis rdt) cs

/-- Result dtype code of `cumulative_sum`. -/
def cumsumResultCode (t : Nat) (dtype : Option Nat) : Nat :=
  match dtype with | some d => d | none => if isUnsignedCode t then 13 else 7

/-- `cumulative_sum(x, axis=, dtype=, include_initial=True)`. -/
def cumsumInclGraph (x : TG) (t : Nat) (dtype : Option Nat) (axis : Int) : Option TG :=
  (cumsumGraph x t dtype axis).map (fun cs => includeInitialGraph cs axis (cumsumResultCode t dtype))

/-- `argmax(x, axis=, keepdims=)` / `argmin` on an integer array of ONNX element type `t` and rank `rank`: the operand
goes through int64; `axis=None` flattens first and reshapes the scalar result to `[1]*rank` when `keepdims`; a negative
axis is normalised in Python. -/
def argextGraph (x : TG) (isMax : Bool) (t rank : Nat) (axis : Option Int) (keepdims : Bool) : TG :=
  match axis with
  | none =>
      let flat := reshapeGraph x rank [-1]
      let out := TG.argext isMax 0 false (if t = 7 then flat else .cast 7 flat)
      .reshape out (ivec (if keepdims then List.replicate rank 1 else []))
  | some a =>
      .argext isMax (normAxis rank a) keepdims (if t = 7 then x else .cast 7 x)

end Ndx.TGraph
