import NdonnxVerif.Model.Dtype
import NdonnxVerif.Model.Basic
/-!
# Reference law for result dtypes and domains of the element-wise API (C03 / C17 / C02-totality)

`fnLaw cls args` states, for a function of class `cls` applied to operands `args` (arrays of one
of the 24 dtypes, or Python scalars), what the *properties* demand of the outcome:

* `must d`   – the call is inside the function's domain: it succeeds and the result dtype is `d`;
* `raises`   – the call is outside the domain: it raises a `TypeError` (any subclass);
* `free`     – the standard/NumPy leave the combination unspecified (mixed bool/number, integers to
               floating-point functions, ordering of bools/strings): the call may return or raise a
               `TypeError`, but never another exception class.

Written from the Array-API standard and the properties, not from the code.
-/
namespace Ndx

/-- Classes of element-wise public functions. -/
inductive FnClass
  | arith        -- add subtract multiply floor_divide remainder pow : numeric × numeric
  | addStr       -- add: like arith, plus string × string (library extension: concatenation)
  | arithF       -- divide atan2 logaddexp : floating × floating (integers unspecified)
  | equality     -- equal not_equal : same-kind pairs
  | ordering     -- less less_equal greater greater_equal : numeric pairs
  | logical      -- logical_and logical_or logical_xor : boolean pairs
  | bitwise      -- bitwise_and bitwise_or bitwise_xor : integer pairs or boolean pairs
  | shift        -- bitwise_left_shift bitwise_right_shift : integer pairs
  | unaryNum     -- abs negative positive sign square ceil floor round trunc : numeric
  | unaryFloat   -- sin cos … sqrt exp log … : floating (integers unspecified)
  | predicate    -- isfinite isinf isnan : numeric → boolean
  | logicalNot   -- logical_not : boolean
  | bitInvert    -- bitwise_invert : integer or boolean
deriving DecidableEq, Repr, Inhabited

def FnClass.all : List FnClass :=
  [.arith, .addStr, .arithF, .equality, .ordering, .logical, .bitwise, .shift,
   .unaryNum, .unaryFloat, .predicate, .logicalNot, .bitInvert]

/-- An operand: an array of a dtype, or a Python scalar. -/
inductive Operand
  | arr (d : Dt)
  | py (k : PyScalar)
deriving DecidableEq, Repr

inductive Law
  | must (d : Dt)
  | raises
  | free
deriving DecidableEq, Repr

def boolOf (nullable : Bool) : Dt := ⟨.bool, nullable⟩

/-- Law for two array operands. -/
def lawArr2 (cls : FnClass) (a b : Dt) : Law :=
  let ka := a.core.kind
  let kb := b.core.kind
  let nul := a.nullable || b.nullable
  let isStr (k : Kind) := k == .string
  let isBool (k : Kind) := k == .boolean
  let isInt (k : Kind) := k == .signed || k == .unsigned
  let isFlt (k : Kind) := k == .floating
  let promoted : Law := match resultType a b with | some d => .must d | none => .raises
  -- strings never mix with non-strings, in any function
  if isStr ka != isStr kb then .raises
  else if isStr ka then   -- both strings
    match cls with
    | .addStr => promoted
    | .equality => .must (boolOf nul)
    | .ordering => .free
    | _ => .raises
  else if isBool ka && isBool kb then
    match cls with
    | .logical | .bitwise => promoted
    | .equality => .must (boolOf nul)
    | .ordering => .free
    | _ => .raises
  else if isBool ka || isBool kb then   -- boolean mixed with a number
    match cls with
    | .logical => .raises
    | _ => .free
  else   -- both numeric
    match cls with
    | .arith | .addStr => promoted
    | .arithF => if isFlt ka && isFlt kb then promoted else .free
    | .equality | .ordering => .must (boolOf nul)
    | .logical => .raises
    | .bitwise | .shift =>
        -- both integers, and promoting to an integer dtype (int64 with uint64 promotes to float64)
        if isInt ka && isInt kb then
          (match resultType a b with
           | some d => if d.core.isIntegral then .must d else .raises
           | none => .raises)
        else .raises
    | _ => .raises

/-- Law for one array operand. -/
def lawArr1 (cls : FnClass) (a : Dt) : Law :=
  let k := a.core.kind
  match cls with
  | .unaryNum => if a.core.isNumeric then .must a else .raises
  | .unaryFloat => if k == .floating then .must a else if a.core.isIntegral then .free else .raises
  | .predicate => if a.core.isNumeric then .must (boolOf a.nullable) else .raises
  | .logicalNot => if k == .boolean then .must a else .raises
  | .bitInvert => if a.core.isIntegral || k == .boolean then .must a else .raises
  | _ => .raises

/-- The dtype a Python scalar takes next to an array of dtype `d` ("a Python scalar never changes
an array's dtype within its kind"); `none`: the scalar is of another kind. -/
def scalarWithinKind (d : Dt) (k : PyScalar) : Bool :=
  match k, d.core.kind with
  | .pbool, .boolean => true
  | .pint, .signed | .pint, .unsigned | .pint, .floating => true
  | .pfloat, .floating => true
  | .pstr, .string => true
  | _, _ => false

/-- Law for an array and a Python scalar (either order; the functions' dtype laws are symmetric). -/
def lawScalar (cls : FnClass) (d : Dt) (k : PyScalar) : Law :=
  let dIsStr := d.core.kind == .string
  if (k == .pstr) != dIsStr then .raises
  else if scalarWithinKind d k then
    -- the scalar behaves as an array of the array's own (non-nullable) dtype
    lawArr2 cls d ⟨d.core, false⟩
  else .free

def fnLaw (cls : FnClass) : List Operand → Law
  | [.arr a] => lawArr1 cls a
  | [.arr a, .arr b] => lawArr2 cls a b
  | [.arr a, .py k] => lawScalar cls a k
  | [.py k, .arr a] => lawScalar cls a k
  | _ => .free

/-- Observed outcome of a call. -/
inductive Outcome
  | ok (d : Dt)
  | typeError      -- TypeError or a subclass (UnsupportedOperationError, CastError)
  | otherError     -- any other exception class
deriving DecidableEq, Repr

def Law.admits : Law → Outcome → Bool
  | .must d, .ok d' => d == d'
  | .must _, _ => false
  | .raises, .typeError => true
  | .raises, _ => false
  | .free, .otherError => false
  | .free, _ => true

/-- What a law demands of a result dtype, as a decidable check. -/
def Law.demands (l : Law) (p : Dt → Bool) : Bool :=
  match l with | .must d => p d | _ => true

end Ndx
