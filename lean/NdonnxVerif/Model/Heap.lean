/-!
# The propagation state machine (`ndonnx/_propagation.py`, `_corearray.py`)

Core arrays are mutable cells `(graph variable, optional eager value)`.  Every primitive of
`_opset_extensions.py` is wrapped by `@eager_propagate`: it traces its node and, when every
argument cell holds data and onnxruntime is importable, evaluates that same node on the constants and
overwrites the result's value and variable (`op.const(value)`).  `copy`, `_set` (behind
`__setitem__`) and input creation are the other transitions.

Values and operator semantics are parameters (`Val`, `sem`): nothing here depends on what the
kernels compute, only on *where* they are evaluated.  Core Lean only.
-/
namespace Ndx.Heap

/-- Graph terms: placeholders, constants, operator nodes. -/
inductive Expr (Val : Type)
  | input (name : String)
  | const (v : Val)
  | node (op : String) (args : List (Expr Val))

variable {Val : Type}

mutual
def eval (sem : String → List Val → Option Val) (env : String → Option Val) : Expr Val → Option Val
  | .input n => env n
  | .const v => some v
  | .node op args => (evalList sem env args).bind (sem op)
def evalList (sem : String → List Val → Option Val) (env : String → Option Val) :
    List (Expr Val) → Option (List Val)
  | [] => some []
  | e :: es => (eval sem env e).bind (fun v => (evalList sem env es).bind (fun vs => some (v :: vs)))
end

def Expr.isConst : Expr Val → Bool
  | .const _ => true
  | _ => false

mutual
/-- Placeholders a term mentions. -/
def Expr.inputs : Expr Val → List String
  | .input n => [n]
  | .const _ => []
  | .node _ args => Expr.inputsList args
def Expr.inputsList : List (Expr Val) → List String
  | [] => []
  | e :: es => e.inputs ++ Expr.inputsList es
end

structure Cell (Val : Type) where
  var : Expr Val
  eager : Option Val

abbrev Heap (Val : Type) := List (Cell Val)

/-- One transition of the state machine.  `input n v lz`-steps are resolved by `PStep.toStep`. -/
inductive Step (Val : Type)
  | data (v : Val)                        -- asarray(value): a data-holding cell
  | placeholder (name : String)           -- ndx.array(shape=…, dtype=…): a model input
  | prim (op : String) (args : List Nat)  -- any `@eager_propagate` primitive
  | copy (r : Nat)                        -- `_CoreArray.copy`
  | set (dst src : Nat)                   -- `_CoreArray._set` (behind `__setitem__`)
  /-- A Python-level *value-dependent shortcut* (`where`, `logical_and/or`, …): when operand `g` holds data `v` and
  `choice v = some k`, the call hands back a copy of operand `k` instead of emitting `op`. -/
  | guarded (op : String) (args : List Nat) (g : Nat) (choice : Val → Option Nat)
  /-- A *two-sided* shortcut of a binary operator (`logical_and`, `logical_or`): when operand `a` holds data `v` with
  `chA v`, the call hands back a copy of `b`; otherwise, when `b` holds data `w` with `chB w`, a copy of `a`; otherwise
  it emits `op [a, b]`. -/
  | guarded2 (op : String) (a b : Nat) (chA chB : Val → Bool)

def allEager (h : Heap Val) : List Nat → Option (List Val)
  | [] => some []
  | r :: rs => (h[r]?).bind (fun c => c.eager.bind (fun v => (allEager h rs).bind (fun vs => some (v :: vs))))

def varsOf (h : Heap Val) : List Nat → Option (List (Expr Val))
  | [] => some []
  | r :: rs => (h[r]?).bind (fun c => (varsOf h rs).bind (fun es => some (c.var :: es)))

/-- What a shortcut call does in state `h`: the copy when the guard operand holds data satisfying the guard (and every
operand exists), the primitive otherwise.  Every other step is itself. -/
def resolve (h : Heap Val) : Step Val → Step Val
  | .guarded op args g choice =>
      match varsOf h args, args[g]? with
      | some _, some rg =>
          (match (h[rg]?).bind (·.eager) with
           | some v => (match (choice v).bind (fun k => args[k]?) with
                        | some rp => .copy rp
                        | none => .prim op args)
           | none => .prim op args)
      | _, _ => .prim op args
  | .guarded2 op a b chA chB =>
      match h[a]?, h[b]? with
      | some ca, some cb =>
          if (ca.eager.map chA).getD false then .copy b
          else if (cb.eager.map chB).getD false then .copy a
          else .prim op [a, b]
      | _, _ => .prim op [a, b]
  | s => s

/-- The `@eager_propagate` wrapper and the other transitions.  `none` = a Python exception. -/
def stepBase (sem : String → List Val → Option Val) (ort : Bool) (h : Heap Val) : Step Val → Option (Heap Val)
  | .data v => some (h ++ [⟨.const v, some v⟩])
  | .placeholder n => some (h ++ [⟨.input n, none⟩])
  | .prim op args =>
      (varsOf h args).bind (fun vars =>
        match (if ort then allEager h args else none) with
        | some vs => (sem op vs).bind (fun v => some (h ++ [⟨.const v, some v⟩]))
        | none => some (h ++ [⟨.node op vars, none⟩]))
  | .copy r =>
      (h[r]?).bind (fun c =>
        some (h ++ [match c.eager with | some v => ⟨.const v, some v⟩ | none => ⟨c.var, none⟩]))
  | .set dst src =>
      (h[src]?).bind (fun c => if dst < h.length then some (h.set dst ⟨c.var, c.eager⟩) else none)
  | .guarded _ _ _ _ => none      -- resolved before it gets here
  | .guarded2 _ _ _ _ _ => none

/-- One transition: shortcuts are resolved against the current state first. -/
def step (sem : String → List Val → Option Val) (ort : Bool) (h : Heap Val) (s : Step Val) : Option (Heap Val) :=
  stepBase sem ort h (resolve h s)

def run (sem : String → List Val → Option Val) (ort : Bool) : List (Step Val) → Heap Val → Option (Heap Val)
  | [], h => some h
  | s :: ss, h => (step sem ort h s).bind (run sem ort ss)

/-- Program steps: inputs carry both a name and a value; whether an input is a placeholder or a
constant is decided by the tracing mode (`lz`). -/
inductive PStep (Val : Type)
  | input (name : String) (v : Val)
  | prim (op : String) (args : List Nat)
  | copy (r : Nat)
  | set (dst src : Nat)
  | guarded (op : String) (args : List Nat) (g : Nat) (choice : Val → Option Nat)
  | guarded2 (op : String) (a b : Nat) (chA chB : Val → Bool)

def PStep.toStep (lz : String → Bool) : PStep Val → Step Val
  | .input n v => if lz n then .placeholder n else .data v
  | .prim op args => .prim op args
  | .copy r => .copy r
  | .set d s => .set d s
  | .guarded op args g choice => .guarded op args g choice
  | .guarded2 op a b chA chB => .guarded2 op a b chA chB

/-- Run a program with the inputs selected by `lz` as placeholders. -/
def runProg (sem : String → List Val → Option Val) (ort : Bool) (lz : String → Bool)
    (p : List (PStep Val)) (h : Heap Val) : Option (Heap Val) :=
  run sem ort (p.map (PStep.toStep lz)) h

end Ndx.Heap
