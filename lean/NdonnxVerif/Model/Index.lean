import NdonnxVerif.Model.Basic
/-!
# Model of the indexing pipeline (`ndonnx/_index.py`, `_corearray.py::_normalise_index`,
# `_opset_extensions.py::getitem`) and the NumPy reference semantics of basic indexing.

Model side mirrors the Python code, stage by stage:
`construct_index` (ellipsis expansion) → `index_normalise` (open ends to 0 / INT64_MAX /
INT64_MIN, `slice(0, MAX, 1)` back to the full slice) → rank check (`IndexError`) →
`opx.getitem`: one ONNX `Slice` over the slice entries, scalar `Gather`s for the integer
entries in *reverse* axis order, one `Unsqueeze` for the `None` entries.

Spec side (`Spec.*`) is CPython's `slice.indices` and NumPy's left-to-right reading of a
basic index; it never mentions ONNX.
-/
namespace Ndx

/-- An index entry as written by the user. -/
inductive Ix
  | int (i : Int)
  | slice (start stop step : Option Int)
  | ellipsis
  | newaxis
  | bad            -- an entry of an unsupported type (float, str, …)
deriving DecidableEq, Repr, Inhabited

/-- An entry after `index_normalise`. -/
inductive NIx
  | int (i : Int)
  | sl (start stop step : Int)   -- slice with explicit step: goes into the ONNX `Slice`
  | full                         -- `slice(None, None, None)`: untouched axis
  | newaxis
deriving DecidableEq, Repr, Inhabited

/-! ## `index_normalise` / `construct_index` / `_normalise_index` -/

/-- `x.step is None or x.step > 0` -/
def stepPositive : Option Int → Bool
  | none => true
  | some s => decide (s > 0)

def defaultStart (pos : Bool) : Option Int → Int
  | some v => v
  | none => if pos then 0 else int64Max

def defaultStop (pos : Bool) : Option Int → Int
  | some v => v
  | none => if pos then int64Max else int64Min

def normaliseEntry : Ix → Except PyErr NIx
  | .int i => .ok (.int i)
  | .slice a b c =>
      let start := defaultStart (stepPositive c) a
      let stop := defaultStop (stepPositive c) b
      let step := c.getD 1
      if start = 0 ∧ stop = int64Max ∧ step = 1 then .ok .full else .ok (.sl start stop step)
  | .newaxis => .ok .newaxis
  | .ellipsis => .error .typeError     -- "ellipses are expected to be handled prior"
  | .bad => .error .typeError

/-- `index_normalise`: entry by entry, first failure wins. -/
def normaliseAll : List Ix → Except PyErr (List NIx)
  | [] => .ok []
  | x :: xs =>
    match normaliseEntry x with
    | .error e => .error e
    | .ok y => match normaliseAll xs with
      | .error e => .error e
      | .ok ys => .ok (y :: ys)

def isEllipsis : Ix → Bool | .ellipsis => true | _ => false
def isNoneOrEllipsis : Ix → Bool | .ellipsis => true | .newaxis => true | _ => false

/-- `construct_index(arr, index)` with `rank = get_rank(arr)`. -/
def constructIndex (rank : Nat) (idx : List Ix) : Except PyErr (List NIx) :=
  let idx' :=
    if idx.any isEllipsis then
      let pos := idx.findIdx isEllipsis
      let countSome := (idx.filter (fun x => !isNoneOrEllipsis x)).length
      idx.take pos ++ List.replicate (rank - countSome) (Ix.slice none none none) ++ idx.drop (pos + 1)
    else idx
  normaliseAll idx'

def isNewaxis : NIx → Bool | .newaxis => true | _ => false

/-- `_CoreArray._normalise_index` for a tuple index: build the index, then the rank check. -/
def normaliseIndex (rank : Nat) (idx : List Ix) : Except PyErr (List NIx) := do
  let n ← constructIndex rank idx
  if (n.filter (fun x => !isNewaxis x)).length ≠ rank then .error .indexError else .ok n

/-! ## ONNX operator semantics used by `opx.getitem` (assumption, validated against onnxruntime) -/

def clampI (v lo hi : Int) : Int := if v < lo then lo else if v > hi then hi else v

/-- ONNX Slice-13 effective start on an axis of extent `n`. -/
def oxStart (n s step : Int) : Int :=
  let s0 := if s < 0 then s + n else s
  if step > 0 then clampI s0 0 n else clampI s0 0 (n - 1)

/-- ONNX Slice-13 effective end on an axis of extent `n`. -/
def oxStop (n e step : Int) : Int :=
  let e0 := if e < 0 then e + n else e
  if step > 0 then clampI e0 0 n else clampI e0 (-1) (n - 1)

/-- Number of elements of `range(start, stop, step)` (step ≠ 0). -/
def rangeLen (start stop step : Int) : Nat :=
  if step > 0 then (if start < stop then ((stop - start + step - 1) / step).toNat else 0)
  else if step < 0 then (if stop < start then ((start - stop + (-step) - 1) / (-step)).toNat else 0)
  else 0

/-- One axis of an ONNX `Slice`: (first position, element count, step). -/
def oxSliceAxis (n : Nat) (s e step : Int) : Int × Nat × Int :=
  let st := oxStart n s step
  let en := oxStop n e step
  (st, rangeLen st en step, step)

/-- ONNX `Slice` with one (start, end, step) triple per listed axis. -/
def onnxSlice (t : Tensor α) (specs : List (Nat × Int × Int × Int)) : Tensor α :=
  let sel : Nat → Option (Int × Nat × Int) := fun ax =>
    match specs.find? (fun s => s.1 == ax) with
    | some (_, s, e, st) => some (oxSliceAxis (t.shape.getD ax 0) s e st)
    | none => none
  { shape := t.shape.mapIdx (fun ax n => match sel ax with | some (_, c, _) => c | none => n)
    get := fun ix => t.get (ix.mapIdx (fun ax i =>
      match sel ax with | some (f, _, st) => (f + Int.ofNat i * st).toNat | none => i)) }

/-- ONNX `Gather` with a scalar index on `axis` (negative indices count from the end). -/
def onnxGatherScalar (t : Tensor α) (i : Int) (axis : Nat) : Tensor α :=
  let n : Int := t.shape.getD axis 0
  let j : Nat := (if i < 0 then i + n else i).toNat
  { shape := t.shape.eraseIdx axis
    get := fun ix => t.get (ix.take axis ++ j :: ix.drop axis) }

/-- Insert a value at the listed (output) positions, ascending. -/
def insertAt (xs : List α) (v : α) (axes : List Nat) : List α :=
  axes.foldl (fun acc a => acc.take a ++ v :: acc.drop a) xs

def removeAt (xs : List α) (axes : List Nat) : List α :=
  (xs.zipIdx.filter (fun p => !axes.contains p.2)).map (·.1)

/-- ONNX `Unsqueeze` (axes are positions in the *output*, sorted ascending here). -/
def onnxUnsqueeze (t : Tensor α) (axes : List Nat) : Tensor α :=
  { shape := insertAt t.shape 1 axes
    get := fun ix => t.get (removeAt ix axes) }

/-! ## `opx.getitem` for a tuple of scalar index entries -/

def isIntEntry : NIx → Bool | .int _ => true | _ => false

/-- The `Slice` stage: `(start, stop, step, position among the non-None entries)`. -/
def axisSlices (index : List NIx) : List (Nat × Int × Int × Int) :=
  ((index.filter (fun x => !isNewaxis x)).zipIdx.filterMap (fun p =>
    match p.1 with | .sl a b c => some (p.2, a, b, c) | _ => none))

/-- The `Gather` stage: `(axis, index)` for the integer entries, in original order. -/
def axisIndices (index : List NIx) : List (Nat × Int) :=
  ((index.filter (fun x => !isNewaxis x)).zipIdx.filterMap (fun p =>
    match p.1 with | .int i => some (p.2, i) | _ => none))

/-- The `Unsqueeze` stage: positions of `None` among the non-integer entries. -/
def axisNewAxes (index : List NIx) : List Nat :=
  ((index.filter (fun x => !isIntEntry x)).zipIdx.filterMap (fun p =>
    match p.1 with | .newaxis => some p.2 | _ => none))

def getitemCore (t : Tensor α) (index : List NIx) : Tensor α :=
  let sl := axisSlices index
  let t1 := if sl.isEmpty then t else onnxSlice t sl
  let t2 := (axisIndices index).reverse.foldl (fun acc p => onnxGatherScalar acc p.2 p.1) t1
  let na := axisNewAxes index
  if na.isEmpty then t2 else onnxUnsqueeze t2 na

/-- `x[idx]` for a tuple of scalar entries: normalise, check, emit. -/
def getitem (t : Tensor α) (idx : List Ix) : Except PyErr (Tensor α) := do
  let n ← normaliseIndex t.rank idx
  .ok (getitemCore t n)

/-! ## Array-valued indices: `getitem_null` (boolean mask) and `Gather` (integer array) -/

/-- Row-major multi-index of a flat offset. -/
def unravel : List Nat → Nat → List Nat
  | [], _ => []
  | _ :: sh, k => (k / sizeOf' sh) :: unravel sh (k % sizeOf' sh)

/-- ONNX `Reshape` (row-major reinterpretation; the caller supplies a shape of equal size). -/
def onnxReshape (t : Tensor α) (newShape : List Nat) : Tensor α :=
  ⟨newShape, fun ix => t.get (unravel t.shape (ravel newShape ix))⟩

/-- Positions of `true` in a list. -/
def truePositions (cond : List Bool) : List Nat :=
  (cond.zipIdx.filter (·.1)).map (·.2)

/-- ONNX `Compress(axis=0)` with a 1-D condition. -/
def onnxCompress0 (t : Tensor α) (cond : List Bool) : Tensor α :=
  let sel := truePositions cond
  ⟨sel.length :: t.shape.tail, fun ix => t.get (sel.getD (ix.headD 0) 0 :: ix.tail)⟩

/-- `opx.getitem_null`: boolean-mask selection (`x[mask]`, mask rank `k ≤ ndim`). -/
def getitemMask (t : Tensor α) (mask : Tensor Bool) : Except PyErr (Tensor α) :=
  let k := mask.rank
  if t.rank < k then .error .indexError
  else if k = 0 then
    .ok (onnxCompress0 (onnxReshape t (1 :: t.shape)) [mask.get []])
  else if k = 1 then
    .ok (onnxCompress0 t mask.toFlat)
  else
    .ok (onnxCompress0 (onnxReshape t (sizeOf' (t.shape.take k) :: t.shape.drop k)) mask.toFlat)

/-- `op.gather(x, index, axis=0)`: integer-array index on the leading axis. -/
def getitemInt (t : Tensor α) (index : Tensor Int) : Tensor α :=
  let n : Int := t.shape.headD 0
  let r := index.rank
  ⟨index.shape ++ t.shape.tail, fun ix =>
    let i := index.get (ix.take r)
    t.get ((if i < 0 then i + n else i).toNat :: ix.drop r)⟩

/-! ## Reference semantics: CPython `slice.indices` and NumPy basic indexing -/
namespace Spec

/-- CPython `PySlice_AdjustIndices` for one explicit bound. -/
def pyAdj (n step v : Int) : Int :=
  if v < 0 then (if v + n < (if step > 0 then 0 else -1) then (if step > 0 then 0 else -1) else v + n)
  else (if v > (if step > 0 then n else n - 1) then (if step > 0 then n else n - 1) else v)

def pyStart (n step : Int) : Option Int → Int
  | none => if step > 0 then 0 else n - 1
  | some v => pyAdj n step v

def pyStop (n step : Int) : Option Int → Int
  | none => if step > 0 then n else -1
  | some v => pyAdj n step v

/-- `slice(a, b, c).indices(n)` → (first, count, step). -/
def pySlice (n : Nat) (a b c : Option Int) : Int × Nat × Int :=
  let step := c.getD 1
  let st := pyStart n step a
  let en := pyStop n step b
  (st, rangeLen st en step, step)

/-- Expansion of a single ellipsis into full slices (NumPy/Array API reading). -/
def expand (rank : Nat) (idx : List Ix) : List Ix :=
  let consumed := (idx.filter (fun x => !isNoneOrEllipsis x)).length
  idx.flatMap (fun x => match x with
    | .ellipsis => List.replicate (rank - consumed) (Ix.slice none none none)
    | e => [e])

/-- NumPy basic indexing, left to right: result shape and the source index of every result index. -/
def basic : List Ix → List Nat → List Nat × (List Nat → List Nat)
  | [], sh => (sh, id)
  | .int i :: r, n :: sh =>
      let (s, f) := basic r sh
      (s, fun o => (if i < 0 then i + Int.ofNat n else i).toNat :: f o)
  | .slice a b c :: r, n :: sh =>
      let (s, f) := basic r sh
      let (first, cnt, step) := pySlice n a b c
      (cnt :: s, fun o => (first + Int.ofNat (o.headD 0) * step).toNat :: f o.tail)
  | .newaxis :: r, sh =>
      let (s, f) := basic r sh
      (1 :: s, fun o => f o.tail)
  | _ :: r, sh => basic r sh      -- not reached for admissible indices

/-- `numpy(x)[idx]` for an admissible basic index. -/
def getitem (t : Tensor α) (idx : List Ix) : Tensor α :=
  let (s, f) := basic (expand t.rank idx) t.shape
  ⟨s, fun o => t.get (f o)⟩

/-- `numpy(x)[mask]`: elements at the `true` positions of the mask, row-major, trailing axes kept. -/
def maskSelect (t : Tensor α) (mask : Tensor Bool) : Tensor α :=
  let sel := (allIdx mask.shape).filter mask.get
  ⟨sel.length :: t.shape.drop mask.rank, fun ix => t.get (sel.getD (ix.headD 0) [] ++ ix.tail)⟩

/-- `numpy(x)[int_array]` (= `take` along axis 0, negative indices from the end). -/
def intSelect (t : Tensor α) (index : Tensor Int) : Tensor α :=
  ⟨index.shape ++ t.shape.tail, fun ix =>
    let i := index.get (ix.take index.rank)
    t.get ((if i < 0 then i + Int.ofNat (t.shape.headD 0) else i).toNat :: ix.drop index.rank)⟩

/-- The Array-API standard's bounds for one slice on an axis of extent `n` (the domain of C08). -/
def sliceInBounds (n : Int) (a b c : Option Int) : Prop :=
  let step := c.getD 1
  step ≠ 0 ∧
  (∀ v, a = some v → if step > 0 then -n ≤ v ∧ v ≤ n else -n ≤ v ∧ v ≤ max 0 (n - 1)) ∧
  (∀ v, b = some v → if step > 0 then -n ≤ v ∧ v ≤ n else -n - 1 ≤ v ∧ v ≤ max 0 (n - 1))

end Spec

end Ndx
