/-!
# Basic definitions shared by every model file (core Lean only, no imports).

* `PyErr`   – the exception classes the properties distinguish.
* `Tensor`  – N-d tensors as *index functions* (`shape` + `get : List Nat → α`), so that
  data-movement operators are index remappings and equalities are proved pointwise.
* row-major enumeration (`allIdx`, `ravel`) used by the executable driver.
-/
namespace Ndx

/-- Python exception classes, as far as the properties distinguish them. -/
inductive PyErr
  | typeError        -- TypeError that is not one of the two subclasses below
  | unsupportedOp    -- ndonnx.UnsupportedOperationError (subclass of TypeError)
  | castError        -- ndonnx CastError (subclass of TypeError)
  | indexError
  | valueError
  | attributeError
  | other            -- anything else (spox InferenceError, onnxruntime failures, …)
deriving DecidableEq, Repr, Inhabited

def PyErr.name : PyErr → String
  | .typeError => "TypeError"
  | .unsupportedOp => "UnsupportedOperationError"
  | .castError => "CastError"
  | .indexError => "IndexError"
  | .valueError => "ValueError"
  | .attributeError => "AttributeError"
  | .other => "Other"

/-- Is the class a `TypeError` in Python's hierarchy? (C17: "raises a TypeError") -/
def PyErr.isTypeError : PyErr → Bool
  | .typeError | .unsupportedOp | .castError => true
  | _ => false

/-- N-d tensor as an index function. Only `get` at in-range indices is meaningful. -/
structure Tensor (α : Type) where
  shape : List Nat
  get : List Nat → α

namespace Tensor

def rank (t : Tensor α) : Nat := t.shape.length

def map (f : α → β) (t : Tensor α) : Tensor β := ⟨t.shape, fun i => f (t.get i)⟩

end Tensor

/-- `idx` addresses an element of a tensor with shape `shape`. -/
def InRange : List Nat → List Nat → Prop
  | [], [] => True
  | n :: sh, i :: ix => i < n ∧ InRange sh ix
  | _, _ => False

instance : (sh ix : List Nat) → Decidable (InRange sh ix)
  | [], [] => isTrue trivial
  | n :: sh, i :: ix =>
      match (inferInstance : Decidable (i < n)), instDecidableInRange sh ix with
      | isTrue h1, isTrue h2 => isTrue ⟨h1, h2⟩
      | isFalse h1, _ => isFalse (fun h => h1 h.1)
      | _, isFalse h2 => isFalse (fun h => h2 h.2)
  | [], _ :: _ => isFalse (fun h => h)
  | _ :: _, [] => isFalse (fun h => h)

/-- Same shape and pointwise equal on in-range indices. -/
def Tensor.Equiv (a b : Tensor α) : Prop :=
  a.shape = b.shape ∧ ∀ ix, InRange a.shape ix → a.get ix = b.get ix

def sizeOf' (shape : List Nat) : Nat := shape.foldr (· * ·) 1

/-- All in-range indices of a shape, row-major order. -/
def allIdx : List Nat → List (List Nat)
  | [] => [[]]
  | n :: sh => (List.range n).flatMap (fun i => (allIdx sh).map (fun r => i :: r))

/-- Row-major flat offset. -/
def ravel : List Nat → List Nat → Nat
  | [], _ => 0
  | _, [] => 0
  | _ :: sh, i :: ix => i * sizeOf' sh + ravel sh ix

/-- Row-major flat data of a tensor. -/
def Tensor.toFlat (t : Tensor α) : List α := (allIdx t.shape).map t.get

/-- Token tensor: element = its own row-major flat position. -/
def tokens (shape : List Nat) : Tensor Nat := ⟨shape, fun ix => ravel shape ix⟩

/-- Tensor from flat row-major data. -/
def ofFlat [Inhabited α] (shape : List Nat) (data : Array α) : Tensor α :=
  ⟨shape, fun ix => data[ravel shape ix]!⟩

def int64Max : Int := 9223372036854775807
def int64Min : Int := -9223372036854775808

end Ndx
