import NdonnxVerif.Model.TGraph
/-!
# The graph terms ndonnx is modelled to emit (core Lean only)

Each builder mirrors, statement by statement, the Python function named in its comment.  The check renders the
builder's term for the arguments of a call and compares it with the rendering of the graph the library exported
for that call (tie B).  Builders take the operand as a term, so they compose the way the Python calls compose.
-/
namespace Ndx.TGraph
open Ndx

def ivec (l : List Int) : TG := .const [l.length] l
def iscalar (v : Int) : TG := .const [] [v]

/-- `_opset_extensions.getitem` for a tuple of scalar entries (after `_normalise_index`): one `Slice` over the
explicit-step slices, scalar `Gather`s for the integers in reverse axis order, one `Unsqueeze` for the `None`s. -/
def getitemGraph (x : TG) (index : List NIx) : TG :=
  let sl := axisSlices index
  let t1 := if sl.isEmpty then x else
    .slice x (ivec (sl.map (·.2.1))) (ivec (sl.map (·.2.2.1))) (ivec (sl.map (fun s => Int.ofNat s.1)))
      (ivec (sl.map (·.2.2.2)))
  let t2 := (axisIndices index).reverse.foldl (fun acc p => TG.gather (Int.ofNat p.1) acc (iscalar p.2)) t1
  let na := axisNewAxes index
  if na.isEmpty then t2 else .unsqueeze t2 (ivec (na.map Int.ofNat))

/-- The index vector of one `(shift, axis)` step of `UniformShapeOperations.roll`, computed from the run-time
shape of `src` (the array's first field): `Mod(Range(0, len, 1) + (-shift + len), where(len == 0, 1, len))`. -/
def rollIdx (src : TG) (sh ax : Int) : TG :=
  let len := TG.gather 0 (.shape src) (iscalar ax)
  let shift := TG.bin .add (iscalar (-sh)) len
  let rng := TG.cast 7 (.range (iscalar 0) len (iscalar 1))
  let divisor := TG.sel (.bin .equal len (iscalar 0)) (iscalar 1) len
  .bin .mod0 (.bin .add rng shift) divisor

/-- One step on a field: `take(field, idx, axis)`; the shape is read from `src`, which is rolled alongside
(`field = src` for a plain array and for the values field; for the null field `src` is the values field). -/
def rollStep (fs : TG × TG) (sh ax : Int) : TG × TG :=
  (.gather ax fs.1 (rollIdx fs.2 sh ax), .gather ax fs.2 (rollIdx fs.2 sh ax))

def rollSteps (field src : TG) (steps : List (Int × Int)) : TG × TG :=
  steps.foldl (fun acc p => rollStep acc p.1 p.2) (field, src)

/-- `roll(x, shifts, axes)`: the steps in order, then `reshape(·, shape(x))`. -/
def rollGraph (field src : TG) (steps : List (Int × Int)) : TG :=
  .reshape (rollSteps field src steps).1 (.shape src)

/-- `reshape(x, shape)` with a static target (may contain one `-1`); `reshape(x, [-1])` of a rank-1 array is a
copy. -/
def reshapeGraph (x : TG) (rank : Nat) (shape : List Int) : TG :=
  if shape = [-1] ∧ rank = 1 then x else .reshape x (ivec shape)

/-- `roll(x, shift)` without an axis: flatten, roll axis 0, reshape back. -/
def rollFlatGraph (field src : TG) (rank : Nat) (sh : Int) : TG :=
  .reshape (rollStep (reshapeGraph field rank [-1], reshapeGraph src rank [-1]) sh 0).1 (.shape src)

/-- `flip(x, axes)` on a rank-`rank` array (`axes` already non-negative): `x[..., ::-1, ...]`. -/
def flipIndex (rank : Nat) (axes : List Nat) : List NIx :=
  (List.range rank).map (fun i => if axes.contains i then NIx.sl int64Max int64Min (-1) else NIx.full)

def flipGraph (x : TG) (rank : Nat) (axes : List Nat) : TG :=
  if rank = 0 then x else getitemGraph x (flipIndex rank axes)

/-- `expand_dims(x, axis)`. -/
def expandDimsGraph (x : TG) (axis : Int) : TG := .unsqueeze x (ivec [axis])

/-- `squeeze(x, axes)` (`axes = ()` returns a copy). -/
def squeezeGraph (x : TG) (axes : List Int) : TG := if axes.isEmpty then x else .squeeze x (ivec axes)

/-- `permute_dims(x, axes)`. -/
def permuteGraph (x : TG) (perm : List Nat) : TG := .transpose perm x

/-- `matrix_transpose(x)` on a rank-`rank` array. -/
def matrixTransposeGraph (x : TG) (rank : Nat) : TG := .transpose (matrixTransposePerm rank) x

/-- `broadcast_to(x, shape)` with a static target. -/
def broadcastToGraph (x : TG) (shape : List Nat) : TG := .expand x (ivec (shape.map Int.ofNat))

/-- `take(x, indices, axis)` with constant 1-D indices. -/
def takeGraph (x : TG) (indices : List Int) (axis : Int) : TG := .gather axis x (ivec indices)

/-- `concat([x, y], axis)` / `stack([x, y], axis)`. -/
def concatGraph (x y : TG) (axis : Int) : TG := .concat axis x y
def stackGraph (x y : TG) (axis : Int) : TG := .concat axis (.unsqueeze x (ivec [axis])) (.unsqueeze y (ivec [axis]))

/-! ## reductions (`_numericimpl.py`: `sum/prod/min/max/all/any` on integer and boolean dtypes) -/

/-- `_via_i64_f64` / `via_upcast(int_dtype=int64)` on an integer dtype with ONNX code `t`. -/
def viaI64 (t : Nat) (f : TG → TG) (x : TG) : TG := if t = 7 then f x else .cast t (f (.cast 7 x))

/-- `x.astype(to)` for `x` of dtype `from` (same dtype: a copy, no node). -/
def astypeG (frm to : Nat) (x : TG) : TG := if frm = to then x else .cast to x

def isUnsignedCode (t : Nat) : Bool := t == 2 || t == 4 || t == 12 || t == 13
def bitsOfCode (t : Nat) : Nat :=
  if t == 2 || t == 3 then 8 else if t == 4 || t == 5 then 16 else if t == 6 || t == 12 then 32 else 64

/-- `_determine_reduce_op_dtype(x, None, maximum_unsigned_dtype)` on integer dtypes (`none` = TypeError). -/
def accCode (t maxU : Nat) : Option Nat :=
  if isUnsignedCode t then (if bitsOfCode t ≤ bitsOfCode maxU then some maxU else none) else some 7

def reduceCore (k : RKind) (keepdims : Bool) (axis : AxisArg) (rank : Nat) (x : TG) : TG :=
  .reduce k keepdims (axis != .none) x (ivec (normalizeAxes rank axis))

/-- `sum(x, axis=, dtype=, keepdims=)`. -/
def sumGraph (x : TG) (t : Nat) (dtype : Option Nat) (rank : Nat) (axis : AxisArg) (keepdims : Bool) : Option TG :=
  (match dtype with | some d => some d | none => accCode t 13).map (fun acc =>
    viaI64 acc (reduceCore .sum keepdims axis rank) (astypeG t acc x))

/-- `prod(x, axis=, dtype=, keepdims=)`.  `via_upcast` (without the unsafe unsigned cast `sum` uses) has no signed type
that holds uint64: an explicit `dtype=uint64` is a `TypeError`. -/
def prodGraph (x : TG) (t : Nat) (dtype : Option Nat) (rank : Nat) (axis : AxisArg) (keepdims : Bool) : Option TG :=
  (match dtype with | some d => some d | none => accCode t 12).bind (fun acc =>
    if acc = 13 then none else
    some (viaI64 acc (reduceCore .prod keepdims axis rank) (astypeG t acc x)))

def minGraph (x : TG) (t : Nat) (rank : Nat) (axis : AxisArg) (keepdims : Bool) : TG :=
  viaI64 t (reduceCore .min keepdims axis rank) x
def maxGraph (x : TG) (t : Nat) (rank : Nat) (axis : AxisArg) (keepdims : Bool) : TG :=
  viaI64 t (reduceCore .max keepdims axis rank) x

/-- `x != 0` on an integer array (through int64 unless it is int64), `x` itself on a boolean one. -/
def truthy (x : TG) (t : Nat) : TG :=
  if t = 9 then x else .not (.bin .equal (if t = 7 then x else .cast 7 x) (iscalar 0))

/-- `all(x, axis=, keepdims=)`: `min((x != 0).astype(int8)).astype(bool)`. -/
def allGraph (x : TG) (t : Nat) (rank : Nat) (axis : AxisArg) (keepdims : Bool) : TG :=
  .cast 9 (viaI64 3 (reduceCore .min keepdims axis rank) (.cast 3 (truthy x t)))

/-- `any(x, axis=, keepdims=)`: `max((x != 0).astype(int8)).astype(bool)`. -/
def anyGraph (x : TG) (t : Nat) (rank : Nat) (axis : AxisArg) (keepdims : Bool) : TG :=
  .cast 9 (viaI64 3 (reduceCore .max keepdims axis rank) (.cast 3 (truthy x t)))

/-! ## reductions of nullable integer arrays: nulls are replaced by the neutral element, the result is not nullable -/

/-- `where(null, fill, v)` on data of dtype `acc`: `where` routes unsigned operands through int64 and casts back. -/
def whereFill (acc : Nat) (null : TG) (fill : Int) (v : TG) : TG :=
  if isUnsignedCode acc then .cast acc (.sel null (iscalar fill) (.cast 7 v)) else .sel null (iscalar fill) v

/-- `sum(x)` for nullable `x` with fields `values`, `null`: `astype` to the accumulator, `where(null, 0, values)`, reduce. -/
def sumNullableGraph (values null : TG) (t : Nat) (rank : Nat) (axis : AxisArg) (keepdims : Bool) : Option TG :=
  (accCode t 13).map (fun acc =>
    viaI64 acc (reduceCore .sum keepdims axis rank) (whereFill acc null 0 (astypeG t acc values)))

/-- `prod(x)` for nullable `x`: `where(null, 1, values)`. -/
def prodNullableGraph (values null : TG) (t : Nat) (rank : Nat) (axis : AxisArg) (keepdims : Bool) : Option TG :=
  (accCode t 12).bind (fun acc => if acc = 13 then none else
    some (viaI64 acc (reduceCore .prod keepdims axis rank) (whereFill acc null 1 (astypeG t acc values))))

namespace Spec

/-- NumPy `flip` over a set of axes. -/
def flipAxes (t : Tensor α) (axes : List Nat) : Tensor α :=
  { shape := t.shape
    get := fun ix => t.get (ix.mapIdx (fun k i => if axes.contains k then t.shape.getD k 0 - 1 - i else i)) }

/-- NumPy `expand_dims(x, axis)` for `0 ≤ axis ≤ rank`. -/
def expandDims (t : Tensor α) (axis : Nat) : Tensor α :=
  { shape := t.shape.take axis ++ 1 :: t.shape.drop axis
    get := fun ix => t.get (ix.take axis ++ ix.drop (axis + 1)) }

/-- NumPy `squeeze(x, axis)` for one axis. -/
def squeezeAxis (t : Tensor α) (axis : Nat) : Tensor α :=
  { shape := t.shape.eraseIdx axis
    get := fun ix => t.get (ix.take axis ++ 0 :: ix.drop axis) }

/-- NumPy `concatenate([a, b], axis)`. -/
def concat (a b : Tensor α) (axis : Nat) : Tensor α :=
  { shape := a.shape.set axis (a.shape.getD axis 0 + b.shape.getD axis 0)
    get := fun ix => if ix.getD axis 0 < a.shape.getD axis 0 then a.get ix
                     else b.get (ix.set axis (ix.getD axis 0 - a.shape.getD axis 0)) }

end Spec
end Ndx.TGraph
