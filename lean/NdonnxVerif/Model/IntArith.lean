/-!
# Integer arithmetic as the exported graphs compute it (core Lean only)

Two's-complement wrap into a dtype, and the *algorithms* `_numericimpl.py` uses for the integer
functions that are more than one ONNX node: `remainder` (`Mod(fmod=1)` + sign correction with a
wrapping add), the shifts (routed through `uint64`, cast back), and the specification-level
functions they are proved equal to in `Props/C02.lean`.  The driver command `intop` runs these
definitions; the C02 check compares them with the implementation on every 8-bit pair and on
boundary grids of the wider types.
-/
namespace Ndx.C02

/-- Two's-complement wrap of an integer into `bits` bits, unsigned representative. -/
def wrapU (bits : Nat) (v : Int) : Int := v % (2 ^ bits : Int)

/-- Signed representative. -/
def wrapS (bits : Nat) (v : Int) : Int :=
  let m : Int := 2 ^ bits
  let u := v % m
  if u ≥ m / 2 then u - m else u

/-- Correction that turns a truncating remainder into the standard's: add the divisor when the
truncating remainder is non-zero and its sign differs from the divisor's. -/
def fmodOfTmod (a b : Int) : Int :=
  let r := Int.tmod a b
  if r ≠ 0 ∧ ((r < 0) ≠ (b < 0)) then r + b else r

/-- What the exported graph computes in a signed `bits`-wide dtype: the truncating remainder, the
correction test on the *remainder's* sign, and an addition that wraps in the dtype. -/
def remainderImpl (bits : Nat) (a b : Int) : Int :=
  let r := Int.tmod a b
  if r ≠ 0 ∧ ((r < 0) ≠ (b < 0)) then wrapS bits (r + b) else r

/-- A "simplified" correction test that multiplies remainder and divisor *in the dtype*. -/
def remainderProductTest (bits : Nat) (a b : Int) : Int :=
  let r := Int.tmod a b
  if wrapS bits (r * b) < 0 then wrapS bits (r + b) else r

/-- An integer dtype: width and signedness. -/
structure IType where
  bits : Nat
  signed : Bool
deriving DecidableEq, Repr

def IType.wrap (t : IType) (v : Int) : Int := if t.signed then wrapS t.bits v else wrapU t.bits v

def IType.inRange (t : IType) (v : Int) : Bool :=
  if t.signed then decide (-(2 ^ (t.bits - 1) : Int) ≤ v ∧ v < 2 ^ (t.bits - 1))
  else decide (0 ≤ v ∧ v < 2 ^ t.bits)

/-- Left shift as implemented: both operands cast to `uint64`, `BitShift(LEFT)`, cast back. -/
def lshiftImpl (t : IType) (x : Int) (s : Nat) : Int := t.wrap (wrapU 64 (wrapU 64 x * 2 ^ s))

/-- Right shift as implemented: cast to `uint64`, logical `BitShift(RIGHT)`, cast back. -/
def rshiftImpl (t : IType) (x : Int) (s : Nat) : Int := t.wrap (wrapU 64 x / 2 ^ s)

/-- The implementation's integer binary functions; `none` = outside the modelled domain
(zero divisor, shift amount not in `[0, bits)`). -/
def intOpImpl (op : String) (t : IType) (a b : Int) : Option Int :=
  match op with
  | "add" => some (t.wrap (a + b))
  | "subtract" => some (t.wrap (a - b))
  | "multiply" => some (t.wrap (a * b))
  | "remainder" => if b = 0 then none else some (if t.signed then remainderImpl t.bits a b else Int.tmod a b)
  | "bitwise_left_shift" => if 0 ≤ b ∧ b < t.bits then some (lshiftImpl t a b.toNat) else none
  | "bitwise_right_shift" => if 0 ≤ b ∧ b < t.bits then some (rshiftImpl t a b.toNat) else none
  | _ => none

/-- The Array API's value for the same functions (exact integer result, wrapped into the dtype). -/
def intOpSpec (op : String) (t : IType) (a b : Int) : Option Int :=
  match op with
  | "add" => some (t.wrap (a + b))
  | "subtract" => some (t.wrap (a - b))
  | "multiply" => some (t.wrap (a * b))
  | "remainder" => if b = 0 then none else some (Int.fmod a b)
  | "floor_divide" => if b = 0 then none else some (t.wrap (Int.fdiv a b))
  | "bitwise_left_shift" => if 0 ≤ b ∧ b < t.bits then some (t.wrap (a * 2 ^ b.toNat)) else none
  | "bitwise_right_shift" => if 0 ≤ b ∧ b < t.bits then some (a / 2 ^ b.toNat) else none
  | _ => none

end Ndx.C02
