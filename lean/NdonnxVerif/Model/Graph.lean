import NdonnxVerif.Model.IntArith
/-!
# Scalar ONNX graph terms of the integer / boolean element-wise functions (core Lean only)

`G` is the expression tree the check's translator reads off the *exported graph* of
`ndx.<fn>(a, b)` traced on symbolic placeholders (`Identity` wrappers stripped, node outputs inlined,
`saturate` attributes dropped).  `eval` is the element-level meaning of those ONNX operators on
two's-complement integers and booleans.  `gterms fn t` lists the graph shapes the model accepts for
a function at an integer dtype: the native form and the routed forms (`Cast` to a wider type, op,
`Cast` back).  `Props/C02.lean` proves `eval g = specification` for every member of `gterms`, all
widths and all in-range operands; the check verifies on every run that the traced graph *is* a
member (tie B: graph-level, covers every value and size of that signature).
-/
namespace Ndx.Graph
open Ndx.C02

inductive UnOp | cast (k : Nat) | neg | abs | bnot | not
deriving DecidableEq, Repr

inductive BinOp
  | add | sub | mul | modF | shl | shr | band | bor | bxor | eq | lt | le | gt | ge | and | or | xor
deriving DecidableEq, Repr

inductive G where
  | inp (i : Nat)
  | const (code : Nat) (v : Int)
  | un (op : UnOp) (x : G)
  | bin (op : BinOp) (x y : G)
  | sel (c x y : G)
  | falseLike (x : G)      -- `Expand(Constant(False), Shape(x))`: an all-false mask of `x`'s shape
deriving DecidableEq, Repr, Inhabited

/-- ONNX `TensorProto.DataType` codes of the integer dtypes. -/
def itypeOfCode : Nat → Option IType
  | 2 => some ⟨8, false⟩ | 3 => some ⟨8, true⟩ | 4 => some ⟨16, false⟩ | 5 => some ⟨16, true⟩
  | 6 => some ⟨32, true⟩ | 7 => some ⟨64, true⟩ | 12 => some ⟨32, false⟩ | 13 => some ⟨64, false⟩
  | _ => none

def codeOf (t : IType) : Nat :=
  match t.bits, t.signed with
  | 8, false => 2 | 8, true => 3 | 16, false => 4 | 16, true => 5
  | 32, true => 6 | 64, true => 7 | 32, false => 12 | _, _ => 13

/-- The eight integer dtypes. -/
def itypes : List IType :=
  [⟨8, true⟩, ⟨16, true⟩, ⟨32, true⟩, ⟨64, true⟩, ⟨8, false⟩, ⟨16, false⟩, ⟨32, false⟩, ⟨64, false⟩]

/-- Scalar values: an integer of a dtype (by ONNX code) or a boolean. -/
inductive SV where
  | i (code : Nat) (v : Int)
  | b (v : Bool)
deriving DecidableEq, Repr

def castTo (k : Nat) : SV → Option SV
  | .i _ v => if k = 9 then some (.b (v != 0)) else (itypeOfCode k).map (fun t => .i k (t.wrap v))
  | .b v => if k = 9 then some (.b v) else (itypeOfCode k).map (fun _ => .i k (if v then 1 else 0))

def evalUn (op : UnOp) (x : SV) : Option SV :=
  match op, x with
  | .cast k, x => castTo k x
  | .neg, .i c v => (itypeOfCode c).map (fun t => .i c (t.wrap (-v)))
  | .abs, .i c v => (itypeOfCode c).map (fun t => .i c (t.wrap (if v < 0 then -v else v)))
  | .bnot, .i c v => (itypeOfCode c).map (fun t => .i c (t.wrap (-v - 1)))
  | .not, .b v => some (.b (!v))
  | _, _ => none

/-- Bitwise operations on the two's-complement representation. -/
def bvBin (f : (n : Nat) → BitVec n → BitVec n → BitVec n) (t : IType) (x y : Int) : Int :=
  let r := f t.bits (BitVec.ofInt t.bits x) (BitVec.ofInt t.bits y)
  if t.signed then r.toInt else r.toNat

def evalBinInt (op : BinOp) (t : IType) (c : Nat) (x y : Int) : Option SV :=
  match op with
  | .add => some (.i c (t.wrap (x + y)))
  | .sub => some (.i c (t.wrap (x - y)))
  | .mul => some (.i c (t.wrap (x * y)))
  | .modF => if y ≠ 0 then some (.i c (Int.tmod x y)) else none
  | .shl => if t.signed ∨ y < 0 ∨ (t.bits : Int) ≤ y then none else some (.i c (t.wrap (x * 2 ^ y.toNat)))
  | .shr => if t.signed ∨ y < 0 ∨ (t.bits : Int) ≤ y then none else some (.i c (x / 2 ^ y.toNat))
  | .band => some (.i c (bvBin (fun _ p q => p &&& q) t x y))
  | .bor => some (.i c (bvBin (fun _ p q => p ||| q) t x y))
  | .bxor => some (.i c (bvBin (fun _ p q => p ^^^ q) t x y))
  | .eq => some (.b (x == y))
  | .lt => some (.b (decide (x < y)))
  | .le => some (.b (decide (x ≤ y)))
  | .gt => some (.b (decide (x > y)))
  | .ge => some (.b (decide (x ≥ y)))
  | _ => none

def evalBinBool (op : BinOp) (v w : Bool) : Option SV :=
  match op with
  | .and => some (.b (v && w))
  | .or => some (.b (v || w))
  | .xor => some (.b (v != w))
  | .eq => some (.b (v == w))
  | _ => none

def evalBin (op : BinOp) (x y : SV) : Option SV :=
  match x, y with
  | .i c v, .i c' w => if c = c' then (itypeOfCode c).bind (fun t => evalBinInt op t c v w) else none
  | .b v, .b w => evalBinBool op v w
  | _, _ => none

def sameType : SV → SV → Bool
  | .i c _, .i c' _ => c == c'
  | .b _, .b _ => true
  | _, _ => false

def evalSel : Option SV → Option SV → Option SV → Option SV
  | some (.b cv), some xv, some yv => if sameType xv yv then some (if cv then xv else yv) else none
  | _, _, _ => none

def eval (env : List SV) : G → Option SV
  | .inp i => env[i]?
  | .const code v =>
      if code = 9 then some (.b (v != 0))
      else (itypeOfCode code).bind (fun t => if t.inRange v then some (.i code v) else none)
  | .un op x => (eval env x).bind (evalUn op)
  | .bin op x y => (eval env x).bind (fun a => (eval env y).bind (fun b => evalBin op a b))
  | .sel c x y => evalSel (eval env c) (eval env x) (eval env y)
  | .falseLike x => (eval env x).map (fun _ => .b false)

def UnOp.render : UnOp → String
  | .cast k => s!"Cast[to={k}]" | .neg => "Neg" | .abs => "Abs" | .bnot => "BitwiseNot" | .not => "Not"

def BinOp.render : BinOp → String
  | .add => "Add" | .sub => "Sub" | .mul => "Mul" | .modF => "Mod[fmod=1]"
  | .shl => "BitShift[direction=LEFT]" | .shr => "BitShift[direction=RIGHT]"
  | .band => "BitwiseAnd" | .bor => "BitwiseOr" | .bxor => "BitwiseXor"
  | .eq => "Equal" | .lt => "Less" | .le => "LessOrEqual" | .gt => "Greater" | .ge => "GreaterOrEqual"
  | .and => "And" | .or => "Or" | .xor => "Xor"

/-- Canonical text, identical to the translator's rendering of the exported graph. -/
def G.render : G → String
  | .inp 0 => "a"
  | .inp 1 => "b"
  | .inp 2 => "a_null"
  | .inp 3 => "b_null"
  | .inp i => s!"in{i}"
  | .const code v => s!"(Constant[{code}:{v}])"
  | .un op x => s!"({op.render} {x.render})"
  | .bin op x y => s!"({op.render} {x.render} {y.render})"
  | .sel c x y => s!"(Where {c.render} {x.render} {y.render})"
  | .falseLike x => s!"(FalseLike {x.render})"

/-! ## the graph shapes of each function -/

def a : G := .inp 0
def b : G := .inp 1
def cast (k : Nat) (g : G) : G := .un (.cast k) g
/-- Optional cast: `none` = the operand is used as is. -/
def ocast : Option Nat → G → G
  | none, g => g
  | some k, g => cast k g

/-- Binary arithmetic: native, or through a wider type `v` and back. -/
def arithTerm (op : BinOp) (t : IType) (via : Option Nat) (x y : G) : G :=
  match via with
  | none => .bin op x y
  | some v => cast (codeOf t) (.bin op (cast v x) (cast v y))

def negTerm (t : IType) (via : Option Nat) : G :=
  match via with
  | none => .un .neg a
  | some v => cast (codeOf t) (.un .neg (cast v a))

/-- Comparison: native or through `v`, no cast back (the result is boolean). -/
def cmpTerm (op : BinOp) (via : Option Nat) (neg : Bool) : G :=
  let core := G.bin op (ocast via a) (ocast via b)
  if neg then .un .not core else core

def signTerm (t : IType) (via : Option Nat) : G :=
  let x := ocast via a
  let k := match via with | some v => v | none => codeOf t
  let w := G.sel (.bin .gt x (.const k 0)) (.const k 1)
            (.sel (.bin .lt x (.const k 0)) (.const k (-1)) (.const k 0))
  match via with
  | none => w
  | some _ => cast (codeOf t) w

def shiftTerm (op : BinOp) (t : IType) (via : Option Nat) : G :=
  match via with
  | none => .bin op a b
  | some v => cast (codeOf t) (.bin op (cast v a) (cast v b))

/-- The type code a routed computation runs in. -/
def routeCode (t : IType) : Option Nat → Nat
  | some v => v
  | none => codeOf t

/-- `remainder`'s sign test on `r = Mod(fmod=1)(a, b)`: `r ≠ 0 ∧ (r < 0) ≠ (b < 0)`, computed in type `k` through `cv`. -/
def remCond (cv : Option Nat) (k : Nat) : G :=
  let r := G.bin .modF a b
  .bin .and
    (.un .not (.bin .eq (ocast cv r) (.const k 0)))
    (.un .not (.bin .eq (.bin .lt (ocast cv r) (.const k 0)) (.bin .lt (ocast cv b) (.const k 0))))

/-- `remainder`'s corrected value `r + b`, computed through `cv` and cast back to `t`. -/
def remSum (t : IType) : Option Nat → G
  | none => .bin .add (.bin .modF a b) b
  | some v => cast (codeOf t) (.bin .add (cast v (.bin .modF a b)) (cast v b))

/-- `remainder`: `Where(cond, r + b, r)` with the selection done natively or in `wv`. -/
def remTerm (t : IType) (cv wv : Option Nat) : G :=
  match wv with
  | none => .sel (remCond cv (routeCode t cv)) (remSum t cv) (.bin .modF a b)
  | some w => cast (codeOf t) (.sel (remCond cv (routeCode t cv)) (cast w (remSum t cv)) (cast w (.bin .modF a b)))

/-- Types in which a `Where` on `t` data may be carried out: any other integer type at least as
wide (casting there and back is the identity on `t`'s range, also for `uint64 → int64 → uint64`). -/
def widerCodes (t : IType) : List Nat :=
  (itypes.filter (fun w => decide (t.bits ≤ w.bits) && (w != t))).map codeOf

/-- Routing of the arithmetic family: native or through `int64` (the implementation's
`_via_i64_f64`, which also sends `uint64` through `int64`). -/
def viaI64 : List (Option Nat) := [none, some 7]

/-- Acceptable graph terms of `fn` at integer dtype `t` (empty = not modelled). -/
def gterms (fn : String) (t : IType) : List G :=
  match fn with
  | "add" => viaI64.map (fun v => arithTerm .add t v a b)
  | "subtract" => viaI64.map (fun v => arithTerm .sub t v a b)
  | "multiply" => viaI64.map (fun v => arithTerm .mul t v a b)
  | "square" => viaI64.map (fun v => arithTerm .mul t v a a)
  | "negative" => viaI64.map (fun v => negTerm t v)
  | "positive" | "ceil" | "floor" | "round" | "trunc" => [a]
  | "abs" => [.un .abs a]
  | "sign" => if t.signed then viaI64.map (fun v => signTerm t v) else [signTerm t (some 7)]
  | "bitwise_invert" => [.un .bnot a]
  | "bitwise_and" => [.bin .band a b]
  | "bitwise_or" => [.bin .bor a b]
  | "bitwise_xor" => [.bin .bxor a b]
  | "equal" => viaI64.map (fun v => cmpTerm .eq v false)
  | "not_equal" => viaI64.map (fun v => cmpTerm .eq v true)
  | "less" => viaI64.map (fun v => cmpTerm .lt v false)
  | "less_equal" => viaI64.map (fun v => cmpTerm .le v false)
  | "greater" => viaI64.map (fun v => cmpTerm .gt v false)
  | "greater_equal" => viaI64.map (fun v => cmpTerm .ge v false)
  | "bitwise_left_shift" => if t.signed then [shiftTerm .shl t (some 13)] else [shiftTerm .shl t none, shiftTerm .shl t (some 13)]
  | "bitwise_right_shift" => if t.signed then [shiftTerm .shr t (some 13)] else [shiftTerm .shr t none, shiftTerm .shr t (some 13)]
  | "remainder" =>
      (viaI64.map (fun cv => (none :: (widerCodes t).map some).map (fun wv => remTerm t cv wv))).flatten
  | _ => []

/-! ## null masks of the element-wise functions on nullable operands

Inputs of the mask graph: `inp 0/1` = the operands' values (only their *shape* can matter, through
`falseLike`), `inp 2/3` = the operands' null masks. -/

def aNull : G := .inp 2
def bNull : G := .inp 3

/-- Accepted graphs of the result's null mask for a binary function; `an`/`bn`: is the operand nullable. -/
def nullTerms2 (an bn : Bool) : List G :=
  match an, bn with
  | true, true => [.bin .or aNull bNull]
  | true, false => [.bin .or aNull (.falseLike b), aNull]
  | false, true => [.bin .or (.falseLike a) bNull, bNull]
  | false, false => []

/-- Accepted graphs of the result's null mask for a unary function on a nullable operand. -/
def nullTerms1 : List G := [aNull, .bin .or aNull aNull]      -- the second form: `square` = `multiply(x, x)`

/-- Acceptable terms at `bool`. -/
def gtermsBool (fn : String) : List G :=
  match fn with
  | "logical_and" | "bitwise_and" => [.bin .and a b]
  | "logical_or" | "bitwise_or" => [.bin .or a b]
  | "logical_xor" | "bitwise_xor" => [.bin .xor a b]
  | "logical_not" | "bitwise_invert" => [.un .not a]
  | "equal" => [.bin .eq a b]
  | "not_equal" => [.un .not (.bin .eq a b)]
  | _ => []

end Ndx.Graph
