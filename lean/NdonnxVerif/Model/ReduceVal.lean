import NdonnxVerif.Model.Reduce
/-!
# Which elements a reduction combines (core Lean only)

Value-level companion of `Model/Reduce.lean`: for an output position, the list of input elements
ONNX `Reduce*` folds (row-major over the reduced axes), for any set of reduced axes and `keepdims`.
-/
namespace Ndx

/-- Input index from an output index `o` (non-reduced axes) and an index `r` over the reduced axes. -/
def mergeIdx : List Bool → List Nat → List Nat → List Nat
  | [], _, _ => []
  | true :: rs, o, x :: r => x :: mergeIdx rs o r
  | false :: rs, y :: o, r => y :: mergeIdx rs o r
  | _ :: rs, o, r => 0 :: mergeIdx rs o r       -- malformed index: not reached for in-range positions

/-- Extents of the reduced axes, in order. -/
def reducedExtents : List Nat → List Bool → List Nat
  | n :: sh, true :: rs => n :: reducedExtents sh rs
  | _ :: sh, false :: rs => reducedExtents sh rs
  | _, _ => []

/-- Extents of the kept axes, in order. -/
def keptExtents : List Nat → List Bool → List Nat
  | n :: sh, false :: rs => n :: keptExtents sh rs
  | _ :: sh, true :: rs => keptExtents sh rs
  | _, _ => []

/-- With `keepdims` the reduced axes stay with extent 1. -/
def keepdimsShape : List Nat → List Bool → List Nat
  | n :: sh, b :: rs => (if b then 1 else n) :: keepdimsShape sh rs
  | _, _ => []

/-- Drop the coordinates of the reduced axes from a `keepdims` output index. -/
def dropReduced : List Bool → List Nat → List Nat
  | true :: rs, _ :: o => dropReduced rs o
  | false :: rs, y :: o => y :: dropReduced rs o
  | _, _ => []

/-- The elements folded into output position `o` (an index over the kept axes). -/
def reduceVals (t : Tensor α) (red : List Bool) (o : List Nat) : List α :=
  (allIdx (reducedExtents t.shape red)).map (fun r => t.get (mergeIdx red o r))

/-- ONNX `Reduce*` as a fold (`f`, `init`) over `reduceVals`. -/
def reduceT (f : β → α → β) (init : β) (t : Tensor α) (red : List Bool) (keepdims : Bool) : Tensor β :=
  if keepdims then
    ⟨keepdimsShape t.shape red, fun o => (reduceVals t red (dropReduced red o)).foldl f init⟩
  else
    ⟨keptExtents t.shape red, fun o => (reduceVals t red o).foldl f init⟩

/-- The reduced-axes flags of an `axis` argument on a rank. -/
def redFlags (rank : Nat) (axis : AxisArg) : List Bool :=
  (List.range rank).map (fun i => Spec.reduced rank axis i)

end Ndx
