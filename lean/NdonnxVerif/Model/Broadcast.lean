import NdonnxVerif.Model.Basic
/-!
# NumPy / ONNX multidirectional broadcasting of shapes, and the guards of the value-dependent
shortcuts (`where`, `logical_and`, `logical_or` in `_shapeimpl.py` / `_boolimpl.py`).

Shapes are handled right-aligned, i.e. on reversed lists.
-/
namespace Ndx

/-- Broadcasting of two extents. -/
def bdim (a b : Nat) : Option Nat :=
  if a = b then some a else if a = 1 then some b else if b = 1 then some a else none

/-- Broadcasting of two reversed shapes. -/
def bshapeRev : List Nat → List Nat → Option (List Nat)
  | [], t => some t
  | s, [] => some s
  | a :: s, b :: t =>
    match bdim a b, bshapeRev s t with
    | some d, some r => some (d :: r)
    | _, _ => none

/-- `numpy.broadcast_shapes(s, t)`. -/
def bshape (s t : List Nat) : Option (List Nat) := (bshapeRev s.reverse t.reverse).map List.reverse

/-- The guard `_known_to_broadcast_into(shape, target)` on reversed, fully known shapes: no more
dimensions than the target and every dimension is 1 or equal to the target's. -/
def intoRev : List Nat → List Nat → Bool
  | [], _ => true
  | _ :: _, [] => false
  | a :: s, b :: t => (a == 1 || a == b) && intoRev s t

def knownToBroadcastInto (s t : List Nat) : Bool := intoRev s.reverse t.reverse

/-- The older guard of `logical_and/or` and of `where`'s constant-condition shortcut for the *condition*:
a single element (all extents 1) and rank not larger than the other operand's. -/
def singleElementOfRankLe (s t : List Nat) : Bool := s.all (· == 1) && decide (s.length ≤ t.length)

end Ndx
