import NdonnxVerif.Model.FnLaw
/-! Decoders used by the generated tables (`lean/Gen/*.lean`): rows are plain numbers so that the
generated files stay small and quick to elaborate. -/
namespace Ndx.GenSupport
open Ndx

/-- 0..23 = array of dtype `Dt.all[i]`; 24..27 = Python bool / int / float / str scalar. -/
def decodeOperand (n : Nat) : Operand :=
  if n < 24 then .arr (Dt.ofIdx n)
  else .py (match n with | 24 => .pbool | 25 => .pint | 26 => .pfloat | _ => .pstr)

/-- 0..23 = returned an array of dtype `Dt.all[i]`; 24 = TypeError (or subclass); 25 = other. -/
def decodeOutcome (n : Nat) : Outcome :=
  if n < 24 then .ok (Dt.ofIdx n) else if n = 24 then .typeError else .otherError

def encodeOpt : Option Dt → Nat
  | some d => d.idx
  | none => 24

/-- A dumped row `(class, operands, outcome)` obeys the reference law. -/
def rowOk (r : Nat × List Nat × Nat) : Bool :=
  (fnLaw (FnClass.all.getD r.1 default) (r.2.1.map decodeOperand)).admits (decodeOutcome r.2.2)

/-- Lookup in a dumped binary table `(a, b, result)`. -/
def look (t : List (Nat × Nat × Nat)) (a b : Nat) : Nat :=
  ((t.find? (fun r => r.1 == a && r.2.1 == b)).map (·.2.2)).getD 99

end Ndx.GenSupport
