/-!
# `searchsorted` as ndonnx computes it (core Lean only)

`_numericimpl.searchsorted`: rank every element of `concat(x1, x2)` among the distinct values
(`unique_all(...).inverse_indices + 1`), scatter the multiplicity in `x1` of each `x1` value into slot
`rank + 1` of a zero array with `len + 2` slots, take the cumulative sum, and read slot `rank(v)`
(`side="left"`) or `rank(v) + 1` (`side="right"`) for every needle `v`.
-/
namespace Ndx.Search

/-- 1-based rank of `w` among the distinct values `u` (`u` = the distinct values of `x1 ++ x2`):
one more than the number of distinct values below it. -/
def rank (u : List Int) (w : Int) : Nat := 1 + (u.filter (· < w)).length

/-- Slot `s` of `how_many` before the cumulative sum: the multiplicity in `xs` of the value whose rank is
`s - 1` (every `x1` element writes the multiplicity of its value into slot `rank + 1`). -/
def slot (u xs : List Int) (s : Nat) : Nat := (xs.filter (fun w => rank u w + 1 == s)).length

/-- `how_many` after the cumulative sum, at slot `k`. -/
def cumSlot (u xs : List Int) (k : Nat) : Nat := ((List.range (k + 1)).map (slot u xs)).sum

/-- The implementation's answer for one needle. -/
def searchsortedImpl (u xs : List Int) (v : Int) (right : Bool) : Nat :=
  cumSlot u xs (if right then rank u v + 1 else rank u v)

/-- Distinct values of a list (order irrelevant for `rank`). -/
def distinct : List Int → List Int
  | [] => []
  | x :: xs => if x ∈ distinct xs then distinct xs else x :: distinct xs

end Ndx.Search
