import NdonnxVerif.Model.Index
/-!
# Static shape of `x[index]` as reported before any data exists (core Lean only)

`opx.getitem` annotates the result of its `Slice` by hand (`unsafe_reshape`: every extent becomes unknown, the rank
is kept); the scalar `Gather`s and the `Unsqueeze` that follow are typed by
ONNX shape inference (an axis disappears / an extent-1 axis appears).  `staticGetitem` is that computation on
declared dims (`none` = symbolic or unknown).
-/
namespace Ndx

abbrev Dims : Type := List (Option Nat)

/-- A run-time shape is consistent with declared dims. -/
def Admits (d : Dims) (sh : List Nat) : Prop :=
  d.length = sh.length ∧ ∀ (k v : Nat), d[k]? = some (some v) → sh[k]? = some v

def staticSlice (d : Dims) (_specs : List (Nat × Int × Int × Int)) : Dims :=
  d.map (fun _ => none)

def staticGetitem (d : Dims) (index : List NIx) : Dims :=
  let sl := axisSlices index
  let d1 := if sl.isEmpty then d else staticSlice d sl
  let d2 := (axisIndices index).reverse.foldl (fun acc p => acc.eraseIdx p.1) d1
  let na := axisNewAxes index
  if na.isEmpty then d2 else insertAt d2 (some 1) na

end Ndx
