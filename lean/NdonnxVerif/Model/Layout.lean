import NdonnxVerif.Model.Index
/-!
# Layout functions with algorithmic content (`_shapeimpl.py`): `roll` (Range → Add → Mod(fmod=0) →
Gather), `flip` (open-ended negative-step `Slice`), `take` (Gather with negative indices),
`matrix_transpose` (Transpose with a computed permutation) and `_transmute` (same map on every
field), on N-d index-function tensors.
-/
namespace Ndx

/-- Apply `f` to the `axis`-th component of an index. -/
def updAxis (ix : List Nat) (axis : Nat) (f : Nat → Nat) : List Nat :=
  ix.mapIdx (fun k i => if k = axis then f i else i)

/-- ONNX `Gather(axis)` with a 1-D index list (negative indices count from the end). -/
def onnxGatherAxis (t : Tensor α) (axis : Nat) (ind : List Int) : Tensor α :=
  let n : Int := t.shape.getD axis 0
  { shape := t.shape.set axis ind.length
    get := fun ix => t.get (updAxis ix axis (fun i =>
      let j := ind.getD i 0
      (if j < 0 then j + n else j).toNat)) }

/-- The index vector `roll` computes for an axis of extent `n`: `Mod(Range(0, n, 1) + (−shift + n), n)`
with ONNX `Mod(fmod=0)` (sign of the divisor, i.e. `Int.emod` for a positive divisor). -/
def rollIndices (n : Nat) (sh : Int) : List Int :=
  (List.range n).map (fun (i : Nat) => ((i : Int) + (-sh + (n : Int))) % (n : Int))

/-- `ndx.roll(x, shift, axis)` for one (shift, axis) pair. -/
def rollAxisModel (t : Tensor α) (sh : Int) (axis : Nat) : Tensor α :=
  onnxGatherAxis t axis (rollIndices (t.shape.getD axis 0) sh)

/-- `ndx.flip` on one axis: `x[..., ::-1, ...]`, i.e. ONNX `Slice(INT64_MAX, INT64_MIN, -1)`. -/
def flipAxisModel (t : Tensor α) (axis : Nat) : Tensor α :=
  onnxSlice t [(axis, int64Max, int64Min, -1)]

/-- The permutation `matrix_transpose` passes to `Transpose`. -/
def matrixTransposePerm (rank : Nat) : List Nat :=
  List.range (rank - 2) ++ [rank - 1, rank - 2]

/-- ONNX `Transpose(perm)`: `out.shape[i] = in.shape[perm[i]]`, `out[idx] = in[src]` with
`src[perm[i]] = idx[i]`. -/
def onnxTranspose (t : Tensor α) (perm : List Nat) : Tensor α :=
  { shape := perm.map (fun p => t.shape.getD p 0)
    get := fun ix => t.get ((List.range t.shape.length).map (fun d => ix.getD (perm.findIdx (· == d)) 0)) }

namespace Spec

/-- NumPy: `roll(x, s, axis)[..., i, ...] = x[..., (i − s) mod n, ...]`. -/
def rollAxis (t : Tensor α) (sh : Int) (axis : Nat) : Tensor α :=
  let n : Int := t.shape.getD axis 0
  { shape := t.shape
    get := fun ix => t.get (updAxis ix axis (fun i => (((i : Int) - sh) % n).toNat)) }

/-- NumPy: `flip(x, axis)[..., i, ...] = x[..., n − 1 − i, ...]`. -/
def flipAxis (t : Tensor α) (axis : Nat) : Tensor α :=
  let n := t.shape.getD axis 0
  { shape := t.shape
    get := fun ix => t.get (updAxis ix axis (fun i => n - 1 - i)) }

end Spec
end Ndx
