import NdonnxVerif.Model.Dtype
/-!
# Scalar conversion, truthiness, `len`, iteration (`ndonnx/_array.py`: `__bool__`, `__int__`,
`__float__`, `__index__`, `__len__`, `__iter__`) as decision functions of what the array knows
about itself, and NumPy's rules (2.x) for the same value.
-/
namespace Ndx

/-- What the protocols look at. `lead` is the leading extent as `Array.shape[0]` reports it
(`none`: rank 0; `some none`: unknown/symbolic; `some (some n)`: the integer `n`). -/
structure ArrInfo where
  hasValue : Bool
  size : Nat            -- number of elements of the value (meaningful iff `hasValue`)
  ndim : Nat
  kind : Kind
  lead : Option (Option Nat)
  nullable : Bool := false
deriving DecidableEq, Repr

inductive Proto | pbool | pint | pfloat | pindex | plen | piter
deriving DecidableEq, Repr

inductive POut
  | value            -- returns (the value is compared separately by the harness)
  | refuse           -- raises ValueError / TypeError (or IndexError for `len` of a 0-d array)
deriving DecidableEq, Repr

/-- The implementation. -/
def protoModel : Proto → ArrInfo → POut
  | .pbool, a => if a.hasValue ∧ a.size = 1 then .value else .refuse
  -- `int(value)` / `float(value)` are delegated to NumPy, which (2.4+) refuses arrays of rank > 0
  -- (numpy.ma's masked arrays still accept any single-element array)
  | .pint, a => if a.hasValue ∧ a.size = 1 ∧ (a.ndim = 0 ∨ a.nullable) then .value else .refuse
  | .pfloat, a => if a.hasValue ∧ a.size = 1 ∧ (a.ndim = 0 ∨ a.nullable) then .value else .refuse
  | .pindex, a =>
      if a.ndim = 0 ∧ a.hasValue ∧ (a.kind = .signed ∨ a.kind = .unsigned) then .value else .refuse
  | .plen, a => match a.lead with | some (some _) => .value | _ => .refuse
  | .piter, a => match a.lead with | some (some _) => .value | _ => .refuse

/-- NumPy 2.x on a data-holding value; `none` = not fixed by the property (single-element arrays of
rank > 0: NumPy ≥ 2.4 refuses `int()`/`float()`, earlier versions and the property's "single-element
only" wording allow them). -/
def protoNumpy : Proto → ArrInfo → Option POut
  | .pbool, a => some (if a.size = 1 then .value else .refuse)
  | .pint, a => if a.size ≠ 1 then some .refuse else if a.ndim = 0 then some .value else none
  | .pfloat, a => if a.size ≠ 1 then some .refuse else if a.ndim = 0 then some .value else none
  | .pindex, a => some (if a.ndim = 0 ∧ (a.kind = .signed ∨ a.kind = .unsigned) then .value else .refuse)
  | .plen, a => some (if a.ndim = 0 then .refuse else .value)
  | .piter, a => some (if a.ndim = 0 then .refuse else .value)

/-- Consistency of an `ArrInfo` describing a data-holding array: the reported leading extent is the
value's (`Array.shape` of a data-holding array is the value's shape). -/
def ArrInfo.EagerOK (a : ArrInfo) : Prop :=
  a.hasValue = true ∧ (a.ndim = 0 ↔ a.lead = none) ∧ (∀ l, a.lead = some l → l ≠ none) ∧
  (a.ndim = 0 → a.size = 1)

end Ndx
