import NdonnxVerif.Model.Graph
/-! Graph shapes of `astype` on the integer / boolean fragment (core Lean only). -/
namespace Ndx.Graph
open Ndx.C02

/-- Type code of a dtype name of the integer / boolean fragment. -/
def codeOfName : String → Option Nat
  | "int8" => some 3 | "int16" => some 5 | "int32" => some 6 | "int64" => some 7
  | "uint8" => some 2 | "uint16" => some 4 | "uint32" => some 12 | "uint64" => some 13
  | "bool" => some 9
  | _ => none

/-- Accepted graphs of `astype(x : src, dst)`: the input itself for equal dtypes, otherwise one `Cast`. -/
def castTerms (src dst : String) : List G :=
  match codeOfName src, codeOfName dst with
  | some s, some d => if s = d then [a] else [cast d a]
  | _, _ => []

end Ndx.Graph
