import NdonnxVerif.Model.Dtype
/-!
# `ndx.build` interface (`ndonnx/_build.py`): flattening of requested inputs/outputs into named tensors.

`collect_vars(name, arr)`: a core array → `{name: var}`; a struct array → the union over its fields of
`collect_vars(f"{name}_{field}", field)`, in field order; the requests are merged left to right with the
dict union `acc | new` (a repeated key keeps its *first position* and takes the *last value*).
-/
namespace Ndx

/-- A dtype as a tree of named fields over core dtypes (nullable = struct of `values`, `null`). -/
inductive DTree
  | core (c : Core)
  | struct (fields : List (String × DTree))

mutual
/-- `collect_vars`: flattened (name, core dtype) entries of one request, in order. -/
def DTree.flatten (name : String) : DTree → List (String × Core)
  | .core c => [(name, c)]
  | .struct fs => DTree.flattenFields name fs
def DTree.flattenFields (name : String) : List (String × DTree) → List (String × Core)
  | [] => []
  | (f, t) :: rest => t.flatten (name ++ "_" ++ f) ++ DTree.flattenFields name rest
end

def DTree.ofDt (d : Dt) : DTree :=
  if d.nullable then .struct [("values", .core d.core), ("null", .core .bool)] else .core d.core

/-- Python's `acc | new` on insertion-ordered dicts, as association lists. -/
def dictUnion (acc new : List (String × α)) : List (String × α) :=
  new.foldl (fun a kv =>
    if a.any (·.1 == kv.1) then a.map (fun e => if e.1 == kv.1 then (e.1, kv.2) else e) else a ++ [kv]) acc

/-- `functools.reduce(lambda acc, arr: acc | collect_vars(*arr), requests.items(), {})`. -/
def collectAll (reqs : List (String × DTree)) : List (String × Core) :=
  reqs.foldl (fun acc r => dictUnion acc (r.2.flatten r.1)) []

/-- The documented interface: every request flattened, in request order. -/
def Spec.interface (reqs : List (String × DTree)) : List (String × Core) :=
  reqs.flatMap (fun r => r.2.flatten r.1)

end Ndx
