import NdonnxVerif.Driver.Dtype
import NdonnxVerif.Driver.Heap
import NdonnxVerif.Driver.Scalar
import NdonnxVerif.Driver.Reduce
import NdonnxVerif.Driver.Layout
import NdonnxVerif.Driver.Build
import NdonnxVerif.Driver.Broadcast
import NdonnxVerif.Driver.Index
import NdonnxVerif.Driver.IntArith
import NdonnxVerif.Driver.Graph
import NdonnxVerif.Driver.Setitem
import NdonnxVerif.Driver.ReduceVal
import NdonnxVerif.Driver.Search
import NdonnxVerif.Driver.TGraph
import NdonnxVerif.Driver.StaticShape
/-! Line-protocol driver: one request per line on stdin, one answer per line on stdout. -/
open Ndx.Drv

def dispatch (line : String) : String :=
  match (line.trimAscii.toString.splitOn " ").filter (· ≠ "") with
  | [] => "bad-op"
  | cmd :: args =>
    match cmd with
    | "bshape" => cmdBshape args
    | "tg_render" => cmdTgRender args
    | "static_getitem" => cmdStaticGetitem args
    | "tg_eval" => cmdTgEval args
    | "tg_evald" => cmdTgEvalData args
    | "tg_parse" => cmdTgParse args
    | "searchsorted" => cmdSearchsorted args
    | "intop" => cmdIntOp args
    | "gterm" => cmdGterm args
    | "setitem" => cmdSetitem args
    | "reduce_val" => cmdReduceVal args
    | "gcast" => cmdGcast args
    | "gnull" => cmdGnull args
    | "geval" => cmdGeval args
    | "iface" => cmdIface args
    | "roll" => cmdRoll args
    | "flip" => cmdFlip args
    | "reduce_shape" => cmdReduceShape args
    | "proto" => cmdProto args
    | "heap" => cmdHeap args
    | "rt" => cmdRt args
    | "scalar" => cmdScalar args
    | "fnlaw" => cmdFnLaw args
    | "cast" => cmdCast args
    | "cancast" => cmdCanCast args
    | "getitem" => cmdGetitem args
    | "getitem_spec" => cmdGetitemSpec args
    | "getitem_mask" => cmdGetitemMask false args
    | "getitem_mask_spec" => cmdGetitemMask true args
    | "getitem_int" => cmdGetitemInt false args
    | "getitem_int_spec" => cmdGetitemInt true args
    | _ => "bad-op"

partial def loop (h : IO.FS.Stream) (out : IO.FS.Stream) : IO Unit := do
  let line ← h.getLine
  if line.isEmpty then return ()
  out.putStrLn (dispatch line)
  loop h out

def main : IO Unit := do
  let out ← IO.getStdout
  loop (← IO.getStdin) out
  out.flush
