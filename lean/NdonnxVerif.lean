-- Root of the `NdonnxVerif` library.
import NdonnxVerif.Model.Basic
import NdonnxVerif.Model.Index
import NdonnxVerif.Props.C08
