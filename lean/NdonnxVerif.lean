-- Root of the `NdonnxVerif` library.
import NdonnxVerif.Model.Basic
import NdonnxVerif.Model.Index
import NdonnxVerif.Props.C08
import NdonnxVerif.Model.Dtype
import NdonnxVerif.Model.FnLaw
import NdonnxVerif.Props.C03
import NdonnxVerif.Driver.Dtype
import NdonnxVerif.Model.GenSupport
import NdonnxVerif.Props.C17
import NdonnxVerif.Model.Heap
import NdonnxVerif.Lemmas.Heap
import NdonnxVerif.Lemmas.HeapSim
import NdonnxVerif.Props.C07
import NdonnxVerif.Props.C01
import NdonnxVerif.Props.C16
import NdonnxVerif.Driver.Heap
import NdonnxVerif.Props.C06
