-- Root of the `NdonnxVerif` library.
import NdonnxVerif.Model.Basic
import NdonnxVerif.Model.Index
import NdonnxVerif.Props.C08
import NdonnxVerif.Model.Dtype
import NdonnxVerif.Model.FnLaw
import NdonnxVerif.Props.C03
import NdonnxVerif.Driver.Dtype
import NdonnxVerif.Model.GenSupport
import NdonnxVerif.Props.C17
