"""The function x dtype-tuple outcome matrix (tie A), shared by C03 (result dtype law), C17 (outside the
domain => TypeError) and C02 (total on the domain).  Rows are dumped from the running implementation,
compared with the reference law `Ndx.fnLaw` through the model driver (to name offending rows), and
written to lean/Gen/FnDtype<k>.lean where the Lean kernel re-checks the law over every dumped row."""
from __future__ import annotations

import itertools

from . import common, gen, tables
from .catalog import (BINARY, CLASS_ORDER, FN_CLASS, OPERATORS, PY_SCALARS, UNARY, dclass)
from .impl import ALL_DTYPES

PYK = list(PY_SCALARS)
CODE = {d: i for i, d in enumerate(ALL_DTYPES)}
CODE.update({k: 24 + i for i, k in enumerate(PYK)})


def jobs(ctx) -> list[tuple]:
    """(kind, fn, specs, mode)"""
    rng = ctx.rng
    quick = ctx.tier == "quick"
    out = []
    for fn in UNARY:
        for d in ALL_DTYPES:
            out.append(("fn", fn, (d,), "lazy"))
    for fn in BINARY:
        for a in ALL_DTYPES:
            for b in ALL_DTYPES:
                out.append(("fn", fn, (a, b), "lazy"))
        for d in ALL_DTYPES:
            for k in PYK:
                out.append(("fn", fn, (d, k), "lazy"))
                out.append(("fn", fn, (k, d), "lazy"))
    for fn, sym in OPERATORS.items():
        for d in ALL_DTYPES:
            for k in PYK:
                out.append(("op", fn, (d, k), sym))
                if not (sym == "%" and k == "pstr"):   # "a" % array is Python's str formatting, never reaches ndonnx
                    out.append(("op", fn, (k, d), sym))
        pairs = list(itertools.product(ALL_DTYPES, repeat=2))
        for a, b in (rng.sample(pairs, 60) if quick else pairs):
            out.append(("op", fn, (a, b), sym))
    # other ranks / eager: the law is a function of the dtypes only
    base = [j for j in out if j[0] == "fn"]
    for j in rng.sample(base, 800 if quick else 6000):
        out.append(("fn", j[1], j[2], rng.choice(["lazy0", "lazy2"])))
    for j in rng.sample(base, 250 if quick else 3000):
        out.append(("fn", j[1], j[2], "eager"))
    return out


def _run(job):
    kind, fn, specs, mode = job
    if kind == "fn":
        return tables.fn_row((fn, specs, mode))
    return tables.op_row((mode, specs))


def enc_outcome(o: str) -> int:
    if o.startswith("!TypeError"):
        return 24
    if o.startswith("!"):
        return 25
    return CODE.get(o, 25)


def dump(ctx):
    js = jobs(ctx)
    outs = tables.pmap(_run, js, strict=True)
    lines = [f"fnlaw {FN_CLASS[fn]} " + " ".join(specs) for (_, fn, specs, _) in js]
    laws = common.model(lines)
    return js, outs, laws


def admits(law: str, out: str) -> bool:
    if law.startswith("must "):
        return out == law[5:]
    if law == "raises":
        return out == "!TypeError"
    if law == "free":
        return not out.startswith("!Other") and not out.startswith("!NotArray")
    raise common.Infra(f"unexpected law answer {law!r}")


def mismatch_kind(law: str, out: str) -> tuple[str, str]:
    """(property the mismatch belongs to, failure kind)"""
    if out.startswith("!Other") or out.startswith("!NotArray"):
        prop = "C02" if law.startswith("must") else "C17"
        return prop, "raises-" + out[1:].replace(":", "-")
    if law.startswith("must "):
        if out == "!TypeError":
            return "C02", "rejects-domain"
        return "C03", f"dtype-{out}-not-{law[5:]}"
    return "C17", f"returns-{out}"       # law == raises, got a result


def sig(specs) -> str:
    return "x".join(dclass(s) for s in specs)


def evaluate(ctx, js, outs, laws, props: set[str]):
    """Register cases; report mismatches that belong to `props`.  Returns rows for the Lean table
    (rows matched by a known finding or belonging to another property's check are left out of the
    kernel-checked table and counted separately)."""
    table = []
    skipped_other = 0
    for (kind, fn, specs, mode), out, law in zip(js, outs, laws):
        ident = (kind, fn, specs, mode)
        nontriv = not law == "free"
        ctx.evaluations += 1
        if nontriv:
            ctx.nontrivial.add(ident)
        ctx.count(f"law:{law.split()[0]}")
        ctx.count(f"mode:{mode if kind == 'fn' else 'operator'}")
        if admits(law, out):
            table.append((CLASS_ORDER.index(FN_CLASS[fn]), [CODE[s] for s in specs], enc_outcome(out)))
            if len(ctx.samples) < 10 and nontriv and ctx.rng.random() < 0.002:
                ctx.samples.append({"fn": fn, "operands": specs, "mode": mode, "observed": out, "law": law})
            continue
        prop, fkind = mismatch_kind(law, out)
        if prop not in props:
            skipped_other += 1
            continue
        key = f"{fn}/{sig(specs)}/{fkind}"
        ctx.violation(key, f"{fn}({', '.join(specs)}) [{kind} {mode}] -> {out}; the law demands: {law}",
                      {"function": fn, "operands": specs, "form": kind, "mode": mode, "observed": out,
                       "law": law,
                       "snippet": _snippet(kind, fn, specs, mode)})
    ctx.extra["rows_left_to_other_properties_checks"] = skipped_other
    return table


def _snippet(kind, fn, specs, mode):
    def arg(s, i):
        if s in PY_SCALARS:
            return repr(PY_SCALARS[s])
        return f"ndx.array(shape=('N',), dtype=ndx.{s})"
    args = ", ".join(arg(s, i) for i, s in enumerate(specs))
    return f"import ndonnx as ndx\nr = ndx.{fn}({args})\nprint(r.dtype)"


def write_gen(table, chunk: int = 3000) -> list[str]:
    """Deduplicate, sort, write chunked Lean tables.  Returns module names."""
    rows = sorted({(c, tuple(o), r) for c, o, r in table})
    names = []
    for k in range(0, max(1, len(rows)), chunk):
        part = rows[k:k + chunk]
        name = f"FnDtype{k // chunk}"
        defs = []
        for j in range(0, len(part), 200):
            sub = part[j:j + 200]
            body = ",\n  ".join(f"({c}, [{', '.join(map(str, o))}], {r})" for c, o, r in sub)
            defs.append(f"""def rows{j // 200} : List (Nat × List Nat × Nat) := [
  {body}]
/-- Every dumped row obeys the reference law `Ndx.fnLaw` (result dtype inside the domain, TypeError
outside it, never a foreign exception class). -/
theorem rows{j // 200}_obey_law : rows{j // 200}.all rowOk = true := by decide +kernel
""")
        gen.write(name, f"""import NdonnxVerif.Model.GenSupport
/-! Generated by harness/fntable.py from the running implementation; do not edit.
Rows: (function class, operand codes, outcome code) — see `Ndx.GenSupport`. -/
namespace Gen.{name}
open Ndx Ndx.GenSupport
{"".join(defs)}
end Gen.{name}
""")
        names.append(name)
    # remove stale chunks
    k = len(names)
    while (gen.GEN / f"FnDtype{k}.lean").exists():
        (gen.GEN / f"FnDtype{k}.lean").unlink()
        k += 1
    return names
