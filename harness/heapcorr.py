"""Correspondence between the Lean propagation state machine (`Ndx.Heap.run`) and ndonnx's
`_CoreArray` / `@eager_propagate` layer: the same random history is executed on real core arrays with
real `_opset_extensions` primitives and on the model; per cell the flags "reports a value" and "graph
variable is a Constant" must agree.  Runs in-process (onnxruntime present) or in a child interpreter
with onnxruntime masked from import (C16)."""
from __future__ import annotations

import json
import os
import random
import subprocess
import sys

PRIMS = ["add", "mul", "sub", "abs_", "neg", "equal_cast", "where3"]


class _Skip(Exception):
    pass


def gen_history_shortcuts(rng: random.Random, n: int):
    """Histories that also call `ndx.where` with scalar boolean conditions (data or placeholder) and `ndx.logical_and` /
    `ndx.logical_or` on boolean scalars: steps b:<0|1> | q:<name> | gw:<c>,<x>,<y> | ga:<x>,<y> | go:<x>,<y> besides the plain ones.  Cells are typed (int64 vectors / boolean scalars); `s` stays within a type."""
    steps, kinds = [], []
    names = 0
    def cells(kind):
        return [i for i, k in enumerate(kinds) if k == kind]
    for k in range(n):
        r = rng.random()
        ints, bools = cells("i"), cells("b")
        if not ints or r < 0.15:
            if rng.random() < 0.6:
                steps.append("d")
            else:
                steps.append(f"p:x{names}"); names += 1
            kinds.append("i")
        elif not bools or r < 0.3:
            if rng.random() < 0.6:
                steps.append(f"b:{rng.randrange(2)}")
            else:
                steps.append(f"q:c{names}"); names += 1
            kinds.append("b")
        elif r < 0.5 and len(ints) >= 1:
            xi = rng.choice(ints)
            yi = rng.choice([i for i in ints if i != xi] or ints)
            steps.append(f"gw:{rng.choice(bools)},{xi},{yi}")
            kinds.append("i")
        elif r < 0.62:
            # logical_and / logical_or on boolean scalars: both operand orders of the two-sided shortcut
            steps.append(f"{rng.choice(['ga', 'go'])}:{rng.choice(bools)},{rng.choice(bools)}")
            kinds.append("b")
        elif r < 0.75:
            op = rng.choice(["add", "mul", "sub", "abs_", "neg"])
            ar = {"abs_": 1, "neg": 1}.get(op, 2)
            steps.append(f"f:{op}:{','.join(str(rng.choice(ints)) for _ in range(ar))}")
            kinds.append("i")
        elif r < 0.87:
            src = rng.randrange(len(kinds))
            steps.append(f"c:{src}")
            kinds.append(kinds[src])
        else:
            kind = rng.choice(["i", "b"])
            pool = cells(kind)
            steps.append(f"s:{rng.choice(pool)}:{rng.choice(pool)}")
    return steps


def gen_history(rng: random.Random, n: int):
    """Steps: d | p:<name> | f:<op>:<args> | c:<r> | s:<dst>:<src>  (cells are int64 vectors of length 3)."""
    steps = []
    ncell = 0
    names = 0
    for k in range(n):
        r = rng.random()
        if ncell == 0 or r < 0.2:
            if rng.random() < 0.6:
                steps.append("d")
            else:
                steps.append(f"p:x{names}")
                names += 1
            ncell += 1
        elif r < 0.65:
            op = rng.choice(PRIMS)
            ar = {"abs_": 1, "neg": 1, "where3": 3}.get(op, 2)
            args = [rng.randrange(ncell) for _ in range(ar)]
            steps.append(f"f:{op}:{','.join(map(str, args))}")
            ncell += 1
        elif r < 0.8:
            steps.append(f"c:{rng.randrange(ncell)}")
            ncell += 1
        else:
            steps.append(f"s:{rng.randrange(ncell)}:{rng.randrange(ncell)}")
    return steps


def run_impl(histories: list[list[str]]) -> list[str]:
    """Execute histories on real `_CoreArray`s; returns the model driver's answer format."""
    import numpy as np
    import spox
    import ndonnx as ndx
    import ndonnx._opset_extensions as opx
    from ndonnx._corearray import _CoreArray
    out = []
    for steps in histories:
        cells = []
        try:
            for k, s in enumerate(steps):
                p = s.split(":")
                if p[0] == "d":
                    cells.append(_CoreArray(np.array([k, 1, -2], dtype=np.int64)))
                elif p[0] == "p":
                    cells.append(_CoreArray(spox.argument(spox.Tensor(np.int64, (3,)))))
                elif p[0] == "b":
                    cells.append(_CoreArray(np.array(bool(int(p[1])))))
                elif p[0] == "q":
                    cells.append(_CoreArray(spox.argument(spox.Tensor(np.bool_, ()))))
                elif p[0] == "gw":
                    from ndonnx._core._utils import from_corearray
                    ci, xi, yi = (int(i) for i in p[1].split(","))
                    xv, yv = cells[xi].to_numpy(), cells[yi].to_numpy()
                    if xv is not None and yv is not None and np.array_equal(xv, yv):
                        raise _Skip()       # the equal-branches fold is another mechanism (a recorded finding), not this shortcut
                    r = ndx.where(from_corearray(cells[ci]), from_corearray(cells[xi]), from_corearray(cells[yi]))
                    cells.append(r._core())
                elif p[0] in ("ga", "go"):
                    from ndonnx._core._utils import from_corearray
                    ai, bi = (int(i) for i in p[1].split(","))
                    fn = ndx.logical_and if p[0] == "ga" else ndx.logical_or
                    cells.append(fn(from_corearray(cells[ai]), from_corearray(cells[bi]))._core())
                elif p[0] == "c":
                    cells.append(cells[int(p[1])].copy())
                elif p[0] == "s":
                    cells[int(p[1])]._set(cells[int(p[2])])
                else:
                    a = [cells[int(i)] for i in p[2].split(",")]
                    op = p[1]
                    if op == "add":
                        r = opx.add(a[0], a[1])
                    elif op == "mul":
                        r = opx.mul(a[0], a[1])
                    elif op == "sub":
                        r = opx.sub(a[0], a[1])
                    elif op == "abs_":
                        r = opx.abs(a[0])
                    elif op == "neg":
                        r = opx.neg(a[0])
                    elif op == "equal_cast":
                        r = opx.cast(opx.equal(a[0], a[1]), ndx.int64)
                    elif op == "where3":
                        r = opx.where(opx.less(a[0], a[1]), a[1], a[2])
                    cells.append(r)
            flags = []
            for c in cells:
                v = "v" if c.to_numpy() is not None else "-"
                try:
                    const = c.var._op.op_type.identifier == "Constant"
                except Exception:
                    const = False
                flags.append(v + ("c" if const else "n"))
            out.append("ok " + (",".join(flags) if flags else "-"))
        except _Skip:
            out.append("skip")
        except IndexError:
            out.append("err")
        except Exception as e:  # noqa: BLE001
            out.append(f"exc {type(e).__name__}: {str(e)[:120]}")
    return out


def model_lines(histories, ort: bool):
    # composite primitives (equal_cast = 2 prims, where3 = 2 prims) are one model step each: flags only
    # depend on whether all arguments hold data, which composition preserves
    return [f"heap {1 if ort else 0} " + " ".join(h) for h in histories]


CHILD = r'''
import sys, json
class _Block:
    def find_spec(self, name, path=None, target=None):
        if name == "onnxruntime" or name.startswith("onnxruntime."):
            raise ImportError("onnxruntime masked by the verification harness")
        return None
sys.meta_path.insert(0, _Block())
import warnings; warnings.filterwarnings("ignore")
sys.path.insert(0, "/verif")
from harness import heapcorr
import ndonnx._propagation as pr
assert pr.ORT_PRESENT is False
hist = json.load(sys.stdin)
json.dump(heapcorr.run_impl(hist), sys.stdout)
'''


def run_impl_no_ort(histories):
    p = subprocess.run([sys.executable, "-c", CHILD], input=json.dumps(histories), capture_output=True,
                       text=True, timeout=600, env={**os.environ, "PYTHONWARNINGS": "ignore"})
    if p.returncode != 0:
        raise RuntimeError("no-ORT child failed: " + p.stderr[-1500:])
    return json.loads(p.stdout)
