"""Tie of Model/ReduceVal.lean (`Ndx.reduceT`, theorems `reduce_empty_is_neutral`, `reduce_no_axes`,
`reduceVals_length`) to NumPy and to the implementation: which elements are combined, on token data."""
from __future__ import annotations

import numpy as np

from . import common, impl, tables


def worker(job):
    ndx = impl.ndx
    shape, axis, keepdims = job
    x = np.arange(int(np.prod(shape)) if shape else 1, dtype=np.int64).reshape(shape)
    out = {}
    try:
        out["numpy"] = np.sum(x, axis=axis, keepdims=keepdims)
        out["numpy_shape"] = list(np.shape(out["numpy"]))
        out["numpy"] = np.asarray(out["numpy"]).ravel().tolist()
    except Exception as e:
        return {"skip": f"numpy: {type(e).__name__}"}
    try:
        r = ndx.sum(ndx.asarray(x), axis=axis, keepdims=keepdims).to_numpy()
        out["eager"] = (list(r.shape), r.ravel().tolist())
    except Exception as e:
        out["eager"] = f"raises:{type(e).__name__}"
    try:
        p = ndx.array(shape=tuple(f"D{i}" for i in range(len(shape))), dtype=ndx.int64)
        y = ndx.sum(p, axis=axis, keepdims=keepdims)
        got = impl.run_model(ndx.build({"x": p}, {"y": y}), {"x": x}, {"y": y})["y"]
        out["traced"] = (list(np.shape(got)), np.asarray(got).ravel().tolist())
    except Exception as e:
        out["traced"] = f"raises:{type(e).__name__}"
    return out


def run(ctx, combos):
    """combos: (shape, axis, keepdims) with axis None | int | tuple."""
    combos = [c for c in combos if int(np.prod(c[0])) <= 200]
    res = tables.pmap(worker, combos, chunk=16)
    fl = lambda s: ",".join(map(str, s)) or "-"
    def ax(a):
        return "~" if a is None else ("(" + ",".join(map(str, a)) + ")" if isinstance(a, tuple) else str(a))
    lines = [f"reduce_val {fl(s)} {ax(a)} {1 if k else 0}" for s, a, k in combos]
    outs = common.model(lines)
    n = 0
    for (job, r), line, m in zip(tables.pairs(ctx, combos, res), lines, outs):
        if isinstance(r, tables.Crashed) or "skip" in r:
            continue
        n += 1
        ctx.case(("reduce-val", line), True)
        parts = m.split()
        want = f"ok {fl(r['numpy_shape'])} {fl(r['numpy'])}"
        if " ".join(parts[:3]) != want:
            ctx.corr_broken("lean-reduce-value-model-vs-numpy", {"line": line, "model": m[:200], "numpy": want[:200]})
            continue
        for mode in ("eager", "traced"):
            g = r[mode]
            if isinstance(g, str):
                continue      # reported by the main sweep
            if g[0] != r["numpy_shape"] or g[1] != r["numpy"]:
                ctx.violation(f"sum/int64/value-model-tie/{mode}", f"{line}: {mode} sum of the tokens {g} differs from the Lean model and NumPy {r['numpy']}",
                              {"line": line, "mode": mode, "observed": g, "expected": [r["numpy_shape"], r["numpy"]], "theorems": "Ndx.C10.reduce_empty_is_neutral, reduce_no_axes"})
    ctx.count("reduce-value-model-tie", n)
