"""Tie (A): exhaustive dumps of finite configuration spaces from the running implementation.
Every function here runs in worker processes (spawned) and imports ndonnx from /repo."""
from __future__ import annotations

import itertools
import multiprocessing as mp
import os


def _init():
    import warnings
    warnings.filterwarnings("ignore")
    os.environ.setdefault("OMP_NUM_THREADS", "1")


class Crashed:
    """Placeholder result for a task whose worker process died (segfault in a native library) or hung."""
    def __init__(self, item, why):
        self.item, self.why = item, why

    def __repr__(self):
        return f"Crashed({self.why})"


class WorkerError:
    """A Python exception raised by the mapped function (a harness bug, not a crash)."""
    def __init__(self, item, tb):
        self.item, self.tb = item, tb


def _run_chunk(args):
    import traceback
    func, chunk = args
    out = []
    for i in chunk:
        try:
            out.append(func(i))
        except Exception:  # noqa: BLE001
            out.append(WorkerError(repr(i)[:300], traceback.format_exc()[-1500:]))
    return out


def _raise_worker_errors(results, strict=False):
    """A Python exception inside a worker is a harness bug.  A handful of them (< 2 % of the items, at most
    10) must not take the whole check down: those items are returned as `WorkerError` objects, which
    `pairs()` skips and counts; more than that is an infrastructure failure."""
    errs = [r for r in results if isinstance(r, WorkerError)]
    if errs and (strict or len(errs) > 10 or len(errs) * 50 > max(1, len(results))):
        from .common import Infra
        raise Infra(f"{len(errs)} worker exception(s) in the harness; first on item {errs[0].item}:\n{errs[0].tb}")
    return results


def pairs(ctx, jobs, results):
    """zip(jobs, results) without the items whose worker raised a harness exception (counted in the evidence)."""
    for job, r in zip(jobs, results):
        if isinstance(r, WorkerError):
            ctx.count("harness-exception-skipped")
            ctx.extra.setdefault("harness_exceptions", []).append({"item": r.item, "traceback": r.tb[-400:]})
            continue
        yield job, r


def _kill(ex):
    ex.shutdown(wait=False, cancel_futures=True)
    for p in list((getattr(ex, "_processes", None) or {}).values()):
        try:
            p.kill()
        except Exception:
            pass


def pmap(func, items, workers: int | None = None, chunk: int = 64, task_timeout: float = 300.0, strict: bool = False):
    """Deterministic parallel map (order preserved) over spawned workers.  A worker that dies or hangs
    does not hang the map: its chunk is retried item by item in fresh processes and the offending item
    yields a `Crashed` result."""
    import concurrent.futures as cf
    items = list(items)
    workers = workers or min(14, max(1, (os.cpu_count() or 2) - 2))
    if (len(items) < 50 and chunk >= 16) or workers == 1:
        _init()
        return _raise_worker_errors(_run_chunk((func, items)), strict)
    ctx = mp.get_context("spawn")
    chunks = [items[i:i + chunk] for i in range(0, len(items), chunk)]
    results: list = [None] * len(chunks)
    ex = cf.ProcessPoolExecutor(max_workers=min(workers, len(chunks)), mp_context=ctx, initializer=_init)
    futs = {k: ex.submit(_run_chunk, (func, chunks[k])) for k in range(len(chunks))}
    broken = []
    for k, f in futs.items():
        try:
            results[k] = f.result(timeout=task_timeout + 20 * len(chunks[k]))
        except Exception:   # BrokenProcessPool, TimeoutError
            broken.append(k)
    _kill(ex)
    if broken:
        singles, owner = [], []
        for k in broken:
            for i in chunks[k]:
                singles.append(i)
                owner.append(k)
        sub = _pmap_isolated(func, singles, workers, ctx, task_timeout)
        for k in broken:
            results[k] = [r for r, o in zip(sub, owner) if o == k]
    return _raise_worker_errors([r for ch in results for r in ch], strict)


def _pmap_isolated(func, singles, workers, ctx, task_timeout):
    """One item per task in small pools; an item whose process dies again when run alone is `Crashed`."""
    import concurrent.futures as cf
    res: dict = {}
    todo = list(range(len(singles)))
    while todo:
        batch, todo = todo[:workers], todo[workers:]
        ex = cf.ProcessPoolExecutor(max_workers=len(batch), mp_context=ctx, initializer=_init)
        futs = {k: ex.submit(_run_chunk, (func, [singles[k]])) for k in batch}
        failed = []
        for k, f in futs.items():
            try:
                res[k] = f.result(timeout=task_timeout)[0]
            except Exception:
                failed.append(k)
        _kill(ex)
        for k in failed:
            ex1 = cf.ProcessPoolExecutor(max_workers=1, mp_context=ctx, initializer=_init)
            try:
                res[k] = ex1.submit(_run_chunk, (func, [singles[k]])).result(timeout=task_timeout)[0]
            except Exception as e:
                res[k] = Crashed(singles[k], f"worker process died or hung ({type(e).__name__})")
            _kill(ex1)
    return [res[k] for k in range(len(singles))]


def outcome(fn, *args):
    """Canonical outcome of a call: dtype name | '!TypeError' | '!Other:<class>'."""
    from . import impl
    try:
        r = fn(*args)
    except BaseException as e:  # noqa: BLE001
        c = impl.errclass(e)
        if c in ("TypeError", "UnsupportedOperationError", "CastError"):
            return "!TypeError"
        return f"!Other:{type(e).__name__}"
    try:
        return impl.dtname(r.dtype)
    except Exception:
        return f"!NotArray:{type(r).__name__}"


def _operand(spec: str, rank: int = 1, eager: bool = False, salt: int = 0):
    """`spec` is a dtype name or a Python scalar kind (pbool/pint/pfloat/pstr)."""
    from . import impl
    from .catalog import PY_SCALARS
    import numpy as np
    ndx = impl.ndx
    if spec in PY_SCALARS:
        return PY_SCALARS[spec]
    if eager:
        # non-zero values everywhere: integer division/remainder by zero is not what the dtype tables are about
        shape = (2,) * rank
        base = spec[1:] if impl.is_nullable(spec) else spec
        vals = (np.array(["a", "b"] * (2 ** rank // 2 or 1))[:2 ** rank].reshape(shape) if base == "utf8"
                else np.ones(shape, dtype=base) if base == "bool" else (np.arange(2 ** rank).reshape(shape) + 1).astype(base))
        if impl.is_nullable(spec):
            vals = np.ma.masked_array(vals, mask=(np.arange(2 ** rank).reshape(shape) % 2 == salt % 2))
        return ndx.asarray(vals)
    return ndx.array(shape=("N",) + (2,) * (rank - 1) if rank else (), dtype=impl.dt(spec))


def promote_np_row(job):
    """dtype `promote(array, NumPy operand)` casts to: NumPy scalars and arrays are strongly typed, so the
    answer must be result_type(d, e).  form in np-scalar | np-0d | np-1d; also through a public binary function."""
    from . import impl
    import numpy as np
    from ndonnx._utility import promote
    d, e, form, first, via = job
    a = _operand(d)
    if e == "utf8":
        v = np.str_("x") if form == "np-scalar" else np.array("x" if form == "np-0d" else ["x"])
    else:
        v = np.dtype(e).type(1) if form == "np-scalar" else np.array(1 if form == "np-0d" else [1], dtype=e)
    def call():
        if via == "promote":
            res = promote(v, a) if first else promote(a, v)
            dts = {impl.dtname(r.dtype) for r in res}
            if len(dts) != 1:
                raise RuntimeError(f"promote returned different dtypes {dts}")
            return res[0]
        f = getattr(impl.ndx, via)
        return f(v, a) if first else f(a, v)
    return outcome(call)


def fn_row(job):
    """job = (fn, operand specs, mode) with mode in lazy|lazy0|lazy2|eager."""
    from . import impl
    fn, specs, mode = job
    f = getattr(impl.ndx, fn)
    rank = {"lazy": 1, "lazy0": 0, "lazy2": 2, "eager": 1}[mode]
    args = [_operand(s, rank=rank, eager=(mode == "eager"), salt=i) for i, s in enumerate(specs)]
    return outcome(f, *args)


def op_row(job):
    """Binary operator spelling (incl. reflected forms with Python scalars)."""
    import operator
    from . import impl
    sym, specs = job
    ops = {"+": operator.add, "-": operator.sub, "*": operator.mul, "/": operator.truediv,
           "//": operator.floordiv, "%": operator.mod, "**": operator.pow, "<": operator.lt,
           "<=": operator.le, ">": operator.gt, ">=": operator.ge, "==": operator.eq,
           "!=": operator.ne, "&": operator.and_, "|": operator.or_, "^": operator.xor,
           "<<": operator.lshift, ">>": operator.rshift}
    args = [_operand(s) for s in specs]
    return outcome(ops[sym], *args)


def result_type_rows(jobs):
    from . import impl
    out = []
    for names in jobs:
        out.append(outcome(lambda *a: _Dt(impl.ndx.result_type(*a)), *[impl.dt(n) for n in names]))
    return out


class _Dt:
    def __init__(self, d):
        self.dtype = d


def result_type_row(names):
    return result_type_rows([names])[0]


def result_type_array_row(names):
    """result_type called with Array arguments (lazy) instead of dtype objects."""
    from . import impl
    arrs = [impl.ndx.array(shape=("N",), dtype=impl.dt(n)) for n in names]
    return outcome(lambda *a: _Dt(impl.ndx.result_type(*a)), *arrs)


def promote_scalar_row(job):
    """dtype all operands are cast to by `promote(array, python scalar)` (either order)."""
    from . import impl
    from ndonnx._utility import promote
    d, k, first = job
    a = _operand(d)
    s = _operand(k)
    def call():
        res = promote(s, a) if first else promote(a, s)
        dts = {impl.dtname(r.dtype) for r in res}
        if len(dts) != 1:
            raise RuntimeError(f"promote returned different dtypes {dts}")
        return res[0]
    return outcome(call)
