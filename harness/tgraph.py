"""Tensor-graph tie (B and D) for indexing and layout functions.

Translator: the exported ONNX graph of a traced call -> the canonical text of `Ndx.TGraph.TG.render`
(lean/NdonnxVerif/Model/TGraph.lean).  On every run, for every case,

* tie B: the rendering of the graph ndonnx exported must equal the rendering of the term the Lean model builds
  from the same Python-level arguments (`tg_render`, Model/TGraphFns.lean).  The theorems of Props/C08Graph.lean,
  C11Graph.lean are about exactly those terms, for every shape and every element value, so a match carries them
  over to the shipped graph for all sizes of that signature.  A mismatch is a broken correspondence; the search
  then evaluates the exported model in onnxruntime against NumPy on token inputs of many small shapes.
* tie D: the driver parses the exported rendering back (`tg_eval`) and evaluates it on token data; the result must
  equal what onnxruntime computes from the model file (validates the Lean reading of the ONNX operators).
"""
from __future__ import annotations

import itertools
import random

import numpy as np

from . import common, impl
from .impl import ndx

INT_CODES = {2, 3, 4, 5, 6, 7, 12, 13, 9}


class Unsupported(Exception):
    pass


def _ints(vals):
    vals = list(vals)
    return ",".join(str(int(v)) for v in vals) if vals else "-"


def render(model, output: str, inputs: dict[str, str]) -> str:
    """Canonical text of the sub-graph computing `output`; `inputs` maps graph input names to `in<k>`."""
    from onnx import numpy_helper
    g = model.graph
    prod = {o: n for n in g.node for o in n.output}
    inits = {i.name: i for i in g.initializer}

    def const(t):
        if t.data_type not in INT_CODES:
            raise Unsupported(f"constant of type {t.data_type}")
        arr = numpy_helper.to_array(t)
        return f"(C {_ints(arr.shape)} {_ints(arr.reshape(-1).tolist())})"

    def attr(n, name, default=None):
        for a in n.attribute:
            if a.name == name:
                if a.type == 2:
                    return a.i
                if a.type == 7:
                    return list(a.ints)
                if a.type == 3:
                    return a.s.decode()
                raise Unsupported(f"attribute {name} of type {a.type}")
        return default

    def go(name, depth=0):
        if depth > 400:
            raise Unsupported("too deep")
        if name in inputs:
            return inputs[name]
        if name in inits:
            return const(inits[name])
        if name not in prod:
            raise Unsupported(f"unbound {name!r}")
        n = prod[name]
        op = n.op_type
        args = lambda: [go(i, depth + 1) for i in n.input]
        if op == "Identity":
            return go(n.input[0], depth + 1)
        if op == "Constant":
            for a in n.attribute:
                if a.name == "value":
                    return const(a.t)
            raise Unsupported("Constant without value")
        if op == "Slice":
            if len(n.input) == 3 and "" not in n.input:
                return "(Slice3 " + " ".join(args()) + ")"
            if len(n.input) != 5 or "" in n.input:
                raise Unsupported("Slice with omitted inputs")
            return "(Slice " + " ".join(args()) + ")"
        if op == "Compress":
            if attr(n, "axis") != 0:
                raise Unsupported("Compress with axis != 0")
            return "(Compress0 " + " ".join(args()) + ")"
        if op == "GatherElements":
            if attr(n, "axis", 0) != 0:
                raise Unsupported("GatherElements with axis != 0")
            return "(GatherElements0 " + " ".join(args()) + ")"
        if op in ("ArgMax", "ArgMin"):
            ax = attr(n, "axis", 0)
            if attr(n, "select_last_index", 0) != 0 or ax < 0:
                raise Unsupported(f"{op} with select_last_index / negative axis")
            return f"({op} {ax} {attr(n, 'keepdims', 1)} " + " ".join(args()) + ")"
        if op == "Trilu":
            if len(n.input) != 2:
                raise Unsupported("Trilu without k")
            return f"(Trilu {attr(n, 'upper', 1)} " + " ".join(args()) + ")"
        if op == "CumSum":
            if attr(n, "exclusive", 0) != 0 or attr(n, "reverse", 0) != 0:
                raise Unsupported("CumSum exclusive / reverse")
            return "(CumSum " + " ".join(args()) + ")"
        if op == "ScatterND":
            if attr(n, "reduction", "none") != "none":
                raise Unsupported("ScatterND with a reduction")
            return "(ScatterND " + " ".join(args()) + ")"
        if op == "Gather":
            return f"(Gather {attr(n, 'axis', 0)} " + " ".join(args()) + ")"
        if op in ("Unsqueeze", "Squeeze", "Expand", "Range", "Where", "Not"):
            if op in ("Unsqueeze", "Squeeze") and len(n.input) != 2:
                raise Unsupported(f"{op} without axes")
            return f"({op} " + " ".join(args()) + ")"
        if op == "Transpose":
            perm = attr(n, "perm")
            if perm is None:
                raise Unsupported("Transpose without perm")
            return f"(Transpose {_ints(perm)} " + " ".join(args()) + ")"
        if op == "Reshape":
            if attr(n, "allowzero", 0) != 1:
                raise Unsupported("Reshape allowzero=0")
            return "(Reshape " + " ".join(args()) + ")"
        if op == "Shape":
            start = attr(n, "start", 0)
            if attr(n, "end") is not None or start < 0:
                raise Unsupported("Shape with end / negative start")
            if start > 0:
                return f"(ShapeFrom {start} " + " ".join(args()) + ")"
            return "(Shape " + " ".join(args()) + ")"
        if op == "Cast":
            return f"(Cast {attr(n, 'to')} " + " ".join(args()) + ")"
        if op == "Concat":
            a = args()
            ax = attr(n, "axis")
            acc = a[0]
            for b in a[1:]:
                acc = f"(Concat {ax} {acc} {b})"
            return acc          # a one-input Concat is the identity
        if op == "Mod":
            if attr(n, "fmod", 0) != 0:
                raise Unsupported("Mod fmod=1")
            return "(Mod0 " + " ".join(args()) + ")"
        if op in ("Add", "Sub", "Mul", "Equal", "Less", "And", "Or", "Xor", "Greater", "LessOrEqual", "GreaterOrEqual"):
            return f"({op} " + " ".join(args()) + ")"
        if op in ("ReduceSum", "ReduceProd", "ReduceMin", "ReduceMax"):
            if len(n.input) != 2:
                raise Unsupported(f"{op} without an axes input")
            return f"({op} {attr(n, 'keepdims', 1)} {attr(n, 'noop_with_empty_axes', 0)} " + " ".join(args()) + ")"
        raise Unsupported(op)

    return go(output)


# --------------------------------------------------------------------------------------
# cases
# --------------------------------------------------------------------------------------
def _tok(s):
    return ",".join(map(str, s)) if len(s) else "-"


def layout_cases(rng: random.Random, n: int):
    """(fn, render-args, ninputs, rank, call, numpy reference, shape constraint) for the layout functions."""
    out = []
    for _ in range(n):
        fn = rng.choice(["roll", "roll", "roll_flat", "flip", "flip", "expand_dims", "squeeze", "permute_dims",
                         "matrix_transpose", "broadcast_to", "take", "reshape", "concat", "stack"])
        rank = rng.choice([1, 2, 2, 3])
        c = {"fn": fn, "rank": rank, "ninputs": 1, "need": {}}
        if fn == "roll":
            k = rng.choice([1, 1, 2, 3])
            axes = [rng.randrange(-rank, rank) for _ in range(k)]
            shifts = [rng.choice([0, 1, -1, 2, -2, 3, 5, -7, 11]) for _ in range(k)]
            c["args"] = [",".join(f"{s}/{a}" for s, a in zip(shifts, axes))]
            if k == 1 and rng.random() < 0.5:
                c["call"] = lambda x, s=shifts[0], a=axes[0]: ndx.roll(x, s, axis=a)
            else:
                c["call"] = lambda x, s=tuple(shifts), a=tuple(axes): ndx.roll(x, s, axis=a)
            c["ref"] = lambda v, s=tuple(shifts), a=tuple(axes): np.roll(v, s, axis=a)
        elif fn == "roll_flat":
            s = rng.choice([0, 1, -1, 2, -3, 4, 9])
            c["args"] = [str(rank), str(s)]
            c["call"] = lambda x, s=s: ndx.roll(x, s)
            c["ref"] = lambda v, s=s: np.roll(v, s)
        elif fn == "flip":
            form = rng.choice(["none", "int", "tuple"])
            if form == "none":
                axes, arg = list(range(rank)), None
            elif form == "int":
                a = rng.randrange(-rank, rank)
                axes, arg = [a % rank], a
            else:
                k = rng.randrange(1, rank + 1)
                raw = rng.sample(range(rank), k)
                raw = [a - rank if rng.random() < 0.4 else a for a in raw]
                axes, arg = [a % rank for a in raw], tuple(raw)
            c["args"] = [str(rank), _tok(axes)]
            c["call"] = lambda x, a=arg: ndx.flip(x, axis=a)
            c["ref"] = lambda v, a=arg: np.flip(v, axis=a)
        elif fn == "expand_dims":
            a = rng.randrange(-rank - 1, rank + 1)
            c["args"] = [str(a)]
            c["call"] = lambda x, a=a: ndx.expand_dims(x, axis=a)
            c["ref"] = lambda v, a=a: np.expand_dims(v, a)
        elif fn == "squeeze":
            k = rng.randrange(1, rank + 1)
            raw = rng.sample(range(rank), k)
            c["need"] = {a: 1 for a in raw}
            raw = [a - rank if rng.random() < 0.4 else a for a in raw]
            arg = raw[0] if k == 1 and rng.random() < 0.5 else tuple(raw)
            c["args"] = [_tok(raw)]
            c["call"] = lambda x, a=arg: ndx.squeeze(x, axis=a)
            c["ref"] = lambda v, a=arg: np.squeeze(v, axis=a)
        elif fn == "permute_dims":
            p = list(range(rank))
            rng.shuffle(p)
            c["args"] = [_tok(p)]
            c["call"] = lambda x, p=tuple(p): ndx.permute_dims(x, p)
            c["ref"] = lambda v, p=tuple(p): np.transpose(v, p)
        elif fn == "matrix_transpose":
            rank = c["rank"] = rng.choice([2, 3, 4])
            c["args"] = [str(rank)]
            c["call"] = (lambda x: x.mT) if rng.random() < 0.5 else (lambda x: ndx.matrix_transpose(x))
            c["ref"] = lambda v: np.swapaxes(v, -1, -2)
        elif fn == "broadcast_to":
            c["static"] = True
            c["bcast"] = True
            c["args"] = None      # filled once the shape is known
        elif fn == "take":
            ax = rng.randrange(-rank, rank)
            c["need_min"] = {ax % rank: 1}
            c["take_axis"] = ax
            c["args"] = None
        elif fn == "reshape":
            c["static"] = True
            c["reshape"] = True
            c["args"] = None
        elif fn in ("concat", "stack"):
            c["ninputs"] = 2
            ax = rng.randrange(-rank, rank) if fn == "concat" else rng.randrange(-rank - 1, rank + 1)
            c["args"] = [str(ax)]
            if fn == "concat":
                c["concat_axis"] = ax % rank
                c["call"] = lambda x, y, a=ax: ndx.concat([x, y], axis=a)
                c["ref"] = lambda v, w, a=ax: np.concatenate([v, w], axis=a)
            else:
                c["call"] = lambda x, y, a=ax: ndx.stack([x, y], axis=a)
                c["ref"] = lambda v, w, a=ax: np.stack([v, w], axis=a)
        out.append(c)
    return out


def concrete_shape(rng, c, extents=(0, 1, 2, 3, 4)):
    sh = [rng.choice(extents) for _ in range(c["rank"])]
    for a, v in c.get("need", {}).items():
        sh[a] = v
    for a, v in c.get("need_min", {}).items():
        sh[a] = max(sh[a], v, rng.choice([1, 2, 3]))
    return tuple(sh)


def finalize(rng, c, shape):
    """Cases whose arguments depend on the (static) shape."""
    if c.get("bcast"):
        lead = tuple(rng.choice([1, 2, 3]) for _ in range(rng.choice([0, 1])))
        src = tuple(1 if rng.random() < 0.4 else d for d in shape)
        tgt = lead + tuple(shape)
        c["src_shape"] = src
        c["args"] = [_tok(tgt)]
        c["call"] = lambda x, t=tgt: ndx.broadcast_to(x, t)
        c["ref"] = lambda v, t=tgt: np.broadcast_to(v, t)
        return src
    if c.get("reshape"):
        size = int(np.prod(shape))
        opts = [(size,), (-1,), (1, -1), (-1, 1)]
        if size:
            for d in (2, 3, 4):
                if size % d == 0:
                    opts += [(d, size // d), (d, -1), (-1, d)]
        else:
            opts = [(0,), (0, 3), (2, 0), (0, -1) if False else (3, 0, 2)]
        tgt = rng.choice(opts)
        c["args"] = [str(c["rank"]), _tok(tgt)]
        c["call"] = lambda x, t=tgt: ndx.reshape(x, t)
        c["ref"] = lambda v, t=tgt: np.reshape(v, t)
        return shape
    if "take_axis" in c:
        ax = c["take_axis"]
        n = shape[ax % c["rank"]]
        idx = [rng.randrange(-n, n) for _ in range(rng.choice([0, 1, 2, 4]))]
        c["args"] = [_tok(idx), str(ax)]
        c["call"] = lambda x, i=idx, a=ax: ndx.take(x, ndx.asarray(np.array(i, dtype=np.int64)), axis=a)
        c["ref"] = lambda v, i=idx, a=ax: np.take(v, np.array(i, dtype=np.int64), axis=a)
        return shape
    return shape


def decl_dims(style, shape, tag):
    if style == "static":
        return tuple(shape)
    if style == "symbolic":
        return tuple(f"{tag}{j}" for j in range(len(shape)))
    return tuple(None for _ in shape)


DTYPES = ["int64", "int32", "float32", "utf8", "bool", "uint8", "nint64", "nfloat64", "nutf8", "float64", "nbool", "int16"]


def field_inputs(names_dtypes):
    """graph input name -> in<k> for each field kind: one mapping for the values (or the plain array), one for nulls."""
    plain, nulls = {}, {}
    for k, (name, dtype) in enumerate(names_dtypes):
        if impl.is_nullable(dtype):
            plain[f"{name}_values"] = f"in{k}"
            nulls[f"{name}_null"] = f"in{k}"
        else:
            plain[name] = f"in{k}"
    if len(names_dtypes) == 1 and nulls:
        # functions that read the run-time shape take it from the values field: the null field's term may mention it
        nulls[f"{names_dtypes[0][0]}_values"] = "in1"
    return plain, nulls


def trace_case(c, dims_list, dtype):
    xs = [ndx.array(shape=d, dtype=impl.dt(dtype)) for d in dims_list]
    y = c["call"](*xs)
    names = ["x", "w"][:len(xs)]
    model = ndx.build(dict(zip(names, xs)), {"y": y})
    return model, y, names


def run_layout(ctx, n: int, styles=("static", "symbolic", "none"), label="layout"):
    rng = random.Random(f"tgraph/{label}/{ctx.seed}")
    cases = layout_cases(rng, n)
    jobs = []
    for k, c in enumerate(cases):
        style = "static" if c.get("static") else rng.choice(styles)
        shape = concrete_shape(rng, c)
        shape = finalize(rng, c, shape)
        dtype = DTYPES[(k + ctx.seed) % len(DTYPES)]
        jobs.append((c, style, shape, dtype))
    lines = [" ".join(["tg_render", c["fn"]] + c["args"]) for c, _, _, _ in jobs]
    nlines = [" ".join(["tg_render", "@null", c["fn"]] + c["args"]) for c, _, _, _ in jobs]
    want = common.model(lines + nlines)
    want_null = want[len(lines):]
    eval_lines, eval_meta = [], []
    matched = 0
    for (c, style, shape, dtype), line, w, wn in zip(jobs, lines, want, want_null):
        ident = (label, c["fn"], tuple(c["args"]), style, dtype)
        shapes = [shape] * c["ninputs"]
        if c["fn"] == "concat":
            s2 = list(shape)
            s2[c["concat_axis"]] = rng.choice([0, 1, 2])
            shapes = [shape, tuple(s2)]
        dims = [decl_dims(style, s, "AB"[i]) for i, s in enumerate(shapes)]
        if c["fn"] in ("concat", "stack") and style == "symbolic":
            # axes that must agree share their symbol
            dims = [tuple(f"A{j}" if not (c["fn"] == "concat" and j == c["concat_axis"]) else f"{'AB'[i]}{j}"
                          for j in range(len(s))) for i, s in enumerate(shapes)]
        try:
            model, y, names = trace_case(c, dims, dtype)
        except Exception as e:
            ctx.corr_broken(f"tgraph-trace/{c['fn']}", {"line": line, "style": style, "dtype": dtype,
                                                       "error": f"{type(e).__name__}: {str(e)[:200]}"})
            search_layout(ctx, c, dtype, rng, f"trace raised {type(e).__name__}")
            continue
        plain, nulls = field_inputs([(nm, dtype) for nm in names])
        outs = [("y_values", plain), ("y_null", nulls)] if impl.is_nullable(dtype) else [("y", plain)]
        ok = True
        for oname, mapping in outs:
            try:
                got = render(model, oname, mapping)
            except Unsupported as e:
                got = f"unsupported:{e}"
            ctx.case(ident + (oname,), True, {"call": line, "dims": str(dims), "dtype": dtype, "exported": got[:300]} if len(ctx.samples) < 10 else None)
            ctx.count(f"tgraph-{label}:{c['fn']}")
            if got != (wn if oname == "y_null" else w):
                ok = False
                ctx.corr_broken(f"tgraph-term/{c['fn']}", {"call": line, "dims": str(dims), "dtype": dtype, "output": oname,
                                                          "exported": got[:1500], "model": (wn if oname == "y_null" else w)[:1500]})
        if not ok:
            search_layout(ctx, c, dtype, rng, "exported graph is not the modelled term")
            continue
        matched += 1
        # tie D on token data (int64 only: the Lean evaluation is over integers)
        if dtype == "int64":
            conc = [shapes] if style == "static" else [shapes, [concrete_like(rng, c, s) for s in shapes]]
            for shs in conc:
                if c["fn"] in ("stack",):
                    shs = [shs[0], shs[0]]
                if c["fn"] == "concat":
                    shs = [shs[0], tuple(shs[0][j] if j != c["concat_axis"] else shs[1][j] for j in range(len(shs[0])))]
                feeds = {nm: (1000 * i + np.arange(int(np.prod(s)), dtype=np.int64)).reshape(s) for i, (nm, s) in enumerate(zip(names, shs))}
                try:
                    res = impl.run_model(model, feeds, {"y": y})["y"]
                except Exception as e:
                    res = None
                    err = f"{type(e).__name__}: {str(e)[:160]}"
                ref = c["ref"](*[feeds[nm] for nm in names])
                if res is None or res.shape != ref.shape or not np.array_equal(res, ref):
                    ctx.violation(f"{c['fn']}/graph-tie/{style}/values",
                                  f"{line} dims={dims} shapes={shs}: exported model gives {None if res is None else res.tolist()}, NumPy {ref.tolist()}",
                                  {"call": line, "dims": str(dims), "shapes": [list(s) for s in shs], "dtype": dtype})
                    continue
                eval_lines.append("tg_eval " + ";".join(_tok(s) for s in shs) + " " + render(model, "y", plain))
                eval_meta.append((line, shs, res))
    ans = common.model(eval_lines)
    agree = 0
    for a, (line, shs, res) in zip(ans, eval_meta):
        exp = f"ok {_tok(res.shape)} {_ints(res.reshape(-1).tolist())}"
        if a != exp:
            ctx.corr_broken("tgraph-eval-vs-onnxruntime", {"call": line, "shapes": [list(s) for s in shs], "lean": a[:300], "onnxruntime": exp[:300]})
        else:
            agree += 1
    ctx.count(f"tgraph-{label}-terms-matched", matched)
    ctx.count(f"tgraph-{label}-lean-eval-agrees-with-onnxruntime", agree)


def concrete_like(rng, c, shape):
    s = list(concrete_shape(rng, c))
    if "take_axis" in c:       # indices were drawn for the first shape's extent
        s[c["take_axis"] % c["rank"]] = shape[c["take_axis"] % c["rank"]]
    return tuple(s)


def search_layout(ctx, c, dtype, rng, why):
    """Failing-input search after a broken term correspondence: exported model vs NumPy on token data."""
    found = 0
    for style in ("symbolic", "static"):
        for _ in range(12):
            shape = concrete_shape(rng, c)
            if c.get("static") or "take_axis" in c:
                if found or _ > 0:
                    break
                shape = c.get("src_shape") or shape
            shapes = [shape] * c["ninputs"]
            dims = [decl_dims(style, s, "A") for s in shapes]
            try:
                model, y, names = trace_case(c, dims, "int64")
                feeds = {nm: (1000 * i + np.arange(int(np.prod(s)), dtype=np.int64)).reshape(s) for i, (nm, s) in enumerate(zip(names, shapes))}
                ref = c["ref"](*[feeds[nm] for nm in names])
                res = impl.run_model(model, feeds, {"y": y})["y"]
                bad = res.shape != ref.shape or not np.array_equal(res, ref)
                obs = res.tolist()
            except Exception as e:
                try:
                    ref = c["ref"](*[(np.arange(int(np.prod(s)), dtype=np.int64)).reshape(s) for s in shapes])
                except Exception:
                    continue           # NumPy rejects the call as well: not an admissible input
                bad, obs = True, f"{type(e).__name__}: {str(e)[:160]}"
            if bad:
                found += 1
                ctx.violation(f"{c['fn']}/graph-tie/{style}/values",
                              f"{c['fn']} {c['args']} on shape {shape} ({style}): {obs} vs NumPy {ref.tolist()} [{why}]",
                              {"fn": c["fn"], "args": c["args"], "shape": list(shape), "style": style, "why": why})
                return True
    return False


# --------------------------------------------------------------------------------------
# getitem
# --------------------------------------------------------------------------------------
def run_getitem(ctx, cases, styles=("static", "symbolic", "none"), label="getitem"):
    """cases: (shape, idx) in the encoding of props/c08.py."""
    from .props import c08
    rng = random.Random(f"tgraph/{label}/{ctx.seed}")
    # one structural comparison per distinct (rank, index, style, dtype class)
    seen = {}
    for shape, idx in cases:
        seen.setdefault((len(shape), idx), shape)
    keys = sorted(seen, key=repr)
    lines = [" ".join(["tg_render", "getitem", str(r)] + c08.to_tok(i)) for r, i in keys]
    want = dict(zip(keys, common.model(lines)))
    by_rank = {}
    for k in keys:
        by_rank.setdefault(k[0], []).append(k)
    eval_lines, eval_meta = [], []
    matched = 0
    for rank, ks in sorted(by_rank.items()):
        for ci in range(0, len(ks), 300):
            chunk = ks[ci:ci + 300]
            style = styles[(ci // 300 + rank + ctx.seed) % len(styles)]
            dtype = DTYPES[(ci // 300 + 5 * rank + ctx.seed) % len(DTYPES)] if ci else "int64"
            # a static declaration must admit every index of the chunk: use extent 4 (C08's maximum) per axis
            shape = tuple(4 for _ in range(rank))
            dims = decl_dims(style, shape, "D")
            x = ndx.array(shape=dims, dtype=impl.dt(dtype))
            outs = {}
            for j, (r, idx) in enumerate(chunk):
                try:
                    outs[f"o{j}"] = x[c08.to_py(idx)]
                except Exception as e:
                    if not want[(r, idx)].startswith("err"):
                        ctx.corr_broken("tgraph-term/getitem", {"index": str(c08.to_py(idx)), "rank": r, "impl": f"raised {type(e).__name__}", "model": want[(r, idx)][:300]})
            if not outs:
                continue
            model = ndx.build({"x": x}, outs)
            plain, nulls = field_inputs([("x", dtype)])
            for name, arr in outs.items():
                r, idx = chunk[int(name[1:])]
                w = want[(r, idx)]
                fields = [(f"{name}_values", plain), (f"{name}_null", nulls)] if impl.is_nullable(dtype) else [(name, plain)]
                ok = True
                for oname, mapping in fields:
                    try:
                        got = render(model, oname, mapping)
                    except Unsupported as e:
                        got = f"unsupported:{e}"
                    ctx.case((label, r, idx, style, dtype, oname.split("_")[-1]), c08.nontrivial(idx),
                             {"index": str(c08.to_py(idx)), "dims": str(dims), "dtype": dtype, "exported": got[:300]} if len(ctx.samples) < 10 else None)
                    if got != w:
                        ok = False
                        ctx.corr_broken("tgraph-term/getitem", {"index": str(c08.to_py(idx)), "rank": r, "dims": str(dims), "dtype": dtype,
                                                                "exported": got[:800], "model": w[:800]})
                if ok:
                    matched += 1
                    if dtype == "int64" and len(eval_lines) < 4000:
                        for sh in {seen[(r, idx)], tuple(rng.choice([0, 1, 2, 3, 4]) for _ in range(r))}:
                            if admissible(idx, sh):
                                eval_lines.append("tg_eval " + _tok(sh) + " " + w)
                                eval_meta.append((idx, sh))
                else:
                    search_getitem(ctx, idx, seen[(r, idx)], rng)
    # tie D: Lean evaluation of the (matched = exported) term vs NumPy on token data
    ans = common.model(eval_lines)
    agree = 0
    for a, (idx, sh) in zip(ans, eval_meta):
        ref = np.arange(int(np.prod(sh)), dtype=np.int64).reshape(sh)[c08.to_py(idx)]
        exp = f"ok {_tok(ref.shape)} {_ints(np.asarray(ref).reshape(-1).tolist())}"
        if a != exp:
            ctx.corr_broken("tgraph-eval-vs-numpy/getitem", {"index": str(c08.to_py(idx)), "shape": list(sh), "lean": a[:300], "numpy": exp[:300]})
        else:
            agree += 1
    ctx.count(f"tgraph-{label}-terms-matched", matched)
    ctx.count(f"tgraph-{label}-lean-eval-agrees-with-numpy", agree)


def admissible(idx, shape):
    """Is the index inside the Array API's bounds for this concrete shape?  (ints in [-n, n), slice bounds of C08.)"""
    ents = [e for e in idx if e not in ("n",)]
    if "e" in ents:
        k = len(shape) - (len(ents) - 1)
        p = ents.index("e")
        ents = ents[:p] + [("s", None, None, None)] * k + ents[p + 1:]
    if len(ents) != len(shape):
        return False
    for e, n in zip(ents, shape):
        if e[0] == "i":
            if not (-n <= e[1] < n):
                return False
        else:
            _, a, b, c = e
            pos = c is None or c > 0
            if pos:
                if (a is not None and not (-n <= a <= n)) or (b is not None and not (-n <= b <= n)):
                    return False
            else:
                if (a is not None and not (-n <= a <= max(0, n - 1))) or (b is not None and not (-n - 1 <= b <= max(0, n - 1))):
                    return False
    return True


def search_getitem(ctx, idx, shape0, rng):
    from .props import c08
    r = len(shape0)
    shapes = [shape0] + [tuple(rng.choice([0, 1, 2, 3, 4]) for _ in range(r)) for _ in range(10)]
    for sh in shapes:
        if not admissible(idx, sh):
            continue
        tok = np.arange(int(np.prod(sh)), dtype=np.int64).reshape(sh)
        ref = tok[c08.to_py(idx)]
        for style in ("symbolic", "static"):
            try:
                x = ndx.array(shape=decl_dims(style, sh, "D"), dtype=ndx.int64)
                y = x[c08.to_py(idx)]
                res = impl.run_model(ndx.build({"x": x}, {"y": y}), {"x": tok}, {"y": y})["y"]
                bad, obs = (res.shape != ref.shape or not np.array_equal(res, ref)), res.tolist()
            except Exception as e:
                bad, obs = True, f"{type(e).__name__}: {str(e)[:160]}"
            if bad:
                ctx.violation(f"getitem/graph-tie/{style}/values",
                              f"x[{c08.to_py(idx)}] on shape {sh} ({style}): {obs} vs NumPy {np.asarray(ref).tolist()}",
                              {"index": str(c08.to_py(idx)), "shape": list(sh), "style": style})
                return True
    return False


# --------------------------------------------------------------------------------------
# reductions (integer / boolean dtypes)
# --------------------------------------------------------------------------------------
CODE = {"uint8": 2, "int8": 3, "uint16": 4, "int16": 5, "int32": 6, "int64": 7, "bool": 9, "uint32": 12, "uint64": 13}
NP_REDUCE = {"sum": np.sum, "prod": np.prod, "min": np.min, "max": np.max, "all": np.all, "any": np.any}


def reduce_cases(rng: random.Random, n: int):
    out = []
    for _ in range(n):
        fn = rng.choice(["sum", "prod", "min", "max", "all", "any", "all", "any"])
        dtype = rng.choice(list(CODE) if fn in ("all", "any") else [d for d in CODE if d != "bool"])
        rank = rng.choice([1, 2, 2, 3])
        form = rng.choice(["none", "int", "int", "tuple", "empty"])
        if form == "none":
            axis, tok = None, "~"
        elif form == "int":
            axis = rng.randrange(-rank, rank)
            tok = str(axis)
        elif form == "empty":
            axis, tok = (), "()"
        else:
            k = rng.randrange(1, rank + 1)
            ax = rng.sample(range(rank), k)
            axis = tuple(a - rank if rng.random() < 0.5 else a for a in ax)
            tok = "(" + ",".join(map(str, axis)) + ")"
        kd = rng.random() < 0.4
        dt = None
        if fn in ("sum", "prod") and rng.random() < 0.3:
            dt = rng.choice(["int16", "int32", "int64", "uint32", "uint64", "uint8"])
        out.append({"fn": fn, "dtype": dtype, "rank": rank, "axis": axis, "axis_tok": tok, "keepdims": kd, "acc": dt})
    return out


def _large_magnitudes(c, data) -> bool:
    """Does the case reach the magnitudes of the recorded onnxruntime kernel findings?  sum/prod: the exact accumulated
    magnitude of some reduced slice (after the cast to an unsigned accumulator) is >= 2**53 (the int64 kernels accumulate
    in floating point); min/max: an element >= 2**31 in magnitude (the kernels compare the low 32 bits)."""
    if data.dtype == np.bool_ or not data.size:
        return False
    vals = data.astype(object)
    if c["acc"] and np.dtype(c["acc"]).kind == "u":
        vals = vals % (2 ** (8 * np.dtype(c["acc"]).itemsize))
    mags = np.abs(vals)
    if c["fn"] in ("sum", "prod"):
        ax = c["axis"]
        red = (np.sum if c["fn"] == "sum" else np.prod)(mags, axis=ax)
        return int(np.max(np.asarray(red, dtype=object))) >= 2 ** 53
    return int(mags.max()) >= 2 ** 31


def run_reduce(ctx, n: int, styles=("static", "symbolic", "none"), label="reduce"):
    rng = random.Random(f"tgraph/{label}/{ctx.seed}")
    cases = reduce_cases(rng, n)
    lines = [f"tg_render {c['fn']} {CODE[c['dtype']]} {c['rank']} {c['axis_tok']} {int(c['keepdims'])} {CODE[c['acc']] if c['acc'] else '~'}" for c in cases]
    want = common.model(lines)
    eval_lines, eval_meta = [], []
    matched = 0
    for c, line, w in zip(cases, lines, want):
        style = rng.choice(styles)
        # extents: keep the trace-time shape free of zeros (the statically-empty shortcut of all/any is a constant)
        shape = tuple(rng.choice([1, 2, 3]) for _ in range(c["rank"]))
        dims = decl_dims(style, shape, "R")
        kw = {"axis": c["axis"], "keepdims": c["keepdims"]}
        if c["acc"]:
            kw["dtype"] = impl.dt(c["acc"])
        x = ndx.array(shape=dims, dtype=impl.dt(c["dtype"]))
        ident = (label, c["fn"], c["dtype"], c["rank"], c["axis_tok"], c["keepdims"], c["acc"], style)
        try:
            y = getattr(ndx, c["fn"])(x, **kw)
            model = ndx.build({"x": x}, {"y": y})
            got = render(model, "y", {"x": "in0"})
        except Unsupported as e:
            got = f"unsupported:{e}"
        except TypeError as e:
            got = "err TypeError"
        except Exception as e:
            got = f"raised {type(e).__name__}: {str(e)[:120]}"
        ctx.case(ident, True, {"call": line, "dims": str(dims), "exported": got[:300]} if len(ctx.samples) < 10 else None)
        ctx.count(f"tgraph-{label}:{c['fn']}")
        if got != w:
            ctx.corr_broken(f"tgraph-term/{c['fn']}", {"call": line, "dims": str(dims), "exported": got[:800], "model": w[:800]})
            search_reduce(ctx, c, rng, "exported graph is not the modelled term")
            continue
        matched += 1
        if got.startswith("err"):
            continue
        # tie D with explicit data (zeros, negatives, type extremes folded into range), incl. zero extents when dims are dynamic
        npd = np.dtype(c["dtype"])
        for shp in ([shape] if style == "static" else [shape, tuple(rng.choice([0, 1, 2, 3]) for _ in range(c["rank"]))]):
            size = int(np.prod(shp))
            if npd == np.bool_:
                data = (np.arange(size) % 3 == 1)
            else:
                info = np.iinfo(npd)
                raw = [rng.choice([0, 0, 1, 2, -1, -3, 5, int(info.max), int(info.min)]) for _ in range(size)]
                data = np.array([max(int(info.min), min(int(info.max), v)) for v in raw], dtype=npd)
            data = data.reshape(shp)
            try:
                res = impl.run_model(model, {"x": data}, {"y": y})["y"]
            except Exception as e:
                continue       # onnxruntime refuses (e.g. min/max over an empty extent): not an admissible input
            eval_lines.append(f"tg_evald {_tok(shp)}:{_ints(data.astype(object).reshape(-1).tolist() if npd != np.bool_ else data.astype(int).reshape(-1).tolist())} {got}")
            eval_meta.append((line, shp, res, c, data))
    ans = common.model(eval_lines)
    agree = 0
    for a, (line, shp, res, c, data) in zip(ans, eval_meta):
        vals = res.astype(int).reshape(-1).tolist() if res.dtype == np.bool_ else [int(v) for v in res.reshape(-1).tolist()]
        exp = f"ok {_tok(res.shape)} {_ints(vals)}"
        if a != exp:
            # the Lean reading of the operators and onnxruntime differ: which of them disagrees with NumPy?
            nkw = {"axis": c["axis"], "keepdims": c["keepdims"]}
            if c["acc"]:
                nkw["dtype"] = np.dtype(c["acc"])
            try:
                with np.errstate(all="ignore"):
                    ref = NP_REDUCE[c["fn"]](data, **nkw)
                if c["fn"] in ("sum", "prod") and not c["acc"] and data.dtype.kind == "u":
                    ref = np.asarray(ref).astype(np.uint64 if c["fn"] == "sum" else np.uint32)
                ort_ok = np.shape(ref) == res.shape and np.array_equal(np.asarray(ref), res)
            except Exception:
                ort_ok = True
            if ort_ok:
                ctx.corr_broken("tgraph-eval-vs-onnxruntime/reduce", {"call": line, "shape": list(shp), "lean": a[:300], "onnxruntime": exp[:300]})
            else:
                big = _large_magnitudes(c, data)
                ctx.violation(f"{c['fn']}/{c['acc'] or c['dtype']}/{'large-magnitudes' if big else 'ordinary'}/exported-model-differs-from-numpy",
                              f"{line} on {data.tolist()}: exported model gives {res.tolist()}, NumPy {np.asarray(ref).tolist()} (Lean evaluation of the exported graph: {a[:120]})",
                              {"call": line, "data": data.tolist(), "observed": res.tolist(), "expected": np.asarray(ref).tolist()})
        else:
            agree += 1
    ctx.count(f"tgraph-{label}-terms-matched", matched)
    ctx.count(f"tgraph-{label}-lean-eval-agrees-with-onnxruntime", agree)
    run_reduce_nullable(ctx, max(40, n // 4), styles, label)


def run_reduce_nullable(ctx, n, styles, label):
    """sum / prod of nullable integer arrays: the values-and-null graph vs `sumNullableGraph` / `prodNullableGraph`
    (Props/C10GraphSum.lean: sum_nullable_graph_correct), and the Lean evaluation vs onnxruntime with junk payloads."""
    rng = random.Random(f"tgraph/{label}-nullable/{ctx.seed}")
    cases = [c for c in reduce_cases(rng, n * 4) if c["fn"] in ("sum", "prod") and c["dtype"] != "bool" and not c["acc"]][:n]
    lines = [f"tg_render n{c['fn']} {CODE[c['dtype']]} {c['rank']} {c['axis_tok']} {int(c['keepdims'])} ~" for c in cases]
    want = common.model(lines)
    eval_lines, eval_meta = [], []
    matched = 0
    for c, line, w in zip(cases, lines, want):
        style = rng.choice(styles)
        shape = tuple(rng.choice([1, 2, 3]) for _ in range(c["rank"]))
        dims = decl_dims(style, shape, "R")
        x = ndx.array(shape=dims, dtype=impl.dt("n" + c["dtype"]))
        try:
            y = getattr(ndx, c["fn"])(x, axis=c["axis"], keepdims=c["keepdims"])
            model = ndx.build({"x": x}, {"y": y})
            outs = [o.name for o in model.graph.output]
            got = render(model, "y", {"x_values": "in0", "x_null": "in1"}) if outs == ["y"] else f"outputs:{outs}"
        except Unsupported as e:
            got = f"unsupported:{e}"
        except TypeError:
            got = "err TypeError"
        except Exception as e:
            got = f"raised {type(e).__name__}: {str(e)[:120]}"
        ctx.case((label + "-nullable", c["fn"], c["dtype"], c["rank"], c["axis_tok"], c["keepdims"], style), True,
                 {"call": line, "dims": str(dims), "exported": got[:300]} if len(ctx.samples) < 12 else None)
        ctx.count(f"tgraph-{label}-nullable:{c['fn']}")
        if got != w:
            ctx.corr_broken(f"tgraph-term/n{c['fn']}", {"call": line, "dims": str(dims), "exported": got[:800], "model": w[:800]})
            continue
        matched += 1
        if got.startswith("err"):
            continue
        npd = np.dtype(c["dtype"])
        for shp in ([shape] if style == "static" else [shape, tuple(rng.choice([0, 1, 2, 3]) for _ in range(c["rank"]))]):
            size = int(np.prod(shp))
            vals = np.array([rng.choice([0, 1, 2, 3, 5, -1 if npd.kind == "i" else 4]) for _ in range(size)], dtype=npd).reshape(shp)
            null = np.array([rng.random() < 0.4 for _ in range(size)], dtype=bool).reshape(shp)
            junk = np.where(null, np.array(np.iinfo(npd).max, dtype=npd), vals)        # payloads under nulls: the type's maximum
            try:
                res = impl.run_model(model, {"x_values": junk, "x_null": null}, {"y": y})["y"]
            except Exception:
                continue
            eval_lines.append(f"tg_evald {_tok(shp)}:{_ints(junk.astype(object).reshape(-1).tolist())};{_tok(shp)}:{_ints(null.astype(int).reshape(-1).tolist())} {got}")
            eval_meta.append((line, shp, res, c, vals, null))
    ans = common.model(eval_lines)
    agree = 0
    for a, (line, shp, res, c, vals, null) in zip(ans, eval_meta):
        exp = f"ok {_tok(res.shape)} {_ints([int(v) for v in res.reshape(-1).tolist()])}"
        # NumPy oracle on the non-null data: nulls are absent
        acc = (np.uint64 if c["fn"] == "sum" else np.uint32) if vals.dtype.kind == "u" else np.int64
        neutral = 0 if c["fn"] == "sum" else 1
        with np.errstate(all="ignore"):
            ref = NP_REDUCE[c["fn"]](np.where(null, np.array(neutral, dtype=vals.dtype), vals).astype(acc), axis=c["axis"], keepdims=c["keepdims"])
        if np.shape(ref) != res.shape or not np.array_equal(np.asarray(ref), res):
            ctx.violation(f"{c['fn']}/n{c['dtype']}/nulls-not-absent/exported-model-differs-from-numpy",
                          f"{line} values={vals.tolist()} null={null.tolist()}: exported model gives {res.tolist()}, NumPy on the non-null data {np.asarray(ref).tolist()}",
                          {"call": line, "values": vals.tolist(), "null": null.tolist(), "observed": res.tolist(), "expected": np.asarray(ref).tolist()})
        elif a != exp:
            ctx.corr_broken("tgraph-eval-vs-onnxruntime/reduce-nullable", {"call": line, "shape": list(shp), "lean": a[:300], "onnxruntime": exp[:300]})
        else:
            agree += 1
    ctx.count(f"tgraph-{label}-nullable-terms-matched", matched)
    ctx.count(f"tgraph-{label}-nullable-lean-eval-agrees-with-onnxruntime", agree)


def search_reduce(ctx, c, rng, why):
    """Failing-input search: the exported model vs NumPy on small inputs, zero extents included."""
    npd = np.dtype(c["dtype"])
    kw = {"axis": c["axis"], "keepdims": c["keepdims"]}
    nkw = dict(kw)
    if c["acc"]:
        kw["dtype"] = impl.dt(c["acc"])
        nkw["dtype"] = np.dtype(c["acc"])
    for style in ("symbolic", "static"):
        for _ in range(16):
            shp = tuple(rng.choice([0, 1, 2, 3]) for _ in range(c["rank"]))
            size = int(np.prod(shp))
            data = (np.arange(size) % 3 == 1) if npd == np.bool_ else np.array([rng.choice([0, 0, 1, 2, 3]) for _ in range(size)], dtype=npd)
            data = data.reshape(shp)
            try:
                ref = NP_REDUCE[c["fn"]](data, **nkw)
            except Exception:
                continue
            if c["fn"] in ("sum", "prod") and not c["acc"] and npd.kind == "u":
                ref = ref.astype(np.uint64 if c["fn"] == "sum" else np.uint32)      # the library's documented unsigned accumulators
            try:
                x = ndx.array(shape=decl_dims(style, shp, "R"), dtype=impl.dt(c["dtype"]))
                y = getattr(ndx, c["fn"])(x, **kw)
                res = impl.run_model(ndx.build({"x": x}, {"y": y}), {"x": data}, {"y": y})["y"]
                bad = res.shape != np.shape(ref) or not np.array_equal(res, ref)
                obs = res.tolist()
            except Exception as e:
                bad, obs = True, f"{type(e).__name__}: {str(e)[:160]}"
            if bad:
                ctx.violation(f"{c['fn']}/graph-tie/{style}/values",
                              f"{c['fn']}({c['dtype']}{list(shp)}, axis={c['axis']}, keepdims={c['keepdims']}, dtype={c['acc']}) {style}: {obs} vs NumPy {np.asarray(ref).tolist()} [{why}]",
                              {"fn": c["fn"], "dtype": c["dtype"], "shape": list(shp), "axis": str(c["axis"]), "keepdims": c["keepdims"], "acc": c["acc"], "data": data.tolist()})
                return True
    return False


# --------------------------------------------------------------------------------------
# tie D on compositions: whole traced programs whose graph stays inside the modelled operator set
# --------------------------------------------------------------------------------------
def _prog_worker(job):
    """Generate one integer/boolean program, trace it with every input a placeholder (symbolic dims), export, render each
    step's output and run the model in onnxruntime on the generation-time inputs."""
    from . import progs
    seed, = job
    rng = random.Random(f"tgraph-prog/{seed}")
    prog = progs.generate(rng, seed=seed, families=["index", "layout", "layout", "reduce", "index", "shortcut", "where", "logical", "cmp", "binary", "inplace", "creation"],
                          dtypes=["int64", "int64", "int32", "bool", "uint8", "int16"], n_steps=(1, 4),
                          sizes={"A": rng.choice([0, 1, 2, 3]), "B": rng.choice([1, 2, 3])})
    if prog is None:
        return None
    n = len(prog["inputs"])
    if any(i["dtype"] not in CODE for i in prog["inputs"]):
        return None
    try:
        vals, arrs, res = progs.trace(prog, set(range(n)), "symbolic", prog["gen_sizes"], seed)
        keep = [(j, r) for j, r in enumerate(res) if impl.dtname(r.dtype) in CODE]
        if not keep:
            return None
        ins = {f"i{k}": arrs[k] for k in range(n)}
        outs = {f"o{j}": r for j, r in keep}
        model = ndx.build(ins, outs)
        feeds = {}
        for k in range(n):
            feeds.update(impl.feed(f"i{k}", vals[k], prog["inputs"][k]["dtype"]))
        got = impl.run_model(model, feeds, outs)
    except Exception:
        return None
    mapping = {f"i{k}": f"in{k}" for k in range(n)}
    items = []
    for j, r in keep:
        try:
            term = render(model, f"o{j}", mapping)
        except Unsupported as e:
            items.append({"step": j, "op": prog["steps"][j]["op"], "unsupported": str(e)})
            continue
        v = got[f"o{j}"]
        items.append({"step": j, "op": prog["steps"][j]["op"], "term": term, "shape": list(v.shape),
                      "values": [int(q) for q in np.asarray(v).astype(object).reshape(-1).tolist()] if v.dtype != np.bool_ else np.asarray(v).astype(int).reshape(-1).tolist()})
    inputs = []
    for k in range(n):
        v = np.asarray(vals[k])
        inputs.append((list(v.shape), v.astype(int).reshape(-1).tolist() if v.dtype == np.bool_ else [int(q) for q in v.astype(object).reshape(-1).tolist()]))
    return {"desc": progs.describe(prog), "inputs": inputs, "items": items}


def run_programs(ctx, n: int):
    from . import tables
    jobs = [(ctx.seed * 7919 + k,) for k in range(n)]
    recs = [r for _, r in tables.pairs(ctx, jobs, tables.pmap(_prog_worker, jobs, chunk=4)) if r and not isinstance(r, tables.Crashed)]
    lines, meta = [], []
    unsupported = {}
    for rec in recs:
        ins = ";".join(f"{_tok(sh)}:{_ints(vs)}" for sh, vs in rec["inputs"])
        for it in rec["items"]:
            if "unsupported" in it:
                unsupported[it["unsupported"]] = unsupported.get(it["unsupported"], 0) + 1
                continue
            if len(it["term"]) > 20000:
                continue
            lines.append(f"tg_evald {ins} {it['term']}")
            meta.append((rec["desc"], it))
    ans = common.model(lines)
    agree = 0
    for a, (desc, it) in zip(ans, meta):
        exp = f"ok {_tok(it['shape'])} {_ints(it['values'])}"
        ctx.case(("tgraph-program", desc, it["step"]), True, {"program": desc, "step": it["step"], "term": it["term"][:200]} if len(ctx.samples) < 12 else None)
        if a != exp:
            ctx.corr_broken("tgraph-eval-vs-onnxruntime/program", {"program": desc, "step": it["step"], "op": it["op"], "lean": a[:300], "onnxruntime": exp[:300], "term": it["term"][:600]})
        else:
            agree += 1
    ctx.count("tgraph-program-steps-lean-eval-agrees-with-onnxruntime", agree)
    ctx.extra["tgraph_program_steps_outside_operator_set"] = dict(sorted(unsupported.items(), key=lambda kv: -kv[1])[:12])
