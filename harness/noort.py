"""Tracing in a child interpreter in which onnxruntime cannot be imported (C16)."""
from __future__ import annotations

import base64
import json
import os
import subprocess
import sys

BLOCK = r'''
import sys
class _Block:
    def find_spec(self, name, path=None, target=None):
        if name == "onnxruntime" or name.startswith("onnxruntime."):
            raise ImportError("onnxruntime masked by the verification harness")
        return None
sys.meta_path.insert(0, _Block())
import warnings; warnings.filterwarnings("ignore")
sys.path.insert(0, "/verif")
'''

CHILD = BLOCK + r'''
import json, base64
import numpy as np
import ndonnx as ndx
import ndonnx._propagation as pr
assert pr.ORT_PRESENT is False, "onnxruntime was importable in the child"
assert "onnxruntime" not in sys.modules
# harness.impl imports onnxruntime: use the pieces that do not
import types
fake = types.ModuleType("onnxruntime"); fake.set_default_logger_severity = lambda *a: None
class _S: pass
fake.SessionOptions = _S; fake.InferenceSession = None
sys.modules["onnxruntime"] = fake          # only for `harness.impl`'s import; ndonnx is already loaded without it
from harness import progs, impl
jobs = json.load(sys.stdin)
out = []
for job in jobs:
    prog, lazy, style, sizes, seed = job["prog"], set(job["lazy"]), job["style"], job["sizes"], job["seed"]
    rec = {}
    try:
        vals, arrs, res = progs.trace(prog, lazy, style, sizes, seed)
        rec["valued"] = [r.to_numpy() is not None for r in res]
        rec["dtypes"] = [impl.dtname(r.dtype) for r in res]
        rec["static_shapes"] = [[d if isinstance(d, int) else None for d in r._static_shape] for r in res]
        ins = {f"i{k}": arrs[k] for k in sorted(lazy)}
        outs = {f"o{j}": r for j, r in enumerate(res)}
        rec["model"] = base64.b64encode(ndx.build(ins, outs).SerializeToString()).decode()
    except Exception as e:
        rec["error"] = f"{type(e).__name__}: {str(e)[:300]}"
    out.append(rec)
json.dump(out, sys.stdout)
'''


def trace_without_ort(jobs: list[dict], timeout: int = 900) -> list[dict]:
    p = subprocess.run([sys.executable, "-c", CHILD], input=json.dumps(jobs), capture_output=True,
                       text=True, timeout=timeout, env={**os.environ, "PYTHONWARNINGS": "ignore"})
    if p.returncode != 0:
        raise RuntimeError("no-ORT child failed: " + p.stderr[-2000:])
    return json.loads(p.stdout)
