"""Shared helper for NumPy-differential sweeps of single functions (C04, C10, C11, C12, C13, C14):
run `nd_fn` on data-holding arrays and traced (all inputs placeholders with symbolic dims), compare
with `np_fn` on the same NumPy values."""
from __future__ import annotations

import numpy as np

from . import impl, progs
from .impl import ndx


def run_case(nd_fn, inputs, dtypes, modes=("eager", "traced"), decl="symbolic"):
    """inputs: list of numpy / masked arrays; returns {mode: value | ('error', str)}."""
    out = {}
    for mode in modes:
        try:
            if mode == "eager":
                arrs = [ndx.asarray(v) for v in inputs]
                res = nd_fn(*arrs)
                out[mode] = _values(res, lambda r: r.to_numpy())
            else:
                arrs = []
                for k, (v, d) in enumerate(zip(inputs, dtypes)):
                    shape = tuple(f"D{k}_{i}" for i in range(np.ndim(v))) if decl == "symbolic" else (
                        tuple(None for _ in range(np.ndim(v))) if decl == "unknown" else tuple(np.shape(v)))
                    arrs.append(ndx.array(shape=shape, dtype=impl.dt(d)))
                res = nd_fn(*arrs)
                flat = res if isinstance(res, (list, tuple)) else [res]
                model = ndx.build({f"i{k}": a for k, a in enumerate(arrs)}, {f"o{j}": r for j, r in enumerate(flat)})
                sess = impl.session(model)
                feeds = {}
                for k, (v, d) in enumerate(zip(inputs, dtypes)):
                    feeds.update(impl.feed(f"i{k}", v, d))
                raw = dict(zip([o.name for o in sess.get_outputs()], sess.run(None, feeds)))
                vals = [impl.collect(raw, f"o{j}", r) for j, r in enumerate(flat)]
                out[mode] = vals if isinstance(res, (list, tuple)) else vals[0]
        except Exception as e:  # noqa: BLE001
            out[mode] = ("error", f"{type(e).__name__}: {str(e)[:200]}")
    return out


def _values(res, f):
    if isinstance(res, (list, tuple)):
        return [f(r) for r in res]
    return f(res)


def is_error(v):
    return isinstance(v, tuple) and len(v) == 2 and v[0] == "error"


def matches(got, want, ulps=0, dtype_free=False):
    """Compare a result with the NumPy reference (dtype, shape, mask, values)."""
    if isinstance(got, impl.Malformed):
        return False
    if dtype_free:
        try:
            got = got.astype(np.ma.getdata(want).dtype) if np.ma.getdata(got).dtype.kind != "U" else got
        except Exception:
            return False
    return progs.same_value(got, want, ulps=ulps)
