"""Tie of Model/Setitem.lean (`Ndx.setitem`, theorems `Ndx.C09.setitem_frame/_hit/_shape`) to the code:
`x[index] = v` on token data, implementation vs Lean model vs NumPy, eager and traced."""
from __future__ import annotations

import random

import numpy as np

from . import common, impl, progs, tables


def fmt_entry(e):
    if e == "...":
        return "e"
    if e is None:
        return "n"
    if isinstance(e, int):
        return f"i{e}"
    a, b, c = e
    f = lambda v: "~" if v is None else str(v)
    return f"s:{f(a)}:{f(b)}:{f(c)}"


def make_case(seed):
    rng = random.Random(f"setitemtie/{seed}")
    r = rng.choice([1, 1, 2, 2, 3])
    shape = tuple(rng.choice([0, 1, 2, 3, 4]) if rng.random() < 0.25 else rng.choice([2, 3, 4, 5]) for _ in range(r))
    spec = [e for e in progs._basic_index(rng, shape) if e is not None]
    idx = progs._idx(spec)
    try:
        tshape = np.empty(shape)[idx].shape
    except Exception:
        return None
    c = rng.random()
    if c < 0.3:
        ushape = ()
    elif c < 0.6:
        ushape = tuple(tshape)
    else:
        ushape = tuple((1 if rng.random() < 0.4 else n) for n in tshape[rng.randrange(0, len(tshape) + 1):])
    return {"shape": shape, "spec": spec, "ushape": ushape, "tshape": tuple(tshape)}


def worker(seed):
    ndx = impl.ndx
    case = make_case(seed)
    if case is None:
        return None
    shape, spec, ushape = case["shape"], case["spec"], case["ushape"]
    idx = progs._idx(spec)
    x = np.arange(int(np.prod(shape)), dtype=np.int64).reshape(shape)
    u = (1000 + np.arange(int(np.prod(ushape)) if ushape else 1, dtype=np.int64)).reshape(ushape)
    ref = x.copy()
    try:
        ref[idx] = u
        want = ref.ravel().tolist()
    except Exception as e:
        want = f"numpy-raises:{type(e).__name__}"
    out = {"case": {k: (list(v) if isinstance(v, tuple) else v) for k, v in case.items()}, "numpy": want}
    # eager
    try:
        a = ndx.asarray(x.copy())
        a[idx] = ndx.asarray(u)
        out["eager"] = a.to_numpy().ravel().tolist()
    except Exception as e:
        out["eager"] = f"raises:{type(e).__name__}"
    # traced with symbolic extents
    try:
        p = ndx.array(shape=tuple(f"D{i}" for i in range(len(shape))), dtype=ndx.int64)
        q = ndx.array(shape=tuple(f"U{i}" for i in range(len(ushape))), dtype=ndx.int64)
        t = p.copy()
        t[idx] = q
        model = ndx.build({"x": p, "u": q}, {"y": t})
        got = impl.run_model(model, {"x": x, "u": u}, {"y": t})["y"]
        out["traced"] = np.asarray(got).ravel().tolist()
    except Exception as e:
        out["traced"] = f"raises:{type(e).__name__}"
    return out


def run(ctx, n):
    seeds = [ctx.seed * 6007 + k for k in range(n)]
    res = [r for _, r in tables.pairs(ctx, seeds, tables.pmap(worker, seeds, chunk=8)) if r is not None and not isinstance(r, tables.Crashed)]
    fl = lambda s: ",".join(map(str, s)) or "-"
    lines = [f"setitem {fl(r['case']['shape'])} {fl(r['case']['ushape'])} " + " ".join(fmt_entry(e) for e in r["case"]["spec"]) for r in res]
    outs = common.model(lines)
    stats = {"cases": len(res), "model_equals_numpy": 0, "numpy_refuses": 0}
    for r, line, m in zip(res, lines, outs):
        ctx.case(("setitem-model", line), True, {"line": line, "model": m[:80]} if stats["cases"] and len(ctx.samples) < 10 else None)
        ctx.count("setitem-model-tie")
        if isinstance(r["numpy"], str):
            stats["numpy_refuses"] += 1
            continue
        want = "ok " + fl(r["numpy"])
        if m != want:
            ctx.corr_broken("lean-setitem-model-vs-numpy", {"line": line, "model": m[:300], "numpy": want[:300]})
            continue
        stats["model_equals_numpy"] += 1
        for mode in ("eager", "traced"):
            got = r[mode]
            if isinstance(got, str):
                ctx.violation(f"setitem-basic/model-tie/{mode}/raises", f"{line}: {mode} {got}", {"line": line, "mode": mode, "observed": got, **r["case"]})
            elif got != r["numpy"]:
                ctx.violation(f"setitem-basic/model-tie/{mode}/values", f"{line}: {mode} result {got[:40]} differs from Lean model and NumPy {r['numpy'][:40]}",
                              {"line": line, "mode": mode, "observed": got, "expected": r["numpy"], **r["case"], "theorems": "Ndx.C09.setitem_frame, setitem_hit"})
    ctx.extra["setitem_model_tie"] = stats
