"""Translator: exported ONNX graph of an element-wise function -> canonical S-expression (tie B).

The text format is the one `Ndx.Graph.G.render` produces (lean/NdonnxVerif/Model/Graph.lean):
inputs `a`, `b`; `(Op[attrs] args...)`; scalar constants `(Constant[<onnx-type-code>:<int>])`;
top-level `Identity` stripped; `saturate` attributes dropped."""
from __future__ import annotations

import numpy as np


def sexpr(model, output: str | None = None, rename: dict | None = None) -> str:
    import onnx
    from onnx import numpy_helper

    g = model.graph
    prod = {o: n for n in g.node for o in n.output}
    inputs = [i.name for i in g.input]
    inits = {i.name: i for i in g.initializer}

    def const(t):
        arr = numpy_helper.to_array(t)
        if arr.shape != ():
            return f"(Constant[{t.data_type}:shape{list(arr.shape)}])"
        v = arr.item()
        if isinstance(v, (bool, np.bool_)):
            v = int(v)
        if isinstance(v, float):
            return f"(Constant[{t.data_type}:float:{v!r}])"
        return f"(Constant[{t.data_type}:{v}])"

    def attrs(n):
        out = []
        for a in sorted(n.attribute, key=lambda a: a.name):
            if a.name == "saturate":
                continue
            if a.type == onnx.AttributeProto.INT:
                out.append(f"{a.name}={a.i}")
            elif a.type == onnx.AttributeProto.STRING:
                out.append(f"{a.name}={a.s.decode()}")
            elif a.type == onnx.AttributeProto.INTS:
                out.append(f"{a.name}={list(a.ints)}")
            else:
                out.append(f"{a.name}=?")
        return out

    def go(name, depth=0):
        if depth > 200:
            return "(TooDeep)"
        if name in inputs:
            return (rename or {}).get(name, name)
        if name in inits:
            return const(inits[name])
        n = prod[name]
        if n.op_type == "Constant":
            for a in n.attribute:
                if a.name == "value":
                    return const(a.t)
            return "(Constant[?])"
        a = attrs(n)
        args = [go(i, depth + 1) for i in n.input]
        return "(" + " ".join([n.op_type + ("[" + ",".join(a) + "]" if a else "")] + args) + ")"

    name = output or g.output[0].name
    s = go(name)
    while s.startswith("(Identity ") and s.endswith(")"):
        s = s[len("(Identity "):-1]
    # an all-false mask of an operand's shape (a non-nullable operand's "null mask")
    import re
    s = re.sub(r"\(Expand \(Constant\[9:0\]\) \(Shape\[start=0\] ([ab])\)\)", r"(FalseLike \1)", s)
    return s
