"""Tie (A): tables dumped from the running implementation are written as Lean source under
lean/Gen/ and the laws over them are re-checked by the Lean kernel (`lake build Gen.<Name>`)."""
from __future__ import annotations

import fcntl
import re
import subprocess

from . import common

GEN = common.LEAN / "Gen"


def lean_list(items) -> str:
    return "[" + ", ".join(items) + "]"


def write(name: str, content: str) -> bool:
    """Write Gen/<name>.lean if its content changed.  Returns True when rewritten."""
    GEN.mkdir(exist_ok=True)
    f = GEN / f"{name}.lean"
    if f.exists() and f.read_text() == content:
        return False
    tmp = GEN / f".{name}.lean.tmp"
    tmp.write_text(content)
    tmp.replace(f)
    return True


def build(names: list[str], timeout: int = 1500) -> tuple[bool, str, list[str]]:
    """`lake build Gen.<name>…` under the shared lock.  Returns (ok, log, failed theorem names)."""
    common.WORK.mkdir(exist_ok=True)
    with open(common.WORK / "lake.lock", "w") as lock:
        fcntl.flock(lock, fcntl.LOCK_EX)
        try:
            p = subprocess.run(["lake", "build"] + [f"Gen.{n}" for n in names], cwd=common.LEAN,
                               capture_output=True, text=True, timeout=timeout)
        except subprocess.TimeoutExpired as e:
            raise common.Infra(f"lake build Gen timed out: {e}")
        finally:
            fcntl.flock(lock, fcntl.LOCK_UN)
    log = common._filter(p.stdout + p.stderr)
    failed = []
    if p.returncode != 0:
        # map error line numbers back to theorem names
        for m in re.finditer(r"Gen/(\w+)\.lean:(\d+):\d+: error", log):
            src = (GEN / f"{m.group(1)}.lean").read_text().splitlines()
            ln = int(m.group(2))
            name = None
            for k in range(min(ln, len(src)) - 1, -1, -1):
                mm = re.match(r"theorem\s+(\S+)", src[k])
                if mm:
                    name = f"Gen.{m.group(1)}.{mm.group(1)}"
                    break
            if name and name not in failed:
                failed.append(name)
        if not failed:
            failed.append("Gen.<build>")
    return p.returncode == 0, log, failed


def theorem_names(name: str) -> list[str]:
    src = (GEN / f"{name}.lean").read_text()
    return [f"Gen.{name}." + m.group(1) for m in re.finditer(r"^theorem\s+([^\s:({\[]+)", src, re.M)]


def audit(name: str) -> dict:
    """#print axioms for every theorem of Gen/<name>.lean."""
    names = theorem_names(name)
    f = common.WORK / f"AuditGen_{name}.lean"
    f.write_text(f"import Gen.{name}\n" + "".join(f"#print axioms {n}\n" for n in names))
    try:
        p = subprocess.run(["lake", "env", "lean", str(f)], cwd=common.LEAN, capture_output=True,
                           text=True, timeout=900)
    finally:
        f.unlink(missing_ok=True)
    out = common._filter(p.stdout + p.stderr)
    good = []
    for m in re.finditer(r"^'([^\n]+?)' depends on axioms: \[([^\]]*)\]", out, re.S | re.M):
        ax = {a.strip() for a in m.group(2).replace("\n", " ").split(",") if a.strip()}
        if ax <= common.ALLOWED_AXIOMS:
            good.append(m.group(1))
    for m in re.finditer(r"^'([^\n]+?)' does not depend on any axioms", out, re.M):
        good.append(m.group(1))
    return {"obligations": names, "discharged": [n for n in names if n in good],
            "bad": [n for n in names if n not in good], "raw": out}


def check_generated(ctx, names: list[str]):
    """Build + audit the generated modules; record obligations; report broken laws."""
    ok, log, failed = build(names)
    obligations, discharged = [], []
    for n in names:
        if ok:
            a = audit(n)
            obligations += a["obligations"]
            discharged += a["discharged"]
            for b in a["bad"]:
                ctx.corr_broken("generated-law-axioms", {"theorem": b})
        else:
            obligations += theorem_names(n)
    if not ok:
        for t in failed:
            ctx.corr_broken("generated-law-no-longer-checks", {"theorem": t, "log": log[-1500:]})
        discharged = [o for o in obligations if o not in failed and not any(f.startswith("Gen.<") for f in failed)]
    ctx.gen_obligations = getattr(ctx, "gen_obligations", []) + obligations
    ctx.gen_discharged = getattr(ctx, "gen_discharged", []) + discharged
    return ok, failed
