"""C15 tie for `x[index]`: the dims a lazy array reports (`Array.shape`, the model's declared output dims) vs
(a) the Lean model `Ndx.staticGetitem` (theorem `Ndx.C15.static_getitem_sound`), (b) the run-time shape of the
exported model.  The index space deliberately includes slices *outside* the Array API's bounds: ndonnx accepts them,
so the traced array exists and its metadata must still agree with what the model produces."""
from __future__ import annotations

import itertools
import random

import numpy as np

from . import common, impl
from .impl import ndx


def _tok(dims):
    return ",".join("?" if d is None or isinstance(d, str) else str(d) for d in dims) if len(dims) else "-"


def slice_space(n: int):
    """Slices with bounds beyond [-n, n] (NumPy clamps; ndonnx must report what its model really does)."""
    vals = [None] + list(range(-n - 3, n + 4))
    out = []
    for c in (None, 1, -1, 2, -2, 3, -3):
        for a in vals:
            for b in vals:
                out.append(("s", a, b, c))
    return out


def gen_cases(rng: random.Random, quick: bool):
    from .props import c08
    cases = []
    for n in range(0, 4 if quick else 5):
        sp = slice_space(n)
        pick = sp if not quick else rng.sample(sp, min(len(sp), 260))
        for e in pick:
            cases.append(((n,), (e,)))
    for _ in range(500 if quick else 5000):
        r = rng.choice([2, 2, 3])
        shape = tuple(rng.choice([0, 1, 2, 3, 5]) for _ in range(r))
        idx = []
        for n in shape:
            u = rng.random()
            if u < 0.25 and n:
                idx.append(("i", rng.randrange(-n, n)))
            elif u < 0.45:
                idx.append(("s", None, None, None))
            else:
                idx.append(rng.choice(slice_space(n)))
        idx = tuple(idx)
        if rng.random() < 0.5:
            idx = c08.decorate(rng, idx, r)
        cases.append((shape, idx))
    return cases


def run(ctx, quick: bool):
    from .props import c08
    rng = random.Random(f"statictie/{ctx.seed}")
    cases = gen_cases(rng, quick)
    groups = {}
    for k, (shape, idx) in enumerate(cases):
        groups.setdefault(shape, []).append(k)
    lines, meta = [], []
    reported = {}
    runtime = {}
    nbad = 0
    for shape, ks in sorted(groups.items()):
        for style in ("static", "mixed", "symbolic"):
            if style == "static":
                dims = tuple(shape)
            elif style == "symbolic":
                dims = tuple(f"D{j}" for j in range(len(shape)))
            else:
                dims = tuple(d if (j + len(shape)) % 2 == 0 else None for j, d in enumerate(shape))
            x = ndx.array(shape=dims, dtype=ndx.int64)
            outs = {}
            for k in ks:
                try:
                    outs[f"o{k}"] = x[c08.to_py(cases[k][1])]
                except Exception:
                    continue
            if not outs:
                continue
            try:
                model = ndx.build({"x": x}, outs)
                tok = np.arange(int(np.prod(shape)), dtype=np.int64).reshape(shape)
                res = impl.run_model(model, {"x": tok}, outs)
            except Exception as e:
                ctx.count("statictie-export-or-run-failed")
                continue
            declared = {}
            for o in model.graph.output:
                tt = o.type.tensor_type
                declared[o.name] = [(d.dim_value if d.HasField("dim_value") else None) for d in tt.shape.dim] if tt.HasField("shape") else None
            for name, arr in outs.items():
                k = int(name[1:])
                rep = tuple(arr.shape)
                rt = tuple(res[name].shape)
                ident = ("static-getitem", shape, cases[k][1], style)
                ctx.case(ident, any(isinstance(d, int) for d in dims),
                         {"dims": str(dims), "index": str(c08.to_py(cases[k][1])), "reported": str(rep), "run_time": str(rt)} if len(ctx.samples) < 6 else None)
                ctx.count(f"statictie:{style}")
                bad = len(rep) != len(rt) or any(isinstance(a, int) and a != b for a, b in zip(rep, rt))
                dd = declared.get(name)
                if dd is not None and (len(dd) != len(rt) or any(isinstance(a, int) and a != b for a, b in zip(dd, rt))):
                    bad = True
                if bad:
                    nbad += 1
                    ctx.violation(f"getitem/static-shape/{style}/contradicts-run-time",
                                  f"x[{c08.to_py(cases[k][1])}] with declared dims {dims}: reports shape {rep} (model output dims {dd}) but the exported model returns shape {rt} on an input of shape {shape}",
                                  {"dims": str(dims), "index": str(c08.to_py(cases[k][1])), "reported": str(rep), "declared": str(dd), "run_time": str(rt), "input_shape": list(shape)})
                lines.append(" ".join(["static_getitem", _tok(dims)] + c08.to_tok(cases[k][1])))
                meta.append((dims, cases[k][1], rep, rt))
    ans = common.model(lines)
    agree = 0
    for a, (dims, idx, rep, rt) in zip(ans, meta):
        if a != _tok(rep):
            # the model no longer describes what the library reports: is what the library reports still sound?
            sound = len(rep) == len(rt) and all(not isinstance(p, int) or p == q for p, q in zip(rep, rt))
            ctx.corr_broken("static-getitem-model", {"dims": str(dims), "index": str(c08.to_py(idx)), "model": a, "reported": _tok(rep),
                                                     "sound_on_this_input": sound, "theorem": "Ndx.C15.static_getitem_sound"})
        else:
            agree += 1
    ctx.count("statictie-model-agrees", agree)
