"""Random multi-step programs over the public array API and their execution in the three modes the
properties compare: eager (data-holding arrays), traced (any subset of inputs as placeholders, static /
symbolic / unknown dims) + onnxruntime, and traced without onnxruntime (child interpreter).

A program is data (JSON-serialisable): inputs = [{dtype, dims}], steps = [{op, args, params}].
`dims` is a list whose entries are ints (static extents) or names of size variables; a size
assignment maps names to ints, so one traced model can be run at several sizes (C06)."""
from __future__ import annotations

import json
import math
import random

import numpy as np

from . import impl
from .impl import ndx

NUMERIC = impl.INTS + impl.FLOATS
DT_POOL = ["int64", "int32", "float64", "float32", "int8", "uint8", "bool", "utf8", "int16", "uint16",
           "uint32", "uint64", "nint64", "nfloat64", "nbool", "nutf8", "nint32", "nfloat32", "nuint8", "nint8"]


# ------------------------------------------------------------------------------------------------
# values
# ------------------------------------------------------------------------------------------------
def make_value(dtype: str, shape, seed: int, special: bool = False):
    """Deterministic input value (numpy / masked array) of `dtype` and concrete `shape`."""
    rng = np.random.default_rng(seed)
    base = dtype[1:] if impl.is_nullable(dtype) else dtype
    size = int(np.prod(shape)) if len(shape) else 1
    if base == "bool":
        v = rng.integers(0, 2, size=size).astype(bool)
    elif base == "utf8":
        words = np.array(["", "a", "b", "ab", "ba", "abc", "Z", "zz"])
        v = words[rng.integers(0, len(words), size=size)]
    elif base.startswith("uint"):
        v = rng.integers(0, 7, size=size).astype(base)
    elif base.startswith("int"):
        v = rng.integers(-4, 7, size=size).astype(base)
    else:
        grid = np.array([-3.0, -2.5, -1.0, -0.5, 0.0, 0.5, 1.0, 1.5, 2.0, 4.0, 0.25, -0.25])
        v = grid[rng.integers(0, len(grid), size=size)].astype(base)
        if special and size:
            k = rng.integers(0, size)
            v[k] = [np.nan, np.inf, -np.inf, -0.0][int(rng.integers(0, 4))]
    v = v.reshape(shape)
    if impl.is_nullable(dtype):
        m = rng.integers(0, 3, size=size).reshape(shape) == 0
        return np.ma.masked_array(v, mask=m)
    return v


def concrete(dims, sizes):
    return tuple(d if isinstance(d, int) else sizes[d] for d in dims)


def declared(dims, style: str):
    """Declared placeholder shape: 'static' (ints), 'symbolic' (names), 'unknown' (None)."""
    out = []
    for d in dims:
        if isinstance(d, int):
            out.append(d)
        elif style == "symbolic":
            out.append(d)
        elif style == "unknown":
            out.append(None)
        else:
            raise ValueError(style)
    return tuple(out)


# ------------------------------------------------------------------------------------------------
# operations
# ------------------------------------------------------------------------------------------------
def _idx(spec):
    """JSON index spec -> Python index."""
    out = []
    for e in spec:
        if e == "...":
            out.append(Ellipsis)
        elif e is None:
            out.append(None)
        elif isinstance(e, list):
            out.append(slice(*e))
        else:
            out.append(e)
    return tuple(out)


def _dt(name):
    return impl.dt(name)


UNARY_NUM = ["abs", "negative", "positive", "sign", "square", "ceil", "floor", "round", "trunc"]
UNARY_FLOAT = ["sqrt", "exp", "log", "sin", "cos", "tanh", "log1p", "expm1", "atan", "log2"]
PRED = ["isfinite", "isinf", "isnan"]
ARITH = ["add", "subtract", "multiply", "divide", "floor_divide", "remainder", "pow"]
CMP = ["equal", "not_equal", "less", "less_equal", "greater", "greater_equal"]
LOGICAL = ["logical_and", "logical_or", "logical_xor"]
BITWISE = ["bitwise_and", "bitwise_or", "bitwise_xor"]
REDUCE = ["sum", "prod", "min", "max", "mean", "all", "any", "var", "std"]


def apply_op(op: str, a: list, p: dict):
    """Apply one program step to ndonnx arrays / Python scalars `a` with params `p`."""
    if op in UNARY_NUM or op in UNARY_FLOAT or op in PRED or op in ("logical_not", "bitwise_invert"):
        return getattr(ndx, op)(a[0])
    if op in ARITH or op in CMP or op in LOGICAL or op in BITWISE or op in (
            "bitwise_left_shift", "bitwise_right_shift", "atan2", "logaddexp", "matmul"):
        return getattr(ndx, op)(a[0], a[1])
    if op == "where":
        return ndx.where(a[0], a[1], a[2])
    if op == "where_mutate":
        # the selection is written to in place afterwards and both branches are read again: a shortcut that hands
        # back an operand un-copied behaves differently when the condition holds data and when it is a placeholder
        z = ndx.where(a[0], a[1], a[2])
        z[_idx(p["index"])] = a[3]
        return ndx.concat([ndx.reshape(a[1], (-1,)), ndx.reshape(a[2], (-1,)), ndx.reshape(z, (-1,))])
    if op == "clip":
        return ndx.clip(a[0], min=p.get("min"), max=p.get("max"))
    if op in REDUCE:
        kw = {"axis": tuple(p["axis"]) if isinstance(p.get("axis"), list) else p.get("axis"),
              "keepdims": p.get("keepdims", False)}
        if op in ("var", "std") and "correction" in p:
            kw["correction"] = p["correction"]
        return getattr(ndx, op)(a[0], **kw)
    if op in ("argmax", "argmin"):
        return getattr(ndx, op)(a[0], axis=p.get("axis"), keepdims=p.get("keepdims", False))
    if op == "cumulative_sum":
        return ndx.cumulative_sum(a[0], axis=p.get("axis"), include_initial=p.get("include_initial", False))
    if op == "reshape":
        return ndx.reshape(a[0], tuple(p["shape"]))
    if op == "permute_dims":
        return ndx.permute_dims(a[0], tuple(p["axes"]))
    if op == "matrix_transpose":
        return ndx.matrix_transpose(a[0])
    if op == "expand_dims":
        return ndx.expand_dims(a[0], axis=p["axis"])
    if op == "squeeze":
        return ndx.squeeze(a[0], axis=tuple(p["axis"]) if isinstance(p["axis"], list) else p["axis"])
    if op == "flip":
        ax = p.get("axis")
        return ndx.flip(a[0], axis=tuple(ax) if isinstance(ax, list) else ax)
    if op == "roll":
        ax = p.get("axis")
        sh = p["shift"]
        return ndx.roll(a[0], tuple(sh) if isinstance(sh, list) else sh,
                        axis=tuple(ax) if isinstance(ax, list) else ax)
    if op == "concat":
        return ndx.concat(list(a), axis=p.get("axis", 0))
    if op == "stack":
        return ndx.stack(list(a), axis=p.get("axis", 0))
    if op == "broadcast_to_like":
        return ndx.broadcast_to(a[0], ndx.additional.shape(a[1]))
    if op == "take":
        return ndx.take(a[0], a[1], axis=p.get("axis", 0))
    if op in ("tril", "triu"):
        return getattr(ndx, op)(a[0], k=p.get("k", 0))
    if op == "getitem":
        return a[0][_idx(p["index"])]
    if op == "getitem_arr":
        return a[0][a[1]]
    if op == "astype":
        return ndx.astype(a[0], _dt(p["dtype"]))
    if op == "setitem":
        t = a[0].copy()
        t[_idx(p["index"])] = a[1]
        return t
    if op in ("setitem_values", "setitem_null"):
        # a field of a nullable array written in place through its accessor, after the value was looked at
        t = a[0].copy()
        t.to_numpy()
        f = t.values if op == "setitem_values" else t.null
        f[_idx(p["index"])] = a[1]
        return t
    if op == "setitem_mask":
        t = a[0].copy()
        t[a[1]] = a[2]
        return t
    if op in ("iadd", "isub", "imul"):
        t = a[0].copy()
        if op == "iadd":
            t += a[1]
        elif op == "isub":
            t -= a[1]
        else:
            t *= a[1]
        return t
    if op in ("sort", "argsort"):
        v = a[0].to_numpy()
        if v is not None and v.ndim >= 2 and any(n == 0 for k, n in enumerate(v.shape) if k != p.get("axis", -1) % v.ndim):
            # recorded C12 finding (sort/zero-extent-off-axis/interpreter-crash): onnxruntime's TopK kernel kills the
            # interpreter (SIGFPE) on an operand with a zero extent off the sorted axis; such a program is skipped at these sizes, whether
            # the zero extent comes from a size variable or from an empty slice
            raise ValueError("sort with a zero extent off the axis: onnxruntime TopK crash (recorded C12 finding)")
    if op == "sort":
        return ndx.sort(a[0], axis=p.get("axis", -1), descending=p.get("descending", False))
    if op == "argsort":
        return ndx.argsort(a[0], axis=p.get("axis", -1), descending=p.get("descending", False))
    if op == "nonzero":
        return ndx.nonzero(a[0])[p.get("k", 0)]
    if op == "unique_values":
        return ndx.unique_values(a[0])
    if op == "searchsorted":
        return ndx.searchsorted(ndx.sort(ndx.reshape(a[0], (-1,))), ndx.reshape(a[1], (-1,)), side=p.get("side", "left"))
    if op in ("zeros_like", "ones_like"):
        return getattr(ndx, op)(a[0])
    if op == "full_like":
        return ndx.full_like(a[0], p["fill"])
    if op == "fill_null":
        return ndx.additional.fill_null(a[0], p["fill"])
    if op == "make_nullable":
        va, vb = a[0].to_numpy(), a[1].to_numpy()
        if va is not None and vb is not None and np.broadcast_shapes(np.shape(vb), np.shape(va)) != np.shape(va):
            # the mask says "whether each element of x is null": it must broadcast *into* x's shape; a program that
            # stops doing so at some size assignment is not admissible at those sizes (eager evaluation decides)
            raise ValueError("make_nullable: the mask does not broadcast into the values' shape")
        return ndx.additional.make_nullable(a[0], a[1])
    if op == "isin":
        return ndx.additional.isin(a[0], p["items"])
    if op == "shape":
        return ndx.additional.shape(a[0])
    if op == "copy":
        return a[0].copy()
    if op == "values":
        return a[0].values.copy()
    if op == "null":
        return a[0].null.copy()
    raise KeyError(op)


# ------------------------------------------------------------------------------------------------
# generation (type-directed, executed eagerly so that every kept step evaluates on data)
# ------------------------------------------------------------------------------------------------
def _core(d):
    return d[1:] if impl.is_nullable(d) else d


def _is_num(d):
    return _core(d) in NUMERIC


def _is_float(d):
    return _core(d) in impl.FLOATS


def _is_int(d):
    return _core(d) in impl.INTS


def _is_bool(d):
    return _core(d) == "bool"


def _basic_index(rng, shape):
    """An admissible basic index for `shape` (valid for the generation-time sizes)."""
    idx = []
    for n in shape:
        r = rng.random()
        if r < 0.3 and n > 0:
            idx.append(rng.randrange(-n, n))
        elif r < 0.75:
            step = rng.choice([None, 1, -1, 2, -2])
            pos = step is None or step > 0
            if pos:
                a = rng.choice([None] + list(range(-n, n + 1)))
                b = rng.choice([None] + list(range(-n, n + 1)))
            else:
                a = rng.choice([None] + list(range(-n, max(0, n - 1) + 1)))
                b = rng.choice([None] + list(range(-n - 1, max(0, n - 1) + 1)))
            idx.append([a, b, step])
        else:
            idx.append([None, None, None])
    if rng.random() < 0.3:
        # replace a trailing run of full slices by an ellipsis
        while idx and idx[-1] == [None, None, None]:
            idx.pop()
        idx.append("...")
    if rng.random() < 0.2:
        idx.insert(rng.randrange(len(idx) + 1), None)
    return idx


SIZE_GENERIC = False      # set by generate(): the program must stay admissible at sizes other than the generation sizes


def propose(rng: random.Random, pool: list[dict], families: list[str] | None = None):
    """Propose one step (op, arg refs, params) from the pool metadata; may be inapplicable."""
    fam = rng.choice(families or ["unary", "binary", "binary", "scalar", "cmp", "where", "reduce", "layout",
                                  "layout", "index", "cast", "inplace", "sort", "nullable", "creation", "logical",
                                  "shortcut", "shortcut"])
    x = rng.choice(pool)
    d, shp, r = x["dtype"], x["shape"], len(x["shape"])

    def pick(pred):
        c = [e for e in pool if pred(e)]
        return rng.choice(c) if c else None

    def ax():
        return rng.randrange(-r, r) if r else None

    if fam == "shortcut":
        # guard-directed: the value-dependent shortcuts of where / logical_and / logical_or compare the
        # rank and element count of a data-holding operand with the other operand
        crank = rng.randrange(0, 4)
        cval = rng.random() < 0.5
        const = ["const", "bool", [1] * crank, [cval]]
        if rng.random() < 0.3:
            const = ["const", "nbool", [1] * crank, [cval], [rng.random() < 0.6]]
        c = rng.random()
        if c < 0.3 and (r == 1 or (r >= 1 and not SIZE_GENERIC)) and _core(d) != "utf8":
            # (where the program is re-run at other sizes only rank 1: a constant's other extents cannot follow the size variables)
            # an operand that holds data with no extent along the axis (value-dependent "nothing to do" shortcuts);
            # its dtype still takes part in promotion
            cands = [t for t in DT_POOL if _core(t) != "utf8" and (_is_num(t) == _is_num(d)) and (_is_bool(t) == _is_bool(d))]
            t = rng.choice(cands)
            empty = ["const", t, [0] + list(shp[1:]), []] + ([[]] if impl.is_nullable(t) else [])
            args = [x["ref"], empty]
            if rng.random() < 0.5:
                args.reverse()
            return "concat", args, {"axis": 0}
        if c < 0.5 and _is_num(d):
            # neutral / absorbing elements held as data: x + 0, x * 1, x * 0, x - 0, x ** 1
            op, v = rng.choice([("add", 0), ("multiply", 1), ("multiply", 0), ("subtract", 0), ("pow", 1), ("divide", 1)])
            crank2 = rng.randrange(0, r + 2)
            t = rng.choice([d, _core(d)] + [q for q in DT_POOL if _is_num(q)][:2])
            k = ["const", t, [1] * crank2, [v]] + ([[False]] if impl.is_nullable(t) else [])
            args = [x["ref"], k]
            if rng.random() < 0.4 and op in ("add", "multiply"):
                args.reverse()
            return op, args, {}
        if c < 0.75:
            if _is_bool(d) and not impl.is_nullable(d) or rng.random() < 0.3:
                if not _is_bool(d):
                    return None
                args = [x["ref"], const]
                if rng.random() < 0.5:
                    args.reverse()
                return rng.choice(["logical_and", "logical_or", "logical_xor", "bitwise_and", "bitwise_or"]), args, {}
            return None
        if rng.random() < 0.4 and len(const) == 4:
            y = pick(lambda e: e["dtype"] == d and e["shape"] == shp)
            if y is not None:
                idx = [e for e in _basic_index(rng, shp) if e is not None]
                v = ["py", 1 if _is_num(d) else (True if _is_bool(d) else "q")]
                return "where_mutate", [const, x["ref"], y["ref"], v], {"index": idx}
        y = pick(lambda e: e["dtype"] == d or (_is_num(e["dtype"]) and _is_num(d)))
        if y is None:
            return None
        return "where", [const, x["ref"], y["ref"]], {}
    if fam == "unary":
        if _is_num(d):
            ops = UNARY_NUM + (UNARY_FLOAT if _is_float(d) else []) + PRED
        elif _is_bool(d):
            ops = ["logical_not", "bitwise_invert"]
        else:
            return None
        if _is_int(d):
            ops = ops + ["bitwise_invert"]
        return rng.choice(ops), [x["ref"]], {}
    if fam in ("binary", "cmp", "logical"):
        y = pick(lambda e: (_is_num(e["dtype"]) == _is_num(d)) and (_is_bool(e["dtype"]) == _is_bool(d))
                 and (_core(e["dtype"]) == "utf8") == (_core(d) == "utf8"))
        if y is None:
            return None
        if _is_num(d):
            ops = (ARITH if fam == "binary" else CMP)
            if fam == "binary" and _is_int(d) and _is_int(y["dtype"]):
                ops = ops + BITWISE
        elif _is_bool(d):
            ops = LOGICAL + BITWISE + ["equal", "not_equal"]
        else:
            ops = ["add", "equal", "not_equal"]
        return rng.choice(ops), [x["ref"], y["ref"]], {}
    if fam == "scalar":
        if _is_num(d):
            s = rng.choice([2, 3, -1, 1]) if _is_int(d) else rng.choice([2, 0.5, -1.5, 3])
            op = rng.choice(["add", "subtract", "multiply", "less", "greater_equal", "equal", "remainder"])
        elif _is_bool(d):
            s, op = rng.choice([True, False]), rng.choice(LOGICAL + ["equal"])
        else:
            s, op = rng.choice(["a", "zz"]), rng.choice(["add", "equal"])
        args = [x["ref"], ["py", s]]
        if rng.random() < 0.4:
            args.reverse()
        return op, args, {}
    if fam == "where":
        c = pick(lambda e: _is_bool(e["dtype"]))
        y = pick(lambda e: (_core(e["dtype"]) == "utf8") == (_core(d) == "utf8")
                 and (_is_bool(e["dtype"]) == _is_bool(d)))
        if y is None:
            return None
        if c is None or rng.random() < 0.25:
            cref = ["py", rng.choice([True, False])]
        else:
            cref = c["ref"]
        yref = y["ref"] if rng.random() < 0.8 or _core(d) in ("utf8",) else ["py", 1 if _is_num(d) else True]
        return "where", [cref, x["ref"], yref], {}
    if fam == "reduce":
        if _is_num(d):
            op = rng.choice(["sum", "prod", "min", "max", "mean", "cumulative_sum", "argmax", "argmin", "var", "std", "any", "all"])
        elif _is_bool(d):
            op = rng.choice(["all", "any"])
        else:
            return None
        if op == "cumulative_sum":
            if r == 0:
                return None
            axis = ax() if (r > 1 or rng.random() < 0.5) else None
            return op, [x["ref"]], {"axis": axis, "include_initial": rng.random() < 0.3}
        if op in ("argmax", "argmin"):
            return op, [x["ref"]], {"axis": rng.choice([None, ax()]), "keepdims": rng.random() < 0.4}
        if op in ("all", "any") and rng.random() < 0.4:
            return op, [x["ref"]], {"axis": None, "keepdims": False}     # the full reduction has its own shortcuts
        choice = rng.random()
        if choice < 0.3 or r == 0:
            axis = None
        elif choice < 0.75:
            axis = ax()
        else:
            k = rng.randrange(0, r + 1)
            axis = sorted(rng.sample(range(r), k))
            axis = [a - r if rng.random() < 0.3 else a for a in axis]
        return op, [x["ref"]], {"axis": axis, "keepdims": rng.random() < 0.4}
    if fam == "layout":
        op = rng.choice(["reshape", "permute_dims", "matrix_transpose", "expand_dims", "squeeze", "flip", "roll",
                         "concat", "stack", "broadcast_to_like", "take", "tril", "triu"])
        if op == "reshape":
            choices = [[-1]]
            if r >= 2:
                choices.append([-1, shp[-1]])
                choices.append([shp[0], -1])
            if r == 1:
                choices.append([1, -1])
                choices.append([-1, 1])
            return op, [x["ref"]], {"shape": rng.choice(choices)}
        if op == "permute_dims":
            axes = list(range(r))
            rng.shuffle(axes)
            return op, [x["ref"]], {"axes": axes}
        if op == "matrix_transpose":
            return (op, [x["ref"]], {}) if r >= 2 else None
        if op == "expand_dims":
            return op, [x["ref"]], {"axis": rng.randrange(-r - 1, r + 1)}
        if op == "squeeze":
            ones = [i for i, n in enumerate(shp) if n == 1]
            if not ones:
                return None
            i = rng.choice(ones)
            return op, [x["ref"]], {"axis": i - r if rng.random() < 0.4 else i}
        if op == "flip":
            c = rng.random()
            axis = None if c < 0.3 or r == 0 else (ax() if c < 0.7 else sorted(rng.sample(range(r), rng.randrange(0, r + 1))))
            return op, [x["ref"]], {"axis": axis}
        if op == "roll":
            c = rng.random()
            if c < 0.3 or r == 0:
                return op, [x["ref"]], {"shift": rng.randrange(-7, 8), "axis": None}
            if c < 0.7:
                return op, [x["ref"]], {"shift": rng.randrange(-7, 8), "axis": ax()}
            k = rng.randrange(1, r + 1)
            axes = rng.sample(range(r), k)
            return op, [x["ref"]], {"shift": [rng.randrange(-5, 6) for _ in axes], "axis": axes}
        if op in ("concat", "stack"):
            mixed = rng.random() < 0.4
            y = pick(lambda e: (e["dtype"] == d or (mixed and _is_num(d) and _is_num(e["dtype"]))) and len(e["shape"]) == r and (
                e["shape"] == shp if op == "stack" else r >= 1 and e["shape"][1:] == shp[1:]))
            if y is None or (op == "concat" and r == 0):
                return None
            return op, [x["ref"], y["ref"]], {"axis": 0 if op == "concat" else rng.randrange(-r - 1, r + 1)}
        if op == "broadcast_to_like":
            y = pick(lambda e: len(e["shape"]) >= r and all(a in (1, b) for a, b in zip(shp[::-1], e["shape"][::-1])))
            return (op, [x["ref"], y["ref"]], {}) if y is not None else None
        if op == "take":
            if r == 0:
                return None
            a = rng.randrange(0, r)
            i = pick(lambda e: e["dtype"] == "int64" and len(e["shape"]) == 1 and e.get("small_nonneg") is not None
                     and e["small_nonneg"] < shp[a])
            return (op, [x["ref"], i["ref"]], {"axis": a}) if i is not None else None
        if op in ("tril", "triu"):
            return (op, [x["ref"]], {"k": rng.randrange(-2, 3)}) if r >= 2 else None
    if fam == "index":
        c = rng.random()
        if c < 0.7:
            return "getitem", [x["ref"]], {"index": _basic_index(rng, shp)}
        if c < 0.85:
            m = pick(lambda e: e["dtype"] == "bool" and e["shape"] == shp[:len(e["shape"])] and len(e["shape"]) >= 1)
            return ("getitem_arr", [x["ref"], m["ref"]], {}) if m is not None and 0 not in shp else None
        if r >= 1:
            i = pick(lambda e: e["dtype"] == "int64" and e.get("small_nonneg") is not None and e["small_nonneg"] < shp[0])
            return ("getitem_arr", [x["ref"], i["ref"]], {}) if i is not None else None
        return None
    if fam == "cast":
        if _core(d) == "utf8":
            return None
        targets = [t for t in DT_POOL if _core(t) != "utf8" and (impl.is_nullable(t) or not impl.is_nullable(d))]
        if rng.random() < 0.25:
            # number / boolean -> text: the text is produced by the ONNX Cast operator in every mode (eager, traced, without
            # onnxruntime at trace time), so the modes must agree on it
            return "astype", [x["ref"]], {"dtype": "nutf8" if impl.is_nullable(d) else "utf8"}
        return "astype", [x["ref"]], {"dtype": rng.choice(targets)}
    if fam == "inplace":
        c = rng.random()
        if impl.is_nullable(d) and rng.random() < 0.3:
            idx = [e for e in _basic_index(rng, shp) if e is not None]
            if rng.random() < 0.5:
                core = _core(d)
                v = ["py", 1 if _is_num(d) else (True if _is_bool(d) else "q")]
                y = pick(lambda e: e["dtype"] == core and len(e["shape"]) == 0)
                if y is not None and rng.random() < 0.7:
                    v = y["ref"]
                return "setitem_values", [x["ref"], v], {"index": idx}
            v = ["py", rng.random() < 0.5]
            y = pick(lambda e: e["dtype"] == "bool" and len(e["shape"]) == 0)
            if y is not None and rng.random() < 0.7:
                v = y["ref"]
            return "setitem_null", [x["ref"], v], {"index": idx}
        if c < 0.2 and len(shp) >= 1:
            # an ARRAY update that has to be broadcast into the selection (extent 1 against the selection's extent, through
            # static, symbolic or unknown dims alike): x[::2] = u, x[1:, :] = u, x[::-1] = u
            idx = [rng.choice([[None, None, None], [None, None, -1], [None, None, 2], [1, None, None]]) for _ in shp]
            sel = np.empty(shp)[_idx(idx)].shape
            def fits(e):
                if e["dtype"] != d or len(e["shape"]) > len(sel) or len(e["shape"]) == 0:
                    return False
                try:
                    return np.broadcast_shapes(tuple(e["shape"]), sel) == sel
                except ValueError:
                    return False
            y = pick(fits)
            if y is not None:
                return "setitem", [x["ref"], y["ref"]], {"index": idx}
        if c < 0.5:
            idx = _basic_index(rng, shp)
            idx = [e for e in idx if e is not None]
            v = ["py", 1 if _is_num(d) else (True if _is_bool(d) else "q")]
            if rng.random() < 0.5:
                y = pick(lambda e: e["dtype"] == d and len(e["shape"]) == 0)
                if y is not None:
                    v = y["ref"]
            return "setitem", [x["ref"], v], {"index": idx}
        if c < 0.7:
            m = pick(lambda e: e["dtype"] == "bool" and e["shape"] == shp and len(shp) >= 1)
            if m is None or _core(d) == "utf8":
                return None
            return "setitem_mask", [x["ref"], m["ref"], ["py", 1 if _is_num(d) else True]], {}
        if _is_num(d):
            y = pick(lambda e: e["dtype"] == d and e["shape"] == shp)
            return rng.choice(["iadd", "isub", "imul"]), [x["ref"], y["ref"] if y and rng.random() < 0.6 else ["py", 2]], {}
        return None
    if fam == "sort":
        # known finding (C12): TopK in onnxruntime dies with SIGFPE when an axis other than the sorted one
        # has extent 0 -- an uncatchable interpreter crash, so the generators keep sort away from empty inputs
        if not _is_num(d) or impl.is_nullable(d) or 0 in shp:
            return None
        c = rng.random()
        if c < 0.35 and r >= 1:
            return "sort", [x["ref"]], {"axis": ax(), "descending": rng.random() < 0.4}
        if c < 0.6 and r >= 1:
            return "argsort", [x["ref"]], {"axis": ax(), "descending": rng.random() < 0.4}
        if c < 0.75:
            return ("nonzero", [x["ref"]], {"k": rng.randrange(0, r)}) if r >= 1 else None
        if c < 0.9:
            return "unique_values", [x["ref"]], {}
        y = pick(lambda e: e["dtype"] == d and len(e["shape"]) >= 1)
        return ("searchsorted", [x["ref"], y["ref"]], {"side": rng.choice(["left", "right"])}) if y is not None and r >= 1 else None
    if fam == "nullable":
        if impl.is_nullable(d):
            c = rng.random()
            if c < 0.4:
                fill = 1 if _is_num(d) else (True if _is_bool(d) else "n")
                return "fill_null", [x["ref"]], {"fill": fill}
            return rng.choice(["values", "null"]), [x["ref"]], {}
        m = pick(lambda e: e["dtype"] == "bool" and all(a in (1, b) for a, b in zip(e["shape"][::-1], shp[::-1]))
                 and len(e["shape"]) <= r)
        return ("make_nullable", [x["ref"], m["ref"]], {}) if m is not None else None
    if fam == "creation":
        c = rng.random()
        if c < 0.3:
            return rng.choice(["zeros_like", "ones_like"]), [x["ref"]], {}
        if c < 0.5:
            return "full_like", [x["ref"]], {"fill": 3 if _is_num(d) else (True if _is_bool(d) else "f")}
        if c < 0.7:
            return "shape", [x["ref"]], {}
        if c < 0.85:
            return "copy", [x["ref"]], {}
        if _is_num(d) or _core(d) == "utf8":
            return "isin", [x["ref"]], {"items": [1, 2] if _is_num(d) else ["a", "zz"]}
    return None


def resolve(ref, inputs, results):
    if ref[0] == "in":
        return inputs[ref[1]]
    if ref[0] == "st":
        return results[ref[1]]
    if ref[0] == "const":      # ["const", dtype, shape, flat values[, flat mask]]: a data-holding array literal
        v = np.array(ref[3], dtype=impl.np_dtype(ref[1])).reshape(ref[2])
        if len(ref) > 4:
            v = np.ma.masked_array(v, mask=np.array(ref[4], dtype=bool).reshape(ref[2]))
        return ndx.asarray(v)
    return ref[1]


def execute(prog: dict, inputs: list, upto: int | None = None) -> list:
    """Run the steps on the given ndonnx input arrays; returns one Array per step."""
    results = []
    for st in prog["steps"][:upto]:
        args = [resolve(r, inputs, results) for r in st["args"]]
        results.append(apply_op(st["op"], args, st["params"]))
    return results


def eager_inputs(prog, sizes, seed, special=False):
    vals = [make_value(i["dtype"], concrete(i["dims"], sizes), seed * 1000 + k, special) for k, i in enumerate(prog["inputs"])]
    return vals


def _meta(ref, arr, value):
    shape = tuple(value.shape)
    e = {"ref": ref, "dtype": impl.dtname(arr.dtype), "shape": shape}
    if e["dtype"] == "int64" and value.size and not isinstance(value, np.ma.MaskedArray):
        if value.min() >= 0:
            e["small_nonneg"] = int(value.max())
    return e


def generate(rng: random.Random, n_inputs=(1, 3), n_steps=(1, 6), dtypes=None, families=None,
             dim_names=("A", "B"), sizes=None, max_rank=3, seed=0, preset_inputs=None, erase_static=False,
             size_generic=False) -> dict | None:
    """Generate a program whose every step evaluates eagerly at the generation-time sizes."""
    global SIZE_GENERIC
    SIZE_GENERIC = size_generic
    sizes = {**(sizes or {"A": 2, "B": 3}), "U": 1}
    dtypes = dtypes or DT_POOL
    n_in = rng.randint(*n_inputs)
    inputs = []
    first_dims = None
    for k in range(n_in):
        if first_dims is not None and rng.random() < 0.6:
            # broadcast-compatible with the first input
            dims = list(first_dims)
            dims = dims[rng.randrange(0, len(dims) + 1):]
            # extent-1 broadcasting: a literal 1, or the size variable "U" (declared symbolic/unknown, always 1 at
            # run time) so that a placeholder's *unknown* extent triggers broadcasting
            dims = [(1 if rng.random() < 0.5 else "U") if rng.random() < 0.3 else d for d in dims]
        else:
            r = rng.choice([0, 1, 1, 2, 2, 3][:max_rank + 3])
            dims = [rng.choice(list(dim_names) + [rng.choice([0, 1, 2, 3])]) for _ in range(min(r, max_rank))]
        if first_dims is None:
            first_dims = dims
        inputs.append({"dtype": rng.choice(dtypes), "dims": dims})
    # helper inputs that make index/mask ops applicable
    if rng.random() < 0.5 and first_dims:
        if rng.random() < 0.6:
            inputs.append({"dtype": "bool", "dims": list(first_dims[:rng.randrange(1, len(first_dims) + 1)])})
        else:
            # a mask that broadcasts against the first input: trailing dims, some of extent 1 (literal or the
            # always-1 size variable "U", which is *declared* symbolic / unknown)
            md = list(first_dims[rng.randrange(0, len(first_dims)):])
            md = [(1 if rng.random() < 0.4 else "U") if rng.random() < 0.5 else d for d in md]
            inputs.append({"dtype": "bool", "dims": md})
    if preset_inputs is not None:
        inputs = preset_inputs
    prog = {"inputs": inputs, "steps": [], "gen_sizes": sizes, "seed": seed}
    vals = eager_inputs(prog, sizes, seed)
    try:
        arrs = [ndx.asarray(v) for v in vals]
    except Exception:
        return None
    pool = [_meta(["in", k], a, v) for k, (a, v) in enumerate(zip(arrs, vals))]
    results = []
    if erase_static:
        # every input of rank >= 1 is first passed through a value-preserving slice x[0:n, ...]: the library forgets the
        # static extents of a Slice result, so everything downstream sees unknown extents whose run-time values are
        # ordinary — decisions taken from static extents are exercised for every function
        newpool = []
        for k, (a, v, e) in enumerate(zip(arrs, vals, pool)):
            if len(e["shape"]) >= 1 and e["dtype"] not in ("utf8", "nutf8"):
                st = {"op": "getitem", "args": [["in", k]], "params": {"index": [[0, int(e["shape"][0]), None], "..."]}}
                try:
                    res = apply_op(st["op"], [a], st["params"])
                    val = res.to_numpy()
                except Exception:
                    newpool.append(e); continue
                prog["steps"].append(st); results.append(res)
                newpool.append(_meta(["st", len(results) - 1], res, val))
            else:
                newpool.append(e)
        pool = newpool
    target = len(prog["steps"]) + rng.randint(*n_steps)
    tries = 0
    while len(prog["steps"]) < target and tries < (target + 2) * 8:
        tries += 1
        try:
            prop = propose(rng, pool, families)
        except Exception:
            prop = None
        if not prop or prop is True:
            continue
        op, args, params = prop
        try:
            res = apply_op(op, [resolve(r, arrs, results) for r in args], params)
            val = res.to_numpy()
            if val is None:
                continue
        except Exception:
            continue
        prog["steps"].append({"op": op, "args": args, "params": params})
        results.append(res)
        pool.append(_meta(["st", len(results) - 1], res, val))
    return prog if prog["steps"] else None


def struct_broadcast_preset(rng):
    """Inputs for struct-typed results whose fields come from operands of different run-time shapes: a mask /
    nullable condition that broadcasts against the data only at run time (size variable "U" is always 1, but is
    *declared* symbolic / unknown).  Returns (preset inputs, families, step range)."""
    r = rng.choice([1, 1, 2, 3])
    D = [rng.choice(["A", "B", 2, 3]) for _ in range(r)]
    Dm = [("U" if rng.random() < 0.6 else d) for d in D][rng.randrange(0, r):]
    core = rng.choice(["int32", "float64", "int8", "utf8", "bool", "uint8"])
    if rng.random() < 0.5:
        return [{"dtype": core, "dims": D}, {"dtype": "bool", "dims": Dm}], ["nullable", "nullable", "index"], (1, 3)
    return ([{"dtype": "nbool", "dims": Dm}, {"dtype": core, "dims": D}, {"dtype": core, "dims": D}],
            ["where", "where", "index"], (1, 3))


def describe(prog) -> str:
    ins = ", ".join(f"i{k}:{i['dtype']}{i['dims']}" for k, i in enumerate(prog["inputs"]))
    def ref(r):
        if r[0] == "const":
            return f"const({r[1]}{r[2]}={r[3]})"
        return f"i{r[1]}" if r[0] == "in" else (f"s{r[1]}" if r[0] == "st" else repr(r[1]))
    sts = "; ".join(f"s{j}={s['op']}({', '.join(ref(r) for r in s['args'])}{', ' + json.dumps(s['params']) if s['params'] else ''})"
                    for j, s in enumerate(prog["steps"]))
    return f"[{ins}] {sts}"


# ------------------------------------------------------------------------------------------------
# execution modes
# ------------------------------------------------------------------------------------------------
def run_eager(prog, sizes, seed, special=False):
    """Returns (values per step | exception, arrays)."""
    vals = eager_inputs(prog, sizes, seed, special)
    arrs = [ndx.asarray(v) for v in vals]
    res = execute(prog, arrs)
    return vals, arrs, res


def trace(prog, lazy: set[int], style: str, sizes, seed, special=False):
    """Trace with the inputs in `lazy` as placeholders (declared per `style`), the others constants."""
    vals = eager_inputs(prog, sizes, seed, special)
    arrs = []
    for k, (i, v) in enumerate(zip(prog["inputs"], vals)):
        if k in lazy:
            st = style if style != "mixed" else ["static", "symbolic", "unknown"][(k + seed) % 3]
            dims = i["dims"]
            decl = tuple(concrete(dims, sizes)) if st == "static" else declared(
                [d if isinstance(d, str) else d for d in dims], st)
            if st != "static":
                # static ints stay static; named dims become symbolic / unknown
                decl = tuple((d if isinstance(d, int) else (d if st == "symbolic" else None)) for d in dims)
            arrs.append(ndx.array(shape=decl, dtype=impl.dt(i["dtype"])))
        else:
            arrs.append(ndx.asarray(v))
    res = execute(prog, arrs)
    return vals, arrs, res


def build_and_run(prog, lazy, arrs, res, vals_list, optimise: bool = True):
    """Build one model for the traced results and run it on each value tuple in `vals_list` (`optimise=False`: with
    onnxruntime's graph optimisations disabled, to tell a fault of the exported model from one of the optimiser)."""
    ins = {f"i{k}": arrs[k] for k in sorted(lazy)}
    outs = {f"o{j}": r for j, r in enumerate(res)}
    model = ndx.build(ins, outs)
    sess = impl.session(model, optimise=optimise)
    names = [o.name for o in sess.get_outputs()]
    all_out = []
    for vals in vals_list:
        feeds = {}
        for k in sorted(lazy):
            feeds.update(impl.feed(f"i{k}", vals[k], prog["inputs"][k]["dtype"]))
        raw = dict(zip(names, sess.run(None, feeds)))
        all_out.append({j: impl.collect(raw, f"o{j}", r) for j, r in enumerate(res)})
    return model, all_out


def same_value(a, b, ulps: int = 0) -> bool:
    """dtype, shape, mask equal; values equal where not masked (NaN == NaN); payloads ignored."""
    if isinstance(a, impl.Malformed) or isinstance(b, impl.Malformed):
        return False
    ma, mb = isinstance(a, np.ma.MaskedArray), isinstance(b, np.ma.MaskedArray)
    if ma != mb:
        return False
    da, db = (np.asarray(a.data), np.asarray(b.data)) if ma else (np.asarray(a), np.asarray(b))
    if da.dtype.kind in "UO" or db.dtype.kind in "UO":
        if not (da.dtype.kind in "UO" and db.dtype.kind in "UO"):
            return False
        da, db = da.astype(str), db.astype(str)
    elif da.dtype != db.dtype:
        return False
    if da.shape != db.shape:
        return False
    if ma:
        ka = np.broadcast_to(np.ma.getmaskarray(a), da.shape)
        kb = np.broadcast_to(np.ma.getmaskarray(b), db.shape)
        if not np.array_equal(ka, kb):
            return False
        keep = ~ka
        da, db = da[keep], db[keep]
    if da.dtype.kind == "f":
        eq = (da == db) | (np.isnan(da) & np.isnan(db))
        if eq.all():
            return True
        if ulps:
            with np.errstate(all="ignore"):
                fin = np.isfinite(da) & np.isfinite(db)
                tol = ulps * np.spacing(np.maximum(np.abs(da), np.abs(db)).astype(da.dtype))
                ok = eq | (fin & (np.abs(da - db) <= tol))
            return bool(ok.all())
        return False
    return bool(np.array_equal(da, db))


def diff_kind(a, b) -> str:
    """How two results differ: dtype / shape / mask / values."""
    for x in (a, b):
        if isinstance(x, impl.Malformed):
            return x.what
    ma, mb = isinstance(a, np.ma.MaskedArray), isinstance(b, np.ma.MaskedArray)
    if ma != mb:
        return "nullability-differs"
    da, db = (np.asarray(a.data), np.asarray(b.data)) if ma else (np.asarray(a), np.asarray(b))
    if (da.dtype.kind in "UO") != (db.dtype.kind in "UO") or (da.dtype.kind not in "UO" and da.dtype != db.dtype):
        return "dtype-differs"
    if da.shape != db.shape:
        return "shape-differs"
    if ma and not np.array_equal(np.broadcast_to(np.ma.getmaskarray(a), da.shape), np.broadcast_to(np.ma.getmaskarray(b), db.shape)):
        return "mask-differs"
    try:
        if da.dtype.kind == "f":
            va = np.where(np.ma.getmaskarray(a), 0, da) if ma else da
            vb = np.where(np.ma.getmaskarray(b), 0, db) if ma else db
            if np.array_equal(va, vb, equal_nan=True) and not np.array_equal(np.signbit(va), np.signbit(vb)):
                return "only-sign-of-zero-differs"
    except Exception:
        pass
    return "values-differ"


def step_cause(prog, j, lazy: set) -> str:
    """Classify the call site of step j for finding keys: which operands are constants at trace time."""
    st = prog["steps"][j]
    def is_const(ref):
        if ref[0] in ("py", "const"):
            return True
        if ref[0] == "in":
            return ref[1] not in lazy
        # a step result is constant iff all its dependencies are
        return all(is_const(r) for r in prog["steps"][ref[1]]["args"])
    if st["op"] == "where":
        c, x, y = st["args"]
        if is_const(x) and is_const(y):
            return "constant-branches"
        if is_const(c):
            return "constant-condition"
        return "traced"
    consts = [is_const(r) for r in st["args"]]
    if all(consts):
        return "all-constant"
    if any(consts):
        return "mixed-constant-traced"
    return "traced"


def where_cause(prog, j, vals, evals) -> str:
    """Call-site class of a `where` step from its eager operand values: which value-dependent
    shortcut (if any) eager evaluation takes."""
    st = prog["steps"][j]
    def val(ref):
        if ref[0] == "py":
            return np.asarray(ref[1])
        if ref[0] == "const":
            v = np.array(ref[3], dtype=impl.np_dtype(ref[1])).reshape(ref[2])
            return np.ma.masked_array(v, mask=np.array(ref[4], dtype=bool).reshape(ref[2])) if len(ref) > 4 else v
        return vals[ref[1]] if ref[0] == "in" else evals[ref[1]]
    c, x, y = (val(r) for r in st["args"])
    try:
        if not isinstance(c, np.ma.MaskedArray) and c.size == 1:
            return "single-element-condition"
        xd, yd = np.ma.getdata(x), np.ma.getdata(y)
        bx, by = np.broadcast_arrays(xd, yd)
        eq = (bx == by)
        if bx.dtype.kind == "f":
            eq = eq | (np.isnan(bx) & np.isnan(by))
        if eq.all():
            return "equal-branches"
    except Exception:
        pass
    return "general"


CRASHES_ON_EMPTY = {"sort", "argsort"}


def crash_prone(prog) -> bool:
    """Programs whose evaluation at a zero extent may kill the interpreter (see known finding C12)."""
    return any(st["op"] in CRASHES_ON_EMPTY for st in prog["steps"])
