"""Graph-level tie (B and D) for the data-dependent indexing family: boolean-mask selection (`getitem_null`:
Reshape + Compress), `nonzero` (coordinate grid + Compress + GatherElements), `__setitem__` with a basic index and with a
boolean mask (coordinate grid + index + Expand + ScatterND).

* tie B: the exported graph, rendered by `tgraph.render`, must be the term `Model/TGraphScatter.lean` builds from the same
  Python-level arguments (`tg_render mask|nonzero|setitem|setitem_mask`); the theorems of `Props/C08MaskGraph.lean`,
  `C09Scatter.lean`, `C12Nonzero.lean` are about those terms.
* tie D: the Lean evaluation (`tg_evald`) of the exported rendering on concrete data must equal what onnxruntime computes
  from the model file; both are compared with NumPy.  Lean != onnxruntime while onnxruntime == NumPy is a broken
  correspondence; onnxruntime != NumPy is a violation of the property with that input as replay.
"""
from __future__ import annotations

import random

import numpy as np

from . import common, impl
from .impl import ndx
from .tgraph import CODE, Unsupported, _ints, _tok, decl_dims, render

INT_DTYPES = ["int64", "int32", "int8", "uint8", "uint16", "int16", "uint32", "uint64", "bool"]


def _data(rng, shape, dtype, zeros=0.4):
    size = int(np.prod(shape))
    npd = np.dtype(dtype)
    if npd == np.bool_:
        return np.array([rng.random() < 0.5 for _ in range(size)], dtype=bool).reshape(shape)
    vals = [0 if rng.random() < zeros else rng.choice([1, 2, 3, 5, 7, 11, 100, -1, -4]) for _ in range(size)]
    if npd.kind == "u":
        vals = [abs(v) for v in vals]
    return np.array(vals, dtype=npd).reshape(shape)


def _feed_tok(arr):
    flat = arr.astype(int).reshape(-1).tolist() if arr.dtype == np.bool_ else [int(v) for v in arr.reshape(-1).tolist()]
    return f"{_tok(arr.shape)}:{_ints(flat)}"


def _show(arr):
    arr = np.asarray(arr)
    flat = arr.astype(int).reshape(-1).tolist() if arr.dtype == np.bool_ else [int(v) for v in arr.reshape(-1).tolist()]
    return f"ok {_tok(arr.shape)} {_ints(flat)}"


class Case:
    """One traced call: inputs (name, dims, dtype), the outputs, the model lines and the NumPy reference."""

    def __init__(self, kind, ident, inputs, build, want_lines, numpy_ref, concrete):
        self.kind, self.ident, self.inputs, self.build = kind, ident, inputs, build
        self.want_lines, self.numpy_ref, self.concrete = want_lines, numpy_ref, concrete
        self.loose = False
        self.maps = None          # per output: graph-input name -> in<k> (struct operands: one field per output)
        self.feed_names = None    # per output: feed keys in the order in0, in1, …


def _setitem_index(rng, shape):
    from .props import c08
    ents = [c08.axis_entries(n) + [("s", None, None, None)] * 6 for n in shape]
    idx = tuple(rng.choice(e) for e in ents)
    if rng.random() < 0.35:
        idx = c08.decorate(rng, idx, len(shape))
    return idx


def gen_cases(rng: random.Random, n: int, styles, kinds=None):
    from .props import c08
    out = []
    for k in range(n):
        pool = list(kinds) if kinds else ["mask", "nonzero", "setitem", "setitem", "setitem_mask", "intindex", "cumsum", "where", "trilu", "broadcast_arrays", "creation", "setitem_int", "argext"]
        kind = pool[k % len(pool)]
        rank = rng.choice([1, 1, 2, 2, 3])
        shape = tuple(rng.choice([1, 2, 3, 4]) for _ in range(rank))
        style = rng.choice(styles)
        dtype = rng.choice(INT_DTYPES) if k >= 10 else "int64"
        dims = decl_dims(style, shape, "S")
        if kind == "mask":
            rank_m = rng.randrange(0, rank + 1)
            mdims = tuple(dims[:rank_m])
            def build(dims=dims, mdims=mdims, dtype=dtype):
                x = ndx.array(shape=dims, dtype=impl.dt(dtype)); m = ndx.array(shape=mdims, dtype=ndx.bool)
                return {"x": x, "m": m}, {"y": x[m]}
            def ref(feeds):
                return {"y": feeds["x"][feeds["m"]]}
            def concrete(rng, sh, rank_m=rank_m, dtype=dtype):
                return {"x": _data(rng, sh, dtype), "m": _data(rng, sh[:rank_m], "bool")}
            out.append(Case(kind, (kind, rank, rank_m, style, dtype), ["x", "m"], build,
                            {"y": f"tg_render mask {rank_m}"}, ref, (concrete, shape, style)))
        elif kind == "cumsum":
            acc = rng.choice([None, None, None] + INT_DTYPES[:-1])
            axis = rng.randrange(-rank, rank)
            incl = rng.random() < 0.25
            dt = rng.choice(INT_DTYPES[:-1])
            kw = {"axis": axis}
            if acc:
                kw["dtype"] = impl.dt(acc)
            if incl:
                kw["include_initial"] = True
            def build(dims=dims, dt=dt, kw=kw):
                x = ndx.array(shape=dims, dtype=impl.dt(dt))
                return {"x": x}, {"y": ndx.cumulative_sum(x, **kw)}
            def ref(feeds, axis=axis, acc=acc, incl=incl, dt=dt):
                x = feeds["x"]
                rdt = np.dtype(acc) if acc else (np.uint64 if np.dtype(dt).kind == "u" else np.int64)
                with np.errstate(all="ignore"):
                    r = np.cumsum(x.astype(rdt), axis=axis, dtype=rdt)
                if incl:
                    z = list(r.shape); z[axis] = 1
                    r = np.concatenate([np.zeros(z, dtype=rdt), r], axis=axis)
                return {"y": r}
            def concrete(rng, sh, dt=dt):
                info = np.iinfo(np.dtype(dt))
                vals = [rng.choice([0, 1, 2, 3, -1, -5, 7, 100, int(info.max), int(info.min), int(info.max) - 1]) for _ in range(int(np.prod(sh)))]
                return {"x": np.array([min(int(info.max), max(int(info.min), v)) for v in vals], dtype=dt).reshape(sh)}
            out.append(Case(kind, (kind, rank, axis, acc, incl, style, dt), ["x"], build,
                            {"y": f"tg_render {'cumsum_incl' if incl else 'cumsum'} {CODE[dt]} {axis} {CODE[acc] if acc else '~'}"},
                            ref, (concrete, shape, style)))
        elif kind == "where":
            # three-way broadcasting: every operand gets the trailing part of a common shape with some extents set to 1
            def part(sh):
                k = rng.randrange(0, len(sh) + 1)
                return tuple((1 if rng.random() < 0.35 else d) for d in sh[len(sh) - k:])
            shp = [part(shape) for _ in range(3)]
            dd = [decl_dims(style, s_, "W%d" % j) if style == "static" else tuple(None for _ in s_) for j, s_ in enumerate(shp)]
            def build(dd=dd, dtype=dtype):
                c = ndx.array(shape=dd[0], dtype=ndx.bool); a = ndx.array(shape=dd[1], dtype=impl.dt(dtype)); b = ndx.array(shape=dd[2], dtype=impl.dt(dtype))
                return {"c": c, "a": a, "b": b}, {"y": ndx.where(c, a, b)}
            def ref(feeds):
                return {"y": np.where(feeds["c"], feeds["a"], feeds["b"])}
            def concrete(rng, sh, shp=shp, dtype=dtype):
                def ext(dt, s_):
                    if dt == "bool":
                        return _data(rng, s_, "bool")
                    info = np.iinfo(np.dtype(dt))
                    vals = [rng.choice([0, 1, 2, -1, 5, int(info.max), int(info.min)]) for _ in range(int(np.prod(s_)))]
                    return np.array([min(int(info.max), max(int(info.min), v)) for v in vals], dtype=dt).reshape(s_)
                return {"c": _data(rng, shp[0], "bool"), "a": ext(dtype, shp[1]), "b": ext(dtype, shp[2])}
            out.append(Case(kind, (kind, tuple(shp), style, dtype), ["c", "a", "b"], build,
                            {"y": f"tg_render where {CODE[dtype]}"}, ref, (concrete, shape, "static")))
        elif kind == "trilu":
            dt = rng.choice(INT_DTYPES[:-1])
            rk = rng.choice([2, 2, 3])
            tshape = tuple(rng.choice([1, 2, 3, 4]) for _ in range(rk))
            tdims = decl_dims(style, tshape, "T")
            upper = rng.random() < 0.5
            kk = rng.choice([0, 0, 1, -1, 2, -3, 5])
            def build(tdims=tdims, dt=dt, upper=upper, kk=kk):
                x = ndx.array(shape=tdims, dtype=impl.dt(dt))
                return {"x": x}, {"y": (ndx.triu if upper else ndx.tril)(x, k=kk)}
            def ref(feeds, upper=upper, kk=kk):
                return {"y": (np.triu if upper else np.tril)(feeds["x"], k=kk)}
            def concrete(rng, sh, dt=dt):
                info = np.iinfo(np.dtype(dt))
                vals = [rng.choice([1, 2, 3, -1, 7, int(info.max), int(info.min)]) for _ in range(int(np.prod(sh)))]
                return {"x": np.array([min(int(info.max), max(int(info.min), v)) for v in vals], dtype=dt).reshape(sh)}
            out.append(Case(kind, (kind, rk, upper, kk, style, dt), ["x"], build,
                            {"y": f"tg_render trilu {CODE[dt]} {int(upper)} {kk}"}, ref, (concrete, tshape, style)))
        elif kind == "broadcast_arrays":
            dt = rng.choice(INT_DTYPES)
            nops = rng.choice([2, 2, 3])
            def part(sh):
                k = rng.randrange(0, len(sh) + 1)
                return tuple((1 if rng.random() < 0.35 else d) for d in sh[len(sh) - k:])
            shp = [part(shape) for _ in range(nops)]
            dd = [s_ if style == "static" else tuple(None for _ in s_) for s_ in shp]
            names = ["a", "b", "c"][:nops]
            def build(dd=dd, dt=dt, names=names):
                xs = [ndx.array(shape=d_, dtype=impl.dt(dt)) for d_ in dd]
                rs = ndx.broadcast_arrays(*xs)
                return dict(zip(names, xs)), {f"y{i}": r for i, r in enumerate(rs)}
            def ref(feeds, names=names):
                rs = np.broadcast_arrays(*[feeds[n_] for n_ in names])
                return {f"y{i}": np.array(r) for i, r in enumerate(rs)}
            def concrete(rng, sh, shp=shp, dt=dt, names=names):
                return {n_: _data(rng, s_, dt) for n_, s_ in zip(names, shp)}
            out.append(Case(kind, (kind, tuple(shp), style, dt), names, build,
                            {f"y{i}": f"tg_render broadcast_arrays {CODE[dt]} {nops} {i}" for i in range(nops)}, ref, (concrete, shape, "static")))
        elif kind == "creation":
            dt = rng.choice(INT_DTYPES[:-1])
            form = rng.choice(["full_arg", "full_static", "full_like", "const_arg", "const_like", "arange"])
            rk = rng.choice([1, 2, 3])
            cshape = tuple(rng.choice([0, 1, 2, 3]) for _ in range(rk))
            if form == "full_arg":
                def build(rk=rk, dt=dt):
                    sh = ndx.array(shape=(rk,), dtype=ndx.int64); f = ndx.array(shape=(), dtype=impl.dt(dt))
                    return {"sh": sh, "f": f}, {"y": ndx.full(sh, f)}
                ins, line = ["sh", "f"], "tg_render creation full_arg"
                def concrete(rng, sh, cshape=cshape, dt=dt):
                    return {"sh": np.array(cshape, dtype=np.int64), "f": np.array(5, dtype=dt)}
                def ref(feeds, dt=dt):
                    return {"y": np.full(tuple(feeds["sh"].tolist()), feeds["f"], dtype=dt)}
            elif form == "full_static":
                def build(cshape=cshape, dt=dt):
                    f = ndx.array(shape=(), dtype=impl.dt(dt))
                    return {"f": f}, {"y": ndx.full(cshape, f)}
                ins, line = ["f"], f"tg_render creation full_static {_tok(cshape)}"
                def concrete(rng, sh, dt=dt):
                    return {"f": np.array(6, dtype=dt)}
                def ref(feeds, cshape=cshape, dt=dt):
                    return {"y": np.full(cshape, feeds["f"], dtype=dt)}
            elif form == "full_like":
                xd = decl_dims(style, cshape, "C")
                def build(xd=xd, dt=dt):
                    x = ndx.array(shape=xd, dtype=impl.dt(dt)); f = ndx.array(shape=(), dtype=impl.dt(dt))
                    return {"x": x, "f": f}, {"y": ndx.full_like(x, f)}
                ins, line = ["x", "f"], "tg_render creation full_like"
                def concrete(rng, sh, cshape=cshape, dt=dt):
                    return {"x": _data(rng, cshape, dt), "f": np.array(4, dtype=dt)}
                def ref(feeds):
                    return {"y": np.full_like(feeds["x"], feeds["f"])}
            elif form == "const_arg":
                fn = rng.choice(["zeros", "ones", "empty"])
                v = 1 if fn == "ones" else 0
                def build(rk=rk, dt=dt, fn=fn):
                    sh = ndx.array(shape=(rk,), dtype=ndx.int64)
                    return {"sh": sh}, {"y": getattr(ndx, fn)(sh, dtype=impl.dt(dt))}
                ins, line = ["sh"], f"tg_render creation const_arg {v} {CODE[dt]}"
                def concrete(rng, sh, cshape=cshape):
                    return {"sh": np.array(cshape, dtype=np.int64)}
                def ref(feeds, v=v, dt=dt):
                    return {"y": np.full(tuple(feeds["sh"].tolist()), v, dtype=dt)}
            elif form == "const_like":
                fn = rng.choice(["zeros_like", "ones_like"])
                v = 1 if fn == "ones_like" else 0
                rdt = rng.choice(INT_DTYPES[:-1])
                xd = decl_dims(style, cshape, "C")
                def build(xd=xd, dt=dt, fn=fn, rdt=rdt):
                    x = ndx.array(shape=xd, dtype=impl.dt(dt))
                    return {"x": x}, {"y": getattr(ndx, fn)(x, dtype=impl.dt(rdt))}
                ins, line = ["x"], f"tg_render creation const_like {v} {CODE[rdt]}"
                def concrete(rng, sh, cshape=cshape, dt=dt):
                    return {"x": _data(rng, cshape, dt)}
                def ref(feeds, v=v, rdt=rdt):
                    return {"y": np.full(feeds["x"].shape, v, dtype=rdt)}
            else:
                a0, st = rng.choice([0, 0, 2, -3, 5]), rng.choice([1, 1, 2, 3, -1, -2])
                stopv = rng.choice([0, 1, 4, 7, -4, -7, 10])
                adt = rng.choice(["int64", "int64", "int32", "int16"])
                def build(a0=a0, st=st, adt=adt):
                    n = ndx.array(shape=(), dtype=ndx.int64)
                    return {"n": n}, {"y": ndx.arange(a0, n, st, dtype=impl.dt(adt))}
                ins, line = ["n"], f"tg_render creation arange {a0} {st} {CODE[adt]}"
                def concrete(rng, sh, stopv=stopv):
                    return {"n": np.array(stopv, dtype=np.int64)}
                def ref(feeds, a0=a0, st=st, adt=adt):
                    return {"y": np.arange(a0, int(feeds["n"]), st, dtype=adt)}
            out.append(Case(kind, (kind, form, rk, style, dt) + ((line,) if form in ("arange", "const_arg", "const_like", "full_static") else ()), ins, build,
                            {"y": line}, ref, (concrete, shape, "static")))
        elif kind == "setitem_int":
            idt = rng.choice(INT_DTYPES[:-1])
            ishape = rng.choice([(), (1,), (2,), (3,), (2, 2)])
            def build(dims=dims, ishape=ishape, dtype=dtype, idt=idt):
                x = ndx.array(shape=dims, dtype=impl.dt(dtype)); i = ndx.array(shape=ishape, dtype=impl.dt(idt))
                v = ndx.array(shape=(), dtype=impl.dt(dtype))
                y = x.copy()
                y[i] = v
                return {"x": x, "i": i, "v": v}, {"y": y}
            def ref(feeds):
                y = feeds["x"].copy()
                y[feeds["i"].astype(np.int64)] = feeds["v"]
                return {"y": y}
            def concrete(rng, sh, ishape=ishape, idt=idt, dtype=dtype):
                n = sh[0]
                if n == 0:
                    raise ValueError("empty leading axis")
                vals = [rng.randrange(0 if idt.startswith("u") else -n, n) for _ in range(int(np.prod(ishape)))]
                return {"x": _data(rng, sh, dtype), "i": np.array(vals, dtype=idt).reshape(ishape), "v": np.array(66, dtype=dtype)}
            out.append(Case(kind, (kind, rank, ishape, style, idt, dtype), ["x", "i", "v"], build,
                            {"y": f"tg_render setitem_int {rank} {CODE[idt]}"}, ref, (concrete, shape, style)))
        elif kind == "null_travel":
            # C04: through indexing the null flag travels with its element — both fields of a nullable operand go through
            # the same term (mask selection / integer index array), each on its own field
            via = rng.choice(["mask", "int"])
            ndt = "n" + dtype if dtype != "bool" else "nbool"
            if via == "mask":
                rank_m = rng.randrange(0, rank + 1)
                mdims = tuple(dims[:rank_m])
                def build(dims=dims, mdims=mdims, ndt=ndt):
                    x = ndx.array(shape=dims, dtype=impl.dt(ndt)); m = ndx.array(shape=mdims, dtype=ndx.bool)
                    y = x[m]
                    return {"x": x, "m": m}, {"yv": y.values, "yn": y.null}
                def ref(feeds):
                    return {"yv": feeds["x_values"][feeds["m"]], "yn": feeds["x_null"][feeds["m"]]}
                def concrete(rng, sh, rank_m=rank_m, dtype=dtype):
                    return {"x_values": _data(rng, sh, dtype), "x_null": _data(rng, sh, "bool"), "m": _data(rng, sh[:rank_m], "bool")}
                line, second = f"tg_render mask {rank_m}", "m"
            else:
                idt = rng.choice(INT_DTYPES[:-1])
                ishape = rng.choice([(), (1,), (3,), (2, 2)])
                def build(dims=dims, ishape=ishape, ndt=ndt, idt=idt):
                    x = ndx.array(shape=dims, dtype=impl.dt(ndt)); i = ndx.array(shape=ishape, dtype=impl.dt(idt))
                    y = x[i]
                    return {"x": x, "i": i}, {"yv": y.values, "yn": y.null}
                def ref(feeds):
                    ii = feeds["i"].astype(np.int64)
                    return {"yv": feeds["x_values"][ii], "yn": feeds["x_null"][ii]}
                def concrete(rng, sh, ishape=ishape, idt=idt, dtype=dtype):
                    n = sh[0]
                    if n == 0:
                        raise ValueError("empty leading axis")
                    vals = [rng.randrange(0 if idt.startswith("u") else -n, n) for _ in range(int(np.prod(ishape)))]
                    return {"x_values": _data(rng, sh, dtype), "x_null": _data(rng, sh, "bool"), "i": np.array(vals, dtype=idt).reshape(ishape)}
                line, second = f"tg_render intindex {CODE[idt]}", "i"
            out.append(Case(kind, (kind, via, rank, style, ndt), ["x", second], build, {"yv": line, "yn": line}, ref, (concrete, shape, style)))
            out[-1].maps = {"yv": {"x_values": "in0", second: "in1"}, "yn": {"x_null": "in0", second: "in1"}}
            out[-1].feed_names = {"yv": ["x_values", second], "yn": ["x_null", second]}
        elif kind == "argext":
            dt = rng.choice(INT_DTYPES[:-1])
            is_max = rng.random() < 0.5
            axis = rng.choice([None] + list(range(-rank, rank)))
            kd = rng.random() < 0.5
            def build(dims=dims, dt=dt, is_max=is_max, axis=axis, kd=kd):
                x = ndx.array(shape=dims, dtype=impl.dt(dt))
                return {"x": x}, {"y": (ndx.argmax if is_max else ndx.argmin)(x, axis=axis, keepdims=kd)}
            def ref(feeds, is_max=is_max, axis=axis, kd=kd):
                return {"y": np.asarray((np.argmax if is_max else np.argmin)(feeds["x"], axis=axis, keepdims=kd), dtype=np.int64)}
            def concrete(rng, sh, dt=dt):
                if 0 in sh:
                    raise ValueError("empty")
                info = np.iinfo(np.dtype(dt))
                vals = [rng.choice([0, 1, 1, 2, 2, -1, -1, 3, int(info.max), int(info.min)]) for _ in range(int(np.prod(sh)))]      # many ties
                return {"x": np.array([min(int(info.max), max(int(info.min), v)) for v in vals], dtype=dt).reshape(sh)}
            out.append(Case(kind, (kind, rank, is_max, axis, kd, style, dt), ["x"], build,
                            {"y": f"tg_render argext {int(is_max)} {CODE[dt]} {rank} {'~' if axis is None else axis} {int(kd)}"}, ref, (concrete, shape, style)))
        elif kind == "intindex":
            idt = rng.choice(INT_DTYPES[:-1])
            ishape = rng.choice([(), (0,), (1,), (3,), (2, 2)])
            idims = decl_dims(style, ishape, "I")
            via_take = rng.random() < 0.4 and len(ishape) == 1
            def build(dims=dims, idims=idims, dtype=dtype, idt=idt, via_take=via_take):
                x = ndx.array(shape=dims, dtype=impl.dt(dtype)); i = ndx.array(shape=idims, dtype=impl.dt(idt))
                return {"x": x, "i": i}, {"y": ndx.take(x, i, axis=0) if via_take else x[i]}
            def ref(feeds):
                return {"y": feeds["x"][feeds["i"].astype(np.int64)]}
            def concrete(rng, sh, ishape=ishape, idt=idt, dtype=dtype):
                n = sh[0]
                if n == 0:
                    raise ValueError("empty leading axis")
                vals = [rng.randrange(0 if idt.startswith("u") else -n, n) for _ in range(int(np.prod(ishape)))]
                return {"x": _data(rng, sh, dtype), "i": np.array(vals, dtype=idt).reshape(ishape)}
            out.append(Case(kind, (kind, rank, len(ishape), via_take, style, idt, dtype), ["x", "i"], build,
                            {"y": f"tg_render intindex {CODE[idt]}"}, ref, (concrete, shape, "static" if style == "static" else style)))
        elif kind == "nonzero":
            def build(dims=dims, dtype=dtype):
                x = ndx.array(shape=dims, dtype=impl.dt(dtype))
                r = ndx.nonzero(x)
                return {"x": x}, {f"y{i}": v for i, v in enumerate(r)}
            def ref(feeds):
                return {f"y{i}": v.astype(np.int64) for i, v in enumerate(np.nonzero(feeds["x"]))}
            def concrete(rng, sh, dtype=dtype):
                return {"x": _data(rng, sh, dtype, zeros=0.5)}
            out.append(Case(kind, (kind, rank, style, dtype), ["x"], build,
                            {f"y{i}": f"tg_render nonzero {CODE[dtype]} {rank} {i}" for i in range(rank)}, ref, (concrete, shape, style)))
        elif kind == "setitem":
            idx = _setitem_index(rng, shape)
            sel_shape = np.empty(shape)[c08.to_py(idx)].shape
            # update: a scalar array or an array of a shape that broadcasts into the selection
            ushape = tuple(rng.choice([d, d, 1]) for d in sel_shape)
            drop = rng.randrange(0, len(ushape) + 1)
            ushape = ushape[drop:]
            udims = ushape if style != "none" or not ushape else tuple(None for _ in ushape)
            udims = ushape          # the update's extents are declared statically (Expand checks them at run time)
            def build(dims=dims, udims=udims, dtype=dtype, idx=idx):
                x = ndx.array(shape=dims, dtype=impl.dt(dtype)); v = ndx.array(shape=udims, dtype=impl.dt(dtype))
                y = x.copy()
                y[c08.to_py(idx)] = v
                return {"x": x, "v": v}, {"y": y}
            def ref(feeds, idx=idx):
                y = feeds["x"].copy()
                y[c08.to_py(idx)] = feeds["v"]
                return {"y": y}
            def concrete(rng, sh, ushape=ushape, dtype=dtype):
                return {"x": _data(rng, sh, dtype), "v": np.asarray(np.arange(50, 50 + int(np.prod(ushape))).reshape(ushape), dtype=dtype)}
            out.append(Case(kind, (kind, rank, idx, ushape, style, dtype), ["x", "v"], build,
                            {"y": " ".join(["tg_render", "setitem", str(rank)] + c08.to_tok(idx))}, ref, (concrete, shape, "static")))
        else:
            rank_m = rng.randrange(1, rank + 1)
            mdims = tuple(dims[:rank_m])
            def build(dims=dims, mdims=mdims, dtype=dtype):
                x = ndx.array(shape=dims, dtype=impl.dt(dtype)); m = ndx.array(shape=mdims, dtype=ndx.bool)
                v = ndx.array(shape=(), dtype=impl.dt(dtype))
                y = x.copy()
                y[m] = v
                return {"x": x, "m": m, "v": v}, {"y": y}
            def ref(feeds):
                y = feeds["x"].copy()
                y[feeds["m"]] = feeds["v"]
                return {"y": y}
            def concrete(rng, sh, rank_m=rank_m, dtype=dtype):
                return {"x": _data(rng, sh, dtype), "m": _data(rng, sh[:rank_m], "bool"), "v": np.array(77, dtype=dtype)}
            out.append(Case(kind, (kind, rank, rank_m, style, dtype), ["x", "m", "v"], build,
                            {"y": f"tg_render setitem_mask {rank} {rank_m}"}, ref, (concrete, shape, style)))
    return out


def _search(ctx, c, model, outs, rng, why):
    """The exported graph is not the modelled term: look for an input on which the exported model differs from NumPy."""
    concrete, shape, style = c.concrete
    for t in range(40):
        sh = shape if (style == "static" or t == 0) else tuple(rng.choice([0, 1, 2, 3, 4]) for _ in shape)
        try:
            feeds = concrete(rng, sh)
            ref = c.numpy_ref(feeds)
        except Exception:
            continue
        try:
            res = impl.run_model(model, feeds, outs)
        except Exception as e:
            ctx.violation(f"{c.kind}/exported-model-fails-to-run", f"{c.ident}: {why}; onnxruntime raises {type(e).__name__} on shape {sh}",
                          {"case": repr(c.ident), "feeds": {k: v.tolist() for k, v in feeds.items()}, "error": str(e)[:300]})
            return True
        for name, r in ref.items():
            if np.shape(res[name]) != np.shape(r) or not np.array_equal(res[name], r):
                ctx.violation(f"{c.kind}/{c.ident[-1]}/exported-model-differs-from-numpy",
                              f"{c.ident}: {why}; output {name} on {({k: v.tolist() for k, v in feeds.items()})} is {np.asarray(res[name]).tolist()}, NumPy gives {np.asarray(r).tolist()}",
                              {"case": repr(c.ident), "feeds": {k: v.tolist() for k, v in feeds.items()}, "observed": np.asarray(res[name]).tolist(), "expected": np.asarray(r).tolist()})
                return True
    return False


def run(ctx, n: int, styles=("static", "symbolic", "none"), label="scatter", kinds=None):
    rng = random.Random(f"scattertie/{label}/{ctx.seed}")
    cases = gen_cases(rng, n, styles, kinds)
    lines = [l for c in cases for l in c.want_lines.values() if l is not None]
    answers = iter(common.model(lines))
    eval_lines, eval_meta = [], []
    matched = 0
    for c in cases:
        want = {name: (next(answers) if l is not None else None) for name, l in c.want_lines.items()}
        try:
            ins, outs = c.build()
            model = ndx.build(ins, outs)
        except Exception as e:
            if all(w is not None and w.startswith("err") for w in want.values()):
                ctx.case((label,) + c.ident + ("raises",), True)
                ctx.count(f"tgraph-{label}:{c.kind}-rejected-as-modelled")
                matched += 1
                continue
            ctx.corr_broken(f"tgraph-term/{c.kind}", {"case": repr(c.ident), "impl": f"raised {type(e).__name__}: {str(e)[:200]}", "model": list(want.values())[0][:300]})
            continue
        mapping = {name: f"in{i}" for i, name in enumerate(c.inputs)}
        ok = True
        got_all = {}
        for name, w in want.items():
            try:
                got = render(model, name, (c.maps or {}).get(name, mapping))
            except Unsupported as e:
                got = f"unsupported:{e}"
            got_all[name] = got
            ctx.case((label,) + c.ident + (name,), True,
                     {"case": repr(c.ident), "exported": got[:300]} if len(ctx.samples) < 10 else None)
            ctx.count(f"tgraph-{label}:{c.kind}")
            if (w.startswith("err") or got != w) if not c.loose else w.startswith("err"):
                ok = False
                ctx.corr_broken(f"tgraph-term/{c.kind}", {"case": repr(c.ident), "output": name, "exported": got[:900], "model": w[:900]})
        if not ok:
            _search(ctx, c, model, outs, rng, "exported graph is not the modelled term")
            continue
        matched += 1
        concrete, shape, style = c.concrete
        for t in range(2 if style == "static" else 3):
            sh = shape if (style == "static" or t == 0) else tuple(rng.choice([0, 1, 2, 3]) for _ in shape)
            try:
                feeds = concrete(rng, sh)
                ref = c.numpy_ref(feeds)
            except Exception:
                continue
            try:
                res = impl.run_model(model, feeds, outs)
            except Exception as e:
                # the exported model, or onnxruntime's graph optimiser?  (same model, optimisations disabled, compared with NumPy)
                suffix = ""
                try:
                    sess0 = impl.session(model, optimise=False)
                    raw0 = dict(zip([o.name for o in sess0.get_outputs()], sess0.run(None, feeds)))
                    if all(np.shape(raw0[nm]) == np.shape(ref[nm]) and np.array_equal(raw0[nm], ref[nm]) for nm in want):
                        suffix = "-only-with-onnxruntime-graph-optimizations"
                except Exception:
                    pass
                ctx.violation(f"{c.kind}/exported-model-fails-to-run" + suffix, f"{c.ident}: onnxruntime raises {type(e).__name__} on shape {sh}: {str(e)[:160]}",
                              {"case": repr(c.ident), "feeds": {k: v.tolist() for k, v in feeds.items()}, "error": str(e)[:300]})
                continue
            for name in want:
                r = ref[name]
                if np.shape(res[name]) != np.shape(r) or not np.array_equal(res[name], r):
                    tag = c.ident[-1]
                    if c.kind == "argext" and tag == "uint64" and feeds["x"].size and int(feeds["x"].max()) >= 2 ** 63:
                        tag = "uint64-beyond-int64"      # the operand is routed through int64 (recorded finding)
                    ctx.violation(f"{c.kind}/{tag}/exported-model-differs-from-numpy",
                                  f"{c.ident}: output {name} on {({k: v.tolist() for k, v in feeds.items()})} is {np.asarray(res[name]).tolist()}, NumPy gives {np.asarray(r).tolist()}",
                                  {"case": repr(c.ident), "feeds": {k: v.tolist() for k, v in feeds.items()}, "observed": np.asarray(res[name]).tolist(), "expected": np.asarray(r).tolist()})
                    continue
                eval_lines.append("tg_evald " + ";".join(_feed_tok(feeds[i]) for i in (c.feed_names or {}).get(name, c.inputs)) + " " + got_all[name])
                eval_meta.append((c, name, feeds, _show(res[name])))
    agree = 0
    for a, (c, name, feeds, exp) in zip(common.model(eval_lines), eval_meta):
        if a != exp:
            ctx.corr_broken(f"tgraph-eval-vs-onnxruntime/{c.kind}", {"case": repr(c.ident), "output": name, "feeds": {k: v.tolist() for k, v in feeds.items()},
                                                                      "lean": a[:300], "onnxruntime": exp[:300]})
        else:
            agree += 1
    ctx.count(f"tgraph-{label}-terms-matched", matched)
    ctx.count(f"tgraph-{label}-lean-eval-agrees-with-onnxruntime", agree)
    return matched, agree
