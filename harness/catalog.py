"""Catalogue of the element-wise public API: function name -> class of the reference law
(`Ndx.FnClass` in lean/NdonnxVerif/Model/FnLaw.lean)."""
from __future__ import annotations

CLASSES = {
    "arith": ["subtract", "multiply", "floor_divide", "remainder", "pow"],
    "addStr": ["add"],
    "arithF": ["divide", "atan2", "logaddexp"],
    "equality": ["equal", "not_equal"],
    "ordering": ["less", "less_equal", "greater", "greater_equal"],
    "logical": ["logical_and", "logical_or", "logical_xor"],
    "bitwise": ["bitwise_and", "bitwise_or", "bitwise_xor"],
    "shift": ["bitwise_left_shift", "bitwise_right_shift"],
    "unaryNum": ["abs", "negative", "positive", "sign", "square", "ceil", "floor", "round", "trunc"],
    "unaryFloat": ["acos", "acosh", "asin", "asinh", "atan", "atanh", "cos", "cosh", "exp", "expm1",
                   "log", "log1p", "log2", "log10", "sin", "sinh", "sqrt", "tan", "tanh"],
    "predicate": ["isfinite", "isinf", "isnan"],
    "logicalNot": ["logical_not"],
    "bitInvert": ["bitwise_invert"],
}
CLASS_ORDER = ["arith", "addStr", "arithF", "equality", "ordering", "logical", "bitwise", "shift",
               "unaryNum", "unaryFloat", "predicate", "logicalNot", "bitInvert"]
UNARY_CLASSES = {"unaryNum", "unaryFloat", "predicate", "logicalNot", "bitInvert"}
FN_CLASS = {fn: c for c, fns in CLASSES.items() for fn in fns}
UNARY = [fn for c in CLASS_ORDER if c in UNARY_CLASSES for fn in CLASSES[c]]
BINARY = [fn for c in CLASS_ORDER if c not in UNARY_CLASSES for fn in CLASSES[c]]

# operator spelling of the binary functions (used to exercise Array.__op__/__rop__)
OPERATORS = {
    "add": "+", "subtract": "-", "multiply": "*", "divide": "/", "floor_divide": "//",
    "remainder": "%", "pow": "**", "less": "<", "less_equal": "<=", "greater": ">",
    "greater_equal": ">=", "equal": "==", "not_equal": "!=", "bitwise_and": "&", "bitwise_or": "|",
    "bitwise_xor": "^", "bitwise_left_shift": "<<", "bitwise_right_shift": ">>",
}

PY_SCALARS = {"pbool": True, "pint": 3, "pfloat": 1.5, "pstr": "a"}


def dclass(d: str) -> str:
    """Signature class of a dtype name: [N](i|u|f|b|s) or py:<kind>."""
    if d in PY_SCALARS:
        return "py:" + d[1:]
    nul = d.startswith("n") and d not in ("n",) and d[1:] in (
        "int8", "int16", "int32", "int64", "uint8", "uint16", "uint32", "uint64", "float32",
        "float64", "bool", "utf8")
    b = d[1:] if nul else d
    k = {"bool": "b", "utf8": "s", "float32": "f", "float64": "f"}.get(b, "u" if b.startswith("u") else "i")
    return ("N" if nul else "") + k
