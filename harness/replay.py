"""`./check replay <path>`: show a replay file and re-run its snippet (if it has one)."""
from __future__ import annotations

import json
import subprocess
import sys


def main(path) -> int:
    if not path:
        print("usage: ./check replay <path>")
        return 2
    d = json.load(open(path))
    print(json.dumps({k: v for k, v in d.items() if k != "replay"}, indent=1)[:4000])
    r = d.get("replay", {})
    print(json.dumps({k: v for k, v in r.items() if k != "snippet"}, indent=1, default=str)[:6000])
    snip = r.get("snippet")
    if snip:
        print("--- re-running snippet on /repo's current tree ---")
        p = subprocess.run([sys.executable, "-c", snip], capture_output=True, text=True, timeout=600)
        print(p.stdout[-4000:])
        print(p.stderr[-2000:])
    return 0
