"""User-defined struct dtypes used by the checks (C05, C11, C17, C19): defined in the harness, the way
a downstream user would define them."""
from __future__ import annotations

import numpy as np

import ndonnx as ndx
from ndonnx import CastError
from ndonnx._data_types import CastMixin, Schema, StructType
from ndonnx._core import OperationsBlock
from ndonnx._core._shapeimpl import UniformShapeOperations


class Pair(StructType, CastMixin):
    """(lo: int32, hi: nullable uint8) — a struct with a nested nullable field."""

    def _fields(self):
        return {"lo": ndx.int32, "hi": ndx.nuint8}

    def _parse_input(self, x: np.ndarray):
        # input representation: structured array with fields lo (int32), hi (uint8), hi_null (bool)
        return {
            "lo": ndx.int32._parse_input(np.array(x["lo"], dtype=np.int32)),
            "hi": ndx.nuint8._parse_input(np.ma.masked_array(np.array(x["hi"], dtype=np.uint8), mask=np.array(x["hi_null"], dtype=bool))),
        }

    def _assemble_output(self, fields):
        lo = fields["lo"]
        hi = fields["hi"]
        out = np.zeros(np.shape(lo), dtype=[("lo", np.int32), ("hi", np.uint8), ("hi_null", np.bool_)])
        out["lo"] = lo
        out["hi"] = np.ma.getdata(hi)
        out["hi_null"] = np.broadcast_to(np.ma.getmaskarray(hi), np.shape(lo))
        return out

    def copy(self):
        return self

    def _schema(self):
        return Schema(type_name="Pair", author="verif")

    def _cast_to(self, array, dtype):
        raise CastError(f"Cannot cast {self} to {dtype}")

    def _cast_from(self, array):
        raise CastError(f"Cannot cast {array.dtype} to {self}")

    _ops: OperationsBlock = UniformShapeOperations()


PAIR = Pair()


def pair_value(shape, salt=0):
    size = int(np.prod(shape)) if len(shape) else 1
    pos = np.arange(size).reshape(shape)
    out = np.zeros(shape, dtype=[("lo", np.int32), ("hi", np.uint8), ("hi_null", np.bool_)])
    out["lo"] = pos + 1000
    out["hi"] = pos % 200
    out["hi_null"] = (pos % 3 == salt % 3)
    return out


def pair_array(eager=False, shape=(2, 2), lazy_shape=("N", 2)):
    if eager:
        return ndx.asarray(pair_value(shape), dtype=PAIR)
    return ndx.array(shape=lazy_shape, dtype=PAIR)
